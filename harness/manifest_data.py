TB = ("Trusted: Lean 4.33 kernel, axioms propext/Classical.choice/Quot.sound only (audited each run by #print axioms); the "
      "correspondence check (harness/*.py + lean/Driver.lean) that ties the hand-written model to /repo's working tree; the ast "
      "translator harness/extract_consts.py for tables/templates; CPython/numpy semantics inside the dyadic exactness envelope "
      "(DESIGN.md §3). Modelled, not verified: binary64 outside the envelope (oracle-only stream).")

def tv(text, technique="Lean 4 executable model + per-operation correspondence check (theorems pending)"):
    return {"category": "translation_validation", "text": text, "note": TB, "technique": technique}

def proof(text, technique):
    return {"category": "proof", "text": text, "note": TB, "technique": technique}

CLAIMS = {
    "C01": tv("The Lean model (World.step + independent Replay interpreter) is compared with EvoWorklist/FluentWorklist after every operation; an independent Python .gwl interpreter replays the records on the implementation. The refinement theorem is not proved yet, so the level claimed is translation validation."),
    "C02": tv("Model vs implementation on add/remove/worklist/EVO programs incl. rejected operations; limits oracle on stored doubles incl. off-envelope values."),
    "C03": tv("Programs whose last operation fails at a chosen sub-step; records compared after the failure; independent replay for safety."),
    "C04": tv("Labware add/remove histories; independent per-real-well ledger in exact arithmetic."),
    "C05": tv("Composition histories; independent absolute-amount ledger in exact arithmetic."),
    "C06": tv("partition_volume on a dense dyadic grid and transfers with split volumes."),
    "C07": tv("Transfer programs; independent flows/discipline decoder."),
    "C11": tv("Histories compared after every operation; prefix/aliasing/label oracle."),
    "C16": tv("Every program on EvoWorklist, FluentWorklist and BaseWorklist against one device-parametric model and against each other."),
}
NOT_CLAIMED = {}
NOTES = ("All checks: ./check Cxx [--tier quick|thorough]; VERIF_SEED seeds every random choice. A broken proof obligation or "
         "correspondence starts a failing-input search; see DESIGN.md §2.3. Known findings: known_findings.json.")
