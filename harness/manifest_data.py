TB = ("Trusted: Lean 4.33 kernel, axioms propext/Classical.choice/Quot.sound only (audited each run by #print axioms); the "
      "correspondence check (harness/*.py + lean/Driver.lean) that ties the hand-written model to /repo's working tree; the ast "
      "translator harness/extract_consts.py for tables/templates; CPython/numpy semantics inside the dyadic exactness envelope "
      "(DESIGN.md §3). Modelled, not verified: binary64 outside the envelope (oracle-only stream).")

def tv(text, technique="Lean 4 executable model + per-operation correspondence check (theorems pending)"):
    return {"category": "translation_validation", "text": text, "note": TB, "technique": technique}

def proof(text, technique):
    return {"category": "proof", "text": text, "note": TB, "technique": technique}

CLAIMS = {
    "C01": tv("The Lean model (World.step + independent Replay interpreter) is compared with EvoWorklist/FluentWorklist after every operation; an independent Python .gwl interpreter replays the records on the implementation. The refinement theorem is not proved yet, so the level claimed is translation validation."),
    "C02": proof("addStep/removeStep accept exactly when the limit is respected and write exactly v0±v; LabValid (0 <= vol <= max for every well) is preserved by every micro-operation, by exec of any micro list including its rejected, partially applied outcome (exec_valid), by every public operation (step_limits) and hence by every operation sequence (world_limits); the constructors establish it (mk_valid, trough_mk_valid). Tie: labware, worklist and EVO streams with boundary-biased volumes, rejected operations followed by further operations; limits oracle on stored doubles incl. off-envelope values.",
                 "Lean 4 invariant theorem over all operation sequences + per-operation correspondence check"),
    "C03": tv("Programs whose last operation fails at a chosen sub-step; records compared after the failure; independent replay for safety."),
    "C04": proof("exec_ledger: after any micro list every real well holds its old volume plus/minus exactly the executed steps addressed to it (executed = accepted prefix); exec_frame; compileAdd/Remove_shape (which steps a call compiles to: column-major pairing, scalar broadcast, repeats charged separately); trough_alias; flattenF_pairs. Tie: labware stream with scalar/list/2-D arguments and an independent exact ledger.",
                 "Lean 4 ledger theorem over all call histories + correspondence check"),
    "C05": proof("combine_spec (ideal volumetric mixing for all rationals), addStep_amount (amount of every component after an addition = old amount + v*fraction), removeStep_frac/amount, addStep_fracSum (normalisation), frac_range, pair_conserves (a transfer pair conserves every component's total amount), pair_same_well, combine_zero (no division by zero). Tie: composition stream with an independent amounts ledger.",
                 "Lean 4 theorems (field arithmetic over Rat) + correspondence check"),
    "C06": proof("Theorems partition_spec (sum, 0<step<=max, exactly max(1,ceil(v/M)) steps for all rational v, M > 0), partition_zero, multi_disp_fits/unchanged about the model of partition_volume / reagent_distribution; the model is tied to /repo by the partition_volume correspondence stream (dense dyadic grid) and transfers with split volumes.",
                 "Lean 4 theorem over all rationals + correspondence check"),
    "C07": proof("flows_split/flows_nosplit (per (source,destination) pair the plan's pair volumes sum to the requested volumes), flows_perm, flows_mode_indep, discipline (every pair is followed by exactly the requested tip action), pair_volume_bounds, break_closes/no_break_without_split, action_records, pair_same_fields, rejects_lengths/negative, base_refuses_transfer. Tie: transfer stream on both devices with an independent flows/discipline decoder.",
                 "Lean 4 theorems about the transfer plan for all triple lists + correspondence check"),
    "C08": proof("Closed-form numbering, bijection, ID injectivity, table/resolve and inverse-numbering theorems for all geometries with <= 26 rows and any number of columns; all tables of every geometry in scope compared with Labware attributes, positions of all wells (thorough) / sampled geometries (quick).",
                 "Lean 4 theorems for all geometries + exhaustive table correspondence"),
    "C09": tv("Record templates (field order of every record kind), limits and format strings are regenerated from the source and proved equal to the Spec constants (16 GenOK obligations, kernel-checked); every emitter is compared with the model on valid and one-fault invalid argument tuples and decoded by an independent grammar parser. The parse/render round-trip theorem is not proved yet."),
    "C10": proof("mask_single/member/any/list/set_ext/rejects and EVO slot theorems (sum of distinct tip values = OR); tip table and aggregation expression tied by GenOK; all subsets / short sequences compared with prepare_aspirate_dispense_parameters.",
                 "Lean 4 theorems + GenOK table obligations + exhaustive subset correspondence"),
    "C11": proof("exec_hist_append / micro_hist_* (history only grows by log, only shrinks by condense), condense_spec, one entry per add/remove/aspirate/dispense, transfer_entries (exactly one new entry per labware, also for source = destination), lvh_count / lvh_label (the LVH number is the number of extra pair steps), report_order (for any snapshot formatter). Tie: history compared after every operation, against deep copies. Known finding F7c (label 'first'/'last').",
                 "Lean 4 theorems over all operation histories + correspondence check"),
    "C12": proof("decode_encode, encode_inj, encode_length, padding_zero for all R, C <= 255 and all selections; exhaustive subsets of small geometries compared with evo_get_selection and decoded by an independent decoder.",
                 "Lean 4 round-trip theorem + exhaustive small-geometry correspondence"),
    "C13": tv("EVO command templates, slot order and limits tied by 9 GenOK obligations; evo_aspirate/evo_dispense/evo_wash compared with the model (evoAD, evoWash) on any-order wells/tips/volumes and out-of-range values, and decoded by an independent EVOware decoder compared with the tracking. The agreement theorem is not proved yet."),
    "C14": tv("DilutionPlan's own ideal targets are fed to the Lean model of the planning algorithm (planFrom) which must return the same instructions; every returned plan is checked by an independent exact checker and executed with to_worklist on both devices. numpy's linspace/exp/log are inputs to the model (not modelled)."),
    "C15": proof("shift/unshift inverse, offset and refusal theorems; rotate cw/ccw closed forms, ccw∘cw = id, cw^4 = id, bijectivity; randomiser: derandomize∘randomize = id and row/column preservation for ANY permutation table (numpy's PRNG is observed, not modelled). Tie: transform stream vs WellShifter/WellRotator/WellRandomizer.",
                 "Lean 4 theorems for all shapes/permutations + correspondence check (PRNG observed)"),
    "C16": tv("Every program on EvoWorklist, FluentWorklist and BaseWorklist against one device-parametric model and against each other."),
    "C17": proof("read_back (splitting the decoded file bytes at CRLF returns exactly the records, for all well-formed record lists), no_trailing_break, empty file, repr; joiner/open() arguments tied by GenOK. Tie: real files written by save()/with-block. Filesystem replacement of earlier content is observed, not proved.",
                 "Lean 4 round-trip theorem + GenOK + real-file correspondence"),
    "C18": proof("perm (multiset preservation), single_column, groups_sorted, rows_sorted, group_keys_complete, auto_rule, explicit_respected, invalid_mode_rejected for all triple lists; compared with partition_by_column / optimize_partition_by.",
                 "Lean 4 theorems (List.Perm, Pairwise) + correspondence check"),
    "C19": proof("length_eq, get_mod, zero, rejects_empty for all n and all non-empty well lists; compared with get_trough_wells.",
                 "Lean 4 theorems + correspondence check"),
    "C20": proof("mk_ok (every accepted plate/trough spec yields a consistent labware: tables, volumes laid out as given, limits, history, one-hot composition) and mk_rejects_* (each unrepresentable class raises ValueError). Tie: constructor stream with one-fault invalid specs and an independent consistency oracle.",
                 "Lean 4 theorems over all constructor specs + correspondence check"),
}
NOT_CLAIMED = {}
NOTES = ("All checks: ./check Cxx [--tier quick|thorough]; VERIF_SEED seeds every random choice. A broken proof obligation or "
         "correspondence starts a failing-input search; see DESIGN.md §2.3. Known findings: known_findings.json.")
