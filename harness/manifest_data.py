TB = ("Trusted: Lean 4.33 kernel, axioms propext/Classical.choice/Quot.sound only (audited each run by #print axioms); the "
      "correspondence check (harness/*.py + lean/Driver.lean) that ties the hand-written model to /repo's working tree; the ast "
      "translator harness/extract_consts.py for tables/templates; CPython/numpy semantics inside the dyadic exactness envelope "
      "(DESIGN.md §3). Modelled, not verified: binary64 outside the envelope (oracle-only stream).")

def tv(text, technique="Lean 4 executable model + per-operation correspondence check (theorems pending)"):
    return {"category": "translation_validation", "text": text, "note": TB, "technique": technique}

def proof(text, technique):
    return {"category": "proof", "text": text, "note": TB, "technique": technique}

CLAIMS = {
    "C01": tv("The Lean model (World.step + independent Replay interpreter) is compared with EvoWorklist/FluentWorklist after every operation; an independent Python .gwl interpreter replays the records on the implementation. The refinement theorem is not proved yet, so the level claimed is translation validation."),
    "C02": tv("Model vs implementation on add/remove/worklist/EVO programs incl. rejected operations; limits oracle on stored doubles incl. off-envelope values."),
    "C03": tv("Programs whose last operation fails at a chosen sub-step; records compared after the failure; independent replay for safety."),
    "C04": tv("Labware add/remove histories; independent per-real-well ledger in exact arithmetic."),
    "C05": tv("Composition histories; independent absolute-amount ledger in exact arithmetic."),
    "C06": proof("Theorems partition_spec (sum, 0<step<=max, exactly max(1,ceil(v/M)) steps for all rational v, M > 0), partition_zero, multi_disp_fits/unchanged about the model of partition_volume / reagent_distribution; the model is tied to /repo by the partition_volume correspondence stream (dense dyadic grid) and transfers with split volumes.",
                 "Lean 4 theorem over all rationals + correspondence check"),
    "C08": proof("Closed-form numbering, bijection, ID injectivity, table/resolve and inverse-numbering theorems for all geometries with <= 26 rows and any number of columns; all tables of every geometry in scope compared with Labware attributes, positions of all wells (thorough) / sampled geometries (quick).",
                 "Lean 4 theorems for all geometries + exhaustive table correspondence"),
    "C10": proof("mask_single/member/any/list/set_ext/rejects and EVO slot theorems (sum of distinct tip values = OR); tip table and aggregation expression tied by GenOK; all subsets / short sequences compared with prepare_aspirate_dispense_parameters.",
                 "Lean 4 theorems + GenOK table obligations + exhaustive subset correspondence"),
    "C12": proof("decode_encode, encode_inj, encode_length, padding_zero for all R, C <= 255 and all selections; exhaustive subsets of small geometries compared with evo_get_selection and decoded by an independent decoder.",
                 "Lean 4 round-trip theorem + exhaustive small-geometry correspondence"),
    "C18": proof("perm (multiset preservation), single_column, groups_sorted, rows_sorted, group_keys_complete, auto_rule, explicit_respected, invalid_mode_rejected for all triple lists; compared with partition_by_column / optimize_partition_by.",
                 "Lean 4 theorems (List.Perm, Pairwise) + correspondence check"),
    "C19": proof("length_eq, get_mod, zero, rejects_empty for all n and all non-empty well lists; compared with get_trough_wells.",
                 "Lean 4 theorems + correspondence check"),
    "C15": tv("Shift/rotate/randomise on the model vs WellShifter/WellRotator/WellRandomizer; closed-form oracle."),
    "C17": tv("Bytes written by save()/with-block into real files vs the model's fileBytes; GenOK on open() arguments and joiner."),
    "C20": tv("Constructor specifications (valid and one-fault invalid) on Labware/Trough vs Labware.mk?/Trough.mk?; independent consistency oracle."),
    "C07": tv("Transfer programs; independent flows/discipline decoder."),
    "C11": tv("Histories compared after every operation; prefix/aliasing/label oracle."),
    "C16": tv("Every program on EvoWorklist, FluentWorklist and BaseWorklist against one device-parametric model and against each other."),
}
NOT_CLAIMED = {}
NOTES = ("All checks: ./check Cxx [--tier quick|thorough]; VERIF_SEED seeds every random choice. A broken proof obligation or "
         "correspondence starts a failing-input search; see DESIGN.md §2.3. Known findings: known_findings.json.")
