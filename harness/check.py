"""./check Cxx [--tier quick|thorough] [--replay FILE]   (DESIGN §2.3, §4.5, §9)

Exit codes: 0 property held on everything explored (known findings are printed, not counted),
            1 violation (line `VIOLATION property=<id> replay=<path>`), 2 tool failure / timeout.
"""
from __future__ import annotations

import argparse
import hashlib
import json
import os
import random
import re
import subprocess
import sys
import time
import traceback
from collections import Counter
from pathlib import Path

HERE = Path(__file__).resolve().parent
VERIF = HERE.parent
LEAN = VERIF / "lean"
sys.path.insert(0, str(HERE))

import extract_consts  # noqa: E402
import translate_fns  # noqa: E402
import proto  # noqa: E402

STD_AXIOMS = {"propext", "Classical.choice", "Quot.sound"}
FORBIDDEN = re.compile(r"\b(sorry|admit|native_decide|bv_decide|implemented_by|unsafe)\b|^\s*axiom\s", re.M)


class Finding:
    def __init__(self, stream, case, detail, sig=None):
        self.stream = stream
        self.case = case
        self.detail = detail
        self.sig = sig

    def to_json(self):
        return {"stream": self.stream, "sig": self.sig, "detail": self.detail, "case": proto.to_json(self.case)}


class Result:
    def __init__(self):
        self.evaluations = 0
        self.programs = 0
        self.nontrivial = set()
        self.samples = []
        self.dist = Counter()
        self.corr = []       # correspondence breaks (Finding)
        self.viol = []       # oracle failures on the implementation (Finding)
        self.known_sigs = Counter()
        self.extra = {}
        self.exhaustive = False
        self.traces_validated = 0

    def note_case(self, case, nontrivial=True):
        self.evaluations += 1
        if nontrivial:
            self.nontrivial.add(hashlib.sha1(proto.dumps(case).encode()).hexdigest())
        if len(self.samples) < 3:
            self.samples.append(proto.to_json(case))


class Ctx:
    def __init__(self, prop, tier, seed, search=False, budget_s=None):
        self.prop = prop
        self.tier = tier
        self.seed = seed
        self.search = search
        self.rng = random.Random(f"{prop}:{seed}:{'search' if search else 'main'}")
        self.scale = 1 if tier == "quick" else 12
        self.t0 = time.time()
        self.budget_s = budget_s

    def n(self, quick):
        return max(1, int(quick * self.scale * (1.5 if self.search else 1)))

    def corpus(self):
        d = VERIF / "corpus" / self.prop
        out = []
        if d.is_dir():
            for f in sorted(d.glob("*.json")):
                out.append(proto.loads(f.read_text()))
        return out


# ------------------------------------------------------------------ Lean side
def sh(cmd, cwd=None, timeout=3600):
    p = subprocess.run(cmd, cwd=cwd, capture_output=True, text=True, timeout=timeout)
    return p.returncode, p.stdout + p.stderr


def lean_build(targets):
    """Build the given lake targets; returns (ok, failing_descriptions, log)."""
    rc, out = sh(["lake", "build"] + targets, cwd=LEAN, timeout=3000)
    bad = []
    if rc != 0:
        for m in re.finditer(r"^error: (\S+\.lean):(\d+):(\d+): (.*)$", out, re.M):
            bad.append(f"{m.group(1)}:{m.group(2)}: {m.group(4)[:160]}")
        for m in re.finditer(r"^- (Robotools\S+|Driver\S*)$", out, re.M):
            bad.append(f"target {m.group(1)} failed to build")
        if not bad:
            bad.append("lake build failed: " + out[-400:])
    return rc == 0, bad, out


def genok_status():
    """Which GenOK obligations hold (by name)."""
    src = (LEAN / "Robotools" / "Proofs" / "GenOK.lean").read_text()
    names = re.findall(r"^theorem (gen_\w+_ok)", src, re.M)
    rc, out = sh(["lake", "build", "Robotools.Proofs.GenOK"], cwd=LEAN)
    failed = set()
    if rc != 0:
        lines = src.split("\n")
        for m in re.finditer(r"GenOK\.lean:(\d+):", out):
            ln = int(m.group(1)) - 1
            mm = re.match(r"theorem (gen_\w+_ok)", lines[ln]) if ln < len(lines) else None
            if mm:
                failed.add(mm.group(1))
        if not failed:
            failed = set(names)
    return names, failed, out


def audit(prop, module, theorems):
    """`#print axioms` for every property theorem; returns (ok_names, problems, axioms_by_theorem)."""
    if not theorems:
        return [], [], {}
    d = LEAN / ".audit"
    d.mkdir(exist_ok=True)
    f = d / f"Audit_{prop}.lean"
    mods = [module] if isinstance(module, str) else list(module)
    f.write_text("".join(f"import {m}\n" for m in mods) + "\n".join(f"#print axioms {t}" for t in theorems) + "\n")
    rc, out = sh(["lake", "env", "lean", str(f)], cwd=LEAN)
    ok, problems, axioms = [], [], {}
    for t in theorems:
        m = re.search(r"'" + re.escape(t) + r"' depends on axioms: \[([^\]]*)\]", out)
        if m:
            ax = {a.strip() for a in m.group(1).replace("\n", " ").split(",") if a.strip()}
        elif re.search(r"'" + re.escape(t) + r"' does not depend on any axioms", out):
            ax = set()
        else:
            problems.append(f"theorem {t} not found / not checked")
            continue
        axioms[t] = sorted(ax)
        if ax - STD_AXIOMS:
            problems.append(f"theorem {t} depends on non-standard axioms {sorted(ax - STD_AXIOMS)}")
        else:
            ok.append(t)
    return ok, problems, axioms


def local_closure(module):
    """Files of this project that `module` imports, transitively (plus all model/spec files)."""
    seen, todo = set(), [module] if module else []
    while todo:
        m = todo.pop()
        f = LEAN / (m.replace(".", "/") + ".lean")
        if m in seen or not f.exists():
            continue
        seen.add(m)
        for im in re.findall(r"^import (Robotools\.\S+)", f.read_text(), re.M):
            todo.append(im)
    files = {LEAN / (m.replace(".", "/") + ".lean") for m in seen}
    for sub in ("Model", "Spec", "Generated"):
        files |= set((LEAN / "Robotools" / sub).glob("*.lean"))
    files.add(LEAN / "Robotools" / "Proofs" / "GenOK.lean")
    return sorted(files)


def grep_forbidden(module=None):
    hits = []
    for f in local_closure(module):
        txt = f.read_text()
        # strip comments
        txt = re.sub(r"/-.*?-/", "", txt, flags=re.S)
        txt = re.sub(r"--.*$", "", txt, flags=re.M)
        for m in FORBIDDEN.finditer(txt):
            hits.append(f"{f.relative_to(LEAN)}: {m.group(0).strip()}")
    return hits


# ------------------------------------------------------------------ known findings
def load_known():
    p = VERIF / "known_findings.json"
    if not p.exists():
        return []
    return json.loads(p.read_text())["findings"]


def match_known(prop, sig, known):
    for k in known:
        if k["property"] == prop and k.get("status") == "known" and sig is not None and sig == k["signature"]:
            return k
    return None


# ------------------------------------------------------------------ main
def write_replay(prop, payload):
    d = VERIF / "replays"
    d.mkdir(exist_ok=True)
    h = hashlib.sha1(json.dumps(payload, sort_keys=True, default=str).encode()).hexdigest()[:10]
    p = d / f"{prop}_{h}.json"
    p.write_text(json.dumps(payload, indent=1, default=str))
    return p


def main():
    ap = argparse.ArgumentParser()
    ap.add_argument("prop")
    ap.add_argument("--tier", default=os.environ.get("VERIF_TIER", "quick"))
    ap.add_argument("--replay")
    ap.add_argument("--no-build", action="store_true")
    args = ap.parse_args()
    prop = args.prop
    tier = args.tier if args.tier in ("quick", "thorough") else "quick"
    seed = int(os.environ.get("VERIF_SEED", "0"))
    t0 = time.time()

    import props  # noqa: E402  (imports robotools from /repo)

    if prop not in props.PROPS:
        print(f"unknown property {prop}")
        return 2
    P = props.PROPS[prop]

    if args.replay:
        return props.replay(prop, args.replay)

    # 1. translator tie
    changed, missing = extract_consts.regenerate()
    _, fn_missing = translate_fns.regenerate()     # small pure functions re-translated from the source

    # 2. kernel re-checks the theorems of this property (+ GenOK + driver)
    broken = []
    gen_names, gen_failed, _ = genok_status()
    for g in P.get("genok", []):
        if g in gen_failed or g not in gen_names:
            broken.append(f"GenOK obligation {g} (Generated ≠ Spec, or not extractable: {missing})")
    ok_build, bad, log = lean_build(["driver"])
    if not ok_build:
        print("tool failure: the model driver does not build\n" + "\n".join(bad))
        return 2
    theorems = P.get("theorems", [])
    module = P.get("module")
    for fm in fn_missing:
        if any(fm.split(":")[0] in t for t in theorems):
            broken.append(f"translator obligation: {fm} (source no longer in the translatable subset)")
    ok_names, axioms = [], {}
    extra = P.get("extra_modules", [])        # e.g. the obligations of the function translator (Proofs/GenFns.lean)
    if module:
        okb, bad, log = lean_build([module] + extra)
        if not okb:
            broken += [f"proof obligation: {b}" for b in bad]
        else:
            ok_names, problems, axioms = audit(prop, [module] + extra, theorems)
            broken += problems
    kernel_recheck = None
    if tier == "thorough" and module and not broken:
        # the toolchain's independent re-checker replays the compiled declarations of the property's modules
        # (and everything they import) through the kernel once more
        rc, out = sh(["lake", "env", "leanchecker", module] + extra, cwd=LEAN, timeout=3000)
        kernel_recheck = {"modules": [module] + extra, "exit": rc}
        if rc != 0:
            broken.append(f"leanchecker rejects {[module] + extra}: {out.strip()[-400:]}")
    forb = grep_forbidden(module)
    for em in extra:
        forb += [h for h in grep_forbidden(em) if h not in forb]
    if forb:
        broken += [f"forbidden construct: {h}" for h in forb]

    # 3. correspondence + oracle
    ctx = Ctx(prop, tier, seed)
    try:
        res = P["run"](ctx)
    except Exception:  # noqa: BLE001
        traceback.print_exc()
        print("tool failure while running the correspondence check")
        return 2

    known = load_known()
    violations, known_hits = [], {}
    for f in res.viol:
        k = match_known(prop, f.sig, known)
        if k:
            known_hits.setdefault(k["id"], (k, f))
        else:
            violations.append(f)
    for sig in res.known_sigs:
        k = match_known(prop, sig, known)
        if k:
            known_hits.setdefault(k["id"], (k, None))
        else:
            violations.append(Finding("oracle", None, f"unlisted finding signature {sig}", sig))

    exit_code = 0
    lines = []
    replay_path = None
    if violations:
        f = violations[0]
        f = props.shrink(prop, f)
        replay_path = write_replay(prop, {"property": prop, "kind": "failing-input", "finding": f.to_json(),
                                         "others": [v.detail for v in violations[1:6]]})
        lines.append(f"VIOLATION property={prop} replay={replay_path}")
        print(f"  failing input ({f.stream}, {f.sig}): {f.detail}")
        exit_code = 1
    elif broken or res.corr:
        # a broken proof obligation or correspondence is not by itself a violation: search for a failing input
        found = None
        for k in range(3 if tier == "quick" else 8):
            sctx = Ctx(prop, tier, seed * 1000 + k + 1, search=True)
            try:
                sres = P["run"](sctx)
            except Exception:  # noqa: BLE001
                traceback.print_exc()
                break
            cand = [f for f in sres.viol if not match_known(prop, f.sig, known)]
            if cand:
                found = cand[0]
                break
        if found is not None:
            found = props.shrink(prop, found)
            replay_path = write_replay(prop, {"property": prop, "kind": "failing-input", "finding": found.to_json(),
                                             "broken": broken, "correspondence": [c.detail for c in res.corr[:5]]})
            lines.append(f"VIOLATION property={prop} replay={replay_path}")
            print(f"  failing input ({found.stream}, {found.sig}): {found.detail}")
        else:
            payload = {"property": prop, "kind": "no-failing-input-found", "broken_obligations": broken,
                       "correspondence_breaks": [c.to_json() for c in res.corr[:3]],
                       "note": "the property is no longer shown to hold: the named theorem / GenOK obligation / "
                               "correspondence stream no longer checks; no input violating the property was found"}
            replay_path = write_replay(prop, payload)
            lines.append(f"VIOLATION property={prop} replay={replay_path} no-failing-input-found")
            for b in broken[:5]:
                print("  broken:", b)
            for c in res.corr[:3]:
                print("  correspondence:", c.stream, c.detail[:300])
        exit_code = 1

    for kid, (k, f) in known_hits.items():
        print(f"KNOWN-FINDING: property={prop} {k['what']}")
    for ln in lines:
        print(ln)

    # 4. evidence
    n_obl = len(theorems) + len(P.get("genok", []))
    n_ok = len(ok_names) + sum(1 for g in P.get("genok", []) if g in gen_names and g not in gen_failed)
    level = P.get("level", "proof" if theorems else "translation_validation")
    cov = {
        "evaluations": res.evaluations,
        "distinct_nontrivial": len(res.nontrivial),
        "rule": P.get("rule", ""),
        "samples": res.samples[:3],
        "programs": max(res.programs, 1),
        "disagreements_checked": len(res.corr),
        "traces_validated_against_impl": res.traces_validated or res.evaluations,
        "input_distribution": dict(res.dist.most_common(60)),
        "exhaustive": bool(res.exhaustive),
        "explanation": P.get("explanation", ""),
        "trusted_base": P.get("trusted_base", []) + [
            "Lean 4.33 kernel; axioms per theorem: " + json.dumps(axioms, sort_keys=True),
            "correspondence check harness/ (Python) + Driver.lean; translators harness/extract_consts.py, harness/translate_fns.py (+ Generated/Prelude.lean)",
        ] + ([f"leanchecker re-check of {kernel_recheck['modules']}: exit {kernel_recheck['exit']}"] if kernel_recheck else []),
        "obligations": max(n_obl, 1),
        "discharged": n_ok if n_obl else 0,
        "checker_cmd": f"cd lean && lake build {module or 'driver'} Robotools.Proofs.GenOK && lake env lean .audit/Audit_{prop}.lean",
        "theorems": theorems,
        "genok": P.get("genok", []),
        "broken_obligations": broken,
        "known_findings_seen": sorted(known_hits),
    }
    cov.update(res.extra)
    if level == "proof" and (n_obl == 0 or n_ok != n_obl):
        # never claim more than was discharged in this run
        level = "translation_validation"
    ev = {
        "property_id": prop, "tier": tier, "seed": seed, "level": level, "coverage": cov,
        "assumptions": P.get("assumptions", []),
        "wall_s": round(time.time() - t0, 2),
        "violations": len(violations) + (1 if (exit_code == 1 and not violations) else 0),
    }
    # evidence is only ever written from a run against /repo itself (never from a scratch tree given by VERIF_REPO)
    evdir = VERIF / ("evidence" if os.environ.get("VERIF_REPO", "/repo") == "/repo" else "evidence_scratch")
    evdir.mkdir(exist_ok=True)
    (evdir / f"{prop}.json").write_text(json.dumps(ev, indent=1, default=str))
    print(f"{prop} tier={tier} seed={seed}: evaluations={res.evaluations} distinct={len(res.nontrivial)} "
          f"obligations={n_ok}/{n_obl} corr_breaks={len(res.corr)} violations={len(violations)} "
          f"known={len(known_hits)} wall={ev['wall_s']}s exit={exit_code}")
    return exit_code


if __name__ == "__main__":
    try:
        rc = main()
    except subprocess.TimeoutExpired:
        print("timeout")
        rc = 2
    except Exception:  # noqa: BLE001
        traceback.print_exc()
        rc = 2
    sys.exit(rc)
