#!/bin/bash
# seeded_rerun.sh <mutant-id> [property ...]
# Re-runs the checks against a stored seeded change: a fresh scratch worktree of /repo's HEAD with
# seeded/<id>/patch.diff applied, checks run from an isolated copy of the committed /verif (HEAD) with
# VERIF_REPO=<worktree>.  /repo is never touched.  Without a property list the properties named in the
# stored confirm.log are used.  The outcome is appended to seeded/<id>/confirm.log and summarised on stdout.
set -u
ID=$1; shift
OUT=/verif/seeded/$ID
[ -f $OUT/patch.diff ] || { echo "no such seeded change: $ID"; exit 2; }
PROPS="$*"
[ -z "$PROPS" ] && PROPS=$(grep -oE "^== ./check C[0-9]+" $OUT/confirm.log | grep -oE "C[0-9]+" | sort -u | tr '\n' ' ')
WT=/tmp/wt/re_$ID
ISO=/tmp/verif_iso_re_$ID
rm -rf $ISO; git -C /repo worktree remove --force $WT 2>/dev/null; rm -rf $WT
mkdir -p /tmp/wt
git -C /repo worktree add -q --detach $WT HEAD || exit 2
git -C $WT apply $OUT/patch.diff || { echo "$ID: patch does not apply"; git -C /repo worktree remove --force $WT; exit 2; }
git -C /verif worktree add -q --detach $ISO HEAD || exit 2
cp -r /verif/lean/.lake $ISO/lean/.lake 2>/dev/null
HEADV=$(git -C /verif rev-parse --short HEAD)
echo "== re-run: checks from /verif@$HEADV (isolated copy), /repo@$(git -C /repo rev-parse --short HEAD) + patch" >> $OUT/confirm.log
for P in $PROPS; do
  res=$(cd $ISO && VERIF_REPO=$WT timeout 1800 ./check $P 2>&1 | grep -v "^KNOWN" | grep -E "^(VIOLATION|$P tier)" | sed "s#$ISO/##" | tail -2; echo "exit=${PIPESTATUS[0]}")
  echo "== ./check $P with the change (re-run @$HEADV)" >> $OUT/confirm.log
  echo "$res" >> $OUT/confirm.log
  echo "$ID $P: $(echo "$res" | tr '\n' ' ' | cut -c1-230)"
done
git -C /verif worktree remove --force $ISO
git -C /repo worktree remove --force $WT
