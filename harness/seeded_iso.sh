#!/bin/bash
# seeded_iso.sh <mutant-id> <worktree> <property> [more properties...]
# Like seeded.sh, but runs the checks from an isolated copy of the committed /verif (HEAD) against the
# mutated worktree (VERIF_REPO=<worktree>), so /repo is never touched and the Lean build directory
# of /verif (where proofs are being edited) is not disturbed.  The check code is identical.
set -u
ID=$1; WT=$2; shift 2
OUT=/verif/seeded/$ID
ISO=/tmp/verif_iso_$ID
mkdir -p $OUT
git -C $WT diff > $OUT/patch.diff
cp $WT/demo_*.py $OUT/ 2>/dev/null
DEMO=$(ls $WT/demo_*.py | head -1)
echo "== suite with change" | tee $OUT/confirm.log
(cd $WT && PYTHONPATH=$WT /venv/bin/python -m pytest -q -p no:cacheprovider 2>&1 | tail -1) | tee -a $OUT/confirm.log
echo "== demo with change (must fail)" | tee -a $OUT/confirm.log
(cd $WT && PYTHONPATH=$WT /venv/bin/python $DEMO > /tmp/demo_out_$ID.txt 2>&1; echo "exit=$?"; tail -3 /tmp/demo_out_$ID.txt) | tee -a $OUT/confirm.log
git -C $WT apply -R $OUT/patch.diff   # (no `git stash`: the stash stack is shared by all worktrees of a repository)
echo "== demo without change (must pass)" | tee -a $OUT/confirm.log
(cd $WT && PYTHONPATH=$WT /venv/bin/python $DEMO > /tmp/demo_out_$ID.txt 2>&1; echo "exit=$?"; tail -1 /tmp/demo_out_$ID.txt) | tee -a $OUT/confirm.log
git -C $WT apply $OUT/patch.diff
rm -f /tmp/demo_out_$ID.txt
rm -rf $ISO
git -C /verif worktree add -q --detach $ISO HEAD || exit 2
cp -r /verif/lean/.lake $ISO/lean/.lake 2>/dev/null
echo "== checks from /verif@$(git -C /verif rev-parse --short HEAD) (isolated copy) with VERIF_REPO=$WT" | tee -a $OUT/confirm.log
for P in "$@"; do
  echo "== ./check $P with the change" | tee -a $OUT/confirm.log
  (cd $ISO && VERIF_REPO=$WT timeout 1500 ./check $P 2>&1 | grep -v "^KNOWN" | tail -4; echo "exit=${PIPESTATUS[0]}") | tee -a $OUT/confirm.log
done
git -C /verif worktree remove --force $ISO
