"""Writes MANIFEST.json from the property registry (kept valid at all times)."""
import json, sys
from pathlib import Path
VERIF = Path(__file__).resolve().parent.parent
sys.path.insert(0, str(VERIF / "harness"))
import manifest_data as M

props = [json.loads(l) for l in (VERIF / "properties.jsonl").read_text().splitlines() if l.strip()]
checks, na = [], []
for p in props:
    pid = p["id"]
    if pid in M.CLAIMS:
        c = M.CLAIMS[pid]
        checks.append({
            "property_id": pid,
            "quick_cmd": f"./check {pid} --tier quick",
            "thorough_cmd": f"./check {pid} --tier thorough",
            "evidence_file": f"evidence/{pid}.json",
            "replay_cmd_template": f"./check {pid} --replay {{path}}",
            "engine": "lean-model+correspondence",
            "level_claimed": {"category": c["category"], "text": c["text"], "design_ref": c.get("design_ref", "DESIGN.md §6 " + pid)},
            "level_note": c["note"],
            "technique": c["technique"],
        })
    else:
        na.append({"property_id": pid, "reason": M.NOT_CLAIMED.get(pid, "check not built yet in this round (see DESIGN.md §11)")})
man = {
    "version": 1,
    "setup_cmd": "/venv/bin/python harness/extract_consts.py && /venv/bin/python harness/translate_fns.py >/dev/null && cd lean && lake build Robotools driver",
    "hooks": {"guard": "ROBOTOOLS_VERIF", "enable": "no hooks are needed: every observation is public API (DESIGN.md §4.1); checks run /venv/bin/python with PYTHONPATH=/repo",
              "baseline_off_cmd": "cd /repo && /venv/bin/python -m pytest -ra -q -p no:cacheprovider --timeout=900 --continue-on-collection-errors",
              "source_commits": [], "add_only": True},
    "engines": [{"name": "lean-model+correspondence", "path": "lean/ + harness/", "serves_properties": [c["property_id"] for c in checks],
                 "kind_free_text": "Lean 4 executable model with kernel-checked theorems; per-operation correspondence check against the real robotools; ast translator for tables/templates; independent Python oracles for failing-input search"}],
    "checks": checks,
    "notes": M.NOTES,
    "not_applicable": na,
}
(VERIF / "MANIFEST.json").write_text(json.dumps(man, indent=1))
print("checks:", [c["property_id"] for c in checks], "not claimed:", [x["property_id"] for x in na])
