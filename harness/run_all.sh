#!/bin/bash
# run_all.sh [tier] — every check once on /repo (sequentially: they share the lake build directory); summary on stdout
cd "$(dirname "$0")/.."
TIER=${1:-quick}
rc=0
for p in C01 C02 C03 C04 C05 C06 C07 C08 C09 C10 C11 C12 C13 C14 C15 C16 C17 C18 C19 C20; do
  out=$(./check $p --tier $TIER 2>&1); e=$?
  echo "$out" | grep -E "^(VIOLATION|KNOWN-FINDING|$p tier)" | cut -c1-220
  [ $e -ne 0 ] && { rc=1; echo "   -> exit $e"; }
done
exit $rc
