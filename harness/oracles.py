"""Executable statements of the stateful properties, evaluated on the real implementation.

Each oracle is an observer `(run, op_index, op, exc)` called after every operation with the live
robotools objects.  Oracles are written independently of robotools' code (own ledgers, own
interpreter of the record format) and of the Lean model.  A failure is a dict
`{"sig": <specific signature>, "msg": ..., "op": index}`; signatures are what the known-findings
file matches on.
"""
from __future__ import annotations

import copy
import math
from fractions import Fraction as F

import numpy as np

import gwl

EPS = F(1, 10**7)


def q(x) -> F:
    return F(float(x))


def flatF(a):
    if a[0] == "S":
        return [a[1]]
    if a[0] == "V":
        return list(a[1])
    r, c, l = a[1], a[2], a[3]
    return [l[i * c + j] for j in range(c) for i in range(r)]


class Oracle:
    name = "oracle"

    def __init__(self, prog):
        self.prog = prog
        self.failures = []
        self.known = []

    def fail(self, sig, msg, i):
        self.failures.append({"sig": sig, "msg": msg, "op": i})

    def cfg_at(self, i):
        """Worklist configuration in effect for operation `i` (programs may reassign the public attributes
        `max_volume` / `auto_split` between operations: op `reconfigure`)."""
        cfg = dict(self.prog["cfg"])
        for op in self.prog.get("ops", [])[:i]:
            if op["op"] == "reconfigure":
                cfg.update(op["cfg"])
        return cfg

    def __call__(self, run, i, op, exc):
        raise NotImplementedError


# ------------------------------------------------------------------ C01 / C03
F13 = "C03:F14:fluent-distribute-trough-destination-virtual-rows"


def _flat(x):
    if isinstance(x, (list, tuple)):
        for y in x:
            yield from _flat(y)
    else:
        yield x


class ReplayOracle(Oracle):
    """C01: after every successful operation the records replay to the tracked state.
       C03: after every operation (also the failing one) the records replay safely and no A/D step
       exceeds the worklist's max_volume."""
    name = "replay"

    def __init__(self, prog, check_state=True, check_safe=True):
        super().__init__(prog)
        self.check_state = check_state
        self.check_safe = check_safe
        self.tainted = False   # liquids of unknown composition entered (dispense/add with user compositions)

    def __call__(self, run, i, op, exc):
        if op["op"] in ("add", "remove", "condense", "evo_aspirate", "evo_dispense"):
            # direct labware manipulation / EVO script commands are outside the record format replayed here
            self.tainted = True
            self.skip = True
        if getattr(self, "skip", False):
            return
        if op["op"] in ("dispense", "aspirate"):
            self.tainted = True
        dev = self.prog["cfg"]["dev"]
        if op["op"] == "distribute" and exc is None and dev == "fluent":
            # known finding F14: a Fluent numbers a trough column as one position, so several virtual rows of one
            # destination trough column are ONE dispense of the R; record while the tracking books one per listed well
            spec = self.prog["labs"][op["dst"]]
            kind, ws = op["dst_wells"]
            ws = [ws] if kind == "S" else [w for w in _flat(ws)]
            cols = [str(w)[1:] for w in ws]
            if (spec.get("vrows") is not None or spec.get("kind") == "trough") and len(set(cols)) != len(cols):
                self.f14 = True
        recs = [str(r) for r in run.wl]
        rp = gwl.Replay(dev, self.prog["labs"], run.init_state)
        try:
            rp.run(recs)
        except gwl.GrammarError as e:
            self.fail("C09:grammar", f"after op {i} ({op['op']}): {e}", i)
            return
        except gwl.ReplayError as e:
            if getattr(self, "f14", False):
                # the replay disagrees with the tracking after the listed input: the known finding, not a new one
                if F13 not in self.known and self.check_safe:
                    self.known.append(F13)
                self.skip = True
                return
            for k in rp.known:
                if k not in self.known and self.check_state:
                    self.known.append(k)
            if self.check_safe or (exc is None and self.check_state):
                kind = "C03" if exc is not None or e.kind in ("underflow", "overflow") else "C01"
                self.fail(f"{kind}:replay-{e.kind}:{op['op']}", f"after op {i} ({op['op']}, raised={exc is not None}): {e}", i)
            return
        for k in rp.known:
            if k not in self.known and self.check_state:
                self.known.append(k)
        if self.check_safe:
            mv = F(self.prog["cfg"]["max_volume"])
            if rp.max_step > mv + EPS:
                self.fail(f"C03:step-above-max-volume:{op['op']}", f"after op {i}: a record carries {rp.max_step} > max_volume {mv}", i)
        if exc is None and self.check_state and not getattr(self, "f14", False):
            for li, (L, RL) in enumerate(zip(run.labs, rp.order)):
                vols = [q(v) for v in L.volumes.flatten()]
                for wi, (a, b) in enumerate(zip(vols, RL.vols)):
                    tol = F(1, 200) * RL.touched[wi] + EPS
                    if abs(a - b) > tol:
                        self.fail(f"C01:volume-mismatch:{op['op']}",
                                  f"after op {i} ({op['op']}): {L.name} well {wi}: tracked {float(a)} vs replayed {float(b)} (tol {float(tol)})", i)
                        return
                if not self.tainted:
                    comp = {k: [q(x) for x in arr.flatten()] for k, arr in L.composition.items()}
                    for wi in range(len(vols)):
                        if RL.unknown[wi]:
                            continue
                        tol = F(1, 100) * (RL.touched[wi] + 1) + EPS
                        names = set(comp) | set(RL.amts[wi])
                        for k in names:
                            tracked = comp.get(k, [F(0)] * len(vols))[wi] * vols[wi]
                            replayed = RL.amts[wi].get(k, F(0))
                            if abs(tracked - replayed) > tol:
                                self.fail(f"C01:composition-mismatch:{op['op']}",
                                          f"after op {i} ({op['op']}): {L.name} well {wi} component {k!r}: tracked amount {float(tracked)} vs replayed {float(replayed)}", i)
                                return


# ------------------------------------------------------------------ C02
class LimitsOracle(Oracle):
    """After every call: 0 <= v <= max; after an accepted removal v >= min on the removed wells;
    on a volume-violation the offending well is unchanged."""
    name = "limits"

    def __init__(self, prog):
        super().__init__(prog)
        self.prev = None

    def __call__(self, run, i, op, exc):
        cur = [[q(v) for v in L.volumes.flatten()] for L in run.labs]
        prev = self.prev if self.prev is not None else [list(st["vols"]) for st in run.init_state["labs"]]
        for li, L in enumerate(run.labs):
            mx, mn = q(L.max_volume), q(L.min_volume)
            for wi, v in enumerate(cur[li]):
                if isinstance(run.obs[-1]["state"]["labs"][li]["vols"][wi], str):
                    self.fail(f"C02:non-finite-volume:{op['op']}", f"op {i}: {L.name} well {wi} is {run.obs[-1]['state']['labs'][li]['vols'][wi]}", i)
                    continue
                if v < 0:
                    self.fail(f"C02:negative-volume:{op['op']}", f"op {i} ({op['op']}): {L.name} well {wi} = {float(v)}", i)
                before = prev[li][wi]
                if v > before and v > mx:
                    self.fail(f"C02:above-max-after-add:{op['op']}", f"op {i} ({op['op']}): {L.name} well {wi} = {float(v)} > max {float(mx)}", i)
                if v < before and v < mn:
                    self.fail(f"C02:below-min-after-remove:{op['op']}", f"op {i} ({op['op']}): {L.name} well {wi} = {float(v)} < min {float(mn)}", i)
        if exc is None and op["op"] in ("aspirate", "remove", "dispense", "add") and "wells" in op and "vols" in op:
            # an accepted call whose requested volumes, summed per real well, do not fit between the limits must have raised
            try:
                li = op["lab"]
                spec = [sp for sp, r in zip(self.prog["labs"], run.lab_results) if r is None][li]
                L = run.labs[li]
                ws, vs = flatF(op["wells"]), flatF(op["vols"])
                if len(vs) == 1:
                    vs = vs * len(ws)
                if len(vs) == len(ws) and all(isinstance(v, F) for v in vs):
                    tot = {}
                    helper = LedgerOracle(self.prog)
                    for w, v in zip(ws, vs):
                        wi = helper.well_index(spec, w)
                        tot[wi] = tot.get(wi, F(0)) + v
                    for wi, t in tot.items():
                        if op["op"] in ("aspirate", "remove") and prev[li][wi] - t < q(L.min_volume) - EPS:
                            self.fail(f"C02:underflow-not-raised:{op['op']}", f"op {i} ({op['op']}): {L.name} well {wi} held {float(prev[li][wi])}, "
                                      f"{float(t)} was requested, min_volume {float(q(L.min_volume))}: no VolumeUnderflowError", i)
                        if op["op"] in ("dispense", "add") and prev[li][wi] + t > q(L.max_volume) + EPS:
                            self.fail(f"C02:overflow-not-raised:{op['op']}", f"op {i} ({op['op']}): {L.name} well {wi} held {float(prev[li][wi])}, "
                                      f"{float(t)} was added, max_volume {float(q(L.max_volume))}: no VolumeOverflowError", i)
            except (KeyError, ValueError, IndexError, TypeError):
                pass
        if exc is not None and type(exc).__name__ in ("VolumeOverflowError", "VolumeUnderflowError"):
            # the message names labware and well; the offending well must be unchanged
            import re
            m = re.search(r'"(.*)"\.([A-Z]\d+):', str(exc))
            if m:
                for li, L in enumerate(run.labs):
                    if L.name == m.group(1) and m.group(2) in L.indices:
                        r, c = L.indices[m.group(2)]
                        wi = r * L.volumes.shape[1] + c
                        # the same real well may have been changed by earlier sub-steps of this call; the
                        # exception reports the volume it had when the step was refused
                        m2 = re.search(r": ([-\d.e+]+) [+-] ", str(exc))
                        if m2 and abs(q(float(m2.group(1))) - cur[li][wi]) > EPS:
                            self.fail(f"C02:offending-well-changed:{op['op']}", f"op {i}: {L.name}.{m.group(2)} was {m2.group(1)} when refused, now {float(cur[li][wi])}", i)
        self.prev = cur


# ------------------------------------------------------------------ C04
class LedgerOracle(Oracle):
    """Per-real-well ledger for direct add/remove calls (accepted calls only: a rejected call keeps
    the accepted prefix of its per-well steps, also accounted)."""
    name = "ledger"

    def __init__(self, prog):
        super().__init__(prog)
        self.ledger = None

    def well_index(self, spec, wid):
        trough = spec["kind"] == "trough" or spec.get("vrows") is not None   # also troughs declared through Labware(...)
        rows = 1 if trough else int(spec["rows"])
        cols = int(spec["cols"])
        letter, num = wid[0], wid[1:]
        r = "ABCDEFGHIJKLMNOPQRSTUVWXYZ".index(letter)
        c = int(num) - 1
        if trough:
            if r >= int(spec["vrows"]) or c >= cols:
                raise KeyError(wid)
            return c
        if r >= rows or c >= cols:
            raise KeyError(wid)
        return r * cols + c

    def __call__(self, run, i, op, exc):
        if self.ledger is None:
            self.ledger = [list(st["vols"]) for st in run.init_state["labs"]]
        if op["op"] not in ("add", "remove", "aspirate", "dispense"):
            self.ledger = [[q(v) for v in L.volumes.flatten()] for L in run.labs]
            return
        adding = op["op"] in ("add", "dispense")      # worklist aspirate / dispense book the same per-well steps
        li = op["lab"]
        spec = [s for s, r in zip(self.prog["labs"], run.lab_results) if r is None][li]
        wells = flatF(op["wells"])
        vols = flatF(op["vols"])
        if len(vols) == 1:
            vols = vols * len(wells)
        cur = [q(v) for v in run.labs[li].volumes.flatten()]
        if exc is None:
            if len(vols) != len(wells):
                self.fail("C04:accepted-length-mismatch", f"op {i}: accepted {len(wells)} wells with {len(vols)} volumes", i)
                return
            for w, v in zip(wells, vols):
                try:
                    wi = self.well_index(spec, w)
                except (KeyError, ValueError, IndexError):
                    self.fail("C04:accepted-unknown-well", f"op {i} ({op['op']}): {spec['name']} accepted the call although it names well {w!r}, which the labware does not have", i)
                    self.ledger[li] = cur
                    return
                self.ledger[li][wi] += (v if adding else -v)
            if cur != self.ledger[li]:
                bad = [k for k in range(len(cur)) if cur[k] != self.ledger[li][k]]
                self.fail(f"C04:ledger-mismatch:{op['op']}", f"op {i} ({op['op']}): {spec['name']} wells {bad[:5]}: tracked {[float(cur[k]) for k in bad[:5]]} vs ledger {[float(self.ledger[li][k]) for k in bad[:5]]}", i)
                self.ledger[li] = cur
        else:
            # rejected: an accepted prefix may have been applied; afterwards resynchronise
            ok_prefix = False
            led = list(self.ledger[li])
            if cur == led:
                ok_prefix = True
            else:
                if len(vols) == len(wells):
                    for w, v in zip(wells, vols):
                        try:
                            wi = self.well_index(spec, w)
                        except (KeyError, ValueError, IndexError):
                            break
                        led[wi] += (v if adding else -v)
                        if cur == led:
                            ok_prefix = True
                            break
            if not ok_prefix:
                self.fail(f"C04:rejected-call-state:{op['op']}", f"op {i}: state after the rejected call is not a prefix of its per-well steps", i)
            self.ledger[li] = cur
        # frame: other labware untouched
        for lj, L in enumerate(run.labs):
            if lj != li:
                c2 = [q(v) for v in L.volumes.flatten()]
                if c2 != self.ledger[lj]:
                    self.fail("C04:frame", f"op {i}: labware {L.name} changed by an operation on another labware", i)
                    self.ledger[lj] = c2


# ------------------------------------------------------------------ C05
class MixingOracle(Oracle):
    """Absolute-amount ledger in exact arithmetic vs the reported fractions."""
    name = "mixing"

    def __init__(self, prog):
        super().__init__(prog)
        self.amts = None
        self.vols = None
        self.totals = None

    def _init(self, run):
        self.vols = [list(st["vols"]) for st in run.init_state["labs"]]
        self.amts = []
        # initial state: every filled well consists 100 % of ONE component with the name the property prescribes
        for spec, st in zip(self.prog["labs"], run.init_state["labs"]):
            trough = spec["kind"] == "trough" or spec.get("vrows") is not None
            cols = spec["cols"]
            rows = 1 if trough else spec["rows"]
            for wi, v in enumerate(st["vols"]):
                present = [name for name, fr in st["comp"] if fr[wi] != 0]
                if v == 0:
                    continue
                r, c = wi // cols, wi % cols
                wid_ = "ABCDEFGHIJKLMNOPQRSTUVWXYZ"[r] + f"{c + 1:02d}"
                if spec["kind"] == "trough":
                    cn = spec.get("col_names")
                    given = None if cn is None else (cn[1] if cn[0] == "S" else cn[1][c])
                    want = given if given is not None else (f"{spec['name']}.column_{c + 1:02d}" if cols > 1 else spec["name"])
                else:
                    given = (spec.get("names") or {}).get(wid_)
                    want = given if given is not None else (f"{spec['name']}.{wid_}" if rows > 1 else spec["name"])
                if present != [want] or [fr[wi] for name, fr in st["comp"] if name == want] != [1]:
                    self.fail("C05:initial-component-name", f"initially filled well {wid_} of {spec['name']} consists of {present}, expected 100 % {want!r}", -1)
                    break
        for st in run.init_state["labs"]:
            a = [dict() for _ in st["vols"]]
            for name, fr in st["comp"]:
                for wi, x in enumerate(fr):
                    if x != 0:
                        a[wi][name] = x * st["vols"][wi]
            self.amts.append(a)

    def check(self, run, i, op):
        for li, L in enumerate(run.labs):
            vols = [q(v) for v in L.volumes.flatten()]
            comp = {k: arr.flatten() for k, arr in L.composition.items()}
            for wi, v in enumerate(vols):
                s = F(0)
                for k, arr in comp.items():
                    x = float(arr[wi])
                    if math.isnan(x) or math.isinf(x):
                        self.fail(f"C05:non-finite-fraction:{op['op']}", f"op {i} ({op['op']}): {L.name} well {wi} component {k!r} = {x}", i)
                        return
                    if x < -1e-12 or x > 1 + 1e-9:
                        self.fail(f"C05:fraction-out-of-range:{op['op']}", f"op {i}: {L.name} well {wi} component {k!r} = {x}", i)
                        return
                    s += q(x)
                if self.amts is not None and not self.skip_exact:
                    names = set(comp) | set(self.amts[li][wi])
                    for k in names:
                        rep = q(comp[k][wi]) * v if k in comp else F(0)
                        exp = self.amts[li][wi].get(k, F(0))
                        if abs(rep - exp) > F(1, 10**6) * max(1, abs(exp)):
                            self.fail(f"C05:amount-mismatch:{op['op']}", f"op {i} ({op['op']}): {L.name} well {wi} {k!r}: reported {float(rep)} vs ideal {float(exp)}", i)
                            return
                    if v > 0 and self.normalised and abs(s - 1) > F(1, 10**8):
                        self.fail(f"C05:fractions-do-not-sum-to-1:{op['op']}", f"op {i}: {L.name} well {wi}: sum = {float(s)}", i)
                        return

    skip_exact = False
    normalised = True

    def __call__(self, run, i, op, exc):
        if self.amts is None:
            self._init(run)
        if exc is not None:
            self.skip_exact = True    # partially applied operations: ledger not maintained further
            self.check(run, i, op)
            return
        k = op["op"]
        # maintain the ideal ledger by diffing tracked volumes through the documented semantics
        if k in ("transfer", "distribute", "aspirate", "dispense", "add", "remove", "evo_aspirate", "evo_dispense"):
            self.apply(run, i, op)
        self.check(run, i, op)

    def apply(self, run, i, op):
        """Advance the ideal ledger through the Labware.add/remove calls the operation made
        (`run.trace`, observed on the live objects).  Liquid removed during a transfer/distribute
        forms a pool from which the following additions of the same operation are served."""
        k = op["op"]
        pool_v, pool_a = F(0), {}
        comps_iter = None
        if k in ("add", "dispense", "evo_dispense"):
            comps_iter = op.get("comps")
        for entry in run.trace:
            li = entry["lab"]
            L = run.labs[li]
            ncols = L.volumes.shape[1]
            for n, (w, v) in enumerate(zip(entry["wells"], entry["vols"])):
                if w not in L.indices:
                    return
                r, c = L.indices[w]
                wi = r * ncols + c
                v = F(v)
                if entry["kind"] == "remove":
                    out = self.take(li, wi, v)
                    if k in ("transfer", "distribute"):
                        pool_v += v
                        for kk, a in out.items():
                            pool_a[kk] = pool_a.get(kk, F(0)) + a
                else:
                    if k in ("transfer", "distribute"):
                        share = F(0) if pool_v == 0 else v / pool_v
                        part = {kk: a * share for kk, a in pool_a.items()}
                        pool_a = {kk: a - part[kk] for kk, a in pool_a.items()}
                        pool_v -= v
                        self.put(li, wi, v, part)
                    else:
                        c_given = comps_iter[n] if comps_iter is not None and n < len(comps_iter) else None
                        if c_given is None:
                            # liquid of unknown composition: the statement does not cover it
                            self.vols[li][wi] += v
                            if v > 0:
                                self.normalised = False
                                self.skip_exact = True
                        else:
                            if sum(F(x) for x in c_given.values()) != 1 or any(F(x) < 0 for x in c_given.values()):
                                self.normalised = False
                            self.put(li, wi, v, {kk: F(x) * v for kk, x in c_given.items()})

    def take(self, li, wi, v):
        cur = self.vols[li][wi]
        frac = F(0) if cur == 0 else F(v) / cur
        out = {k: a * frac for k, a in self.amts[li][wi].items()}
        self.amts[li][wi] = {k: a - out[k] for k, a in self.amts[li][wi].items()}
        self.vols[li][wi] = cur - F(v)
        return out

    def put(self, li, wi, v, amts):
        for k, a in amts.items():
            self.amts[li][wi][k] = self.amts[li][wi].get(k, F(0)) + a
        self.vols[li][wi] += F(v)

    nrecs_before = 0




# ------------------------------------------------------------------ C11
class HistoryOracle(Oracle):
    name = "history"

    def __init__(self, prog):
        super().__init__(prog)
        self.snap = None     # deep copies of earlier history entries
        self.handed = []     # arrays obtained from `volumes` earlier, with their expected content

    def __call__(self, run, i, op, exc):
        if self.snap is None:
            self.snap = [[("initial", list(st["vols"]))] for st in run.init_state["labs"]]
        hist_now = [[(lb, [q(v) for v in st.flatten()]) for lb, st in L.history] for L in run.labs]
        # arrays handed out earlier must not change
        for arr, expect, where in self.handed:
            if not np.array_equal(arr, expect):
                self.fail("C11:volumes-array-aliased", f"op {i}: an array obtained from `volumes` {where} changed later", i)
        self.handed = self.handed[-20:]
        for L in run.labs:
            a = L.volumes
            self.handed.append((a, a.copy(), f"after op {i}"))
        if exc is not None:
            # a refused operation adds no entry and may not touch earlier ones either; it may leave the labware partly
            # updated WITHOUT an entry (C02/C03 speak about that state), so until the next entry is logged the newest
            # entry need not equal the current volumes
            self.dirty = set(range(len(run.labs)))
            for li, L in enumerate(run.labs):
                old, new = self.snap[li], hist_now[li]
                if new[:len(old)] != old and not (op["op"] == "transfer" and op.get("label") in ("first", "last")):
                    self.fail(f"C11:history-prefix-changed-by-refused:{op['op']}",
                              f"op {i} ({op['op']}, refused): earlier history entries of {L.name} changed", i)
        if exc is None:
            k = op["op"]
            for li, L in enumerate(run.labs):
                old, new = self.snap[li], hist_now[li]
                # prefix preservation (label of the last old entry may not change either)
                if len(new) < len(old) or new[:len(old)] != old:
                    sig = f"C11:history-prefix-changed:{k}"
                    lbl = op.get("label")
                    if k == "transfer" and lbl in ("first", "last"):
                        sig = "C11:F7c:transfer-label-keyword"
                    self.fail(sig, f"op {i} ({k}): history of {L.name} lost or changed earlier entries: {len(old)} -> {len(new)} entries", i)
                    continue
                gained = len(new) - len(old)
                participates = self.participates(op, li)
                expected = None
                if k in ("add", "remove", "aspirate", "dispense", "evo_aspirate", "evo_dispense"):
                    expected = 1 if participates else 0
                elif k == "distribute":
                    expected = (2 if op["src"] == op["dst"] else 1) if participates else 0
                elif k == "transfer":
                    moved = any(F(v) > 0 for v in flatF(op["vols"]))
                    expected = 1 if participates and moved else (None if participates else 0)
                elif k == "condense":
                    expected = None
                else:
                    expected = 0
                if expected is not None and gained != expected:
                    self.fail(f"C11:entries-per-operation:{k}", f"op {i} ({k}): {L.name} gained {gained} history entries, expected {expected}", i)
                moved_nothing = k == "transfer" and not any(F(v) > 0 for v in flatF(op["vols"]))
                if moved_nothing and li in self.dirty:
                    # a transfer that moves nothing re-logs the last SNAPSHOT (condense_log(0)); after a refused, partly
                    # applied operation that snapshot is older than the volumes — a consequence of the partial update the
                    # refused operation left (C02/C03 territory), not of this operation (DESIGN §13.3)
                    pass
                elif gained > 0 or (k == "transfer" and participates):
                    lb, st = new[-1]
                    cur = [q(v) for v in L.volumes.flatten()]
                    if st != cur:
                        self.fail(f"C11:newest-entry-not-current:{k}", f"op {i} ({k}): newest history entry of {L.name} differs from its volumes", i)
                    if k == "transfer" and gained > 0:
                        self.check_transfer_label(run, i, op, lb, L)
                    elif k in ("add", "remove", "aspirate", "dispense", "evo_aspirate", "evo_dispense") and gained == 1:
                        if lb != op.get("label"):
                            self.fail(f"C11:label:{k}", f"op {i} ({k}): newest entry labelled {lb!r}, expected {op.get('label')!r}", i)
                    elif k == "distribute" and gained >= 1:
                        if lb != op.get("label", ""):
                            self.fail("C11:label:distribute", f"op {i}: newest entry labelled {lb!r}, expected {op.get('label', '')!r}", i)
            # report lists the same entries in the same order
            for L in run.labs:
                rep = L.report
                lines = [L.name]
                for lb, st in L.history:
                    if lb:
                        lines.append(f"{lb}")
                    lines.append(f"{np.round(st, decimals=1)}")
                    lines.append("")
                # compare structure: name first, then for each entry optional label + array text
                expect = L.name
                for lb, st in L.history:
                    if lb:
                        expect += f"\n{lb}"
                    expect += f"\n{np.round(st, decimals=1)}"
                    expect += "\n"
                if rep != expect:
                    self.fail("C11:report", f"op {i}: report does not list the history entries in order", i)
        if exc is None and not (op["op"] == "transfer" and not any(F(v) > 0 for v in flatF(op["vols"]))):
            # labware that logged a fresh entry from its current volumes is consistent again
            self.dirty = {li for li in self.dirty if not len(hist_now[li]) > len(self.snap[li])}
        self.snap = hist_now
        self.nrecs = len(run.wl)

    nrecs = 0
    dirty = frozenset()

    def participates(self, op, li):
        k = op["op"]
        if k in ("add", "remove", "aspirate", "dispense", "evo_aspirate", "evo_dispense", "condense"):
            return op["lab"] == li
        if k in ("transfer", "distribute"):
            return li in (op["src"], op["dst"])
        return False

    def check_transfer_label(self, run, i, op, lb, L):
        label = op.get("label")
        # number of extra pairs = pairs emitted - number of requested positive volumes
        pairs = sum(1 for e in run.trace if e["kind"] == "remove" and e["ok"])
        n_pos = self.n_positive(op)
        extra = pairs - n_pos
        if extra > 0:
            want = f"{label} ({extra} LVH steps)" if label else f"{extra} LVH steps"
        else:
            want = label
        if lb != want:
            sig = "C11:transfer-label"
            if label in ("first", "last") and extra <= 0:
                sig = "C11:F7c:transfer-label-keyword"
            self.fail(sig, f"op {i}: transfer entry of {L.name} labelled {lb!r}, expected {want!r} ({pairs} pairs for {n_pos} positive volumes)", i)

    def n_positive(self, op):
        vols = flatF(op["vols"])
        n = max(len(flatF(op["src_wells"])), len(flatF(op["dst_wells"])), len(vols))
        if len(vols) == 1:
            vols = vols * n
        return sum(1 for v in vols if F(v) > 0)


# ------------------------------------------------------------------ C07
class TransferOracle(Oracle):
    """Flows per (source well, destination well) equal the request; A-D-action discipline; break
    after groups with split volumes; rejected shapes / negative volumes."""
    name = "transfer"

    def __init__(self, prog):
        super().__init__(prog)
        self.nrecs = 0

    def __call__(self, run, i, op, exc):
        recs = [str(r) for r in run.wl[self.nrecs:]]
        self.nrecs = len(run.wl)
        if op["op"] != "transfer":
            return
        sw, dw, vs = flatF(op["src_wells"]), flatF(op["dst_wells"]), [F(v) for v in flatF(op["vols"])]
        n = max(len(sw), len(dw), len(vs))
        bc = lambda l: l * n if len(l) == 1 else l
        sw, dw, vs = bc(sw), bc(dw), bc(vs)
        compatible = len(sw) == len(dw) == len(vs)
        if exc is None and not compatible:
            self.fail("C07:incompatible-lengths-accepted", f"op {i}: lengths {len(sw)}/{len(dw)}/{len(vs)} accepted", i)
            return
        if exc is None and any(v < 0 for v in vs):
            self.fail("C07:negative-volume-accepted", f"op {i}: negative volume accepted", i)
            return
        if exc is not None:
            return
        dev = self.prog["cfg"]["dev"]
        specs = [s for s, r in zip(self.prog["labs"], run.lab_results) if r is None]
        S = gwl.LabState(specs[op["src"]], [F(0)] * 10**4, [])
        D = gwl.LabState(specs[op["dst"]], [F(0)] * 10**4, [])
        # requested flows per (real source well, real destination well)
        want = {}
        Ls, Ld = run.labs[op["src"]], run.labs[op["dst"]]
        for s, d, v in zip(sw, dw, vs):
            if v > 0:
                rs, cs = Ls.indices[s]
                rd, cd = Ld.indices[d]
                key = (rs * Ls.volumes.shape[1] + cs, rd * Ld.volumes.shape[1] + cd)
                want[key] = want.get(key, F(0)) + v
        got = {}
        wash = op.get("wash", 1)
        diti = self.prog["cfg"].get("diti_mode", False)
        if wash == "flush":
            action = "F;"
        elif wash == "reuse":
            action = None
        else:
            action = "W;" if diti else f"W{wash};"
        body = [r for r in recs if not r.startswith("C;")]
        j = 0
        npairs = 0
        while j < len(body):
            r = body[j]
            if r == "B;":
                j += 1
                continue
            if not r.startswith("A;"):
                self.fail("C07:discipline", f"op {i}: unexpected record {r!r} where an aspirate was expected", i)
                return
            if j + 1 >= len(body) or not body[j + 1].startswith("D;"):
                self.fail("C07:discipline", f"op {i}: aspirate {r!r} not followed by a dispense", i)
                return
            try:
                a, d = gwl.parse_record(r), gwl.parse_record(body[j + 1])
            except gwl.GrammarError as e:
                self.fail("C09:grammar", str(e), i)
                return
            if a["volume_text"] != d["volume_text"] or a["liquid_class"] != d["liquid_class"] or a["tip"] != d["tip"]:
                self.fail("C07:pair-fields-differ", f"op {i}: {r!r} / {body[j + 1]!r}", i)
                return
            if a["rack_label"] != Ls.name or d["rack_label"] != Ld.name:
                self.fail("C07:pair-racks", f"op {i}: pair addresses {a['rack_label']!r}->{d['rack_label']!r}", i)
                return
            si = S.well_of(dev, a["position"])
            di = D.well_of(dev, d["position"])
            if si is None or di is None:
                self.fail("C07:pair-position", f"op {i}: positions {a['position']}/{d['position']} outside the labware", i)
                return
            got[(si, di)] = got.get((si, di), F(0)) + a["volume"]
            npairs += 1
            j += 2
            if action is not None:
                if j >= len(body) or body[j] != action:
                    self.fail("C07:tip-action", f"op {i}: pair not followed by {action!r} (found {body[j] if j < len(body) else None!r})", i)
                    return
                j += 1
            elif j < len(body) and (body[j].startswith("W") or body[j] == "F;"):
                self.fail("C07:tip-action", f"op {i}: unexpected tip action {body[j]!r} with wash_scheme='reuse'", i)
                return
        for key in set(want) | set(got):
            w, g = want.get(key, F(0)), got.get(key, F(0))
            # each record rounds to two decimals
            if abs(w - g) > F(1, 200) * max(1, npairs) + EPS:
                self.fail("C07:flows", f"op {i}: flow {key}: requested {float(w)} emitted {float(g)}", i)
                return
        # a break closes every column group in which a volume had to be split
        M = F(self.cfg_at(i)["max_volume"])
        if self.cfg_at(i).get("auto_split", True) and any(v > M for v in vs) and "B;" not in body:
            self.fail("C07:missing-break", f"op {i}: a volume was split but no break record was emitted", i)


# ------------------------------------------------------------------ C06 (through transfers)
class SplitOracle(Oracle):
    """Per positive requested volume v: exactly max(1, ceil(v / max_volume)) pairs, each 0 < step <= max_volume."""
    name = "split"

    def __call__(self, run, i, op, exc):
        if op["op"] != "transfer":
            return
        cfg = self.cfg_at(i)
        M = F(cfg["max_volume"])
        sw, dw, vs = flatF(op["src_wells"]), flatF(op["dst_wells"]), [F(v) for v in flatF(op["vols"])]
        n = max(len(sw), len(dw), len(vs))
        if len(vs) == 1:
            vs = vs * n
        steps = [e for e in run.trace if e["kind"] == "remove"]
        if cfg.get("auto_split", True):
            if exc is not None and type(exc).__name__ == "InvalidOperationError":
                self.fail("C06:auto-split-refused", f"op {i}: automatically split transfer refused: {exc}", i)
                return
            if exc is None:
                want = sum(max(1, math.ceil(v / M)) for v in vs if v > 0)
                if len(steps) != want:
                    self.fail("C06:number-of-steps", f"op {i}: {len(steps)} pipetting pairs, expected {want} for volumes {[float(v) for v in vs]} / max {float(M)}", i)
                for e in steps:
                    for v in e["vols"]:
                        if not (0 < v <= float(M) * (1 + 1e-12)):
                            self.fail("C06:step-size", f"op {i}: step {v} not in (0, {float(M)}]", i)
                            return
                if abs(sum(F(v) for e in steps for v in e["vols"]) - sum(v for v in vs if v > 0)) > F(1, 10**6):
                    self.fail("C06:sum", f"op {i}: steps do not add up to the requested volumes", i)
        else:
            if exc is None and any(v > M for v in vs):
                self.fail("C06:oversized-step-accepted", f"op {i}: volume above max_volume accepted with auto_split=False", i)
            if exc is not None and any(v > M for v in vs) and type(exc).__name__ != "InvalidOperationError":
                # only meaningful if nothing else was wrong with the call; ignored otherwise
                pass


# ------------------------------------------------------------------ C13 / C10 (EVO script commands)
def decode_selection(s: str):
    """EVOware rule: 2 hex digits columns, 2 hex digits rows, 7 wells per character (LSB first, +48), column-major."""
    cols, rows = int(s[0:2], 16), int(s[2:4], 16)
    sel = []
    n = rows * cols
    for k, ch in enumerate(s[4:]):
        v = ord(ch) - 48
        for b in range(7):
            idx = 7 * k + b
            if v >> b & 1:
                if idx >= n:
                    raise ValueError("padding bit set")
                sel.append((idx % rows, idx // rows))
    if len(s) != 4 + (n + 6) // 7:
        raise ValueError("selection string length")
    return rows, cols, sel


class EvoOracle(Oracle):
    name = "evo"

    def __init__(self, prog):
        super().__init__(prog)
        self.prev = None

    def expressible(self, op, L):
        wells = flatF(op["wells"])
        tips = op["tips"]
        if len(wells) != len(tips):
            return False
        if isinstance(op["vol"], list) and len(op["vol"]) != len(wells):
            return False
        cols = {w[1:] for w in wells}
        if len(cols) > 1:
            return False
        if any(not (a < b) for a, b in zip(wells, wells[1:])):
            return False
        nums = []
        for t in tips:
            if t[0] == "int":
                if not 1 <= t[1] <= 8:
                    return False
                nums.append(t[1])
            elif t[0] == "member":
                if t[1] == -1:
                    return False
                nums.append(int(math.log2(t[1])) + 1)
            else:
                return False
        if len(set(nums)) != len(nums):
            return False
        g, s = op["grid"], op["site"]
        if not (isinstance(g, int) and 1 <= g <= 67 and isinstance(s, int) and 1 <= s <= 128):
            return False
        if op.get("arm", 0) not in (0, 1):
            return False
        vols = op["vol"] if isinstance(op["vol"], list) else [op["vol"]]
        M = F(self.prog["cfg"]["max_volume"])
        if any(F(v) < 0 or F(v) > M for v in vols):
            return False
        return True

    def __call__(self, run, i, op, exc):
        cur = [[q(v) for v in L.volumes.flatten()] for L in run.labs]
        prev = self.prev if self.prev is not None else [list(st["vols"]) for st in run.init_state["labs"]]
        self.prev = cur
        k = op["op"]
        if k == "evo_wash":
            self.check_wash(run, i, op, exc)
            return
        if k not in ("evo_aspirate", "evo_dispense"):
            return
        L = run.labs[op["lab"]]
        if exc is None and not self.expressible(op, L):
            self.fail(f"C13:inexpressible-call-accepted:{k}", f"op {i}: {k}(wells={flatF(op['wells'])}, tips={op['tips']}, vol={op['vol']}, grid={op['grid']}, site={op['site']}, arm={op.get('arm', 0)}) accepted", i)
            return
        if exc is not None:
            return
        cmd = str(run.wl[-1])
        name = "Aspirate" if k == "evo_aspirate" else "Dispense"
        import re
        m = re.fullmatch(r'B;' + name + r'\((\d+),"([^"]*)",((?:(?:"[^"]*"|0),){8})0,0,0,0,(\d+),(\d+),1,"([^"]*)",0,(\d+)\);', cmd)
        if not m:
            self.fail(f"C13:command-format:{k}", f"op {i}: {cmd!r}", i)
            return
        mask, lc, slots, grid, site, sel, arm = int(m.group(1)), m.group(2), m.group(3), int(m.group(4)), int(m.group(5)), m.group(6), int(m.group(7))
        try:
            slot_vals = [None if s == "0" else F(s.strip('"')) for s in slots.rstrip(",").split(",")]
        except (ValueError, ZeroDivisionError):
            self.fail(f"C13:command-format:{k}", f"op {i}: a tip volume of the command is not a number: {cmd!r}", i)
            return
        nums = [t[1] if t[0] == "int" else int(math.log2(t[1])) + 1 for t in op["tips"]]
        want_mask = 0
        for t in nums:
            want_mask |= 1 << (t - 1)
        if mask != want_mask:
            self.fail(f"C10:evo-mask:{k}", f"op {i}: tips {nums} emitted as mask {mask}, expected {want_mask}", i)
            return
        for t in range(8):
            if (slot_vals[t] is not None) != bool(mask >> t & 1):
                self.fail(f"C10:evo-slot:{k}", f"op {i}: volume slot {t + 1} does not match the tip mask {mask}: {cmd!r}", i)
                return
        if lc != op["liquid_class"] or arm != op.get("arm", 0) or grid != op["grid"] or site != op["site"] - 1:
            self.fail(f"C13:command-arguments:{k}", f"op {i}: {cmd!r} vs liquid_class={op['liquid_class']!r} arm={op.get('arm', 0)} grid={op['grid']} site={op['site']}", i)
            return
        try:
            rows, cols, selected = decode_selection(sel)
        except ValueError as e:
            self.fail(f"C12:selection-string:{k}", f"op {i}: {sel!r}: {e}", i)
            return
        if (rows, cols) != (L.n_rows, L.n_columns):
            self.fail(f"C12:selection-dimensions:{k}", f"op {i}: {sel!r} decodes to {rows}x{cols}, labware is {L.n_rows}x{L.n_columns}", i)
            return
        selected.sort(key=lambda rc: (rc[1], rc[0]))
        tips_sorted = [t for t in range(8) if mask >> t & 1]
        if len(selected) != len(tips_sorted):
            self.fail(f"C13:wells-tips-count:{k}", f"op {i}: {len(selected)} wells selected for {len(tips_sorted)} tips", i)
            return
        # change per real well implied by the command
        delta = {}
        ncols = L.volumes.shape[1]
        for (r, c), t in zip(selected, tips_sorted):
            wid_ = f"{'ABCDEFGHIJKLMNOPQRSTUVWXYZ'[r]}{c + 1:02d}"
            rr, cc = L.indices[wid_]
            wi = rr * ncols + cc
            delta[wi] = delta.get(wi, F(0)) + slot_vals[t]
        li = op["lab"]
        for wi in range(len(cur[li])):
            tracked = (prev[li][wi] - cur[li][wi]) if k == "evo_aspirate" else (cur[li][wi] - prev[li][wi])
            cmdv = delta.get(wi, F(0))
            n = sum(1 for (r, c) in selected if L.indices[f"{'ABCDEFGHIJKLMNOPQRSTUVWXYZ'[r]}{c + 1:02d}"] == (wi // ncols, wi % ncols))
            if abs(tracked - cmdv) > F(1, 200) * max(1, n) + EPS:
                self.fail(f"C13:command-disagrees-with-tracking:{k}", f"op {i}: well {wi}: tracking changed it by {float(tracked)}, the command moves {float(cmdv)}: {cmd!r}", i)
                return

    def check_wash(self, run, i, op, exc):
        def rng_ok(v, lo, hi):
            return isinstance(v, int) and not isinstance(v, bool) and lo <= v <= hi
        nums = []
        tips_ok = True
        for t in op["tips"]:
            if t[0] == "int" and 1 <= t[1] <= 8:
                nums.append(t[1])
            elif t[0] == "member" and t[1] > 0:
                nums.append(int(math.log2(t[1])) + 1)
            else:
                tips_ok = False
        if len(set(nums)) != len(nums):
            tips_ok = False
        num_ok = lambda v: not isinstance(v, str) and v is not None and 0 <= F(v) <= 100
        ok = (tips_ok and rng_ok(op["waste_grid"], 1, 67) and rng_ok(op["waste_site"], 1, 128) and rng_ok(op["cleaner_grid"], 1, 67)
              and rng_ok(op["cleaner_site"], 1, 128) and op.get("arm", 0) in (0, 1) and num_ok(op["waste_vol"]) and rng_ok(op["waste_delay"], 0, 1000)
              and num_ok(op["cleaner_vol"]) and rng_ok(op["cleaner_delay"], 0, 1000) and rng_ok(op["airgap"], 0, 100)
              and rng_ok(op["airgap_speed"], 1, 1000) and rng_ok(op["retract_speed"], 1, 100) and rng_ok(op["fastwash"], 0, 1)
              and rng_ok(op["low_volume"], 0, 1))
        if exc is None and not ok:
            self.fail("C13:evo_wash-out-of-range-accepted", f"op {i}: evo_wash({ {k: v for k, v in op.items() if k != 'op'} }) accepted", i)
            return
        if exc is not None:
            if ok:
                self.fail("C13:evo_wash-valid-call-rejected", f"op {i}: evo_wash rejected a valid call: {exc!r}", i)
            return
        mask = 0
        for t in nums:
            mask |= 1 << (t - 1)
        def one_dec(v):
            if isinstance(v, int):
                return str(int(v))
            x = F(v) * 10
            fl = x.numerator // x.denominator
            d = x - fl
            r = fl if d < F(1, 2) else fl + 1 if d > F(1, 2) else (fl if fl % 2 == 0 else fl + 1)
            return f"{r // 10}.{r % 10}"
        want = (f'B;Wash({mask},{op["waste_grid"]},{op["waste_site"] - 1},{op["cleaner_grid"]},{op["cleaner_site"] - 1},'
                f'"{one_dec(op["waste_vol"])}",{op["waste_delay"]},"{one_dec(op["cleaner_vol"])}",{op["cleaner_delay"]},{op["airgap"]},'
                f'{op["airgap_speed"]},{op["retract_speed"]},{op["fastwash"]},{op["low_volume"]},1000,{op.get("arm", 0)});')
        got = str(run.wl[-1])
        if got != want:
            self.fail("C13:evo_wash-parameters", f"op {i}: emitted {got!r}, documented order gives {want!r}", i)
