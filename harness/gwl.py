"""An independent interpreter of the Tecan worklist (.gwl) record format.

Written against the format description (Freedom EVOware manual, "Worklist" chapter), not against
robotools: it parses records by its own grammar, resolves rack label → labware declaration and
position → real well by its own inverse numbering, and tracks volumes and absolute component
amounts in exact `Fraction`s.  Used as oracle for C01, C03, C07, C09.
"""
from __future__ import annotations

import re
from fractions import Fraction as F

ROWS = "ABCDEFGHIJKLMNOPQRSTUVWXYZ"
VOL_RE = re.compile(r"^\d+\.\d\d$")


class GrammarError(Exception):
    pass


class ReplayError(Exception):
    """A record that cannot be executed: unknown rack, position outside the labware, limit violated."""

    def __init__(self, index, kind, msg):
        super().__init__(f"record {index}: {kind}: {msg}")
        self.index = index
        self.kind = kind
        self.msg = msg


def parse_record(s: str) -> dict:
    if "\n" in s or "\r" in s:
        raise GrammarError(f"line break inside record {s!r}")
    if s.startswith("B;") and len(s) > 2:
        return {"kind": "script", "text": s}
    f = s.split(";")
    tag = f[0]
    if tag in ("A", "D"):
        if len(f) != 11:
            raise GrammarError(f"{tag} record with {len(f)} fields: {s!r}")
        if not re.fullmatch(r"\d+", f[4]):
            raise GrammarError(f"position {f[4]!r} in {s!r}")
        if not VOL_RE.match(f[6]):
            raise GrammarError(f"volume {f[6]!r} in {s!r}")
        if f[8] != "":
            raise GrammarError(f"tip type {f[8]!r}")
        if f[9] != "" and not re.fullmatch(r"\d+", f[9]):
            raise GrammarError(f"tip mask {f[9]!r}")
        for name, val in (("rack label", f[1]), ("rack id", f[2]), ("rack type", f[3]), ("forced rack type", f[10])):
            if len(val) > 32:
                raise GrammarError(f"{name} longer than 32 characters")
        return {"kind": tag, "rack_label": f[1], "rack_id": f[2], "rack_type": f[3], "position": int(f[4]),
                "tube_id": f[5], "volume": F(f[6]), "volume_text": f[6], "liquid_class": f[7],
                "tip": None if f[9] == "" else int(f[9]), "forced_rack_type": f[10]}
    if tag == "R":
        if len(f) < 16:
            raise GrammarError(f"R record with {len(f)} fields: {s!r}")
        try:
            rec = {"kind": "R", "src_label": f[1], "src_id": f[2], "src_type": f[3], "src_start": int(f[4]), "src_end": int(f[5]),
                   "dst_label": f[6], "dst_id": f[7], "dst_type": f[8], "dst_start": int(f[9]), "dst_end": int(f[10]),
                   "volume": F(f[11]), "volume_text": f[11], "liquid_class": f[12], "diti_reuse": int(f[13]),
                   "multi_disp": int(f[14]), "direction": int(f[15]), "excluded": [int(x) for x in f[16:]]}
        except ValueError as e:
            raise GrammarError(f"R record field: {e}: {s!r}")
        if rec["direction"] not in (0, 1):
            raise GrammarError("direction")
        if rec["excluded"] != sorted(rec["excluded"]):
            raise GrammarError("excluded wells not sorted")
        return rec
    if re.fullmatch(r"W[1-4];", s):
        return {"kind": "W", "scheme": int(s[1])}
    if s == "W;":
        return {"kind": "W", "scheme": None}
    if s == "WD;":
        return {"kind": "WD"}
    if s == "F;":
        return {"kind": "F"}
    if s == "B;":
        return {"kind": "B"}
    if tag == "S" and len(f) == 2:
        return {"kind": "S", "index": f[1]}
    if tag == "C":
        return {"kind": "C", "text": s[2:]}
    raise GrammarError(f"unknown record {s!r}")


class LabState:
    def __init__(self, spec: dict, init_vols, init_comp):
        """spec: declaration; init_vols: row-major Fractions; init_comp: [(name, [fractions])]."""
        self.name = spec["name"]
        self.trough = spec["kind"] == "trough" or spec.get("vrows") is not None
        if spec["kind"] == "trough":
            self.rows, self.vrows = 1, int(spec["vrows"])
        else:
            self.rows = int(spec["rows"])
            self.vrows = int(spec["vrows"]) if spec.get("vrows") is not None else None
        self.cols = int(spec["cols"])
        self.min = F(spec["min"])
        self.max = F(spec["max"])
        self.vols = list(init_vols)
        self.amts = [dict() for _ in self.vols]
        for name, fr in init_comp:
            for i, x in enumerate(fr):
                if x != 0:
                    self.amts[i][name] = F(x) * self.vols[i]
        self.touched = [0] * len(self.vols)     # number of records that changed the well
        self.unknown = [False] * len(self.vols)  # received liquid of unknown composition

    def well_of(self, device: str, pos: int):
        """Position → real well index by the device's numbering (independent inverse)."""
        if pos < 1:
            return None
        if self.trough:
            if device == "fluent":
                c = pos - 1
                return c if c < self.cols else None
            c, _vr = divmod(pos - 1, self.vrows)
            return c if c < self.cols else None
        c, r = divmod(pos - 1, self.rows)
        if c >= self.cols:
            return None
        return r * self.cols + c


class Replay:
    def __init__(self, device: str, specs: list[dict], init_state: dict, tol_per_record=F(1, 200)):
        self.device = device
        self.labs = {}
        self.order = []
        for spec, st in zip(specs, init_state["labs"]):
            L = LabState(spec, st["vols"], st["comp"])
            self.order.append(L)
            self.labs.setdefault(L.name, L)
        self.tip = None        # (volume, amounts dict, unknown flag)
        self.tol = tol_per_record
        self.flows = []        # (src lab, src well, dst lab, dst well, volume) from A/D pairs
        self.pending = None
        self.max_step = F(0)
        self.known = []        # known-finding signatures met while replaying

    def _lab(self, idx, name):
        L = self.labs.get(name)
        if L is None:
            raise ReplayError(idx, "rack", f"no labware named {name!r}")
        return L

    def _take(self, idx, L, i, v, slack):
        cur = L.vols[i]
        if cur - v < L.min - slack:
            raise ReplayError(idx, "underflow", f"{L.name} well {i}: {cur} - {v} < {L.min}")
        frac = F(0) if cur == 0 else v / cur
        out = {k: a * frac for k, a in L.amts[i].items()}
        L.amts[i] = {k: a - out[k] for k, a in L.amts[i].items()}
        L.vols[i] = cur - v
        L.touched[i] += 1
        return out, L.unknown[i]

    def _put(self, idx, L, i, v, amts, unknown, slack):
        cur = L.vols[i]
        if cur + v > L.max + slack:
            raise ReplayError(idx, "overflow", f"{L.name} well {i}: {cur} + {v} > {L.max}")
        for k, a in amts.items():
            L.amts[i][k] = L.amts[i].get(k, F(0)) + a
        L.vols[i] = cur + v
        L.touched[i] += 1
        if unknown:
            L.unknown[i] = True

    def step(self, idx: int, rec: dict):
        k = rec["kind"]
        if k == "A":
            L = self._lab(idx, rec["rack_label"])
            i = L.well_of(self.device, rec["position"])
            if i is None:
                raise ReplayError(idx, "position", f"{rec['position']} outside {L.name}")
            slack = self.tol * (L.touched[i] + 1)
            out, unk = self._take(idx, L, i, rec["volume"], slack)
            self.tip = (rec["volume"], out, unk)
            self.pending = (L, i, rec)
            self.max_step = max(self.max_step, rec["volume"])
        elif k == "D":
            L = self._lab(idx, rec["rack_label"])
            i = L.well_of(self.device, rec["position"])
            if i is None:
                raise ReplayError(idx, "position", f"{rec['position']} outside {L.name}")
            slack = self.tol * (L.touched[i] + 1)
            if self.tip is not None and self.tip[0] == rec["volume"]:
                self._put(idx, L, i, rec["volume"], self.tip[1], self.tip[2], slack)
            else:
                self._put(idx, L, i, rec["volume"], {}, True, slack)
            if self.pending is not None:
                sL, si, arec = self.pending
                self.flows.append((sL, si, L, i, arec, rec))
            self.tip = None
            self.pending = None
            self.max_step = max(self.max_step, rec["volume"])
        elif k == "R":
            S = self._lab(idx, rec["src_label"])
            D = self._lab(idx, rec["dst_label"])
            if rec["src_start"] < 1 or rec["src_end"] < rec["src_start"]:
                raise ReplayError(idx, "R-source-range", f"{rec['src_start']}..{rec['src_end']}")
            srcs = [S.well_of(self.device, p) for p in range(rec["src_start"], rec["src_end"] + 1)]
            if any(s is None for s in srcs):
                # Known finding F3: on a Fluent the source range of `distribute` is numbered the EVO way.
                evo = [S.well_of("evo", p) for p in range(rec["src_start"], rec["src_end"] + 1)]
                if self.device == "fluent" and S.trough and S.vrows and S.vrows > 1 and None not in evo and len(set(evo)) == 1 \
                        and rec["src_start"] == 1 + S.vrows * evo[0] and rec["src_end"] == S.vrows * (evo[0] + 1):
                    self.known.append("C01:F3:fluent-distribute-source-range-evo-numbering")
                    srcs = evo
                else:
                    raise ReplayError(idx, "R-source-range", f"{rec['src_start']}..{rec['src_end']} outside {S.name}")
            elif self.device == "fluent" and S.trough and S.vrows and S.vrows > 1 and len(set(srcs)) > 1:
                evo = [S.well_of("evo", p) for p in range(rec["src_start"], rec["src_end"] + 1)]
                if None not in evo and len(set(evo)) == 1 and rec["src_start"] == 1 + S.vrows * evo[0] \
                        and rec["src_end"] == S.vrows * (evo[0] + 1):
                    self.known.append("C01:F3:fluent-distribute-source-range-evo-numbering")
                    srcs = evo
            dsts = [p for p in range(rec["dst_start"], rec["dst_end"] + 1) if p not in set(rec["excluded"])]
            if any(p < rec["dst_start"] or p > rec["dst_end"] for p in rec["excluded"]):
                raise ReplayError(idx, "R-excluded", "excluded well outside the destination range")
            for n, p in enumerate(dsts):
                si = srcs[n % len(srcs)]
                di = D.well_of(self.device, p)
                if di is None:
                    raise ReplayError(idx, "position", f"{p} outside {D.name}")
                out, unk = self._take(idx, S, si, rec["volume"], self.tol * (S.touched[si] + 1))
                self._put(idx, D, di, rec["volume"], out, unk, self.tol * (D.touched[di] + 1))
            self.max_step = max(self.max_step, rec["volume"])
            self.tip = None
            self.pending = None
        else:
            # W/WD/F/B/S/C and script commands do not move liquid between tracked wells
            if k in ("W", "WD", "F"):
                self.tip = None
                self.pending = None

    def run(self, records: list[str]):
        for idx, s in enumerate(records):
            self.step(idx, parse_record(s))
        return self
