"""Correspondence check: the same programs on the implementation and on the Lean model."""
from __future__ import annotations

from fractions import Fraction

import impl
import proto

TOL = Fraction(1, 10**9)


def num_eq(a, b, exact: bool) -> bool:
    if isinstance(a, str) or isinstance(b, str):
        return a == b
    if a == b:
        return True
    if exact:
        return False
    return abs(a - b) <= TOL * max(1, abs(a), abs(b))


def cmp_state(si: dict, sm: dict, exact_vols: bool, where: str) -> list[str]:
    """Compare implementation state `si` and model state `sm`; returns a list of differences."""
    diffs = []
    if len(si["labs"]) != len(sm["labs"]):
        return [f"{where}: number of labware {len(si['labs'])} vs {len(sm['labs'])}"]
    for li, (a, b) in enumerate(zip(si["labs"], sm["labs"])):
        if len(a["vols"]) != len(b["vols"]):
            diffs.append(f"{where}: lab {li} volume array size {len(a['vols'])} vs {len(b['vols'])}")
            continue
        for wi, (x, y) in enumerate(zip(a["vols"], b["vols"])):
            if not num_eq(x, y, exact_vols):
                diffs.append(f"{where}: lab {li} well {wi} volume impl={x} model={y}")
                break
        ka = [k for k, _ in a["comp"]]
        kb = [k for k, _ in b["comp"]]
        if ka != kb:
            diffs.append(f"{where}: lab {li} components impl={ka} model={kb}")
        else:
            for (k, xa), (_, xb) in zip(a["comp"], b["comp"]):
                if len(xa) != len(xb) or any(not num_eq(x, y, False) for x, y in zip(xa, xb)):
                    diffs.append(f"{where}: lab {li} component {k!r} fractions impl={xa} model={xb}")
                    break
        if len(a["hist"]) != len(b["hist"]):
            diffs.append(f"{where}: lab {li} history length impl={len(a['hist'])} model={len(b['hist'])}"
                         f" labels impl={[l for l, _ in a['hist']]} model={[l for l, _ in b['hist']]}")
        else:
            for hi, ((la, xa), (lb, xb)) in enumerate(zip(a["hist"], b["hist"])):
                if la != lb:
                    diffs.append(f"{where}: lab {li} history[{hi}] label impl={la!r} model={lb!r}")
                    break
                if len(xa) != len(xb) or any(not num_eq(x, y, exact_vols) for x, y in zip(xa, xb)):
                    diffs.append(f"{where}: lab {li} history[{hi}] snapshot differs")
                    break
    def rec_eq(x, y):
        if x == y:
            return True
        if exact_vols:
            return False
        fx, fy = x.split(";"), y.split(";")
        if len(fx) != len(fy) or fx[0] not in ("A", "D") or len(fx) != 11:
            return False
        try:
            close = abs(float(fx[6]) - float(fy[6])) < 0.011
        except ValueError:
            return False
        return close and fx[:6] == fy[:6] and fx[7:] == fy[7:]

    if len(si["recs"]) != len(sm["recs"]) or not all(rec_eq(x, y) for x, y in zip(si["recs"], sm["recs"])):
        n = min(len(si["recs"]), len(sm["recs"]))
        idx = next((i for i in range(n) if not rec_eq(si["recs"][i], sm["recs"][i])), n)
        ia = si["recs"][idx] if idx < len(si["recs"]) else None
        ib = sm["recs"][idx] if idx < len(sm["recs"]) else None
        diffs.append(f"{where}: record {idx} impl={ia!r} model={ib!r} (lengths {len(si['recs'])}/{len(sm['recs'])})")
    return diffs


def err_eq(a, b, strict_value: bool) -> bool:
    if a == b:
        return True
    if strict_value:
        return False
    loose = {"valueErr": "reject"}
    return loose.get(a, a) == loose.get(b, b)


def program_lines(prog: dict, nops: int | None = None) -> list[str]:
    lines = ["reset", proto.cfg_line(prog["cfg"])]
    for spec in prog.get("labs", []):
        lines.append(proto.lab_line(spec))
    lines.append("dump")
    ops = prog.get("ops", [])
    if nops is not None:
        ops = ops[:nops]
    for op in ops:
        lines.append(proto.op_line(op))
        lines.append("dump")
    return lines


class Mismatch:
    def __init__(self, prog_index, prog, op_index, diffs):
        self.prog_index = prog_index
        self.prog = prog
        self.op_index = op_index   # -1: declarations
        self.diffs = diffs

    def __repr__(self):
        return f"Mismatch(prog={self.prog_index}, op={self.op_index}, {self.diffs[:2]})"


def run_stateful(progs: list[dict], observers_factory=None, stop_on_error=True, strict_value=False):
    """Run every program on both sides.  Returns (runs, mismatches, stats)."""
    runs = []
    all_lines = []
    spans = []
    for prog in progs:
        obs = observers_factory(prog) if observers_factory else ()
        r = impl.run_program(prog, observers=obs, stop_on_error=stop_on_error)
        runs.append(r)
        lines = program_lines(prog, nops=len(r.obs))
        spans.append((len(all_lines), len(lines)))
        all_lines.extend(lines)
    answers = proto.run_driver(all_lines)
    mismatches = []
    ops_compared = 0
    for pi, (prog, r, (start, n)) in enumerate(zip(progs, runs, spans)):
        ans = answers[start:start + n]
        exact = prog.get("exact", True)
        pos = 2
        diffs = []
        for spec, res in zip(prog.get("labs", []), r.lab_results):
            a = ans[pos]
            pos += 1
            m_err = None if a == "ok" else a[4:] if a.startswith("err:") else "BAD:" + a
            if not err_eq(res, m_err, prog.get("strict_value", strict_value)):
                diffs.append(f"labware {spec.get('name')!r}: constructor impl={res} model={m_err}")
        if diffs:
            mismatches.append(Mismatch(pi, prog, -1, diffs))
            continue
        st = proto.d_state(ans[pos])
        pos += 1
        d = cmp_state(r.init_state, st, exact, "initial")
        if d:
            mismatches.append(Mismatch(pi, prog, -1, d))
            continue
        for oi, ob in enumerate(r.obs):
            a = ans[pos]
            stm = proto.d_state(ans[pos + 1]) if ans[pos + 1].startswith("state ") else None
            pos += 2
            ops_compared += 1
            m_err = None if a == "ok" else a[4:] if a.startswith("err:") else "BAD:" + a
            d = []
            if not err_eq(ob["err"], m_err, prog.get("strict_value", strict_value)):
                d.append(f"op {oi} ({prog['ops'][oi]['op']}): outcome impl={ob['err']} ({ob['exc']}) model={m_err}")
            if stm is None:
                d.append(f"op {oi}: model state unavailable: {ans[pos - 1][:200]}")
            else:
                d += cmp_state(ob["state"], stm, exact, f"after op {oi} ({prog['ops'][oi]['op']})")
            if d:
                mismatches.append(Mismatch(pi, prog, oi, d))
                break
    return runs, mismatches, {"ops_compared": ops_compared, "programs": len(progs)}
