"""Per-property wiring: theorems, correspondence streams, oracles, shrinking, replay."""
from __future__ import annotations

import copy
import json
import math
import random
import sys
from collections import Counter
from fractions import Fraction as F
from pathlib import Path

import corr
import gen_stateful as G
import impl
import oracles as O
import proto
from check import Ctx, Finding, Result

VERIF = Path(__file__).resolve().parent.parent


# ------------------------------------------------------------------ stateful streams
ORACLES = {
    "replay_state": lambda p: O.ReplayOracle(p, check_state=True, check_safe=False),
    "replay_safe": lambda p: O.ReplayOracle(p, check_state=False, check_safe=True),
    "limits": O.LimitsOracle,
    "ledger": O.LedgerOracle,
    "mixing": O.MixingOracle,
    "history": O.HistoryOracle,
    "transfer": O.TransferOracle,
    "split": O.SplitOracle,
    "evo": O.EvoOracle,
}


def features(prog, run):
    f = []
    for op, ob in zip(prog["ops"], run.obs):
        f.append("op:" + op["op"])
        f.append("outcome:" + (ob["err"] or "ok"))
        if op["op"] == "reconfigure":
            continue
        for key in ("wells", "src_wells", "dst_wells", "vols"):
            if key in op and isinstance(op[key], tuple):
                f.append(f"shape:{key}:{op[key][0]}")
        if op["op"] == "transfer":
            f.append(f"wash:{op.get('wash')}")
            f.append(f"partition_by:{op.get('partition_by')}")
            if op["src"] == op["dst"]:
                f.append("transfer:same-labware")
    for s in prog["labs"]:
        f.append("lab:" + s["kind"])
    f.append("dev:" + prog["cfg"]["dev"])
    f.append("auto_split:" + str(prog["cfg"].get("auto_split", True)))
    if not prog.get("exact", True):
        f.append("inexact(non-integer max_volume)")
    return f


def stateful(ctx: Ctx, res: Result, stream: str, progs, oracle_names, stop_on_error=True, strict_value=False):
    """Run programs on implementation and model, evaluate oracles on the implementation."""
    store = {}

    def factory(prog):
        obs = [ORACLES[n](prog) for n in oracle_names]
        store[id(prog)] = obs
        return obs

    poke_helper_results(progs)
    runs, mism, stats = corr.run_stateful(progs, observers_factory=factory, stop_on_error=stop_on_error, strict_value=strict_value)
    res.programs += len(progs)
    res.traces_validated += stats["ops_compared"]
    for prog, run in zip(progs, runs):
        case = {"kind": "stateful", "stream": stream, "prog": prog, "oracles": list(oracle_names),
                "stop_on_error": stop_on_error, "strict_value": strict_value}
        nontrivial = any(ob["err"] is None and op["op"] not in ("comment", "wash", "flush", "commit", "decontaminate", "set_diti")
                         for op, ob in zip(prog["ops"], run.obs)) or (not prog["ops"] and bool(prog["labs"]))
        res.note_case(case, nontrivial)
        res.evaluations += max(0, len(run.obs) - 1)
        for ft in features(prog, run):
            res.dist[ft] += 1
        for ob in store.get(id(prog), []):
            for fl in ob.failures:
                res.viol.append(Finding(stream, case, fl["msg"], fl["sig"]))
            for k in ob.known:
                res.known_sigs[k] += 1
    for m in mism:
        case = {"kind": "stateful", "stream": stream, "prog": m.prog, "oracles": list(oracle_names),
                "stop_on_error": stop_on_error, "strict_value": strict_value}
        res.corr.append(Finding(stream, case, f"correspondence break at op {m.op_index}: " + " | ".join(m.diffs[:3])))
    return runs


def poke_helper_results(progs):
    """Public helpers return fresh objects; a script may consume or edit them (work a list of partial volumes off with
    pop(), re-map an index dict).  Before a stream runs, the harness calls the helpers with the arguments the programs
    are going to cause and edits what it got back: a memo that hands out one shared object would poison the run."""
    from robotools.worklists.utils import partition_volume
    from robotools import make_well_index_dict
    seen = set()
    for p in progs:
        M = p["cfg"]["max_volume"]
        Ms = {M} | {op["cfg"]["max_volume"] for op in p.get("ops", []) if op["op"] == "reconfigure"}
        for op in p.get("ops", []):
            if op["op"] == "transfer":
                for v in O.flatF(op["vols"]):
                    for m in Ms:
                        key = (v, m)
                        if key in seen or not (isinstance(v, F) and v > 0):
                            continue
                        seen.add(key)
                        for mm in ({int(m), float(m)} if F(m).denominator == 1 else {float(m)}):
                            try:
                                out = partition_volume(float(v), max_volume=mm)
                                while out:
                                    out.pop(0)
                            except Exception:  # noqa: BLE001
                                pass
        for spec in p.get("labs", []):
            try:
                R = int(spec["vrows"]) if spec.get("vrows") is not None else int(spec["rows"])
                C = int(spec["cols"])
            except Exception:  # noqa: BLE001
                continue
            if ("idx", R, C) not in seen and 0 < R <= 26 and 0 < C:
                seen.add(("idx", R, C))
                d = make_well_index_dict(R, C)
                for k in list(d)[: max(1, len(d) // 2)]:
                    d[k] = (0, 0)
                if d:
                    d.pop(next(iter(d)))


def corpus_progs(ctx, stream=None):
    out = []
    for c in ctx.corpus():
        if c.get("kind") == "stateful" and (stream is None or c.get("stream") == stream):
            out.append(c["prog"])
    return out


WL_PROFILE = {}


def run_C01(ctx):
    res = Result()
    rng = ctx.rng
    progs = corpus_progs(ctx) + [G.gen_worklist_program(rng, {"p_fail": 0.1, "kinds": ["transfer"] * 5 + ["aspirate", "dispense", "distribute", "distribute", "misc", "drain_refill", "drain_refill"]})
                                 for _ in range(ctx.n(220))]
    stateful(ctx, res, "worklist", progs, ["replay_state"])
    return res


def run_C02(ctx):
    res = Result()
    rng = ctx.rng
    progs = [G.gen_labware_program(rng, {"p_fail_each": 0.3, "nops": (2, 14)}) for _ in range(ctx.n(150))]
    stateful(ctx, res, "labware", corpus_progs(ctx, "labware") + progs, ["limits"], stop_on_error=False)
    progs = [G.gen_worklist_program(rng, {"p_fail": 0.6, "kinds": ["transfer"] * 3 + ["aspirate", "dispense", "distribute", "add", "remove"], "p_dist_alias": 0.3, "p_trough": 0.45})
             for _ in range(ctx.n(150))]
    # ... also on labware that carry a name the library itself defines ("Systemliquid"): limits are limits
    progs += [G.gen_worklist_program(rng, {"p_fail": 0.8, "kinds": ["transfer", "aspirate", "aspirate"], "fail_kinds": ["aspirate", "transfer"],
                                           "p_library_name": 0.6, "nops": (1, 3), "p_trough": 0.3}) for _ in range(ctx.n(30))]
    stateful(ctx, res, "worklist", corpus_progs(ctx, "worklist") + progs, ["limits"], stop_on_error=False)
    progs = [gen_evo_program(rng, p_fail=0.3) for _ in range(ctx.n(60))]
    stateful(ctx, res, "evo", progs, ["limits"], stop_on_error=False)
    off_envelope_limits(ctx, res)
    return res


def off_envelope_limits(ctx, res):
    """Oracle-only stream (DESIGN §3.1): one-ulp steps, huge, inf and nan volumes on the implementation."""
    rng = ctx.rng
    n = ctx.n(60)
    bad = 0
    for _ in range(n):
        mx = rng.choice([100.0, 0.3, 1e6, 37.5])
        mn = rng.choice([0.0, 0.1, 5.0])
        if mn >= mx:
            mn = 0.0
        init = rng.choice([0.0, mn, mx, (mn + mx) / 2])
        L = impl.Labware("L", 2, 2, min_volume=mn, max_volume=mx, initial_volumes=init)
        for _ in range(6):
            v0 = float(L.volumes[0, 0])
            cand = [math.nextafter(mx - v0, math.inf), mx - v0, math.nextafter(mx - v0, 0) if mx - v0 > 0 else 0.0, 1e308, float("inf"),
                    float("nan"), 0.1, 0.2, v0 - mn, math.nextafter(v0 - mn, math.inf)]
            v = rng.choice(cand)
            kind = rng.choice(["add", "remove"])
            before = L.volumes.copy()
            exc = None
            try:
                getattr(L, kind)("A01", v)
            except Exception as e:  # noqa: BLE001
                exc = e
            after = L.volumes
            res.evaluations += 1
            res.dist["off-envelope:" + kind + ":" + ("raise" if exc else "ok")] += 1
            x = float(after[0, 0])
            msg = None
            if math.isnan(x) or x < 0 or (x > mx and x > before[0, 0]) or (x < mn and x < before[0, 0]):
                msg = f"{kind}('A01', {v!r}) on volume {before[0, 0]!r} (min {mn}, max {mx}) left {x!r}"
            if exc is not None and type(exc).__name__ in ("VolumeOverflowError", "VolumeUnderflowError") and x != before[0, 0]:
                msg = f"{kind}('A01', {v!r}) raised {type(exc).__name__} but changed the well {before[0, 0]!r} -> {x!r}"
            if msg:
                bad += 1
                case = {"kind": "offenv", "min": mn, "max": mx, "init": init, "call": kind, "volume": repr(v)}
                res.viol.append(Finding("off-envelope", case, msg, f"C02:off-envelope:{kind}"))
    res.extra["off_envelope_calls"] = n * 6
    # decimal boundary grid: values that are NOT dyadic, where two float roundings of "the same" comparison can differ
    import numpy as _np
    def one(kind, v0, r, mn, mx, dtype=None):
        if dtype is not None:
            # initial volumes handed in as a single-/half-precision array: the tracked state is still what the limits
            # are checked against (a state kept in a narrower type would round across a limit after the check)
            arr = _np.array([[v0]], dtype=dtype)
            if not _np.isfinite(arr).all() or float(arr[0, 0]) > mx or float(arr[0, 0]) < 0:
                return
            L = impl.Labware("L", 1, 1, min_volume=mn, max_volume=mx, initial_volumes=arr)
            v0 = float(L.volumes[0, 0])
        else:
            L = impl.Labware("L", 1, 1, min_volume=mn, max_volume=mx, initial_volumes=v0)
        exc = None
        try:
            getattr(L, kind)("A01", r)
        except Exception as e:  # noqa: BLE001
            exc = e
        x = float(L.volumes[0, 0])
        res.evaluations += 1
        res.dist["off-envelope-decimal:" + kind + ":" + ("raise" if exc else "ok")] += 1
        msg = None
        if exc is None and kind == "remove" and x < mn and r > 0:
            msg = f"remove('A01', {r!r}) from {v0!r} (min_volume {mn!r}) returned normally and left {x!r} < min_volume"
        if exc is None and kind == "add" and x > mx and r > 0:
            msg = f"add('A01', {r!r}) to {v0!r} (max_volume {mx!r}) returned normally and left {x!r} > max_volume"
        if exc is not None and x != v0:
            msg = f"{kind}('A01', {r!r}) raised {type(exc).__name__} but changed the well {v0!r} -> {x!r}"
        if msg:
            case = {"kind": "offenv", "min": mn, "max": mx, "init": v0, "call": kind, "volume": repr(r)}
            res.viol.append(Finding("off-envelope", case, msg, f"C02:off-envelope:{kind}"))
    for c in (1, 2, 3, 7, 11):
        for b in range(1, 100, 1 if ctx.tier == "thorough" else 3):
            for d in (-1, 0, 1):
                a = b + c + d
                if a > 0:
                    one("remove", a / 10, b / 10, c / 10, 1000.0)
                    one("remove", a / 100, b / 100, c / 100, 1000.0)
                    one("remove", a / 10, b / 10, c / 10, 1000.0, dtype=_np.float32 if (a + b) % 2 else _np.float16)
    for mx10 in (3, 7, 11, 33, 1001):
        for b in range(1, min(mx10, 100), 1 if ctx.tier == "thorough" else 3):
            for d in (-1, 0, 1):
                a = mx10 - b + d
                if a >= 0:
                    one("add", a / 10, b / 10, 0.0, mx10 / 10)
                    one("add", a / 10, b / 10, 0.0, mx10 / 10, dtype=_np.float32 if (a + b) % 2 else _np.float16)
    for v0 in (1e16, 1e20, 1e300):
        for mn in (1.0, 100.0, 0.1):
            for r in (v0, v0 - mn, v0 / 2, math.nextafter(v0, 0)):
                one("remove", v0, r, mn, 1e308)


def run_C03(ctx):
    res = Result()
    rng = ctx.rng
    progs = corpus_progs(ctx) + [G.gen_worklist_program(rng, {"p_fail": 0.75, "nops": (0, 5)}) for _ in range(ctx.n(260))]
    stateful(ctx, res, "worklist-failing", progs, ["replay_safe"])
    # distributions into several virtual rows of one trough column (one real well): each dispense alone may fit while
    # their sum overflows; whatever is refused must not be in the worklist (EVO numbers the virtual rows separately)
    prof = {"p_fail": 0.8, "nops": (0, 3), "kinds": ["distribute", "distribute", "transfer"], "fail_kinds": ["distribute"], "p_dist_alias": 0.7,
            "p_trough": 0.7, "devices": ["evo", "evo", "fluent"]}
    progs = [G.gen_worklist_program(rng, prof) for _ in range(ctx.n(80))]
    stateful(ctx, res, "distribute-aliased-failing", progs, ["replay_safe"])
    progs = [gen_evo_program(rng, p_fail=0.6, fail_kinds=["toolarge", "toolarge", "limit", "order", "grid", "lc"]) for _ in range(ctx.n(150))]
    # ... and with a max_volume that is not a short binary fraction (600.3, 99.9): per-tip volumes at its neighbours
    progs += [gen_evo_program(rng, p_fail=0.7, fail_kinds=["toolarge"], nondyadic_max=[F(600.3), F(99.9), F(950.3), F(200.1), F(333.3)] * 3) for _ in range(ctx.n(40))]
    stateful(ctx, res, "evo-failing", progs, ["evo_step"])
    return res


def run_C04(ctx):
    res = Result()
    rng = ctx.rng
    progs = corpus_progs(ctx) + [G.gen_labware_program(rng, {"p_fail_each": 0.12, "nops": (1, 20), "p_trough": 0.45}) for _ in range(ctx.n(260))]
    # ... a few of them on strips with 100+ columns (well IDs "A100" next to "A10")
    progs += [G.gen_labware_program(rng, {"p_fail_each": 0.1, "nops": (2, 10), "p_trough": 0.0, "p_wide": 1.0, "nlabs": [1]}) for _ in range(ctx.n(10))]
    stateful(ctx, res, "labware", progs, ["ledger"], stop_on_error=False)
    # the same bookkeeping through BaseWorklist.aspirate / dispense (their own flattening and broadcast of the
    # arguments, incl. wells and volumes of different dimensionality), on both devices
    prof = {"p_fail": 0.15, "fail_kinds": ["aspirate", "dispense"], "kinds": ["aspirate", "dispense"], "nops": (1, 10), "p_trough": 0.45}
    progs = [G.gen_worklist_program(rng, prof) for _ in range(ctx.n(100))]
    # ... also on labware that carry a name the library itself defines (EVOware built-ins such as "Systemliquid")
    progs += [G.gen_worklist_program(rng, dict(prof, p_library_name=0.5, p_fail=0.0)) for _ in range(ctx.n(40))]
    stateful(ctx, res, "worklist-aspirate-dispense", progs, ["ledger"])
    return res


def run_C05(ctx):
    res = Result()
    rng = ctx.rng
    prof = {"p_fail": 0.05, "nops": (2, 10), "kinds": ["transfer"] * 6 + ["distribute", "distribute", "dispense", "aspirate", "drain_refill", "drain_refill"], "p_trough": 0.4}
    progs = corpus_progs(ctx) + [G.gen_worklist_program(rng, prof) for _ in range(ctx.n(220))]
    stateful(ctx, res, "composition", progs, ["mixing"])
    # equilibration: liquid goes back and forth between two (or around three) wells until their compositions agree to
    # many digits — the incoming liquid then has the same components as the well and NEARLY the same fractions; the
    # mixture is still the volume-weighted one, and component totals are still conserved
    progs = [equilibration_program(rng) for _ in range(ctx.n(12))]
    stateful(ctx, res, "equilibration", progs, ["mixing"])
    return res


def equilibration_program(rng):
    dev = rng.choice(["evo", "fluent"])
    same = rng.random() < 0.5
    nw = rng.choice([2, 2, 3])
    V = F(rng.choice([600, 400, 900, 120]))
    mx = 4 * V
    if same:
        labs = [{"kind": "plate", "name": "eq", "rows": nw, "cols": 1, "min": F(0), "max": mx, "init": ("V", [V] * nw), "names": {}}]
        where = [(0, G.wid(r, 0)) for r in range(nw)]
    else:
        labs = [{"kind": "plate", "name": f"eq{k}", "rows": 1, "cols": 1, "min": F(0), "max": mx, "init": ("V", [V]),
                 "names": {"A01": f"liquid {k}"} if rng.random() < 0.5 else {}} for k in range(nw)]
        where = [(k, "A01") for k in range(nw)]
    frac = rng.choice([F(1, 2), F(1, 3), F(1, 4), F(3, 4)])
    ops = []
    rounds = rng.randint(16, 30)
    for r in range(rounds):
        a, b = where[r % nw], where[(r + 1) % nw]
        v = F(math.floor(V * frac * 8), 8)
        for (s, d) in ((a, b), (b, a)):
            ops.append({"op": "transfer", "src": s[0], "dst": d[0], "label": None, "wash": rng.choice([1, "reuse", "flush"]),
                        "partition_by": "auto", "kw": {}, "src_wells": ("V", [s[1]]), "dst_wells": ("V", [d[1]]), "vols": ("V", [v])})
    return {"cfg": {"dev": dev, "max_volume": F(950), "auto_split": True, "diti_mode": False}, "labs": labs, "ops": ops, "exact": True}


def run_C06(ctx):
    res = Result()
    rng = ctx.rng
    fn_partition_volume(ctx, res)
    prof = {"p_fail": 0.15, "fail_kinds": ["transfer"], "kinds": ["transfer"], "nops": (1, 3), "p_autosplit": 0.7, "p_near_equal": 0.5,
            "max_volumes": [F(950), F(200), F(100), F(50), F(25, 2), F(5, 2), F(75, 2), F(7, 4), F(3)]}
    progs = corpus_progs(ctx) + [G.gen_worklist_program(rng, prof) for _ in range(ctx.n(120))]
    stateful(ctx, res, "transfer-split", progs, ["split"])
    # the same worklist object with `max_volume` / `auto_split` reassigned between transfers (volumes are re-used
    # after the change): the split must follow the configuration in effect at the time of the call
    # requested volumes above 7158278 uL — the largest volume ONE record may carry — on labware that can hold them: with
    # auto_split every step is <= max_volume, so such a transfer is split like any other (never refused for being large)
    big = []
    for _ in range(ctx.n(10)):
        M = rng.choice([F(500000), F(950000), F(1000000), F(262144)])
        v = rng.choice([F(7158278), F(7158279), F(10**7), F(14400001, 2), F(7158278) + M])
        labs = [{"kind": "plate", "name": n, "rows": 1, "cols": 2, "min": F(0), "max": F(3 * 10**7), "init": ("V", [F(15 * 10**6), F(0)]), "names": {}}
                for n in ("carboy A", "carboy B")]
        ops = [{"op": "transfer", "src": 0, "dst": 1, "label": None, "wash": 1, "partition_by": "auto", "kw": {},
                "src_wells": ("V", ["A01"]), "dst_wells": ("V", [rng.choice(["A01", "A02"])]), "vols": ("V", [v])}]
        big.append({"cfg": {"dev": rng.choice(["evo", "fluent"]), "max_volume": M, "auto_split": True, "diti_mode": False},
                    "labs": labs, "ops": ops, "exact": True})
    runs_big = stateful(ctx, res, "transfer-above-record-limit", big, ["split"])
    for p, r in zip(big, runs_big):
        if r.obs and r.obs[0]["err"] is not None:
            case = {"kind": "stateful", "stream": "transfer-above-record-limit", "prog": p, "oracles": ["split"], "stop_on_error": True, "strict_value": False}
            res.viol.append(Finding("transfer-above-record-limit", case,
                                    f"auto-split transfer of {float(p['ops'][0]['vols'][1][0])} uL with max_volume {float(p['cfg']['max_volume'])} "
                                    f"was refused: {r.obs[0]['exc']}", "C06:refused-for-being-large"))
    prof2 = dict(prof, kinds=["transfer", "transfer", "reconfigure"], nops=(3, 6), p_fail=0.0, p_reuse_after_reconfigure=0.7, p_near_equal=0.0)
    progs = [G.gen_worklist_program(rng, prof2) for _ in range(ctx.n(60))]
    stateful(ctx, res, "transfer-reconfigured", progs, ["split"])
    return res


def run_C07(ctx):
    res = Result()
    rng = ctx.rng
    prof = {"p_fail": 0.25, "fail_kinds": ["transfer"], "kinds": ["transfer"] * 6 + ["misc"], "nops": (1, 4)}
    progs = corpus_progs(ctx) + [G.gen_worklist_program(rng, prof) for _ in range(ctx.n(260))]
    # the argument faults of the statement, each often enough on each device: lists of incompatible lengths (also
    # broadcastable ones) and negative volumes are refused, not cycled / dropped
    progs += [G.gen_worklist_program(rng, dict(prof, p_fail=1.0, nops=(1, 2), transfer_faults=["length", "length", "negative"]))
              for _ in range(ctx.n(40))]
    stateful(ctx, res, "transfer", progs, ["transfer"])
    return res


def run_C11(ctx):
    res = Result()
    rng = ctx.rng
    prof = {"p_fail": 0.05, "nops": (2, 10), "kinds": ["transfer"] * 4 + ["aspirate", "dispense", "distribute", "add", "remove", "misc"], "p_dist_alias": 0.2, "p_same_name": 0.2}
    progs = corpus_progs(ctx) + [G.gen_worklist_program(rng, prof) for _ in range(ctx.n(220))]
    stateful(ctx, res, "history", progs, ["history"])
    # identical twins (two objects equal in name, geometry, limits and contents): a transfer between them — also one that
    # moves nothing, or one that leaves them with equal contents again — is a transfer between TWO labware
    twins = []
    for _ in range(ctx.n(30)):
        p = G.gen_worklist_program(rng, {"p_fail": 0.0, "nops": (0, 2), "kinds": ["transfer"], "p_twin": 1.0, "nlabs": [2], "p_trough": 0.2})
        lab0 = p["labs"][0]
        R, C = (1 if lab0["kind"] == "trough" or lab0.get("vrows") is not None else lab0["rows"]), lab0["cols"]
        w = G.wid(0, 0)
        # a transfer 0 -> 1 that moves nothing, and one back and forth that restores equal contents
        z = {"op": "transfer", "src": 0, "dst": 1, "label": "nothing", "wash": 1, "partition_by": "auto", "kw": {},
             "src_wells": ("V", [w]), "dst_wells": ("V", [w]), "vols": ("V", [F(0)])}
        p["ops"] = [z] + p["ops"] + [dict(z, label="again")]
        twins.append(p)
    stateful(ctx, res, "history-twins", twins, ["history"])
    # a refused operation in the middle of a script that goes on: earlier history entries must stay what they were
    prof2 = dict(prof, p_fail=1.0, nops=(1, 4), after_fail=(1, 5),
                 fail_kinds=["transfer", "aspirate", "dispense", "distribute", "aspirate", "dispense"])
    progs2 = [G.gen_worklist_program(rng, prof2) for _ in range(ctx.n(120))]
    stateful(ctx, res, "history-after-refusal", progs2, ["history"], stop_on_error=False)
    return res


def run_C16(ctx):
    """Every program on EvoWorklist, FluentWorklist (and BaseWorklist) — all against the one model,
    and EVO vs Fluent directly."""
    res = Result()
    rng = ctx.rng
    prof = {"p_fail": 0.3, "nops": (1, 6), "p_trough": 0.5, "p_dist_alias": 0.35, "p_same_name": 0.2}
    base = corpus_progs(ctx) + [G.gen_worklist_program(rng, prof) for _ in range(ctx.n(110))]
    # refused transfers (every injected fault class, incl. argument lists of incompatible lengths) and transfers
    # inside one labware: the places where a device-specific transfer implementation can differ from its twin
    prof2 = {"p_fail": 0.85, "nops": (1, 3), "kinds": ["transfer"], "fail_kinds": ["transfer"], "p_trough": 0.4}
    base += [G.gen_worklist_program(rng, prof2) for _ in range(ctx.n(45))]
    # two labware objects of one name (and, mostly, different geometry) in one worklist
    base += [G.gen_worklist_program(rng, dict(prof, p_same_name=1.0, p_fail=0.05, nlabs=[2, 3], p_trough=0.6)) for _ in range(ctx.n(25))]
    progs = []
    for p in base:
        for dev in ("evo", "fluent", "base"):
            q = copy.deepcopy(p)
            q["cfg"] = dict(q["cfg"], dev=dev)
            progs.append(q)
    runs = stateful(ctx, res, "devices", progs, [])
    for k in range(0, len(progs), 3):
        pe, pf, pb = progs[k:k + 3]
        re_, rf, rb = runs[k:k + 3]
        case = {"kind": "stateful", "stream": "devices", "prog": pe, "oracles": [], "stop_on_error": True, "strict_value": False, "twin": "fluent"}
        msg = compare_devices(pe, re_, rf)
        if msg:
            res.viol.append(Finding("devices", case, msg, "C16:evo-fluent-differ"))
        msg = base_refuses(pb, rb)
        if msg:
            res.viol.append(Finding("devices", dict(case, prog=pb), msg, "C16:base-guesses"))
    # twin-only: column groups split into 255..300 partitions (1000+ records; too costly for the model stream): the two
    # devices still emit the same records for plates
    for k in [255, 256, 257, 258, 300][: max(2, ctx.n(5))] if ctx.tier == "thorough" else [258, rng.choice([256, 257, 259, 300, 515])]:
        M = F(2)
        recs = []
        for dev in ("evo", "fluent"):
            wl = impl.make_wl({"dev": dev, "max_volume": M, "auto_split": True})
            A = impl.Labware("A", 2, 1, min_volume=0, max_volume=4000, initial_volumes=2000)
            B = impl.Labware("B", 2, 1, min_volume=0, max_volume=4000)
            wl.transfer(A, ["A01", "B01"], B, ["A01", "B01"], [float(k * M), float(k * M)])
            recs.append([str(r) for r in wl])
            res.evaluations += 1
        if recs[0] != recs[1]:
            d = next((i for i, (x, y) in enumerate(zip(recs[0], recs[1])) if x != y), min(len(recs[0]), len(recs[1])))
            case = {"kind": "fn", "fn": "many partitions on both devices", "partitions": k}
            res.viol.append(Finding("devices-many-partitions", case,
                                    f"two wells split into {k} steps each: EVO {len(recs[0])} records, Fluent {len(recs[1])}; first difference at {d}: "
                                    f"{recs[0][d:d+1]} vs {recs[1][d:d+1]}", "C16:evo-fluent-differ"))
        res.dist["twin-only: column group split into 255+ partitions"] += 1
    # twin-only: one worklist per device meets a sequence of PLATES that all carry the same name but differ in
    # geometry; every record must be the same on both devices (plates are numbered alike)
    for _ in range(ctx.n(6)):
        we, wf = impl.make_wl({"dev": "evo", "max_volume": F(950)}), impl.make_wl({"dev": "fluent", "max_volume": F(950)})
        for _g in range(rng.randint(3, 8)):
            R, C = rng.randint(1, 16), rng.randint(1, 24)
            Le = impl.Labware("L", R, C, min_volume=0, max_volume=1000, initial_volumes=500)
            Lf = impl.Labware("L", R, C, min_volume=0, max_volume=1000, initial_volumes=500)
            for w in {G.wid(R - 1, C - 1), G.wid(rng.randrange(R), rng.randrange(C)), G.wid(rng.randrange(R), C - 1)}:
                n0 = len(we)
                we.aspirate(Le, w, 10.0); wf.aspirate(Lf, w, 10.0)
                res.evaluations += 2
                a, b = [str(r) for r in we[n0:]], [str(r) for r in wf[len(wf) - (len(we) - n0):]]
                if a != b:
                    case = {"kind": "fn", "fn": "same-name plates on both devices", "geometry": [R, C], "well": w}
                    res.viol.append(Finding("devices-same-name-geometries", case,
                                            f"plate 'L' {R}x{C}, aspirate {w}: EVO {a} vs Fluent {b}", "C16:evo-fluent-differ"))
        res.dist["twin-only: same-name plates of several geometries"] += 1
    # twin-only stream (no model): a max_volume that is not a short binary fraction (950.3, 99.9 ...) with volumes at
    # its single-/half-precision neighbours, handed over in narrow numpy types — whatever the arithmetic noise of the
    # split steps, the two devices must agree with each other
    nd = [F(950.3), F(950.2), F(200.1), F(99.9), F(333.3), F(50.05)]
    prof3 = {"p_fail": 0.15, "nops": (1, 3), "kinds": ["transfer"], "fail_kinds": ["transfer"], "max_volumes": nd, "p_trough": 0.3, "p_near_equal": 0.0, "p_narrow_vols": 0.7, "p_dtype_neighbour": 0.4}
    for _ in range(ctx.n(60)):
        p = G.gen_worklist_program(rng, prof3)
        pe = copy.deepcopy(p); pe["cfg"] = dict(pe["cfg"], dev="evo")
        pf = copy.deepcopy(p); pf["cfg"] = dict(pf["cfg"], dev="fluent")
        re_, rf = impl.run_program(pe), impl.run_program(pf)
        res.programs += 2
        res.evaluations += len(re_.obs) + len(rf.obs)
        res.dist["twin-only: non-dyadic max_volume"] += 1
        case = {"kind": "stateful", "stream": "devices-twin-only", "prog": pe, "oracles": [], "stop_on_error": True, "strict_value": False, "twin": "fluent", "model": False}
        msg = compare_devices(pe, re_, rf)
        if msg:
            res.viol.append(Finding("devices-twin-only", case, msg, "C16:evo-fluent-differ"))
    return res


def compare_devices(prog, re_, rf):
    troughs = {s["name"] for s in prog["labs"] if s["kind"] == "trough" or s.get("vrows") is not None}
    for i, (a, b) in enumerate(zip(re_.obs, rf.obs)):
        ea, eb = a["err"], b["err"]
        vv = ("overflow", "underflow", "invalidOp")
        if (ea in vv or eb in vv) and ea != eb:
            return f"op {i}: EVO outcome {ea} vs Fluent outcome {eb}"
        if (ea is None) != (eb is None):
            return f"op {i}: accepted on one device only (EVO {ea}, Fluent {eb})"
        sa, sb = a["state"], b["state"]
        for li, (la, lb) in enumerate(zip(sa["labs"], sb["labs"])):
            if la["vols"] != lb["vols"]:
                return f"op {i}: labware {li} volumes differ between devices"
            if la["hist"] != lb["hist"]:
                return f"op {i}: labware {li} histories differ between devices"
            if [k for k, _ in la["comp"]] != [k for k, _ in lb["comp"]] or any(
                    any(abs(x - y) > F(1, 10**9) for x, y in zip(xa, xb)) for (_, xa), (_, xb) in zip(la["comp"], lb["comp"])):
                return f"op {i}: labware {li} compositions differ between devices"
        ra, rb_ = sa["recs"], sb["recs"]
        if len(ra) != len(rb_):
            return f"op {i}: {len(ra)} EVO records vs {len(rb_)} Fluent records"
        for x, y in zip(ra, rb_):
            if x == y:
                continue
            fx, fy = x.split(";"), y.split(";")
            if fx[0] != fy[0]:
                return f"op {i}: records differ in kind: {x!r} vs {y!r}"
            if fx[0] in ("A", "D"):
                diff = [n for n in range(max(len(fx), len(fy))) if n >= len(fx) or n >= len(fy) or fx[n] != fy[n]]
                if diff != [4] or fx[1] not in troughs:
                    return f"op {i}: records differ beyond a trough position: {x!r} vs {y!r}"
            elif fx[0] == "R" and len(fx) >= 16 and len(fy) >= 16:
                same = [1, 2, 3, 6, 7, 8, 11, 12, 13, 14, 15]
                if any(fx[n] != fy[n] for n in same):
                    return f"op {i}: R records differ in a non-position field: {x!r} vs {y!r}"
                if fx[4:6] != fy[4:6] and fx[1] not in troughs:
                    return f"op {i}: R source range differs although {fx[1]!r} is not a trough: {x!r} vs {y!r}"
                if (fx[9:11] != fy[9:11] or fx[16:] != fy[16:]) and fx[6] not in troughs:
                    return f"op {i}: R destination range differs although {fx[6]!r} is not a trough: {x!r} vs {y!r}"
            else:
                return f"op {i}: records differ: {x!r} vs {y!r}"
    return None


def base_refuses(prog, rb):
    for i, (op, ob) in enumerate(zip(prog["ops"], rb.obs)):
        needs = op["op"] in ("transfer", "distribute") or (
            op["op"] in ("aspirate", "dispense") and any(F(v) > 0 for v in O.flatF(op["vols"])) and ob["err"] not in ("overflow", "underflow"))
        if needs and ob["err"] is None:
            # aspirate/dispense whose volumes are all zero need no position
            return f"op {i} ({op['op']}) on a BaseWorklist was accepted although it needs device-specific numbering"
        if needs and ob["err"] is not None:
            n_before = len(rb.obs[i - 1]["state"]["recs"]) if i > 0 else 0
            new = [r for r in ob["state"]["recs"][n_before:] if r[0] in "ADR" and r[1] == ";"]
            if new:
                return f"op {i} ({op['op']}) on a BaseWorklist emitted {new[0]!r}"
    return None


# ------------------------------------------------------------------ EVO programs (C13, C10, C02)
def gen_evo_program(rng, p_fail=0.3, fail_kinds=None, nondyadic_max=None):
    b = G.Builder(rng, {"devices": ["evo"], "nlabs": [1, 2], "max_volumes": [F(950), F(200), F(100), F(50), F(25, 2), F(300)] + (nondyadic_max or [])})
    b.cfg["dev"] = "evo"
    b.wl = impl.make_wl(b.cfg)
    if b.labs is None:
        return b.program()
    nops = rng.randint(1, 5)
    for _ in range(nops):
        fail = rng.random() < p_fail
        op = evo_op(b, rng, fail, fail_kinds)
        if not b.push(op):
            break
        if op.get("tips") and op["op"] in ("evo_aspirate", "evo_dispense") and rng.random() < 0.35:
            # the same call once more with the tips RESPELLED so that the lists compare equal element by element while
            # meaning other tips: the int 4 is tip number 4, `Tip.T3` has the value 4 (IntEnum) and is tip number 3
            t2 = respell_tips(op["tips"])
            if t2 is not None:
                op2 = copy.deepcopy(op); op2["tips"] = t2
                if not b.push(op2):
                    break
    return b.program()


def respell_tips(tips):
    m = {("int", n): ("member", n) for n in (1, 2, 4, 8)}
    m.update({("member", n): ("int", n) for n in (1, 2, 4, 8)})
    out = [m.get(tuple(t), tuple(t)) for t in tips]
    return out if out != [tuple(t) for t in tips] else None


def evo_op(b, rng, fail, fail_kinds=None):
    if rng.random() < 0.2 and not fail_kinds:
        return evo_wash_op(rng, fail)
    li = rng.randrange(len(b.labs))
    L = b.labs[li]
    W = L.wells
    R, C = W.shape
    c = rng.randrange(C)
    k = rng.randint(1, min(R, 8))
    rows = sorted(rng.sample(range(R), k))
    wells = [str(W[r, c]) for r in rows]
    tips_n = sorted(rng.sample(range(1, 9), k))
    if rng.random() < 0.5:
        rng.shuffle(tips_n)      # the order of distinct tips is irrelevant
    tips = [("int", t) if rng.random() < 0.5 else ("member", 2 ** (t - 1)) for t in tips_n]
    kind = rng.choice(["evo_aspirate", "evo_dispense"])
    M = b.cfg["max_volume"]
    vols = []
    room_used = {}
    for w in wells:
        idx = L.indices[w]
        cur = F(float(L.volumes[idx])) + room_used.get(idx, F(0))
        room = (cur - F(L.min_volume)) if kind == "evo_aspirate" else (F(L.max_volume) - cur)
        room = max(F(0), min(room, M))
        room = b.adj(room)
        if F(M).denominator > 2**20:
            room = F(math.floor(room * 8), 8)      # volumes stay short binary fractions (exact in floating point)
        v = rng.choice([F(0), room, G.grid(rng, 0, room), G.grid(rng, 0, room / max(1, k))])
        v = min(v, room)
        vols.append(v)
        room_used[idx] = room_used.get(idx, F(0)) + (-v if kind == "evo_aspirate" else v)
    scalar = len(set(vols)) == 1 and rng.random() < 0.5
    op = {"op": kind, "lab": li, "wells": ("V", wells) if (k > 1 or rng.random() < 0.7) else ("S", wells[0]),
          "grid": rng.randint(1, 67), "site": rng.randint(1, 128), "tips": tips,
          "vol": vols[0] if scalar else vols, "liquid_class": rng.choice(["Water_FD", "LC µ", ""]),
          "arm": rng.choice([0, 0, 1]), "label": rng.choice([None, "evo step", "multi\nline"])}
    if kind == "evo_dispense" and rng.random() < 0.4:
        op["comps"] = [{"water": F(1)} for _ in wells]
    if fail:
        f = rng.choice(fail_kinds or ["order", "repeat", "tips_repeat", "tip_any", "columns", "grid", "site", "arm", "volume", "len", "tipnum", "lc", "toolarge", "limit"])
        if f == "order" and k > 1:
            op["wells"] = ("V", list(reversed(wells)))
        elif f == "repeat" and k > 1:
            op["wells"] = ("V", [wells[0]] + wells[:-1])
        elif f == "tips_repeat" and k > 1:
            op["tips"] = [tips[0]] + tips[:-1]
        elif f == "tip_any":
            op["tips"] = [("member", -1)] + tips[1:]
        elif f == "columns" and C > 1 and k > 1:
            # one (first / middle / last) or several wells moved to another column; the IDs stay in ascending order,
            # so only the single-column rule can refuse the call
            c2 = rng.choice([x for x in range(C) if x != c])
            ws = list(wells)
            where = rng.choice(["last", "first", "middle", "middle", "several", "samerow"])
            if where == "samerow":
                # a well of another column inserted next to its row neighbour (A01, A02, B01): IDs ascending,
                # first and last well in the same column, lengths of tips/volumes adjusted to match
                j = rng.randrange(k)
                extra = str(W[rows[j], c2])
                ws = sorted(ws + [extra])
                free = [t for t in range(1, 9) if t not in tips_n]
                if free and len(ws) <= 8:
                    op["tips"] = [("int", t) for t in sorted(tips_n + [free[0]])]
                    op["vol"] = vols + [F(0)]
                    op["wells"] = ("V", ws)
                    return op
                ws = list(wells)
                where = "middle"
            if where == "middle" and k > 2:
                j = rng.randint(1, k - 2)
                ws[j] = str(W[rows[j], c2])
            elif where == "first":
                ws[0] = str(W[rows[0], c2])
            elif where == "several" and k > 2:
                for j in rng.sample(range(k), rng.randint(1, k - 1)):
                    ws[j] = str(W[rows[j], c2])
            else:
                ws[-1] = str(W[rows[-1], c2])
            op["wells"] = ("V", ws)
        elif f == "grid":
            op["grid"] = rng.choice([0, 68, -1, proto.Bad(1.5)])
        elif f == "site":
            op["site"] = rng.choice([0, 129, proto.Bad(2.0)])
        elif f == "arm":
            op["arm"] = rng.choice([-1, 2])
        elif f == "volume":
            op["vol"] = [-F(1)] + [F(0)] * (k - 1)
        elif f == "len" and k > 1:
            op["tips"] = tips[:-1]
        elif f == "tipnum":
            op["tips"] = [("int", rng.choice([0, 9]))] + tips[1:]
        elif f == "lc":
            op["liquid_class"] = "a;b"
        elif f == "toolarge":
            # a per-tip volume above the worklist's max_volume that the labware itself could take
            idx = L.indices[wells[0]]
            cur = F(float(L.volumes[idx]))
            room = (cur - F(L.min_volume)) if kind == "evo_aspirate" else (F(L.max_volume) - cur)
            big = M + rng.choice([F(1, 8), F(1), F(50)])
            if room > big and rng.random() < 0.7:
                big = G.grid(rng, big, room) if rng.random() < 0.5 else big
            op["vol"] = [big] + [F(0)] * (k - 1)
            if F(M).denominator > 2**20:
                # max_volume is not a short binary fraction (600.3): its half/single precision neighbour above it,
                # handed over as a numpy scalar of that width, is still too large
                import numpy as np
                dtn = rng.choice(["float16", "float32"])
                nb = F(float(getattr(np, dtn)(float(M))))
                if nb > M:
                    op["vol"] = [nb] + [F(0)] * (k - 1)
                    op["vol_dtype"] = dtn
                else:
                    # (every volume stays a short binary fraction: the tracking of a refused EVO command keeps it)
                    op["vol"] = [F(math.ceil(M * 8), 8) + rng.choice([F(0), F(1, 8), F(1)])] + [F(0)] * (k - 1)
        elif f == "limit":
            idx = L.indices[wells[0]]
            cur = F(float(L.volumes[idx]))
            v = (cur - F(L.min_volume) + 1) if kind == "evo_aspirate" else (F(L.max_volume) - cur + 1)
            if v <= M:
                op["vol"] = [b.snap(v) + (1 if b.inexact else 0)] + [F(0)] * (k - 1)
    return op


def evo_wash_op(rng, fail):
    k = rng.randint(1, 8)
    tips_n = rng.sample(range(1, 9), k)
    op = {"op": "evo_wash", "tips": [("int", t) if rng.random() < 0.5 else ("member", 2 ** (t - 1)) for t in tips_n],
          "waste_grid": rng.randint(1, 67), "waste_site": rng.randint(1, 128), "cleaner_grid": rng.randint(1, 67),
          "cleaner_site": rng.randint(1, 128), "arm": rng.choice([0, 1]),
          "waste_vol": rng.choice([F(3), F(1, 2), F(100), F(0), proto.PyInt(3), F(5, 4), F(1, 8)]), "waste_delay": rng.choice([0, 500, 1000]),
          "cleaner_vol": rng.choice([F(4), F(1, 4), proto.PyInt(10), F(100)]), "cleaner_delay": rng.choice([0, 500, 1000]),
          "airgap": rng.choice([0, 10, 100]), "airgap_speed": rng.choice([1, 70, 1000]), "retract_speed": rng.choice([1, 30, 100]),
          "fastwash": rng.choice([0, 1]), "low_volume": rng.choice([0, 1])}
    if fail:
        key, vals = rng.choice([("waste_grid", [0, 68]), ("waste_site", [0, 129]), ("cleaner_grid", [0, 68]), ("cleaner_site", [0, 129]),
                                ("arm", [-1, 2]), ("waste_vol", [F(-1), F(101)]), ("waste_delay", [-1, 1001, proto.Bad(1.5)]),
                                ("cleaner_vol", [F(-1, 2), F(201, 2)]), ("cleaner_delay", [-1, 1001]), ("airgap", [-1, 101]),
                                ("airgap_speed", [0, 1001]), ("retract_speed", [0, 101]), ("fastwash", [2, -1]), ("low_volume", [2]),
                                ("tips", [[("int", 0)], [("int", 9)], [("int", 1), ("int", 1)], [("member", -1)]])])
        op[key] = rng.choice(vals)
    return op


# ------------------------------------------------------------------ pure function streams
def fn_stream(ctx, res, stream, cases, compare=None):
    """cases: list of dicts {"line": driver request, "impl": canonical answer of the implementation,
    "case": json-able description, "oracle": None or failure message, "sig": signature}."""
    if not cases:
        return
    answers = proto.run_driver(["fn " + c["line"] for c in cases])
    res.programs += len(cases)
    for c, a in zip(cases, answers):
        res.note_case(c["case"], c.get("nontrivial", True))
        res.dist[f"{stream}:" + ("err" if c["impl"].startswith("err") else "ok")] += 1
        same = compare(c["impl"], a) if compare else (c["impl"] == a)
        if not same:
            res.corr.append(Finding(stream, c["case"], f"impl={c['impl'][:300]} model={a[:300]}"))
        if c.get("oracle"):
            res.viol.append(Finding(stream, c["case"], c["oracle"], c.get("sig")))


def guarded(f):
    try:
        return f()
    except Exception as e:  # noqa: BLE001
        return "err:" + impl.classify(e)


def fn_partition_volume(ctx, res):
    from robotools.worklists.utils import partition_volume
    rng = ctx.rng
    Ms = [F(950), F(1000), F(100), F(50), F(1), F(25, 2), F(5, 2), F(75, 2), F(5, 8), F(1, 8), F(7), F(33, 4), F(3)]
    cases = []
    pairs = set()
    for M in Ms:
        for k in range(0, 5):
            for d in (-F(1, 8), F(0), F(1, 8), F(1, 2), F(1)):
                v = k * M + d
                if v >= 0:
                    pairs.add((v, M))
    # a hair above / below an exact multiple (relative 2^-32, absolute 2^-20; all exactly representable in binary64):
    # the number of steps is ceil(v / M), not a rounded ratio
    for M in Ms:
        if M.denominator == 1:
            for k in range(1, 5):
                for e in (F(1, 2**32), -F(1, 2**32)):
                    pairs.add((k * M * (1 + e), M))
                for d in (F(1, 2**20), -F(1, 2**20)):
                    pairs.add((k * M + d, M))
    while len(pairs) < ctx.n(1500):
        M = rng.choice(Ms) if rng.random() < 0.6 else G.grid(rng, F(1, 8), 1200)
        if M <= 0:
            continue
        v = G.grid(rng, 0, min(40 * M, 100000)) if rng.random() < 0.8 else rng.randint(0, 60) * M
        pairs.add((v, M))
    for v, M in sorted(pairs):
        def call(v=v, M=M):
            out = partition_volume(float(v), max_volume=(int(M) if M.denominator == 1 and rng.random() < 0.5 else float(M)))
            ans = "ok " + ",".join(proto.e_rat(F(float(x))) for x in out)
            while out:
                out.pop()         # the caller works the steps off; the list is the caller's
            return ans
        ans = guarded(call)
        msg = None
        if ans.startswith("ok"):
            steps = [proto.d_rat(x) for x in ans[3:].split(",")] if len(ans) > 3 else []
            want = 0 if v == 0 else max(1, math.ceil(v / M))
            tol = F(1, 10**9) * max(1, v)
            if len(steps) != want:
                msg = f"partition_volume({float(v)}, max_volume={float(M)}) has {len(steps)} steps, expected {want}: {[float(s) for s in steps]}"
            elif any(not (0 < s <= M + tol) for s in steps):
                msg = f"partition_volume({float(v)}, max_volume={float(M)}) step outside (0, max]: {[float(s) for s in steps]}"
            elif abs(sum(steps) - v) > tol:
                msg = f"partition_volume({float(v)}, max_volume={float(M)}) sums to {float(sum(steps))}"
        else:
            msg = f"partition_volume({float(v)}, max_volume={float(M)}) raised {ans}"
        cases.append({"line": f"partition_volume {proto.e_rat(v)} {proto.e_rat(M)}", "impl": ans,
                      "case": {"kind": "fn", "fn": "partition_volume", "v": v, "M": M}, "oracle": msg, "sig": "C06:partition_volume",
                      "nontrivial": v > 0})

    def cmp(a, b):
        if a == b:
            return True
        if not (a.startswith("ok") and b.startswith("ok")):
            return False
        xa = [proto.d_rat(x) for x in a[3:].split(",")] if len(a) > 3 else []
        xb = [proto.d_rat(x) for x in b[3:].split(",")] if len(b) > 3 else []
        return len(xa) == len(xb) and all(abs(x - y) <= F(1, 10**9) * max(1, abs(y)) for x, y in zip(xa, xb))
    fn_stream(ctx, res, "partition_volume", cases, cmp)


# ------------------------------------------------------------------ shrink / replay
def run_case(case):
    """Re-run one case on implementation, model and oracles; returns (corr_diffs, oracle_failures)."""
    if case.get("kind") == "stateful":
        res = Result()
        ctx = Ctx("replay", "quick", 0)
        progs = [case["prog"]]
        if case.get("twin"):
            pass
        stateful(ctx, res, case.get("stream", "replay"), progs, case.get("oracles", []),
                 stop_on_error=case.get("stop_on_error", True), strict_value=case.get("strict_value", False))
        return res
    return None


def shrink(prop, f: Finding, budget=60):
    """Greedy shrinking of stateful programs: drop operations / wells while the same signature persists."""
    case = f.case
    if not case or case.get("kind") != "stateful" or f.sig is None or case.get("twin"):
        return f
    best = case
    tries = 0

    def still_fails(c):
        nonlocal tries
        tries += 1
        try:
            r = run_case(c)
        except Exception:  # noqa: BLE001
            return None
        for v in r.viol:
            if v.sig == f.sig:
                return v
        return None

    improved = True
    cur_f = f
    while improved and tries < budget:
        improved = False
        ops = best["prog"]["ops"]
        for k in range(len(ops) - 1, -1, -1):
            if len(ops) <= 1:
                break
            cand = copy.deepcopy(best)
            del cand["prog"]["ops"][k]
            v = still_fails(cand)
            if v is not None:
                best, cur_f, improved = cand, v, True
                break
            if tries >= budget:
                break
    return Finding(cur_f.stream, best, cur_f.detail, cur_f.sig)


def replay(prop, path):
    data = json.loads(Path(path).read_text())
    if data.get("kind") == "no-failing-input-found":
        print("replay file names broken obligations, no failing input:")
        print(json.dumps({k: data[k] for k in ("broken_obligations",) if k in data}, indent=1))
        for c in data.get("correspondence_breaks", []):
            print("correspondence break:", c.get("detail"))
        return 1
    fnd = data["finding"]
    case = proto.from_json(fnd["case"])
    print("case:", proto.dumps(case)[:2000])
    if case and case.get("kind") == "stateful":
        r = run_case(case)
        for c in r.corr:
            print("correspondence:", c.detail)
        for v in r.viol:
            print("oracle:", v.sig, v.detail)
        return 1 if r.viol else 0
    print("recorded failure:", fnd.get("detail"))
    rerun = REPLAYERS.get(case.get("kind") if case else None)
    if rerun:
        return rerun(case)
    return 1


REPLAYERS = {}

PROPS = {}


def register(pid, run, **kw):
    PROPS[pid] = dict(run=run, **kw)


register("C01", run_C01, module="Robotools.Props.C01", extra_modules=["Robotools.Props.C01Dist"],
         theorems=["Robotools.C01." + t for t in ("replay_volumes", "match_vol", "record_address", "roundHalfEven_close", "render_vol_close",
                                                  "step_amounts", "replay_composition", "amount_well")]
                  + ["Robotools.Amt." + t for t in ("amtOf_amtMerge", "take_amt", "put_amt", "interp_asp_amt", "interp_disp_amt", "asp1", "disp1",
                                                    "ablock_pair", "ablock_compileTransfer", "compile_ablock", "amtOK_ofLabs")]
                  + ["Robotools.C01D." + t for t in ("replay_volumes_dist", "replay_volumes_evo", "replay_volumes_fluent", "srcOK_evo", "srcOK_fluent", "compile_safeD",
                                                     "replay_composition_dist", "replay_composition_evo", "replay_composition_fluent", "compile_ablockD")]
                  + ["Robotools.Dist." + t for t in ("ablock_compileDistribute", "dist_core", "go_amt", "interp_rd_amt", "exec_ads_amt")]
                  + ["Robotools.Dist." + t for t in ("posInj_evo", "posInj_fluent_plate", "posInj_fluent_trough1", "nodup_pos")]
                  + ["Robotools.Dist." + t for t in ("safe_compileDistribute", "interp_rd", "go_spec", "dsts_eq", "addChecked_perm", "exec_ads")]
                  + ["Robotools.RP." + t for t in ("wellOf_pos", "interp_asp", "interp_disp", "asp_core", "disp_core", "compile_safe")],
         rule="generated worklist programs (1-8 ops, 1-3 labware); non-trivial = contains an accepted liquid-moving operation; distinct by canonical JSON")
register("C02", run_C02, module="Robotools.Props.C02",
         theorems=["Robotools.C02." + t for t in ("addStep_ok_iff", "addStep_vol", "addStep_err", "removeStep_ok_iff", "removeStep_vol",
                   "removeStep_err", "addStep_valid", "removeStep_valid", "micro_valid", "exec_decompose", "exec_append", "exec_valid",
                   "compile_nonneg", "step_limits", "world_limits", "mk_valid", "trough_mk_valid")]
                  + ["Robotools.GenFns." + t for t in ("all_translated", "gen_add_step_spec", "gen_remove_step_spec", "gen_addStep_ok", "gen_removeStep_ok")],
         extra_modules=["Robotools.Proofs.GenFns"], rule="add/remove histories and worklist programs with boundary-biased volumes; rejected operations are followed by further operations")
register("C03", run_C03, module="Robotools.Props.C03", extra_modules=["Robotools.Props.C01Dist", "Robotools.Proofs.OrderOK"],
         genok=["gen_orderAspirate_ok", "gen_orderDispense_ok", "gen_orderDistribute_ok", "gen_orderEvoAspirate_ok", "gen_orderEvoDispense_ok"],
         theorems=["Robotools.C03." + t for t in ("step_safe", "step_cfg", "step_wf", "abort_safe", "run_safe", "steps_bounded", "prepareAD_oversize", "pair_mem_plan_nosplit", "no_split_rejects")]
                  + ["Robotools.RP." + t for t in ("safe_append", "safe_rm_emit", "safe_ad_emit", "safe_compileTransfer", "compile_safe", "within_compile", "recs_within_exec")]
                  + ["Robotools.C01D.abort_safe_dist", "Robotools.C01D.abort_safe_evo", "Robotools.C01D.abort_safe_fluent", "Robotools.C01D.step_safeD", "Robotools.Dist.safe_compileDistribute", "Robotools.Dist.compileRD_cases",
                     "Robotools.Dist.posInj_evo", "Robotools.Dist.nodup_pos"]
                  + ["Robotools.OrderOK." + t for t in ("compileAspirate_order", "compileDispense_order", "compileDistribute_order",
                                                        "compileEvoAspirate_order", "compileEvoDispense_order")],
         rule="worklist programs whose last operation is built to fail at a chosen sub-step; records replayed after every operation")
register("C04", run_C04, module="Robotools.Props.C04",
         theorems=["Robotools.C04." + t for t in ("micro_shape", "executed_prefix", "executed_all_of_ok", "exec_ledger", "exec_frame",
                   "compileRemove_shape", "compileAdd_shape", "compileAdd_rejects_shape", "compileRemove_rejects_shape", "scalar_broadcast",
                   "flattenF_mat_get", "flattenF_mat_length", "flattenF_pairs", "trough_alias", "plate_index", "repeat_charged")], rule="direct add/remove histories over plates and troughs with scalar/list/2-D arguments and repeats")
register("C05", run_C05, module="Robotools.Props.C05History", extra_modules=["Robotools.Proofs.GenFns"],
         theorems=["Robotools.C05." + t for t in ("combine_zero", "combine_spec", "wellComp_spec", "addStep_amount", "addStep_compValid",
                   "removeStep_frac", "removeStep_amount", "addStep_fracSum", "frac_range", "pair_conserves", "pair_same_well",
                   "history_normalised", "history_ideal_mixture", "history_normalised_dist", "history_ideal_mixture_dist", "constructed_good")]
                  + ["Robotools.CtorGood.mk_good", "Robotools.CtorGood.trough_mk_good"]
                  + ["Robotools.GenFns.all_translated", "Robotools.GenFns.gen_combine_composition_ok"]
                  + ["Robotools.Amt." + t for t in ("mixed_removeStep", "mixed_addStep", "take_amt", "put_amt", "ablock_pair", "compile_ablock")], rule="transfer/distribute/dispense histories with shared component names; exact amounts ledger")
register("C06", run_C06, module="Robotools.Props.C06",
         theorems=["Robotools.C06.partition_spec", "Robotools.C06.partition_zero", "Robotools.C06.multi_disp_fits",
                   "Robotools.C06.multi_disp_unchanged", "Robotools.C06.source_partition_spec",
                   "Robotools.GenFns.gen_partition_volume_ok", "Robotools.GenFns.translated"], rule="(volume, max_volume) grid incl. k*M, k*M±step, non-integer M; plus transfers with split volumes")
register("C07", run_C07, module="Robotools.Props.C07",
         theorems=["Robotools.C07." + t for t in ("flows_split", "flows_nosplit", "flows_perm", "flows_mode_indep", "discipline",
                   "pair_volume_bounds", "break_closes", "no_break_without_split", "action_records", "pair_same_fields", "rejects_lengths",
                   "rejects_negative", "base_refuses_transfer")], rule="transfer programs: shuffled triples with repeats, all wash schemes / partition modes / DiTi")
register("C11", run_C11, module="Robotools.Props.C11",
         theorems=["Robotools.C11." + t for t in ("micro_hist_other", "micro_hist_log", "exec_hist_append", "condense_spec", "add_one_entry",
                   "remove_one_entry", "aspirate_one_entry", "dispense_one_entry", "record_ops_no_entry", "transfer_entries", "lvh_count",
                   "lvh_zero_no_split", "lvh_label", "report_order")], rule="mixed histories; history compared after every operation against deep copies")
register("C16", run_C16, module="Robotools.Props.C16",
         theorems=["Robotools.C16." + t for t in ("compile_erase", "step_sim", "device_simulation", "same_labware", "same_records", "eraseRec_asp_outside", "base_refuses_transfer", "base_emits_nothing")]
                  + ["Robotools.Dev." + t for t in ("exec_erase", "emitAD_erase", "compileTransfer_erase", "compileDistribute_erase", "compileRD_erase", "excluded_in_range", "pos_valid", "prepareAD_pos")],
         rule="each program executed on EvoWorklist, FluentWorklist and BaseWorklist against one device-parametric model")


# ------------------------------------------------------------------ C19 get_trough_wells
def run_C19(ctx):
    from robotools import get_trough_wells
    import numpy as np
    res = Result()
    rng = ctx.rng
    cases = []
    seen = set()
    for _ in range(ctx.n(500)):
        L = rng.randint(1, 26)
        mode = rng.random()
        ids = [G.wid(r, 0) for r in range(L)]
        if mode < 0.4:
            arr = ("V", ids)
        elif mode < 0.7 and L % 2 == 0:
            r, c = 2, L // 2
            arr = ("M", r, c, [G.wid(i, j) for i in range(r) for j in range(c)])
        else:
            r = rng.randint(1, 8); c = rng.randint(1, 3)
            arr = ("M", r, c, [G.wid(i, j) for i in range(r) for j in range(c)])
        flat = G.Builder.flatF(arr)
        n = rng.choice([0, 1, len(flat) - 1, len(flat), len(flat) + 1, 2 * len(flat), 3 * len(flat), rng.randint(0, 200), -1, proto.Bad(2.5)])
        if rng.random() < 0.08:
            # no wells at all: a flat empty list, or an empty 2-D selection (e.g. `trough.wells[:, 2:]` of a 2-column trough)
            arr = rng.choice([("V", []), ("M", rng.randint(1, 8), 0, []), ("M", 0, rng.randint(1, 3), [])])
            flat = []
        key = (repr(n), proto.dumps(arr))
        if key in seen:
            continue
        seen.add(key)
        sdt = rng.random() < 0.15
        def call(n=n, arr=arr, sdt=sdt):
            wells = impl.arr_str(arr) if arr[0] != "V" else np.array(arr[1], dtype=str) if rng.random() < 0.5 else list(arr[1])
            if sdt and isinstance(wells, np.ndarray) and wells.size and hasattr(np.dtypes, "StringDType"):
                # NumPy 2's variable-width string arrays are arrays of well IDs like any other
                wells = wells.astype(np.dtypes.StringDType())
            out = get_trough_wells(impl.fl(n), wells)
            return "ok " + ",".join(proto.e_str(str(x)) for x in out)
        ans = guarded(call)
        msg = None
        ok_n = isinstance(n, int) and n >= 0 and len(flat) > 0
        if ok_n:
            want = [flat[i % len(flat)] for i in range(n)]
            if ans != "ok " + ",".join(proto.e_str(x) for x in want):
                msg = f"get_trough_wells({n}, {flat[:6]}…) returned {ans[:120]}, expected the wells cyclically"
        elif not ans.startswith("err"):
            msg = f"get_trough_wells({n!r}, {len(flat)} wells) accepted"
        cases.append({"line": f"trough_wells {proto.e_intarg(n)} {proto.e_arr(proto.e_str, arr)}", "impl": ans,
                      "case": {"kind": "fn", "fn": "get_trough_wells", "n": n, "wells": arr}, "oracle": msg, "sig": "C19:get_trough_wells",
                      "nontrivial": ok_n and n > 0})
    fn_stream(ctx, res, "get_trough_wells", cases, lambda a, b: a == b or (a.startswith("err") and b.startswith("err")))
    # oracle-only: counts that are numpy integer scalars of every width (also close to the maximum of a narrow type) or
    # Python bools.  Whether such an `n` is an "integer" is not settled by the statement, so the call may be refused —
    # but if it is accepted it must return exactly n wells in cycling order (never fewer, never silently none).
    for _ in range(ctx.n(80)):
        L = rng.randint(1, 12)
        ids = [G.wid(r, 0) for r in range(L)]
        ty = rng.choice([np.int8, np.uint8, np.int16, np.uint16, np.int32, np.int64, bool])
        top = 1 if ty is bool else min(int(np.iinfo(ty).max), 70000)      # (wide types: small counts only)
        nv = min(top, rng.choice([top, max(0, top - rng.randint(0, L)), rng.randint(0, min(top, 300)), 0, L, 2 * L]))
        n = ty(nv)
        ans = guarded(lambda: "ok " + ",".join(str(x) for x in get_trough_wells(n, list(ids))))
        want = "ok " + ",".join(ids[i % L] for i in range(int(nv)))
        case = {"kind": "fn", "fn": "get_trough_wells_npint", "n": int(nv), "type": ty.__name__, "wells": L}
        res.note_case(case, True)
        res.dist["get_trough_wells:numpy-or-bool-count:" + ("err" if ans.startswith("err") else "ok")] += 1
        if not ans.startswith("err") and ans != want:
            res.viol.append(Finding("get_trough_wells", case, f"get_trough_wells({ty.__name__}({nv}), {L} wells) was accepted but returned "
                                    f"{0 if ans == 'ok ' else len(ans[3:].split(','))} wells instead of {nv} in cycling order", "C19:numpy-count"))
    return res


# ------------------------------------------------------------------ C18 partition_by_column
def run_C18(ctx):
    from robotools.worklists.utils import partition_by_column, optimize_partition_by
    res = Result()
    rng = ctx.rng
    cases = []
    for _ in range(ctx.n(400)):
        n = rng.choice([0, 1, 2, 3, 5, 8, 12, 16, 24, 40])
        R = rng.choice([2, 4, 8, 16, 26]); C = rng.choice([1, 2, 3, 12, 24, 99])
        pool_s = [G.wid(rng.randrange(R), rng.randrange(C)) for _ in range(max(1, n // 2 + 1))]
        pool_d = [G.wid(rng.randrange(R), rng.randrange(C)) for _ in range(max(1, n))]
        ss = [rng.choice(pool_s) for _ in range(n)]
        ds = [rng.choice(pool_d) for _ in range(n)]
        vs = [G.grid(rng, 0, 300) for _ in range(n)]
        mode = rng.choice(["source", "destination", "source", "destination", "auto", "rows", ""])
        # numpy's argsort is not stable beyond 16 elements: keep groups with tied keys small
        key = ss if mode == "source" else ds
        byg = Counter(k[1:] for k in key)
        if any(cnt > 16 for cnt in byg.values()) and len(set(key)) < len(key):
            continue
        def call():
            out = partition_by_column(ss, ds, [float(v) for v in vs], mode)
            return "ok " + "|".join(";".join(f"{proto.e_str(str(s))},{proto.e_str(str(d))},{proto.e_rat(F(float(v)))}" for s, d, v in zip(*g)) for g in out)
        ans = guarded(call)
        msg = None
        if mode in ("source", "destination") and ans.startswith("ok"):
            groups = [[tuple(t.split(",")) for t in g.split(";")] for g in ans[3:].split("|")] if len(ans) > 3 else []
            flat = [t for g in groups for t in g]
            want = sorted((proto.e_str(s), proto.e_str(d), proto.e_rat(v)) for s, d, v in zip(ss, ds, vs))
            side = 0 if mode == "source" else 1
            if sorted(flat) != want:
                msg = "groups do not contain exactly the input triples"
            else:
                cols = []
                for g in groups:
                    ks = {proto.d_str(t[side])[1:] for t in g}
                    if len(ks) != 1:
                        msg = "a group mixes columns"
                    cols.append(sorted(ks)[0])
                    rows = [proto.d_str(t[side]) for t in g]
                    if rows != sorted(rows):
                        msg = "rows within a group not ascending"
                if cols != sorted(set(cols)) and msg is None:
                    msg = "groups not in ascending column order / column split over groups"
        elif mode not in ("source", "destination") and n > 0 and not ans.startswith("err"):
            msg = f"invalid mode {mode!r} accepted"
        if n == 0 and mode not in ("source", "destination"):
            continue   # nothing to iterate: the mode is never inspected
        if msg:
            msg = f"partition_by_column({ss}, {ds}, …, {mode!r}): {msg}"
        cases.append({"line": f"partition_by_column {','.join(proto.e_str(s) for s in ss) or '_'} {','.join(proto.e_str(s) for s in ds) or '_'} {','.join(proto.e_rat(v) for v in vs) or '_'} {proto.e_str(mode)}",
                      "impl": ans, "case": {"kind": "fn", "fn": "partition_by_column", "src": ss, "dst": ds, "vols": vs, "mode": mode},
                      "oracle": msg, "sig": "C18:partition_by_column", "nontrivial": n > 1})
    fn_stream(ctx, res, "partition_by_column", cases, lambda a, b: a == b or (a.startswith("err") and b.startswith("err")))
    # optimize_partition_by
    cases = []
    import warnings as _w
    def mk(name, kind):
        # every way of declaring the two kinds of labware: Trough(...), the generic constructor with virtual_rows
        # (also a trough: `is_trough`), multi-row plates, single-row strips and single-well plates (not troughs)
        with _w.catch_warnings():
            _w.simplefilter("ignore")
            if kind == "Trough":
                return impl.Trough(name, rng.choice([1, 2, 8]), rng.choice([1, 3]), min_volume=0, max_volume=10)
            if kind == "Labware(virtual_rows)":
                return impl.Labware(name, 1, rng.choice([1, 3]), min_volume=0, max_volume=10, virtual_rows=rng.choice([1, 4, 8]))
            if kind == "plate":
                return impl.Labware(name, rng.choice([2, 8]), rng.choice([1, 12]), min_volume=0, max_volume=10)
            return impl.Labware(name, 1, rng.choice([1, 4]), min_volume=0, max_volume=10)      # strip / single well
    kinds = [("Trough", True), ("Labware(virtual_rows)", True), ("plate", False), ("strip", False)]
    for sk, st in kinds:
        for dk, dt in kinds:
            for mode in ("auto", "source", "destination", "rows", "", "Auto"):
                S = mk("S", sk)
                D = mk("D", dk)
                # the label only decorates a warning: whatever text it is, the decision is the same
                lab = rng.choice([None, "", "wash", "Feed {glucose}", "}", "{", "{0} %s %(x)s", "50 % {}"])
                ans = guarded(lambda: "ok " + (optimize_partition_by(S, D, mode) if lab is None else optimize_partition_by(S, D, mode, label=lab)))
                want = None
                if mode == "auto":
                    want = "ok destination" if (st and not dt) else "ok source"
                elif mode in ("source", "destination"):
                    want = "ok " + mode
                msg = None
                if (want is not None and ans != want) or (want is None and not ans.startswith("err")):
                    msg = f"optimize_partition_by(source={sk} (trough={st}), destination={dk} (trough={dt}), {mode!r}) = {ans}"
                cases.append({"line": f"optimize {int(st)} {int(dt)} {proto.e_str(mode)}", "impl": ans,
                              "case": {"kind": "fn", "fn": "optimize_partition_by", "src": sk, "dst": dk, "src_trough": st, "dst_trough": dt, "mode": mode, "label": lab},
                              "oracle": msg, "sig": "C18:optimize_partition_by"})
    fn_stream(ctx, res, "optimize_partition_by", cases)
    res.exhaustive = False
    return res


register("C19", run_C19, module="Robotools.Props.C19",
         theorems=["Robotools.C19." + t for t in ("rejects_empty", "length_eq", "get_mod", "zero", "arr_colmajor")]
                  + ["Robotools.GenFns." + t for t in ("all_translated", "gen_get_trough_wells_ok", "gen_get_trough_wells_neg")], extra_modules=["Robotools.Proofs.GenFns"], rule="(n, wells) pairs: n in {0,1,len-1,len,len+1,k*len,random,negative,non-int}; wells as list, 1-D and 2-D arrays of length 1..26")
register("C18", run_C18, module="Robotools.Props.C18",
         theorems=["Robotools.C18." + t for t in ("perm", "single_column", "groups_nonempty", "groups_sorted", "group_keys_complete",
                                                  "rows_sorted", "auto_rule", "explicit_respected", "invalid_mode_rejected")]
                  + ["Robotools.GenFns.all_translated", "Robotools.GenFns.gen_optimize_partition_by_ok"], extra_modules=["Robotools.Proofs.GenFns"], rule="triple lists of length 0..40 with repeated wells and equal keys, rows A..Z, columns 1..99, both modes and invalid modes; all optimize_partition_by combinations of 4 labware declarations (Trough, Labware(virtual_rows=..), plate, strip) x 6 modes")


# ------------------------------------------------------------------ C10 tip masks
def run_C10(ctx):
    import itertools
    from robotools.worklists.utils import prepare_aspirate_dispense_parameters as prep
    res = Result()
    rng = ctx.rng
    syms = [("int", n) for n in range(1, 9)] + [("member", 2 ** k) for k in range(8)]
    tip_no = lambda s: s[1] if s[0] == "int" else int(math.log2(s[1])) + 1
    args = []
    for s in syms:
        args.append(("single", s))
    args.append(("single", ("member", -1)))
    for bad in (("int", 0), ("int", 9), ("int", -1), ("bad", 1.5), ("bad", "1"), ("bad", None)):
        args.append(("single", bad))
    # all 255 subsets, three orders / representations each
    for mask in range(1, 256):
        tips = [k + 1 for k in range(8) if mask >> k & 1]
        for _ in range(3):
            l = [rng.choice([("int", t), ("member", 2 ** (t - 1))]) for t in tips]
            l += [rng.choice(l) for _ in range(rng.choice([0, 0, 1, 3]))]
            rng.shuffle(l)
            args.append(("many", l))
    args.append(("many", []))
    seqs = list(itertools.product(syms, repeat=3)) + list(itertools.product(syms, repeat=2))
    if ctx.tier != "thorough":
        seqs = rng.sample(seqs, 400)
    else:
        res.exhaustive = True
    args += [("many", list(s)) for s in seqs]
    for _ in range(ctx.n(60)):
        l = [rng.choice(syms) for _ in range(rng.randint(1, 4))]
        l.insert(rng.randrange(len(l) + 1), rng.choice([("int", 0), ("int", 9), ("member", -1), ("bad", 2.0), ("bad", "x")]))
        args.append(("many", l))
    # long collections: one tip listed 255 / 256 / 257 / 512 / 65536 times next to others (a counter of a narrow integer
    # type would wrap to "not selected")
    for reps in (255, 256, 257, 512, 65536):
        for _ in range(2):
            s0, s1 = rng.choice(syms), rng.choice(syms)
            l = [s0] * reps + [s1]
            if rng.random() < 0.5:
                rng.shuffle(l)
            args.append(("many", l))
    cases = []
    # every collection is handed over as a list, a tuple and an object array (any iterable is legal; a tuple is hashable, and
    # `Tip.T3 == 4` although the int 4 means tip number 4: equal-looking tuples are different selections)
    for a, cont in [(a, c) for a in args for c in (("list", "tuple", "array") if a[0] == "many" else (None,))]:
        def call(a=a, cont=cont):
            out = prep("L", 1, 10.0, "", impl.tiparg(a, cont), "", "", "", "")[4]
            return "ok ~" if out == "" else f"ok {int(out)}"
        ans = guarded(call)
        elems = [a[1]] if a[0] == "single" else a[1]
        valid = all(e[0] in ("int", "member") and (1 <= e[1] <= 8 if e[0] == "int" else e[1] in [2 ** k for k in range(8)]) for e in elems)
        if a == ("single", ("member", -1)):
            want = "ok ~"
        elif valid:
            m = 0
            for e in elems:
                m |= 1 << (tip_no(e) - 1)
            want = f"ok {m}"
        else:
            want = "err:valueErr"
        msg = None if ans == want else f"tip={impl.tiparg(a, cont)!r}: emitted {ans}, expected {want}"
        cases.append({"line": "tipmask " + proto.e_tiparg(a), "impl": ans, "case": {"kind": "fn", "fn": "tipmask", "tip": a, "container": cont},
                      "oracle": msg, "sig": "C10:tipmask", "nontrivial": a[0] == "many"})
    fn_stream(ctx, res, "tipmask", cases)
    # EVO script commands and record pairs
    progs = [gen_evo_program(rng, p_fail=0.25) for _ in range(ctx.n(60))]
    stateful(ctx, res, "evo", progs, ["evo"])
    progs = [G.gen_worklist_program(rng, {"kinds": ["transfer"], "nops": (1, 2), "p_fail": 0.0}) for _ in range(ctx.n(40))]
    stateful(ctx, res, "transfer-pairs", progs, ["transfer"])
    # multi-well aspirate / dispense with a tip collection that has exactly one member per well (list, tuple, object
    # array): every record carries the OR of the collection, not "its" member
    progs = [G.gen_worklist_program(rng, {"kinds": ["aspirate", "dispense"], "nops": (1, 4), "p_fail": 0.0, "p_tips_per_well": 0.8}) for _ in range(ctx.n(40))]
    stateful(ctx, res, "aspirate-dispense-tips-per-well", progs, ["records_masks"])
    # only the clauses of C10: mask / slot occupancy of EVO commands, equal masks on both records of a pair
    res.viol = [f for f in res.viol if f.sig and (f.sig.startswith("C10:") or f.sig == "C07:pair-fields-differ")]
    return res


register("C10", run_C10, module="Robotools.Props.C10",
         theorems=["Robotools.C10." + t for t in ("mask_single", "mask_member", "mask_any", "mask_rejects_int", "mask_rejects_bad", "mask_list",
                                                  "mask_set_ext", "mask_list_rejects", "evo_mask_or", "slot_i_is_tip_i", "fillSlots_length",
                                                  "fillSlots_volumes")],
         genok=["gen_tipTable_ok", "gen_tipEnum_ok", "gen_tipSlots_ok", "gen_tipAggregation_ok"],
         rule="all single symbols, all 255 subsets x 3 orders/representations with duplicates, sequences of length <=3 over the 16 tip symbols (sampled in quick, exhaustive in thorough), invalid members; EVO commands and transfer pairs")


# ------------------------------------------------------------------ C12 selection strings
def run_C12(ctx):
    import itertools
    from robotools.evotools.commands import evo_get_selection, evo_make_selection_array
    res = Result()
    rng = ctx.rng
    sels = []
    limit = 10 if ctx.tier == "quick" else 14
    for R in range(1, 27):
        for C in range(1, 49):
            n = R * C
            wells = [(r, c) for c in range(C) for r in range(R)]
            if n <= limit:
                for mask in range(1 << n):
                    sels.append((R, C, [wells[k] for k in range(n) if mask >> k & 1]))
            else:
                if ctx.tier == "thorough" or rng.random() < 0.12:
                    sels.append((R, C, list(wells)))
                    sels.append((R, C, []))
                    for w in (wells if (ctx.tier == "thorough" and n <= 96) else rng.sample(wells, min(3, n))):
                        sels.append((R, C, [w]))
                for _ in range(1 if ctx.tier == "quick" else 3):
                    if rng.random() < (0.15 if ctx.tier == "quick" else 1.0):
                        k = rng.randint(1, min(n, 12))
                        sels.append((R, C, rng.sample(wells, k)))
    # the same well named more than once (two tips on one well, a list concatenated with itself): the selected SET counts
    for R, C in [(8, 12), (1, 1), (2, 1), (4, 6), (16, 24), (1, 8), (3, 5)] + [(rng.randint(1, 26), rng.randint(1, 48)) for _ in range(ctx.n(40))]:
        wells = [(r, c) for c in range(C) for r in range(R)]
        base = rng.sample(wells, rng.randint(1, min(len(wells), 6)))
        rep = base + [rng.choice(base) for _ in range(rng.choice([1, 1, 2, 3, 7, 255, 256]))]
        rng.shuffle(rep)
        sels.append((R, C, rep))
        sels.append((R, C, base + base))
        res.dist["selection with repeated wells"] += 2
    res.exhaustive = True
    res.extra["exhaustive_scope"] = f"all subsets of every geometry with at most {limit} wells"
    cases = []
    for R, C, sel in sels:
        ids = [G.wid(r, c) for r, c in sel]
        def call(R=R, C=C, ids=ids):
            return "ok " + proto.e_str(evo_get_selection(R, C, evo_make_selection_array(R, C, ids)))
        ans = guarded(call)
        msg = None
        if ans.startswith("ok"):
            s = proto.d_str(ans[3:])
            try:
                rows, cols, got = O.decode_selection(s)
                if (rows, cols) != (R, C) or sorted(got) != sorted(set(sel)):
                    msg = f"{R}x{C} selection {ids[:8]} encodes to {s!r}, which decodes to {rows}x{cols} {sorted(got)[:8]}"
            except (ValueError, IndexError) as e:
                msg = f"{R}x{C} selection {ids[:8]} encodes to {s!r}: {e}"
        else:
            msg = f"{R}x{C} selection {ids[:8]} raised {ans}"
        cases.append({"line": f"selection {R} {C} {','.join(proto.e_str(i) for i in ids) or '_'}", "impl": ans,
                      "case": {"kind": "fn", "fn": "selection", "rows": R, "cols": C, "wells": ids}, "oracle": msg, "sig": "C12:selection",
                      "nontrivial": len(sel) > 0})
    fn_stream(ctx, res, "selection", cases)
    # the model's decoder on the implementation's strings
    sample = [c for c in cases if c["impl"].startswith("ok")]
    sample = rng.sample(sample, min(len(sample), ctx.n(300)))
    dcases = []
    for c in sample:
        s = proto.d_str(c["impl"][3:])
        R, C, ids = c["case"]["rows"], c["case"]["cols"], c["case"]["wells"]
        bits = ["0"] * (R * C)
        for w in ids:
            r, cc = "ABCDEFGHIJKLMNOPQRSTUVWXYZ".index(w[0]), int(w[1:]) - 1
            bits[cc * R + r] = "1"
        dcases.append({"line": "decode_selection " + proto.e_str(s), "impl": f"ok {R} {C} " + "".join(bits),
                       "case": {"kind": "fn", "fn": "decode_selection", "string": s}, "oracle": None})
    fn_stream(ctx, res, "decode_selection", dcases)
    return res


register("C12", run_C12, module="Robotools.Props.C12",
         theorems=["Robotools.C12." + t for t in ("decode_encode", "encode_inj", "encode_length", "padding_zero", "selectionBits_spec",
                                                  "selectionBits_length")],
         genok=["gen_selBits_ok", "gen_selOffset_ok", "gen_hexDigits_ok", "gen_selectionHeader_ok"],
         rule="rows 1..26 x cols 1..48: all subsets of geometries with <=10 (quick) / <=14 (thorough) wells, full/empty/single-well selections, random subsets")


# ------------------------------------------------------------------ C08 numbering
def run_C08(ctx):
    import warnings
    from robotools.evotools.utils import get_well_position as evo_pos
    from robotools.fluenttools.utils import get_well_position as fluent_pos
    from robotools import make_well_array, make_well_index_dict
    res = Result()
    rng = ctx.rng
    geoms = [("plate", R, C) for R in range(1, 27) for C in list(range(1, 31)) + [99, 100, 120]]
    geoms += [("trough", V, C) for V in range(1, 27) for C in range(1, 25)]
    full = geoms if ctx.tier == "thorough" else rng.sample(geoms, 60)
    res.exhaustive = ctx.tier == "thorough"
    tcases, pcases, acases = [], [], []
    e = proto.e_str
    long_lived_wl = {dev: impl.make_wl({"dev": dev, "max_volume": F(950)}) for dev in ("evo", "fluent")}
    for kind, R, C in geoms:
        if kind == "plate":
            L = impl.Labware("L", R, C, min_volume=0, max_volume=10)
            gtok = f"{R} {C} ~"
        else:
            L = impl.Trough("L", R, C, min_volume=0, max_volume=10)
            gtok = f"1 {C} {R}"
        with warnings.catch_warnings():
            warnings.simplefilter("ignore")
            positions = L.positions
        ans = ("ok wells=" + ",".join(e(str(w)) for w in L.wells.flatten())
               + " indices=" + ",".join(f"{e(k)}:{a}:{b}" for k, (a, b) in L.indices.items())
               + " positions=" + ",".join(f"{e(k)}:{p}" for k, p in positions.items()))
        # oracle: closed formulas, mutual consistency, bijection
        msg = None
        ids = [G.wid(r, c) for r in range(R) for c in range(C)]
        if [str(w) for w in L.wells.flatten()] != ids:
            msg = "wells array is not the row-major ID grid"
        seen = set()
        for r in range(R):
            for c in range(C):
                w = G.wid(r, c)
                want_idx = (r, c) if kind == "plate" else (0, c)
                if tuple(L.indices.get(w, ())) != want_idx:
                    msg = f"indices[{w}] = {L.indices.get(w)}"
                if positions.get(w) != 1 + c * R + r:
                    msg = f"positions[{w}] = {positions.get(w)}"
                seen.add(positions.get(w))
        if seen != set(range(1, R * C + 1)) or len(L.indices) != R * C:
            msg = msg or "positions are not a bijection onto 1..R*C"
        if L.volumes.shape != ((R, C) if kind == "plate" else (1, C)):
            msg = "volume array shape"
        if msg:
            msg = f"{kind} {R}x{C}: {msg}"
        tcases.append({"line": "tables " + gtok, "impl": ans, "case": {"kind": "fn", "fn": "tables", "geom": [kind, R, C]}, "oracle": msg,
                       "sig": "C08:tables"})
        if (kind, R, C) in full:
            wells = ids
        else:
            wells = rng.sample(ids, min(len(ids), 4))
        bad = ["A1", "A001", "a01", "AA01", "Z99", "A00", "01A", "", "A", "7", "A-1", "B02 ", G.wid(min(R, 25), 0), G.wid(0, C)]
        # (IDs spelled with non-ASCII decimal digits are read as numbers by the helper's `\d` — like "A1", which it also
        # numbers; the model's loose parser is ASCII-only, and the property constrains OPERATIONS naming such wells: below)
        for w in wells + rng.sample(bad, 4 if (kind, R, C) not in full else len(bad)):
            for dev, f in (("evo", evo_pos), ("fluent", fluent_pos)):
                a = guarded(lambda: f"ok {f(L, w)}")
                m2 = None
                if w in L.indices:
                    r, c = "ABCDEFGHIJKLMNOPQRSTUVWXYZ".index(w[0]), int(w[1:]) - 1
                    want = 1 + c if (dev == "fluent" and kind == "trough") else 1 + c * R + r
                    if a != f"ok {want}":
                        m2 = f"{dev} position of {w} in {kind} {R}x{C} = {a}, expected {want}"
                pcases.append({"line": f"{dev}_pos {gtok} {e(w)}", "impl": a,
                               "case": {"kind": "fn", "fn": dev + "_pos", "geom": [kind, R, C], "well": w}, "oracle": m2, "sig": f"C08:{dev}_pos"})
        # the position field of the records a worklist operation emits (both devices): the last well of the
        # geometry (largest position, > 1536 on large plates) and a random one, through dispense (empty labware)
        for w in {G.wid(R - 1, C - 1), rng.choice(ids)}:
            for dev in ("evo", "fluent"):
                def emit():
                    # ONE worklist per device outlives all the labware objects of this loop (each geometry's labware is
                    # released when the next one is built, so object addresses are re-used): what a worklist remembers
                    # about a labware must not be keyed by anything a later labware can share (id(), name "L")
                    wl = long_lived_wl[dev]
                    n0 = len(wl)
                    wl.dispense(L, w, 1.0)
                    L.remove(w, 1.0)
                    recs = [r for r in wl[n0:] if r.startswith("D;")]
                    assert len(recs) == 1, recs
                    return f"ok {int(recs[0].split(';')[4])}"
                a = guarded(emit)
                r, c = "ABCDEFGHIJKLMNOPQRSTUVWXYZ".index(w[0]), int(w[1:]) - 1
                want = 1 + c if (dev == "fluent" and kind == "trough") else 1 + c * R + r
                m2 = None if a == f"ok {want}" else f"{dev} D; record for well {w} of {kind} {R}x{C}: position field {a}, expected {want}"
                pcases.append({"line": f"{dev}_pos {gtok} {e(w)}", "impl": a,
                               "case": {"kind": "fn", "fn": dev + "_record_pos", "geom": [kind, R, C], "well": w}, "oracle": m2, "sig": f"C08:{dev}_record_pos"})
    # labware objects that come and go while the worklist lives on: each plate is released before the next one (with
    # another number of rows) is built, so CPython hands out the same address again; the same well ID is used on all
    import gc
    L = None
    for k in range(ctx.n(80)):
        R, C = rng.randint(2, 16), rng.randint(2, 6)
        w = G.wid(1, 1)
        dev = rng.choice(["evo", "fluent"])
        L = None
        gc.collect()
        L = impl.Labware(f"stage{k}", R, C, min_volume=0, max_volume=10)
        a = guarded(emit)
        want = 1 + 1 * R + 1
        m2 = None if a == f"ok {want}" else f"{dev} D; record for well {w} of plate {R}x{C} (labware object created after an earlier one was released): position field {a}, expected {want}"
        pcases.append({"line": f"{dev}_pos {R} {C} ~ {e(w)}", "impl": a,
                       "case": {"kind": "fn", "fn": dev + "_record_pos_lifetime", "geom": ["plate", R, C], "well": w}, "oracle": m2, "sig": f"C08:{dev}_record_pos"})
    for R in list(range(1, 27)) + [30, 40]:
        for C in ([1, 2, 12, 24, 99, 100] if ctx.tier == "quick" else list(range(1, 31)) + [99, 100, 120]):
            a1 = "ok " + ",".join(e(str(w)) for w in make_well_array(R, C).flatten())
            a2 = "ok " + ",".join(f"{e(k)}:{a}:{b}" for k, (a, b) in make_well_index_dict(R, C).items())
            m1 = None
            RR = min(R, 26)
            if a1 != "ok " + ",".join(e(G.wid(r, c)) for r in range(RR) for c in range(C)):
                m1 = f"make_well_array({R}, {C}) is not the ID grid"
            acases.append({"line": f"well_array {R} {C}", "impl": a1, "case": {"kind": "fn", "fn": "make_well_array", "R": R, "C": C}, "oracle": m1, "sig": "C08:make_well_array"})
            acases.append({"line": f"well_index_dict {R} {C}", "impl": a2, "case": {"kind": "fn", "fn": "make_well_index_dict", "R": R, "C": C}, "oracle": None})
    cmp_err = lambda a, b: a == b or (a.startswith("err") and b.startswith("err"))
    fn_stream(ctx, res, "tables", tcases)
    fn_stream(ctx, res, "positions", pcases, cmp_err)
    fn_stream(ctx, res, "well_array_helpers", acases)
    # operations naming an unknown well raise without emitting a record
    progs = []
    for _ in range(ctx.n(140)):
        b = G.Builder(rng, {"p_small": 0.5})
        if b.labs is None:
            progs.append(b.program())
            continue
        li = rng.randrange(len(b.labs))
        L = b.labs[li]
        some = str(L.wells[rng.randrange(L.wells.shape[0]), rng.randrange(min(L.wells.shape[1], 2))])
        # besides plainly unknown IDs: an existing ID with one more character (a fixed-width string type would cut it
        # back to the existing ID), whose loosely parsed column may exist as well ("A011" -> row A, column 11)
        # ... and an existing ID respelled with non-ASCII decimal digits (Arabic-Indic, fullwidth, Devanagari): `\d`, `int()`
        # and `str.isdecimal()` all read them as numbers, but no labware has a well of that name
        uni = lambda t: some[0] + "".join(chr(t + int(ch)) if ch.isdigit() else ch for ch in some[1:])
        w = rng.choice(["A1", "Z99", "AA01", "a01", G.wid(min(L.n_rows, 25), 0), G.wid(0, L.n_columns), "A001",
                        some + "0", some + "1", some + "2", some + " ", some + "x", some + some[-1],
                        uni(0x0660), uni(0xFF10), uni(0x0966), uni(0x0660), uni(0xFF10)])
        if w in L.indices:
            continue
        k = rng.choice(["aspirate", "dispense", "transfer", "distribute"])
        if k == "distribute" and not w.isascii():
            k = "transfer"      # (distribute numbers the wells before it looks them up; the model's loose parser is ASCII-only)
        if k in ("aspirate", "dispense"):
            op = {"op": k, "lab": li, "wells": ("V", [w]), "vols": ("S", F(1)), "kw": {}}
        elif k == "transfer":
            op = {"op": "transfer", "src": li, "dst": li, "src_wells": ("S", w), "dst_wells": ("S", str(L.wells[0, 0])), "vols": ("S", F(1)), "kw": {}}
        else:
            troughs = [i for i, X in enumerate(b.labs) if X.is_trough]
            if not troughs:
                continue
            op = {"op": "distribute", "src": troughs[0], "src_col": 0, "dst": li, "dst_wells": ("V", [w]), "vol": F(0)}
        b.push(op)
        p = b.program()
        p["unknown_well"] = True
        progs.append(p)
    runs = stateful(ctx, res, "unknown-well", progs, [])
    for p, r in zip(progs, runs):
        ob = r.obs[-1]
        if ob["err"] is None or [x for x in ob["state"]["recs"] if x[:2] in ("A;", "D;", "R;")]:
            case = {"kind": "stateful", "stream": "unknown-well", "prog": p, "oracles": [], "stop_on_error": True, "strict_value": False}
            res.viol.append(Finding("unknown-well", case, f"operation naming an unknown well: outcome {ob['err']}, records {ob['state']['recs']}", "C08:unknown-well"))
    return res


register("C08", run_C08, module="Robotools.Props.C08",
         theorems=["Robotools.C08." + t for t in ("wellId_inj", "parseLoose_wellId", "evoPos_plate", "fluentPos_plate", "evoPos_trough",
                   "fluentPos_trough", "resolve_plate", "resolve_trough", "resolve_some", "evoWellOf_evoPos_plate", "evoWellOf_evoPos_trough",
                   "fluentWellOf_fluentPos_trough", "pos_range", "pos_inj", "pos_surj", "positions_eq_evoPos", "makeWellArray_eq_wells",
                   "makeWellIndexDict_eq_table", "unknown_id_no_index")], rule="all plate geometries 1..26 x (1..30, 99, 100, 120) and trough geometries 1..26 x 1..24: tables of every geometry, positions of all wells of 60 sampled geometries (quick) / all (thorough), malformed IDs, helpers, unknown-well operations",
         genok=["gen_rowLettersLabware_ok", "gen_rowLettersTransform_ok", "gen_wellIdFormats_ok"])


# ------------------------------------------------------------------ C15 transforms
def arr_result(x):
    """numpy array / scalar of well IDs → protocol text."""
    import numpy as np
    a = np.asarray(x)
    if a.ndim == 0:
        return "S:" + proto.e_str(str(a))
    if a.ndim == 1:
        return "V:" + ",".join(proto.e_str(str(v)) for v in a)
    return f"M:{a.shape[0]}:{a.shape[1]}:" + ",".join(proto.e_str(str(v)) for v in a.flatten())


def pick_sub(rng, R, C, ids2d):
    """A scalar / 1-D / 2-D sub-array of the ID grid, as protocol Arr."""
    x = rng.random()
    if x < 0.2:
        return ("S", ids2d[rng.randrange(R)][rng.randrange(C)])
    if x < 0.6:
        k = rng.randint(1, min(R * C, 6))
        flat = [w for row in ids2d for w in row]
        return ("V", [rng.choice(flat) for _ in range(k)])
    r0 = rng.randrange(R); r1 = rng.randint(r0 + 1, min(R, r0 + 3))
    c0 = rng.randrange(C); c1 = rng.randint(c0 + 1, min(C, c0 + 4))
    return ("M", r1 - r0, c1 - c0, [ids2d[r][c] for r in range(r0, r1) for c in range(c0, c1)])


def _clone(obj, via):
    """The helper as a worker process / a snapshotting caller gets it: a copy, a deep copy or a pickle round trip."""
    import copy as _c, pickle as _p
    if via == "copy":
        return _c.copy(obj)
    if via == "deepcopy":
        return _c.deepcopy(obj)
    if via == "pickle":
        return _p.loads(_p.dumps(obj))
    return obj


def run_C15(ctx):
    from robotools import WellShifter, WellRotator, WellRandomizer
    res = Result()
    rng = ctx.rng
    A = lambda a: proto.e_arr(proto.e_str, a)
    cases = []
    for _ in range(ctx.n(300)):
        rA, cA = rng.randint(1, 16), rng.randint(1, 24)
        rB, cB = rng.randint(1, 16), rng.randint(1, 24)
        if rng.random() < 0.7:
            rB, cB = max(rA, rB), max(cA, cB)
        anchor = G.wid(rng.randrange(rB), rng.randrange(cB)) if rng.random() < 0.9 else rng.choice(["Z99", "A1", G.wid(rB, 0)])
        idsA = [[G.wid(r, c) for c in range(cA)] for r in range(rA)]
        idsB = [[G.wid(r, c) for c in range(cB)] for r in range(rB)]
        direction = rng.choice(["shift", "unshift"])
        wells = pick_sub(rng, rA, cA, idsA) if direction == "shift" else pick_sub(rng, rB, cB, idsB)
        # earlier calls on the same object (any direction, also wells of B outside the image of A, whose answers are
        # not looked at): what the object answers afterwards must not depend on them
        pre = []
        if rng.random() < 0.5:
            for _k in range(rng.randint(1, 3)):
                d0 = rng.choice(["shift", "unshift", "unshift"])
                pre.append((d0, pick_sub(rng, rA, cA, idsA) if d0 == "shift" else pick_sub(rng, rB, cB, idsB)))
            res.dist["shifter: earlier calls on the same object"] += 1
        if any(d0 == "unshift" for d0, _w in pre) and rng.random() < 0.7:
            # after earlier unshift calls (possibly of wells of B outside the image of A): the WHOLE plate A is shifted, so
            # that any translation the object may have remembered wrongly shows
            direction = "shift"
            wells = ("M", rA, cA, [w for row in idsA for w in row])
        via = rng.choice([None, None, None, "copy", "deepcopy", "pickle"])
        if via:
            res.dist["transform object used through copy / deepcopy / pickle"] += 1
        def call():
            sh = _clone(WellShifter((rA, cA), (rB, cB), anchor), via)
            for d0, w0 in pre:
                try:
                    sh.shift(impl.arr_str(w0)) if d0 == "shift" else sh.unshift(impl.arr_str(w0))
                except Exception:  # noqa: BLE001
                    pass
            out = sh.shift(impl.arr_str(wells)) if direction == "shift" else sh.unshift(impl.arr_str(wells))
            return "ok " + arr_result(out)
        ans = guarded(call)
        msg = None
        # oracle: offset rule, refusal rule, inverse
        try:
            dr, dc = "ABCDEFGHIJKLMNOPQRSTUVWXYZ".index(anchor[0]), int(anchor[1:]) - 1
            known = len(anchor) >= 3 and anchor == G.wid(dr, dc) and dr < rB and dc < cB
        except ValueError:
            known = False
        fits = known and rA + dr <= rB and cA + dc <= cB
        if not fits and not ans.startswith("err"):
            msg = f"WellShifter({(rA, cA)}, {(rB, cB)}, {anchor!r}) accepted although the plate does not fit / anchor unknown"
        if fits and direction == "shift":
            want = [G.wid("ABCDEFGHIJKLMNOPQRSTUVWXYZ".index(w[0]) + dr, int(w[1:]) - 1 + dc) for w in (wells[1] if wells[0] == "V" else [wells[1]] if wells[0] == "S" else wells[3])]
            got = ans[3:].split(":")[-1].split(",") if ans.startswith("ok") else None
            if got is None or [proto.d_str(g) for g in got] != want:
                msg = f"shift of {wells} by anchor {anchor}: {ans[:200]}"
            elif ans.startswith("ok"):
                sh = WellShifter((rA, cA), (rB, cB), anchor)
                back = arr_result(sh.unshift(sh.shift(impl.arr_str(wells))))
                if back != A(wells):
                    msg = "unshift(shift(x)) != x"
        cases.append({"line": f"shifter {rA} {cA} {rB} {cB} {proto.e_str(anchor)} {direction} {A(wells)}", "impl": ans,
                      "case": {"kind": "fn", "fn": "shifter", "A": [rA, cA], "B": [rB, cB], "anchor": anchor, "dir": direction, "wells": wells, "earlier_calls_on_the_object": pre},
                      "oracle": msg, "sig": "C15:shifter"})
    for _ in range(ctx.n(300)):
        R, C = rng.randint(1, 16), rng.randint(1, 24)
        ids = [[G.wid(r, c) for c in range(C)] for r in range(R)]
        wells = pick_sub(rng, R, C, ids)
        direction = rng.choice(["cw", "ccw"])
        via = rng.choice([None, None, None, "copy", "deepcopy", "pickle"])
        rot = _clone(WellRotator((R, C)), via)
        ans = guarded(lambda: "ok " + arr_result(rot.rotate_cw(impl.arr_str(wells)) if direction == "cw" else rot.rotate_ccw(impl.arr_str(wells))))
        msg = None
        flat = wells[1] if wells[0] == "V" else [wells[1]] if wells[0] == "S" else wells[3]
        rc = [("ABCDEFGHIJKLMNOPQRSTUVWXYZ".index(w[0]), int(w[1:]) - 1) for w in flat]
        want = [G.wid(c, R - 1 - r) for r, c in rc] if direction == "cw" else [G.wid(C - 1 - c, r) for r, c in rc]
        got = [proto.d_str(g) for g in ans[3:].split(":")[-1].split(",")] if ans.startswith("ok") else None
        if got != want:
            msg = f"rotate_{direction} on {R}x{C} of {flat[:5]} = {got and got[:5]}, expected {want[:5]}"
        else:
            rot2 = WellRotator((C, R))
            x = rot.rotate_cw(impl.arr_str(wells))
            if arr_result(rot2.rotate_ccw(x)) != A(wells):
                msg = "rotate_ccw(rotate_cw(x)) != x"
            y = rot.rotate_cw(rot2.rotate_cw(x))
            if arr_result(rot2.rotate_cw(y)) != A(wells):
                msg = "four clockwise rotations are not the identity"
        cases.append({"line": f"rotator {R} {C} {direction} {A(wells)}", "impl": ans,
                      "case": {"kind": "fn", "fn": "rotator", "shape": [R, C], "dir": direction, "wells": wells}, "oracle": msg, "sig": "C15:rotator"})
    prev = None
    for _ in range(ctx.n(250)):
        R, C = rng.randint(1, 16), rng.randint(1, 24)
        seed = rng.choice([0, 0, 0, 1, 2**31, rng.randint(0, 200), rng.randint(0, 200), rng.randint(0, 2**32 - 1)])   # 0 is a seed like any other
        mode = rng.choice(["full", "row", "column"])
        if prev is not None and rng.random() < 0.3:
            # the same seed and mode as the previous randomizer of this process, on another geometry with the same
            # number of wells (8x12 after 6x16, 3x2 after 2x3): nothing may be carried over between objects
            pR, pC, seed, mode = prev
            shapes = [(r, pR * pC // r) for r in range(1, 17) if (pR * pC) % r == 0 and pR * pC // r <= 24 and (r, pR * pC // r) != (pR, pC)]
            if shapes:
                R, C = rng.choice(shapes)
        prev = (R, C, seed, mode)
        ids = [[G.wid(r, c) for c in range(C)] for r in range(R)]
        wells = pick_sub(rng, R, C, ids)
        direction = rng.choice(["rand", "derand"])
        via = rng.choice([None, None, "copy", "deepcopy", "pickle"])
        if via:
            res.dist["transform object used through copy / deepcopy / pickle"] += 1
        rz = _clone(WellRandomizer((R, C), seed, mode=mode), via)
        rz2 = WellRandomizer((R, C), seed, mode=mode)
        orig = list(rz.lookup.keys()); rand = [str(rz.lookup[k]) for k in orig]
        ans = guarded(lambda: "ok " + arr_result(rz.randomize_wells(impl.arr_str(wells)) if direction == "rand" else rz.derandomize_wells(impl.arr_str(wells))))
        msg = None
        allw = [w for row in ids for w in row]
        if rz.lookup != rz2.lookup:
            msg = "two randomisers with the same seed differ"
        elif sorted(orig) != sorted(allw) or sorted(rand) != sorted(allw):
            msg = "randomisation is not a permutation of the plate"
        elif mode == "row" and any(k[0] != v[0] for k, v in zip(orig, rand)):
            msg = "row mode moved a well to another row"
        elif mode == "column" and any(k[1:] != v[1:] for k, v in zip(orig, rand)):
            msg = "column mode moved a well to another column"
        elif ans.startswith("ok"):
            back = arr_result(rz.derandomize_wells(rz.randomize_wells(impl.arr_str(wells))))
            if back != A(wells):
                msg = "derandomize(randomize(x)) != x (or shape changed)"
        else:
            msg = f"randomize/derandomize raised {ans} on {wells[0]} argument"
        if msg:
            msg = f"WellRandomizer(({R},{C}), {seed}, mode={mode!r}): {msg}"
        cases.append({"line": f"randomizer {','.join(proto.e_str(k) for k in orig)} {','.join(proto.e_str(k) for k in rand)} {direction} {A(wells)}",
                      "impl": ans, "case": {"kind": "fn", "fn": "randomizer", "shape": [R, C], "seed": seed, "mode": mode, "dir": direction, "wells": wells},
                      "oracle": msg, "sig": "C15:randomizer"})
    fn_stream(ctx, res, "transforms", cases, lambda a, b: a == b or (a.startswith("err") and b.startswith("err")))
    return res


register("C15", run_C15, module="Robotools.Props.C15",
         theorems=["Robotools.C15." + t for t in ("shift_offset", "shift_refused_iff", "unshift_shift", "shift_unshift", "rotate_cw_formula",
                   "rotate_ccw_formula", "ccw_cw", "cw_ccw", "cw_four", "rotate_total", "mapM_shape", "derandomize_randomize",
                   "randomize_derandomize", "randomize_injective", "randomize_keeps")], rule="shapes 1..16 x 1..24, random anchors (incl. non-fitting / unknown), scalar / 1-D / 2-D sub-arrays, seeds 0..200, three randomisation modes")


# ------------------------------------------------------------------ C17 save
def run_C17(ctx):
    import tempfile, shutil
    from pathlib import Path as P
    res = Result()
    rng = ctx.rng
    tmp = P(tempfile.mkdtemp(prefix="verif_c17_"))
    cases = []
    try:
        for n in range(ctx.n(250)):
            k = rng.choice([0, 1, 1, 2, 3, 8, 30])
            if n % 60 == 7:
                k = rng.choice([260, 300, 1100])     # a whole-plate worklist: still shown and written record by record
            recs = []
            wl = impl.make_wl({"dev": rng.choice(["evo", "fluent", "base"]), "max_volume": F(950)})
            for _ in range(k):
                x = rng.random()
                if x < 0.3:
                    wl.comment(rng.choice(["µ-liter", "plain", "a\nb", "  pad  ", "Größe ÿ", "x" * 70]))
                elif x < 0.5:
                    wl.aspirate_well("Plate µ", rng.randint(1, 96), rng.choice([10, 12.5, 0.125]), liquid_class=rng.choice(["", "LC ±"]))
                elif x < 0.6:
                    wl.dispense_well("P", rng.randint(1, 96), 5, tip=rng.randint(1, 8))
                elif x < 0.7:
                    wl.wash(rng.randint(1, 4))
                elif x < 0.8:
                    wl.commit()
                elif x < 0.9:
                    wl.reagent_distribution("T", 1, 8, "P", 1, 20, volume=25, exclude_wells=[3, 5])
                else:
                    wl.flush()
            recs = [str(r) for r in wl]
            name = rng.choice(["w.gwl", "W.GWL", "a.b.gwl", "x y.gwl", "w.gwl.txt", "w.txt", "gwl", ".gwl", "w.gwlx", "wgwl", "w.Gwl"])
            path = tmp / f"{n}_{name}" if not name.startswith(".") else tmp / f"d{n}" / name
            path.parent.mkdir(exist_ok=True)
            pre = rng.choice([None, b"", b"OLD" * 3, b"X" * 5000])
            if len(recs) >= 2 and rng.random() < 0.2:
                # the very records, but joined with bare LF / bare CR / a mix (a checkout with end-of-line conversion)
                try:
                    enc = [r.encode("latin_1") for r in recs]
                    pre = rng.choice([b"\n".join(enc), b"\r".join(enc), b"\n".join(enc[:1]) + b"\r\n" + b"\n".join(enc[1:])])
                    res.dist["pre-existing file: same records, other line endings"] += 1
                except UnicodeEncodeError:
                    pass
            if pre is not None:
                path.write_bytes(pre)
            arg = str(path) if rng.random() < 0.5 else path
            via_with = rng.random() < 0.4
            exc = None
            abort = None                         # the with block is left through an exception after `abort` records
            if via_with and rng.random() < 0.5:
                abort = rng.randint(0, len(recs))
                recs = recs[:abort]
                res.dist["with-block left by exception"] += 1
            try:
                if via_with:
                    wl2 = type(wl)(arg, max_volume=950)
                    wl2.append("stale")          # entering the with block must start from an empty worklist
                    how = rng.choice(["op", "raise"])
                    body_exc = []
                    propagated = False
                    try:
                        with wl2:
                            for r in recs:
                                wl2.append(r)
                            if abort is None and rng.random() < 0.4:
                                # an explicit save inside the block, then (possibly) someone else replaces the file:
                                # leaving the block must still write the records
                                wl2.save(arg)
                                res.dist["explicit save inside the with block"] += 1
                                if rng.random() < 0.7:
                                    path.write_bytes(rng.choice([b"FOREIGN\r\n" * 300, b"f", b""]))
                                    res.dist["foreign overwrite between save and leaving the block"] += 1
                            if abort is not None:
                                try:
                                    if how == "op":
                                        wl2.comment("a;b")   # a worklist operation that raises ValueError
                                    raise RuntimeError("abort")
                                except Exception as be:  # noqa: BLE001
                                    body_exc.append(be)
                                    raise
                    except Exception as e:  # noqa: BLE001
                        if body_exc and e is body_exc[0]:
                            propagated = True    # the body's exception left the block, as it must
                        else:
                            raise                # raised by __exit__/save (e.g. file name refused)
                    if abort is not None and not propagated:
                        raise AssertionError("verif: the with block swallowed the exception raised in its body")
                    elif rng.random() < 0.35:
                        # the file is replaced by something else, then the same worklist object is filled and
                        # left again with the same records: the file must hold exactly the records again
                        path.write_bytes(rng.choice([b"FOREIGN\r\n" * 300, b"f"]))
                        res.dist["foreign overwrite between two saves"] += 1
                        with wl2:
                            for r in recs:
                                wl2.append(r)
                else:
                    wl.save(arg)
                    x2 = rng.random()
                    if x2 < 0.3:
                        wl.save(arg)             # repeated save
                    elif x2 < 0.55:
                        path.write_bytes(rng.choice([b"FOREIGN\r\n" * 300, b"f"]))   # someone else rewrites the file
                        res.dist["foreign overwrite between two saves"] += 1
                        wl.save(arg)             # saving again (unchanged records) must replace that content
            except Exception as e:  # noqa: BLE001
                exc = e
            fname = path.name
            accepted = exc is None
            data = path.read_bytes() if path.exists() else None
            want_ok = P(fname).suffix.lower() == ".gwl"
            msg = None
            if accepted != want_ok:
                msg = f"file name {fname!r}: accepted={accepted} ({type(exc).__name__ if exc else None}: {str(exc)[:80] if exc else ''}), a .gwl extension is {'present' if want_ok else 'absent'}"
            elif accepted:
                want = "\r\n".join(recs).encode("latin_1")
                if data != want:
                    msg = f"file content differs from the CRLF-joined Latin-1 records ({len(data or b'')} vs {len(want)} bytes; previous content {len(pre) if pre is not None else None} bytes)"
                elif recs and data.decode("latin_1").split("\r\n") != recs:
                    msg = "reading back does not return the records"
                elif str(wl2 if via_with else wl) != "\n".join(recs):
                    msg = "str(worklist) does not show the records"
            ans = "ok " + ",".join(str(b) for b in data) if (accepted and data is not None) else "err:reject"
            cases.append({"line": "save " + (",".join(proto.e_str(r) for r in recs) or "_"), "impl": ans if accepted else None,
                          "case": {"kind": "fn", "fn": "save", "records": recs, "file": fname, "preexisting": None if pre is None else len(pre), "with": via_with, "left_by_exception_after": abort},
                          "oracle": msg, "sig": "C17:save", "name": fname, "accepted": accepted, "nontrivial": len(recs) > 0})
        sfx = [{"line": "gwl_suffix " + proto.e_str(c["name"]), "impl": "ok 1" if c["accepted"] else "ok 0",
                "case": {"kind": "fn", "fn": "gwl_suffix", "file": c["name"]}, "oracle": None} for c in cases]
        fn_stream(ctx, res, "save-bytes", [c for c in cases if c["impl"] is not None])
        for c in cases:
            if c["impl"] is None and c["oracle"]:
                res.viol.append(Finding("save-bytes", c["case"], c["oracle"], c["sig"]))
        fn_stream(ctx, res, "gwl-suffix", sfx)
    finally:
        shutil.rmtree(tmp, ignore_errors=True)
    return res


register("C17", run_C17, module="Robotools.Props.C17",
         theorems=["Robotools.C17." + t for t in ("read_back", "empty_file", "no_trailing_break", "file_is_crlf_join", "latin1_round_trip",
                   "latin1_rejects", "gwl_suffix_iff", "comment_recs_wf")], genok=["gen_saveJoiner_ok", "gen_saveOpen_ok"],
         rule="record lists of 0..30 records of every type with Latin-1 text, saved through save() and the with-block to str/Path names with and without .gwl, over pre-existing shorter/longer files, repeated saves")


# ------------------------------------------------------------------ C20 constructors
def gen_ctor_spec(rng):
    """One labware specification: valid, or with exactly one fault of the statement's classes."""
    fault = rng.choice([None, None, None, "rows", "cols", "min", "max", "vrows", "init_neg", "init_big", "init_nan", "init_len",
                        "names_empty", "names_unknown", "too_many_rows", "vrows_multi", "colnames_len", "colnames_empty"])
    if rng.random() < 0.55:
        rows = rng.choice([1, 2, 3, 8, 16, 26]) if rng.random() < 0.8 else rng.randint(1, 26)
        cols = rng.choice([1, 2, 3, 12, 24]) if rng.random() < 0.8 else rng.randint(1, 120)
        mx = rng.choice([F(100), F(250), F(1000), F(25, 2)])
        mn = rng.choice([F(0), F(0), F(5), F(10)])
        n = rows * cols
        mode = rng.random()
        if mode < 0.2:
            init = None
        elif mode < 0.45:
            init = ("S", rng.choice([F(0), mx, G.grid(rng, 0, mx)]))
        elif mode < 0.75:
            init = ("V", [rng.choice([F(0), G.grid(rng, 0, mx), mx]) for _ in range(n)])
        else:
            shape = (rows, cols) if rng.random() < 0.7 else (cols, rows)
            init = ("M", shape[0], shape[1], [rng.choice([F(0), G.grid(rng, 0, mx)]) for _ in range(n)])
        if n > 400 and init is not None:
            # every non-empty well of a multi-row plate is its own component (n arrays of n fractions): keep the
            # number of filled wells of very large plates small, the state dump is quadratic in it
            keep = set(rng.sample(range(n), 25))
            if init[0] == "S":
                init = ("V", [init[1] if i in keep else F(0) for i in range(n)])
            elif init[0] == "V":
                init = ("V", [v if i in keep else F(0) for i, v in enumerate(init[1])])
            else:
                init = ("M", init[1], init[2], [v if i in keep else F(0) for i, v in enumerate(init[3])])
        flat = [F(0)] * n if init is None else [init[1]] * n if init[0] == "S" else list(init[1] if init[0] == "V" else init[3])
        names = {}
        labname = rng.choice(["P", "plate 1", "µ"])
        for i in range(n):
            if flat[i] > 0 and rng.random() < 0.3:
                names[G.wid(i // cols, i % cols)] = rng.choice(["water", "X", "dye", None])
        filled = [i for i in range(n) if flat[i] > 0]
        if len(filled) >= 2 and rng.random() < 0.25:
            # a user-chosen component name that coincides with the DEFAULT name of another (unnamed) filled well, or with
            # the labware's name: the two wells then hold the same component
            i, j = rng.sample(filled, 2)
            names.pop(G.wid(j // cols, j % cols), None)
            names[G.wid(i // cols, i % cols)] = rng.choice([f"{labname}.{G.wid(j // cols, j % cols)}", f"{labname}.{G.wid(j // cols, j % cols)}", labname])
        spec = {"kind": "plate", "name": labname, "rows": rows, "cols": cols, "min": mn, "max": mx, "init": init, "names": names}
        if fault == "rows":
            spec["rows"] = rng.choice([0, -1, proto.Bad(2.5), proto.Bad("2")])
        elif fault == "cols":
            spec["cols"] = rng.choice([0, -3, proto.Bad(1.0)])
        elif fault == "min":
            spec["min"] = F(-1)
        elif fault == "max":
            spec["max"] = rng.choice([spec["min"], spec["min"] - 1]) if spec["min"] > 0 else F(0)
            spec["init"] = None; spec["names"] = {}
        elif fault == "too_many_rows":
            spec["rows"] = rng.choice([27, 30, 40]); spec["init"] = None; spec["names"] = {}
        elif fault == "vrows_multi" and rows > 1:
            # virtual rows on multi-row labware: any value, including the falsy and the out-of-range ones
            spec["vrows"] = rng.choice([4, 1, 2, 0, 0, -1, 27, proto.Bad(2.5), proto.Bad(0.0)])
        elif fault == "vrows" and rows == 1:
            # a trough declared through the generic constructor with an unusable number of virtual rows
            spec["vrows"] = rng.choice([0, -1, 27, 30, proto.Bad(2.5)])
            spec["names"] = {}
        elif fault == "init_neg":
            spec["init"] = ("V", [F(-1)] + [F(0)] * (n - 1)); spec["names"] = {}
        elif fault == "init_big":
            spec["init"] = ("S", mx + F(1, 8)); spec["names"] = {}
        elif fault == "init_nan":
            spec["init"] = ("V", ["nan"] + [F(0)] * (n - 1)); spec["names"] = {}
        elif fault == "init_len":
            spec["init"] = ("V", [F(1)] * (rng.choice([n - 1, n + 1, n + 2, 1, 2 * n, 0]))); spec["names"] = {}
            if len(spec["init"][1]) == n:
                spec["init"] = ("V", [F(1)] * (n + 1))
        elif fault == "names_empty":
            z = [i for i in range(n) if flat[i] == 0]
            if z:
                spec["names"] = dict(names, **{G.wid(z[0] // cols, z[0] % cols): "ghost"})
            else:
                fault = None
        elif fault == "names_unknown":
            spec["names"] = dict(names, **{rng.choice(["Z99", G.wid(rows, 0) if rows < 26 else "A999", "A1"]): "ghost"})
        elif fault in ("vrows", "colnames_len", "colnames_empty", "vrows_multi"):
            if not ((fault == "vrows_multi" and rows > 1) or (fault == "vrows" and rows == 1)):
                fault = None
        spec["fault"] = fault
        return spec
    vrows = rng.choice([1, 2, 4, 8, 16, 26])
    cols = rng.choice([1, 1, 2, 3, 4, 12])
    mx = rng.choice([F(1000), F(10000)])
    mn = rng.choice([F(0), F(100)])
    init = ("S", rng.choice([F(0), mx, G.grid(rng, 0, mx)])) if rng.random() < 0.4 else ("V", [rng.choice([F(0), mx, G.grid(rng, 0, mx)]) for _ in range(cols)])
    flat = [init[1]] * cols if init[0] == "S" else list(init[1])
    x = rng.random()
    if x < 0.4:
        cn = None
    elif x < 0.5 and cols == 1 and flat[0] > 0:
        cn = ("S", "water")
    else:
        cn = ("V", [(rng.choice(["water", "acid", "X"]) if (flat[c] > 0 and rng.random() < 0.6) else None) for c in range(cols)])
    spec = {"kind": "trough", "name": rng.choice(["T", "trough µ"]), "vrows": vrows, "cols": cols, "min": mn, "max": mx, "init": init, "col_names": cn}
    if fault == "vrows":
        spec["vrows"] = rng.choice([0, -1, 27, 30, proto.Bad(2.5)])
    elif fault == "cols":
        spec["cols"] = rng.choice([0, -1, proto.Bad(2.5)])
    elif fault == "min":
        spec["min"] = F(-5)
    elif fault == "init_neg":
        spec["init"] = ("V", [F(-1)] + [F(0)] * (cols - 1)); spec["col_names"] = None
    elif fault == "init_big":
        spec["init"] = ("S", mx + 1); spec["col_names"] = None
    elif fault == "init_nan":
        spec["init"] = ("V", ["nan"] + [F(1)] * (cols - 1)); spec["col_names"] = None
    elif fault == "init_len":
        # wrong per-column length: longer, shorter, a single element (must not be broadcast), doubled, empty
        k = rng.choice([cols + 1, cols - 1, 1, 2 * cols, 0])
        spec["init"] = ("V", [F(1)] * (k if k != cols else cols + 1)); spec["col_names"] = None
    elif fault == "colnames_len":
        k = rng.choice([cols + 1, cols - 1, 1, 2 * cols])
        spec["col_names"] = ("V", ["a"] * (k if k != cols else cols + 1))
        if spec["init"][0] == "S" and spec["init"][1] == 0 or spec["init"][0] == "V" and any(v == 0 for v in spec["init"][1]):
            spec["init"] = ("S", mx)
    elif fault == "colnames_empty":
        z = [c for c in range(cols) if flat[c] == 0]
        if z:
            cnl = [None] * cols; cnl[z[0]] = "ghost"
            spec["col_names"] = ("V", cnl)
        else:
            fault = None
    else:
        fault = None
    spec["fault"] = fault
    return spec


def ctor_oracle(spec, L, err):
    """Independent statement of C20 on one constructor call."""
    fault = spec.get("fault")
    if fault is not None:
        if err is None:
            return f"unrepresentable specification accepted ({fault})"
        if err != "valueErr":
            return f"unrepresentable specification ({fault}) raised {err}, not ValueError"
        return None
    if err is not None:
        return f"valid specification rejected with {err}"
    import numpy as np
    trough = spec["kind"] == "trough"
    rows = 1 if trough else spec["rows"]
    cols = spec["cols"]
    idrows = spec["vrows"] if trough else rows
    ids = [[G.wid(r, c) for c in range(cols)] for r in range(idrows)]
    if L.wells.shape != (idrows, cols) or [[str(x) for x in row] for row in L.wells] != ids:
        return "wells array is not the ID grid"
    if L.volumes.shape != (rows, cols):
        return f"volume array shape {L.volumes.shape}"
    if set(L.indices) != {w for row in ids for w in row} or any(tuple(L.indices[ids[r][c]]) != ((0 if trough else r), c) for r in range(idrows) for c in range(cols)):
        return "index map does not describe the grid"
    init = spec.get("init")
    n = rows * cols
    flat = [F(0)] * n if init is None else [init[1]] * n if init[0] == "S" else list(init[1] if init[0] == "V" else init[3])
    got = [F(float(v)) for v in L.volumes.flatten()]
    if got != flat:
        return "initial volumes not laid out as given"
    if not (0 <= L.min_volume < L.max_volume) or any(not (0 <= v <= F(spec["max"])) for v in got):
        return "limits / initial volumes out of range"
    h = L.history
    if len(h) != 1 or h[0][0] != "initial" or [F(float(v)) for v in h[0][1].flatten()] != flat:
        return "history is not exactly the initial state"
    comp = {k: [float(x) for x in arr.flatten()] for k, arr in L.composition.items()}
    for i in range(n):
        ones = [k for k, arr in comp.items() if arr[i] == 1.0]
        nz = [k for k, arr in comp.items() if arr[i] != 0.0]
        if flat[i] > 0 and (len(ones) != 1 or nz != ones):
            return f"well {i} is non-empty but has components {nz}"
        if flat[i] == 0 and nz:
            return f"well {i} is empty but has components {nz}"
        if flat[i] > 0:
            # naming rule
            if trough:
                cn = spec.get("col_names")
                given = None if cn is None else (cn[1] if cn[0] == "S" else cn[1][i])
                want = given if given is not None else (f"{spec['name']}.column_{i + 1:02d}" if cols > 1 else spec["name"])
            else:
                given = (spec.get("names") or {}).get(G.wid(i // cols, i % cols))
                want = given if given is not None else (f"{spec['name']}.{G.wid(i // cols, i % cols)}" if rows > 1 else spec["name"])
            if ones != [want]:
                return f"well {i} named {ones}, expected {want!r}"
    return None


def run_C20(ctx):
    res = Result()
    rng = ctx.rng
    specs = [gen_ctor_spec(rng) for _ in range(ctx.n(900))]
    progs = [{"cfg": {"dev": "evo", "max_volume": F(950)}, "labs": [{k: v for k, v in s.items() if k != "fault"}], "ops": [], "strict_value": True} for s in specs]
    runs = stateful(ctx, res, "constructors", progs, [], strict_value=True)
    for s, p, r in zip(specs, progs, runs):
        res.dist["fault:" + str(s.get("fault"))] += 1
        msg = ctor_oracle(s, r.labs[0] if r.labs else None, r.lab_results[0])
        if msg:
            case = {"kind": "stateful", "stream": "constructors", "prog": p, "oracles": [], "stop_on_error": True, "strict_value": True}
            res.viol.append(Finding("constructors", case, f"{s['kind']} {({k: v for k, v in s.items() if k not in ('kind',)})}: {msg}", "C20:constructor"))
    return res


register("C20", run_C20, module="Robotools.Props.C20",
         theorems=["Robotools.C20." + t for t in ("table_grid", "mk_ok", "mk_layout_scalar", "mk_layout_flat", "mk_layout_none", "trough_mk_ok",
                   "mk_error_is_valueErr", "trough_mk_error_is_valueErr", "mk_rejects", "mk_rejects_length",
                   "initialComposition_rejects_unknown", "default_names_distinct", "default_column_names_distinct")], rule="constructor specifications (plates up to 26x120, troughs up to 26 virtual rows) with scalar / flat / 2-D initial volumes and names; one fault per invalid specification from the statement's classes")


# ------------------------------------------------------------------ C09 records
def gen_record_program(rng):
    cfg = {"dev": rng.choice(["evo", "fluent", "base"]), "max_volume": rng.choice([F(950), F(100), F(1000), F(100000)]),
           "auto_split": True, "diti_mode": rng.random() < 0.3}
    big = [F(98765, 8), F(20001, 2), F(87654321, 1024)] if cfg["max_volume"] >= 100000 else []    # 12345.625, 10000.5, 85599.9228515625
    ops = []
    T = lambda n=40, semi=0.0: G.rand_text(rng, n, allow_semicolon=rng.random() < semi)
    for _ in range(rng.randint(1, 10)):
        x = rng.random()
        fault = rng.random() < 0.3
        if x < 0.35:
            kw = {}
            if rng.random() < 0.6: kw["liquid_class"] = T(20)
            if rng.random() < 0.5: kw["rack_id"] = T(32)
            if rng.random() < 0.4: kw["tube_id"] = T(32)
            if rng.random() < 0.4: kw["rack_type"] = T(32)
            if rng.random() < 0.3: kw["forced_rack_type"] = T(32)
            if rng.random() < 0.5:
                kw["tip"] = rng.choice([("single", ("int", rng.randint(1, 8))), ("many", [("int", rng.randint(1, 8)) for _ in range(rng.randint(0, 4))]),
                                        ("single", ("member", rng.choice([-1, 1, 2, 4, 8, 16, 32, 64, 128])))])
            op = {"op": rng.choice(["aspirate_well", "dispense_well"]), "rack_label": T(32) or "L", "position": rng.randint(0, 400),
                  "vol": rng.choice([F(0), G.grid(rng, 0, cfg["max_volume"]), cfg["max_volume"], F(1, 8), F(3, 8), F(5, 8), F(201, 8)] + big), "kw": kw}
            if fault:
                f = rng.choice(["label_len", "label_semi", "pos_neg", "pos_bad", "vol_neg", "vol_big", "vol_max", "lc", "rid", "rid_len", "tid", "rtype", "frt", "tip0", "tip9", "tipany", "tipbad"])
                if f == "label_len": op["rack_label"] = "x" * 33
                elif f == "label_semi": op["rack_label"] = "a;b"
                elif f == "pos_neg": op["position"] = -1
                elif f == "pos_bad": op["position"] = proto.Bad(rng.choice([1.0, "1", None]))
                elif f == "vol_neg": op["vol"] = -rng.choice([F(1, 2), F(1), F(1, 256), F(1, 2**20), F(1, 2**40)])   # also negative volumes that round to -0.00
                elif f == "vol_big": op["vol"] = F(7158279)
                elif f == "vol_max": op["vol"] = cfg["max_volume"] + rng.choice([F(1, 8), F(1, 128), F(1)])
                elif f == "lc": kw["liquid_class"] = "x;y"
                elif f == "rid": kw["rack_id"] = ";"
                elif f == "rid_len": kw["rack_id"] = "i" * 33
                elif f == "tid": kw["tube_id"] = "t;u"
                elif f == "rtype": kw["rack_type"] = rng.choice(["t" * 33, "a;"])
                elif f == "frt": kw["forced_rack_type"] = rng.choice(["f" * 33, ";a"])
                elif f == "tip0": kw["tip"] = ("single", ("int", 0))
                elif f == "tip9": kw["tip"] = ("many", [("int", 1), ("int", 9)])
                elif f == "tipany": kw["tip"] = ("many", [("member", -1)])
                elif f == "tipbad": kw["tip"] = ("single", ("bad", 2.5))
        elif x < 0.55:
            ds, de = sorted([rng.randint(1, 96), rng.randint(1, 96)])
            excl = sorted(set(rng.sample(range(ds, de + 1), min(de - ds + 1, rng.randint(0, 5))))) if rng.random() < 0.6 else []
            if rng.random() < 0.5:
                rng.shuffle(excl)
            v = rng.choice([F(25), proto.PyInt(100), G.grid(rng, 0, cfg["max_volume"]), F(25, 2), F(1, 8), proto.PyInt(0)] + big + big)
            op = {"op": "reagent_distribution", "src_label": T(32) or "T", "src_start": rng.randint(1, 8), "src_end": rng.randint(8, 16),
                  "dst_label": T(32) or "P", "dst_start": ds, "dst_end": de, "vol": v, "diti_reuse": rng.choice([1, 2, 6]),
                  "multi_disp": rng.choice([1, 2, 6, 12, 50]), "exclude": excl, "liquid_class": T(20),
                  "direction": rng.choice(["left_to_right", "right_to_left"]), "src_rack_id": T(10), "src_rack_type": T(10),
                  "dst_rack_id": T(10), "dst_rack_type": T(10)}
            if fault:
                f = rng.choice(["dir", "excl", "excl_nonint", "lc", "label", "vol_neg", "vol_max", "pos", "pos_bad", "rid"])
                if f == "dir": op["direction"] = rng.choice(["up", "", "LEFT_TO_RIGHT"])
                elif f == "excl": op["exclude"] = excl + [rng.choice([de + 1, ds - 1, de + 50])]
                elif f == "excl_nonint":
                    # a non-integral number strictly inside the destination range is not a well of the range
                    op["exclude"] = excl + [proto.Bad(rng.choice([ds + 0.5, (ds + de) / 2 + 0.25, de - 0.5 if de > ds else ds + 0.5]))]
                    if rng.random() < 0.5:
                        rng.shuffle(op["exclude"])
                elif f == "lc": op["liquid_class"] = "a;b"
                elif f == "label": op[rng.choice(["src_label", "dst_label"])] = rng.choice(["x" * 33, "a;b"])
                elif f == "vol_neg": op["vol"] = -rng.choice([F(1), F(1, 256), F(1, 2**20)])
                elif f == "vol_max": op["vol"] = cfg["max_volume"] + rng.choice([F(1), F(1, 128)])
                elif f == "pos": op[rng.choice(["src_start", "src_end", "dst_start", "dst_end"])] = -1; op["exclude"] = []
                elif f == "pos_bad": op[rng.choice(["src_start", "src_end"])] = proto.Bad(1.5)
                elif f == "rid": op[rng.choice(["src_rack_id", "dst_rack_type"])] = rng.choice(["a;b", "r" * 33])
        elif x < 0.7:
            if fault:
                # a separator anywhere in the comment refuses the WHOLE comment: also when it only appears in a later line
                bad = rng.choice([T(40, semi=1.0) or ";", (T(8) or "a") + "\n" + (T(6) or "b") + ";" + T(4), "first\n\nsecond\nthird;x\nfourth",
                                  (T(5) or "x") + "\n" + (T(5) or "y") + "\n;"])
                op = {"op": "comment", "text": bad if ";" in bad else bad + ";"}
            else:
                op = {"op": "comment", "text": rng.choice([None, "", T(40), T(10) + "\n" + T(10), "  " + T(5) + "\xa0", T(5), "a\n\n b \nc"])}
        elif x < 0.8:
            op = {"op": "wash", "scheme": rng.choice([0, 5, -1]) if fault else rng.randint(1, 4)}
        elif x < 0.85:
            op = {"op": "decontaminate"}
        elif x < 0.9:
            op = {"op": "flush"}
        elif x < 0.95:
            op = {"op": "commit"}
        else:
            op = {"op": "set_diti", "index": rng.randint(0, 9)}
        ops.append(op)
        tp = op.get("kw", {}).get("tip") if op.get("op") in ("aspirate_well", "dispense_well") else None
        if tp is not None and not fault and rng.random() < 0.5:
            # the same record once more with the tips respelled (int 4 <-> Tip member of value 4): equal-looking, other tips
            syms = [tp[1]] if tp[0] == "single" else list(tp[1])
            t2 = respell_tips(syms)
            if t2 is not None:
                op2 = copy.deepcopy(op)
                op2["kw"]["tip"] = ("single", t2[0]) if tp[0] == "single" else ("many", t2, "tuple")
                if tp[0] == "many":
                    op["kw"]["tip"] = ("many", list(tp[1]), "tuple")     # both spelled as (hashable) tuples
                ops.append(op2)
    return {"cfg": cfg, "labs": [], "ops": ops, "exact": True}


class RecordOracle(O.Oracle):
    """Every appended record parses by the independent grammar to exactly the arguments given;
    calls that cannot be represented raise and append nothing."""
    name = "records"

    def __init__(self, prog):
        super().__init__(prog)
        self.n = 0

    def representable(self, op):
        cfg = self.prog["cfg"]
        k = op["op"]
        ok32 = lambda s: isinstance(s, str) and len(s) <= 32 and ";" not in s
        if k in ("aspirate_well", "dispense_well"):
            kw = op.get("kw", {})
            if not ok32(op["rack_label"]) or not isinstance(op["position"], int) or op["position"] < 0:
                return False
            v = F(op["vol"])
            if v < 0 or v > 7158278 or v > F(cfg["max_volume"]):
                return False
            if ";" in kw.get("liquid_class", "") or not all(ok32(kw.get(n, "")) for n in ("rack_id", "rack_type", "forced_rack_type")):
                return False
            if ";" in kw.get("tube_id", ""):
                return False
            t = kw.get("tip", proto.ANY_TIP)
            el = [t[1]] if t[0] == "single" else t[1]
            for e in el:
                if e[0] == "int" and not 1 <= e[1] <= 8:
                    return False
                if e[0] == "bad" or (e[0] == "member" and e[1] == -1 and t[0] == "many"):
                    return False
            return True
        if k == "reagent_distribution":
            if op["direction"] not in ("left_to_right", "right_to_left"):
                return False
            for n in ("src_start", "src_end", "dst_start", "dst_end"):
                if not isinstance(op[n], int) or op[n] < 0:
                    return False
            if any(isinstance(e, proto.Bad) or e < op["dst_start"] or e > op["dst_end"] for e in op.get("exclude", [])):
                return False
            v = F(op["vol"])
            if v < 0 or v > F(cfg["max_volume"]):
                return False
            if ";" in op.get("liquid_class", "") or not all(ok32(op.get(n, "")) for n in ("src_label", "dst_label", "src_rack_id", "src_rack_type", "dst_rack_id", "dst_rack_type")):
                return False
            return True
        if k == "comment":
            return not (op.get("text") and ";" in op["text"])
        if k == "wash":
            return cfg.get("diti_mode") or op["scheme"] in (1, 2, 3, 4)
        if k == "decontaminate":
            return not cfg.get("diti_mode")
        return True

    def __call__(self, run, i, op, exc):
        import gwl
        recs = [str(r) for r in run.wl]
        new = recs[self.n:]
        before = self.n
        self.n = len(recs)
        k = op["op"]
        if exc is not None:
            if new:
                self.fail(f"C09:rejected-call-appended:{k}", f"op {i} ({k}) raised {exc!r} but appended {new}", i)
            return
        if not self.representable(op):
            self.fail(f"C09:unrepresentable-accepted:{k}", f"op {i}: {k}({ {a: b for a, b in op.items() if a != 'op'} }) accepted, appended {new}", i)
            return
        try:
            parsed = [gwl.parse_record(r) for r in new]
        except gwl.GrammarError as e:
            self.fail(f"C09:grammar:{k}", f"op {i} ({k}): {e}", i)
            return
        cfg = self.prog["cfg"]
        def r2(v):
            x = F(v) * 100
            fl = x.numerator // x.denominator
            d = x - fl
            return F(fl if d < F(1, 2) else fl + 1 if d > F(1, 2) else (fl if fl % 2 == 0 else fl + 1), 100)
        if k in ("aspirate_well", "dispense_well"):
            kw = op.get("kw", {})
            t = kw.get("tip", proto.ANY_TIP)
            el = [t[1]] if t[0] == "single" else t[1]
            mask = None
            if not (t[0] == "single" and t[1] == ("member", -1)):
                mask = 0
                for e in el:
                    mask |= (1 << (e[1] - 1)) if e[0] == "int" else e[1]
            want = {"kind": "A" if k == "aspirate_well" else "D", "rack_label": op["rack_label"], "rack_id": kw.get("rack_id", ""),
                    "rack_type": kw.get("rack_type", ""), "position": op["position"], "tube_id": kw.get("tube_id", ""),
                    "volume": r2(op["vol"]), "liquid_class": kw.get("liquid_class", ""), "tip": mask,
                    "forced_rack_type": kw.get("forced_rack_type", "")}
            if len(parsed) != 1 or any(parsed[0].get(a) != b for a, b in want.items()):
                self.fail(f"C09:arguments:{k}", f"op {i}: record {new} does not carry {want}", i)
        elif k == "reagent_distribution":
            v = F(op["vol"])
            md = op.get("multi_disp", 1)
            M = F(cfg["max_volume"])
            if md * v > M:
                md = math.floor(M / v)
            want = {"kind": "R", "src_label": op["src_label"], "src_id": op.get("src_rack_id", ""), "src_type": op.get("src_rack_type", ""),
                    "src_start": op["src_start"], "src_end": op["src_end"], "dst_label": op["dst_label"], "dst_id": op.get("dst_rack_id", ""),
                    "dst_type": op.get("dst_rack_type", ""), "dst_start": op["dst_start"], "dst_end": op["dst_end"], "volume": v,
                    "liquid_class": op.get("liquid_class", ""), "diti_reuse": op.get("diti_reuse", 1), "multi_disp": md,
                    "direction": 0 if op["direction"] == "left_to_right" else 1, "excluded": sorted(op.get("exclude", []))}
            if len(parsed) != 1 or any(parsed[0].get(a) != b for a, b in want.items()):
                self.fail("C09:arguments:reagent_distribution", f"op {i}: record {new} does not carry {want}", i)
        elif k == "comment":
            text = op.get("text") or ""
            ws = "\t\n\x0b\x0c\r\x1c\x1d\x1e\x1f \x85\xa0"
            want = [ln.strip(ws) for ln in text.split("\n")]
            want = ["C;" + ln for ln in want if ln]
            if new != want:
                self.fail("C09:arguments:comment", f"op {i}: comment {text!r} appended {new}, expected {want}", i)
        else:
            want = {"wash": ["W;"] if cfg.get("diti_mode") else [f"W{op.get('scheme')};"], "decontaminate": ["WD;"], "flush": ["F;"],
                    "commit": ["B;"], "set_diti": [f"S;{op.get('index')}"]}.get(k)
            if want is not None and new != want:
                self.fail(f"C09:arguments:{k}", f"op {i}: {k} appended {new}, expected {want}", i)
        if k == "set_diti" and not (before == 0 or recs[before - 1].startswith("B")):
            self.fail("C09:set_diti-guard", f"op {i}: DiTi type switched after {recs[before - 1]!r}", i)


ORACLES["records"] = RecordOracle


class EvoStepOracle(O.Oracle):
    """C03 for EVO script commands: no Aspirate/Dispense command carries a per-tip volume above the
    worklist's max_volume, and a rejected call leaves no command behind."""
    name = "evo_step"

    def __init__(self, prog):
        super().__init__(prog)
        self.n = 0

    def __call__(self, run, i, op, exc):
        import re
        recs = [str(r) for r in run.wl]
        new = recs[self.n:]
        self.n = len(recs)
        M = F(self.prog["cfg"]["max_volume"])
        for r in new:
            m = re.match(r'B;(Aspirate|Dispense)\((\d+),"[^"]*",((?:(?:"[^"]*"|0),){8})', r)
            if m:
                if exc is not None:
                    self.fail(f"C03:rejected-call-left-command:{op['op']}", f"op {i} raised {exc!r} but appended {r!r}", i)
                for sv in m.group(3).rstrip(",").split(","):
                    # the command carries the two-decimal rendering of the volume: "200.1" for a max_volume given as the
                    # float 200.1 (a hair below 2001/10) is that very volume, not a step above it
                    if sv != "0" and F(sv.strip('"')) - M > F(1, 200):
                        self.fail(f"C03:step-above-max-volume:{op['op']}", f"op {i}: {r!r} carries {sv} > max_volume {M}", i)


ORACLES["evo_step"] = EvoStepOracle


class MaskOracle(O.Oracle):
    """C10 for multi-well aspirate / dispense: every A;/D; record of the call carries the OR of the tip collection."""
    name = "records_masks"

    def __init__(self, prog):
        super().__init__(prog)
        self.n = 0

    def __call__(self, run, i, op, exc):
        recs = [str(r) for r in run.wl]
        new = recs[self.n:]
        self.n = len(recs)
        t = (op.get("kw") or {}).get("tip")
        if exc is not None or op["op"] not in ("aspirate", "dispense") or t is None:
            return
        syms = [t[1]] if t[0] == "single" else list(t[1])
        if any(sy[0] not in ("int", "member") or (sy[0] == "member" and sy[1] == -1) for sy in syms) or not syms:
            return
        m = 0
        for sy in syms:
            m |= (1 << (sy[1] - 1)) if sy[0] == "int" else sy[1]
        for r in new:
            if r[:2] in ("A;", "D;"):
                got = r.split(";")[9]
                if got != str(m):
                    self.fail(f"C10:record-mask:{op['op']}", f"op {i}: tips {syms} -> mask {m}, but {r!r} carries {got!r}", i)


ORACLES["records_masks"] = MaskOracle


def run_C09(ctx):
    res = Result()
    rng = ctx.rng
    progs = corpus_progs(ctx) + [gen_record_program(rng) for _ in range(ctx.n(220))]
    stateful(ctx, res, "records", progs, ["records"], stop_on_error=False)
    prof = {"p_fail": 0.3, "nops": (1, 4), "kinds": ["transfer", "aspirate", "dispense", "distribute", "distribute"]}
    progs = [G.gen_worklist_program(rng, prof) for _ in range(ctx.n(80))]
    stateful(ctx, res, "records-through-operations", progs, ["replay_grammar"])
    return res


class GrammarOnly(O.Oracle):
    name = "grammar"

    def __call__(self, run, i, op, exc):
        import gwl
        for r in run.wl:
            try:
                gwl.parse_record(str(r))
            except gwl.GrammarError as e:
                self.fail(f"C09:grammar:{op['op']}", f"op {i}: {e}", i)
                return


ORACLES["replay_grammar"] = GrammarOnly

register("C09", run_C09, module="Robotools.Props.C09",
         theorems=["Robotools.C09." + t for t in ("parse_render", "field_count_ad", "field_count_rd", "step_wf", "run_wf", "every_record_decodes",
                   "prepareAD_accepts_iff", "prepareAD_rejects", "aspirate_well_carries_args", "dispense_well_carries_args",
                   "reagent_distribution_carries_args", "rejected_appends_nothing", "set_diti_guard", "set_diti_record",
                   "decontaminate_guard", "decontaminate_record", "wash_guard")]
                  + ["Robotools.WF." + t for t in ("prepareAD_spec", "prepareAD_complete", "prepareAD_wf", "commentRecs_wf", "compileRD_spec", "wf_compile")]
                  + ["Robotools." + t for t in ("parseNat_natDigits", "parseInt_intDigits", "parseFmt2_fmt2", "parse_render_ad", "parse_render_rd")]
                  + ["Robotools.Tpl." + t for t in ("render_asp", "render_disp", "render_rd", "render_comment", "render_wash", "render_fixed", "render_setDiti")],
         genok=["gen_templateA_ok", "gen_templateD_ok", "gen_templateR_ok", "gen_templateRsrc_ok", "gen_templateRdst_ok",
                                "gen_templateComment_ok", "gen_templateWash_ok", "gen_templateWashDiti_ok", "gen_templateDecon_ok",
                                "gen_templateFlush_ok", "gen_templateCommit_ok", "gen_templateSetDiti_ok", "gen_maxRecordVolume_ok",
                                "gen_maxTextLen_ok", "gen_washSchemes_ok", "gen_volumeFormat_ok"],
         rule="argument tuples of comment/wash/decontaminate/flush/commit/set_diti/aspirate_well/dispense_well/reagent_distribution with printable Latin-1 text 0..40 chars, one fault per invalid call; plus records produced through operations")


# ------------------------------------------------------------------ C13 EVO script commands
def run_C13(ctx):
    res = Result()
    rng = ctx.rng
    progs = corpus_progs(ctx) + [gen_evo_program(rng, p_fail=0.35) for _ in range(ctx.n(300))]
    stateful(ctx, res, "evo", progs, ["evo"], stop_on_error=False)
    # selections spanning several columns in every arrangement (first / middle / last / several wells moved, a row
    # neighbour inserted): IDs stay ascending, so only the single-column rule can refuse them
    progs = [gen_evo_program(rng, p_fail=0.8, fail_kinds=["columns"]) for _ in range(ctx.n(60))]
    stateful(ctx, res, "evo-multicolumn", progs, ["evo"], stop_on_error=False)
    return res


register("C13", run_C13, module="Robotools.Props.C13",
         theorems=["Robotools.C13." + t for t in ("evo_cmd_agrees", "evo_names_arguments", "evo_tracking_aspirate", "evo_tracking_dispense",
                   "accepted_expressible", "evo_rejects", "rejected_emits_no_command", "evo_wash_spec", "evo_wash_rejects_grid",
                   "evo_wash_rejects_other")]
                  + ["Robotools.Evo." + t for t in ("evoAD_spec", "evoSel_spec", "enumWells_eq", "sel_sorted", "evoVols_spec", "evoTipVals_spec")]
                  + ["Robotools.Tpl." + t for t in ("render_evoAD", "render_evoWash")],
         genok=["gen_templateEvoAspirate_ok", "gen_templateEvoDispense_ok", "gen_templateEvoWash_ok", "gen_tipSlots_ok",
                                "gen_maxGrid_ok", "gen_maxSite_ok", "gen_maxDilutorVolume_ok", "gen_selBits_ok", "gen_selOffset_ok"],
         rule="evo_aspirate/evo_dispense/evo_wash programs on plates and troughs: wells of one column in ascending order with shuffled distinct tips, scalar and per-tip volumes; one fault per invalid call (order, repeats, columns, ranges, lengths)")


# ------------------------------------------------------------------ C14 DilutionPlan
def plan_ok(plan, stock, min_transfer):
    """Independent statement of the plan-level clauses of C14 on a DilutionPlan object (exact arithmetic)."""
    import numpy as np
    R, C = plan.R, plan.C
    vmax = [F(float(v)) for v in plan.vmax]
    conc = {}
    drawn = {}
    prepared = []
    if len(plan.instructions) != C or sorted(i[0] for i in plan.instructions) != list(range(C)):
        return "not every column is prepared exactly once"
    for col, dsteps, src, v in plan.instructions:
        vs = [F(float(x)) for x in np.atleast_1d(v)]
        if len(vs) != R:
            return f"column {col}: {len(vs)} volumes for {R} rows"
        for x in vs:
            if x.denominator != 1:
                return f"column {col}: transfer volume {float(x)} is not a whole number of microlitres"
            if x < F(min_transfer):
                return f"column {col}: transfer volume {float(x)} below min_transfer {float(min_transfer)}"
            if x > vmax[col]:
                return f"column {col}: transfer volume {float(x)} above vmax {float(vmax[col])}"
        if isinstance(src, str):
            if src != "stock" or dsteps != 0:
                return f"column {col}: source {src!r} with {dsteps} dilution steps"
            conc[col] = [x / vmax[col] * F(stock) for x in vs]
        else:
            src = int(src)
            if src not in prepared:
                return f"column {col} is prepared from column {src}, which is not prepared earlier"
            for r, x in enumerate(vs):
                drawn[(src, r)] = drawn.get((src, r), F(0)) + x
                if drawn[(src, r)] > vmax[src]:
                    return f"column {src} row {r}: {float(drawn[(src, r)])} µL drawn from a column that holds {float(vmax[src])} µL"
            conc[col] = [x / vmax[col] * conc[src][r] for r, x in enumerate(vs)]
        prepared.append(col)
    x = np.asarray(plan.x, dtype=float)
    for c in range(C):
        for r in range(R):
            want = conc[c][r]
            if abs(F(float(x[r, c])) - want) > F(1, 10**9) * max(1, want):
                return f"reported concentration x[{r},{c}] = {float(x[r, c])}, instructions imply {float(want)}"
            if want > F(stock) * (1 + F(1, 10**9)):
                return f"concentration {float(want)} above the stock concentration"
    v_stock = sum(F(float(xx)) for _, d, s, v in plan.instructions if d == 0 for xx in np.atleast_1d(v))
    if F(float(plan.v_stock)) != v_stock:
        return f"v_stock = {plan.v_stock}, instructions use {float(v_stock)}"
    if F(float(plan.v_diluent)) != sum(R * v for v in vmax) - v_stock:
        return "v_diluent inconsistent"
    return None


def plan_exec(plan, stock_conc, dev, max_volume, with_dest, rng):
    """Execute the plan on sufficiently large labware; tracked composition must equal plan.x."""
    import numpy as np
    R, C = plan.R, plan.C
    big = float(sum(float(v) for v in plan.vmax) * R * 4 + 1000)
    vr = rng.choice([1, 2, R, 8])
    # stock and diluent sit in a randomly chosen column of multi-column troughs whose other columns hold
    # other liquids (so a plan executed from the wrong column is seen in composition AND consumption);
    # sometimes both live in one trough
    def trough(name, liquid, vrows):
        ncol = rng.choice([1, 1, 2, 3])
        col = rng.randrange(ncol)
        names = [liquid if c == col else f"other{c}_{name}" for c in range(ncol)]
        return impl.Trough(name, vrows, ncol, min_volume=0, max_volume=big, initial_volumes=[big] * ncol, column_names=names), col
    if rng.random() < 0.2:
        ncol = rng.choice([2, 3])
        stock_col, dil_col = rng.sample(range(ncol), 2)
        names = ["stock" if c == stock_col else "diluentliq" if c == dil_col else f"other{c}" for c in range(ncol)]
        stock = dil = impl.Trough("reagents", vr, ncol, min_volume=0, max_volume=big, initial_volumes=[big] * ncol, column_names=names)
    else:
        stock, stock_col = trough("stock", "stock", vr)
        dil, dil_col = trough("diluent", "diluentliq", rng.choice([1, R, 8]))
    plate = impl.Labware("dilplate", R + rng.choice([0, 1]), C + rng.choice([0, 2]), min_volume=0, max_volume=float(max(plan.vmax)) + 10)
    dest = impl.Labware("dest", R, C, min_volume=0, max_volume=1000) if with_dest else None
    wl = impl.make_wl({"dev": dev, "max_volume": max_volume})
    kw = dict(worklist=wl, stock=stock, diluent=dil, diluent_column=dil_col, dilution_plate=plate)
    if stock_col != 0 or rng.random() < 0.5:
        kw["stock_column"] = stock_col
    if with_dest:
        # The plan budgets only its own serial transfers; `v_destination` is the caller's choice and
        # is drawn from what is left in each column afterwards.  Asking for more than the smallest
        # residual is a request the volume tracking rightly refuses (C02), not a defect of the plan
        # (false alarm of an earlier version of this harness, see DESIGN.md §9).
        resid = None
        for c in range(C):
            drawn = np.zeros(R)
            for col, _, src, v in plan.instructions:
                if src == c:
                    drawn = drawn + np.asarray(v, dtype=float)
            left = float(np.min(float(np.atleast_1d(plan.vmax)[c]) - drawn))
            resid = left if resid is None else min(resid, left)
        vd = min(rng.choice([5.0, 10.0]), math.floor(resid * 4) / 4)
        if vd > 0:
            kw.update(destination_plate=dest, v_destination=vd)
    kw.update(mix_repeat=rng.choice([0, 1, 2]), mix_volume=rng.choice([0.5, 0.8]))
    try:
        plan.to_worklist(**kw)
    except Exception as e:  # noqa: BLE001
        return f"to_worklist raised {e!r}"
    comp = plate.composition
    x = np.asarray(plan.x, dtype=float)
    for c in range(C):
        for r in range(R):
            f = float(comp.get("stock", np.zeros_like(plate.volumes))[r, c])
            got = f * float(stock_conc)
            if abs(got - x[r, c]) > 1e-9 * max(1, abs(x[r, c])):
                return f"well ({r},{c}): tracked concentration {got}, plan reports {x[r, c]}"
    for name, arr in comp.items():
        if name not in ("stock", "diluentliq") and float(np.max(arr)) != 0:
            return f"liquid {name!r} from a trough column the plan was not told to use ended up in the dilution plate"
    used_stock = big - float(stock.volumes[0, stock_col])
    used_dil = big - float(dil.volumes[0, dil_col])
    if abs(used_stock - float(plan.v_stock)) > 1e-6:
        return f"stock consumed {used_stock}, plan says {plan.v_stock}"
    if used_dil > float(plan.v_diluent) + 1e-6:
        return f"diluent consumed {used_dil} > v_diluent {plan.v_diluent}"
    for T, used_cols in ((stock, {stock_col} | ({dil_col} if dil is stock else set())), (dil, {dil_col} | ({stock_col} if dil is stock else set()))):
        for c in range(T.n_columns):
            if c not in used_cols and float(T.volumes[0, c]) != big:
                return f"column {c} of trough {T.name!r} was drawn from although the plan was told to use column(s) {sorted(used_cols)}"
    return None


def _tight_budget_params(rng, tries=30000, want="budget"):
    """Parameter sets in which the per-well budget of a source column decides by a hair: an independent float re-run of
    the documented planning rule (round for stock columns, ceil for serial ones, leftmost feasible source) is used as a
    FILTER only — it keeps candidates where some 'still available - needed' margin lies within a few microlitres of 0."""
    import math
    for _ in range(tries):
        R = rng.choice([1, 2, 3, 4]) if want == "budget" else rng.choice([3, 4, 8])
        C = rng.choice([3, 4, 5, 6])
        stock = float(rng.choice([20, 50, 100]))
        xmax = stock / rng.choice([2, 4, 5, 10])
        xmin = xmax / rng.choice([2, 4, 10])
        vm = [float(rng.choice([1000, 2048, 2500, 3000, 4096, 5000])) for _ in range(C)]
        minT = float(rng.choice([50, 100, 200, 250]))
        if want == "row-edge":
            # coarse volumes: the rounding of the source column's rows is of the size of the differences between rows
            vm = [float(rng.choice([100, 150, 200, 300])) for _ in range(C)]
            minT = float(rng.choice([10, 15, 20, 25, 30, 40]))
            stock = float(rng.choice([100, 200, 1000]))
            xmax = stock / rng.choice([2, 4, 5])
            xmin = xmax / rng.choice([100, 1000, 10000, 300])
            C = rng.choice([4, 6, 8, 12])
            vm = [float(rng.choice([100, 150, 200, 300])) for _ in range(C)]
        N = R * C
        ideal = [xmax + (xmin - xmax) * k / (N - 1) for k in range(N)] if N > 1 else [xmax]
        if want == "row-edge":
            # logarithmic spacing: the rows of a column need (nearly) the same volume from a source column, so which row
            # falls below min_transfer is decided by the rounding of the source's rows
            ideal = [math.exp(math.log(xmax) + (math.log(xmin) - math.log(xmax)) * k / (N - 1)) for k in range(N)]
        col = lambda c: [ideal[c * R + r] for r in range(R)]
        instr, actual = [], []
        for c in range(C):
            vt = [float(round(vm[c] * x / stock)) for x in col(c)]
            if all(v >= minT for v in vt) and all(v <= vm[c] for v in vt):
                instr.append(c); actual.append([v / vm[c] * stock for v in vt])
            else:
                break
        avail = [[vm[c]] * R for c in range(C)]
        tight = False
        for c in range(len(instr), C):
            for s in range(len(instr)):
                vt = [math.ceil(vm[c] * x / a) for x, a in zip(col(c), actual[s])]
                # a MIDDLE row at the edge of min_transfer / vmax while the first and last rows are inside: every row counts
                if want == "row-edge" and R >= 3 and minT <= vt[-1] and vt[0] <= vm[c] and any(v < minT or v > vm[c] for v in vt[1:-1]):
                    tight = True
                if all(v >= minT for v in vt) and all(v <= vm[c] for v in vt):
                    margins = [a - v for a, v in zip(avail[s], vt)]
                    # (a column that was drawn from before and still holds more than 2048 uL: where a narrow float type
                    # no longer represents every whole microlitre)
                    if any(abs(m) <= 2 and a != vm[s] and a > 2048 for m, a in zip(margins, avail[s])):
                        tight = True
                    if all(m >= 0 for m in margins):
                        avail[s] = margins
                        instr.append(c); actual.append([v * a / vm[c] for v, a in zip(vt, actual[s])])
                        break
            else:
                break
        if tight:
            return dict(R=R, C=C, stock=F(stock), xmax=F(xmax), xmin=F(xmin), mode="log" if want == "row-edge" else "linear",
                        vmax=[F(v) for v in vm], minT=F(minT))
    return None


def run_C14(ctx):
    import numpy as np
    from robotools import DilutionPlan
    res = Result()
    rng = ctx.rng
    cases = []
    fragile = 0
    tight_left = ctx.n(120)
    for _ in range(ctx.n(560) + tight_left):
        u = rng.random()
        tp = None
        if tight_left > 0 and _ >= ctx.n(560):
            tight_left -= 1
            tp = _tight_budget_params(rng, want="row-edge" if tight_left % 4 == 0 else "budget")
            if tp is None:
                continue
            u = 0.0
        stress = u < 0.5
        coarse = 0.5 <= u < 0.7
        res.dist["dilution:budget-stress" if stress else "dilution:coarse-stock" if coarse else "dilution:general"] += 1
        if coarse:
            # coarse stock phase: the stock is 100-200x more concentrated than the highest target, so the first column
            # takes 1-2 µL of stock and its achieved concentration is rounded well below the ideal one; a later, SMALLER
            # column then needs slightly more than its own vmax from it (v <= vmax of the target must refuse that)
            R = rng.choice([4, 8, 8])
            C = rng.choice([3, 4, 6, 8])
            stock = F(rng.choice([100, 200, 1000]))
            xmax = stock / rng.choice([100, 200, 150])
            xmin = xmax / rng.choice([4, 10, 20])
            mode = rng.choice(["log", "linear"])
            vmax = [F(rng.choice([200, 300, 150]))] + [F(rng.choice([100, 50]))] * (C - 1)
            minT = F(1)
        elif stress:
            # budget stress: several later columns compete for one source column and the rows of a column need
            # clearly different volumes (linear spacing), so that the per-well budget of a source is what decides
            R = rng.choice([2, 3, 4, 8])
            C = rng.choice([4, 5, 6, 8, 12])
            stock = F(rng.choice([10, 20, 100, 50]))
            xmax = stock / rng.choice([2, 4, 5, 10])
            xmin = xmax / rng.choice([4, 10, 20, 50])
            mode = "linear" if rng.random() < 0.85 else "log"
            vmax = F(rng.choice([100, 200, 150])) if rng.random() < 0.8 else [F(rng.choice([100, 200, 150])) for _ in range(C)]
            minT = F(rng.choice([10, 15, 20, 25, 30, 40]))
            if tp is not None:
                R, C, stock, xmax, xmin, mode, vmax, minT = (tp[k] for k in ("R", "C", "stock", "xmax", "xmin", "mode", "vmax", "minT"))
                res.dist["dilution:budget of a reused source decided within 2 uL (filtered)"] += 1
        else:
            R = rng.choice([1, 2, 3, 4, 8, 16]) if rng.random() < 0.8 else rng.randint(1, 16)
            C = rng.choice([1, 2, 3, 4, 6, 12, 24]) if rng.random() < 0.8 else rng.randint(1, 24)
            stock = F(rng.choice([10, 20, 100, 50, 1000, 12]))
            xmax = stock if rng.random() < 0.4 else stock / rng.choice([2, 4, 10])
            xmin = xmax / rng.choice([2, 10, 100, 1000, 10000])
            mode = rng.choice(["log", "linear"])
            vmax = F(rng.choice([100, 200, 1000, 950, 300, 1500])) if rng.random() < 0.7 else [F(rng.choice([100, 200, 1000, 500])) for _ in range(C)]
            if rng.random() < 0.15:
                vmax = F(rng.choice([201, 1001, 1005])) / 2      # non-integer vmax
            minT = F(rng.choice([1, 5, 10, 20, 30, 60]))
        kw = dict(xmin=float(xmin), xmax=float(xmax), R=R, C=C, stock=float(stock), mode=mode,
                  vmax=float(vmax) if not isinstance(vmax, list) else [float(v) for v in vmax], min_transfer=float(minT))
        if rng.random() < (0.3 if tp is None else 0.7):
            # vmax handed over as a numpy array of a narrower / integer type (what a labware definition table gives):
            # values exactly representable in that type, incl. deep-well volumes >= 2048 where float16 has steps of 2..4
            dt = rng.choice([np.float16, np.float16, np.float32, np.int64, np.int32, np.uint16] if tp is None else [np.float16, np.float16, np.float16, np.float32])
            if stress and tp is None and rng.random() < 0.7:
                vmax = [F(rng.choice([1000, 2048, 3000, 4096, 5000])) for _ in range(C)]
                minT = F(rng.choice([10, 20, 50]))
                kw["min_transfer"] = float(minT)
            vl = [vmax] * C if not isinstance(vmax, list) else vmax
            if all(F(float(dt(float(v)))) == v for v in vl):
                vmax = list(vl)
                kw["vmax"] = np.array([float(v) for v in vl], dtype=dt)
                res.dist[f"dilution:vmax as {np.dtype(dt).name} array"] += 1
        plan, err = None, None
        try:
            plan = DilutionPlan(**kw)
        except Exception as e:  # noqa: BLE001
            err = impl.classify(e)
        case = {"kind": "fn", "fn": "DilutionPlan", "args": {k: (F(v) if isinstance(v, float) else f"{v.dtype.name}{v.tolist()}" if isinstance(v, np.ndarray) else v) for k, v in kw.items()}}
        msg = None
        # ideal targets as the implementation computed them (inputs of the model)
        if mode == "log":
            ideal = np.exp(np.linspace(np.log(float(xmax)), np.log(float(xmin)), R * C))
        else:
            ideal = np.linspace(float(xmax), float(xmin), R * C)
        ideal = ideal.reshape((R, C), order="F")
        vm = [vmax] * C if not isinstance(vmax, list) else vmax
        line = (f"dilution {R} {C} {proto.e_rat(stock)} {','.join(proto.e_rat(v) for v in vm)} {proto.e_rat(minT)} "
                + ",".join(proto.e_rat(F(float(ideal[r, c]))) for r in range(R) for c in range(C)))
        if plan is not None:
            msg = plan_ok(plan, stock, minT)
            if msg is None:
                for dev in ("evo", "fluent"):
                    m2 = plan_exec(plan, stock, dev, F(rng.choice([950, 200, 1000])), rng.random() < 0.3, rng)
                    if m2:
                        msg = f"execution on {dev}: {m2}"
                        break
            ans = "ok " + ";".join(f"{c}:{d}:{'stock' if isinstance(s, str) else int(s)}:" + ",".join(proto.e_rat(F(float(x))) for x in np.atleast_1d(v))
                                   for c, d, s, v in plan.instructions)
            ans += " x=" + ",".join(proto.e_rat(F(float(plan.x[r, c]))) for c in range(C) for r in range(R))
        else:
            ans = "err:" + err
            if err != "valueErr":
                msg = f"request that cannot be met raised {err}, not ValueError"
        if msg:
            msg = f"DilutionPlan({kw}): {msg}"
        cases.append({"line": line, "impl": ans, "case": case, "oracle": msg, "sig": "C14:dilution_plan", "nontrivial": plan is not None})

    def cmp(a, b):
        if a == b:
            return True
        if a.startswith("err") or b.startswith("err") or not b.startswith("ok"):
            return a[:3] == b[:3] and a.startswith("err")
        ia, xa = a[3:].split(" x=")
        ib, xb = b[3:].split(" x=")
        if ia != ib:
            return False
        va, vb = [proto.d_rat(t) for t in xa.split(",")], [proto.d_rat(t) for t in xb.split(",")]
        return len(va) == len(vb) and all(abs(p - q) <= F(1, 10**9) * max(1, abs(q)) for p, q in zip(va, vb))

    # numerically fragile cases (a float rounding may flip round()/ceil() near a tie or an integer) are counted and skipped
    answers = proto.run_driver(["fn " + c["line"] for c in cases])
    kept = []
    for c, a in zip(cases, answers):
        if not cmp(c["impl"], a) and dilution_fragile(c):
            fragile += 1
            res.dist["dilution:fragile-skipped"] += 1
            continue
        kept.append(c)
    fn_stream(ctx, res, "dilution_plan", kept, cmp)
    res.extra["numerically_fragile_skipped"] = fragile
    return res


def dilution_fragile(c):
    """True if, following the exact algorithm, some pre-rounding quantity lies within 1e-7 of a rounding tie / integer."""
    a = c["case"]["args"]
    toks = c["line"].split(" ")
    R, C = int(toks[1]), int(toks[2])
    stock = proto.d_rat(toks[3]) if "/" in toks[3] else F(toks[3])
    vmax = [proto.d_rat(t) for t in toks[4].split(",")]
    ideal = [proto.d_rat(t) for t in toks[6].split(",")]
    eps = F(1, 10**7)
    x = []
    for c_ in range(C):
        col = [ideal[r * C + c_] for r in range(R)]
        for i in col:
            qv = vmax[c_] * i / stock
            fr = qv - (qv.numerator // qv.denominator)
            if abs(fr - F(1, 2)) < eps:
                return True
        for prev in x:
            for i, p in zip(col, prev):
                if p == 0:
                    continue
                qv = vmax[c_] * i / p
                fr = qv - (qv.numerator // qv.denominator)
                if fr < eps or 1 - fr < eps:
                    return True
        # approximate achieved concentrations (either phase) for later columns
        vt = [F(round(vmax[c_] * i / stock)) for i in col]
        x.append([v / vmax[c_] * stock for v in vt])
    return False


register("C14", run_C14, module="Robotools.Props.C14",
         theorems=["Robotools.C14." + t for t in ("planFrom_ok", "volumes_ok", "sources_earlier", "budget", "planFrom_none_stuck")]
                  + ["Robotools.Dil." + t for t in ("planCol_inv", "fold_inv", "findSource_spec", "drawn_future")],
         rule="(xmin, xmax, R, C, stock, mode, vmax scalar / per-column / non-integer, min_transfer) with R 1..16, C 1..24; every returned plan checked by an independent exact checker and executed with to_worklist on both devices; the implementation's ideal targets are fed to the Lean model of the planning algorithm")
