#!/bin/bash
# seeded_try.sh <mutant-id> <property> [...] — run the checks of the WORKING TREE of /verif (not HEAD) against a stored
# seeded change applied to a fresh scratch worktree of /repo; nothing is recorded (development aid).
ID=$1; shift
WT=/tmp/wt/try_$ID
git -C /repo worktree remove --force $WT 2>/dev/null; rm -rf $WT; mkdir -p /tmp/wt
git -C /repo worktree add -q --detach $WT HEAD || exit 2
git -C $WT apply /verif/seeded/$ID/patch.diff || { git -C /repo worktree remove --force $WT; exit 2; }
for P in "$@"; do (cd /verif && VERIF_REPO=$WT ./check $P 2>&1 | grep -v "^KNOWN" | tail -3 | cut -c1-260); done
git -C /repo worktree remove --force $WT
