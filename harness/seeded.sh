#!/bin/bash
# seeded.sh <mutant-id> <worktree> <property> [more properties...]
# Confirms a seeded change (suite green, demo fails with / passes without), stores it under
# /verif/seeded/<id>/, runs the given checks against /repo with the patch applied, then reverts /repo.
set -u
ID=$1; WT=$2; shift 2
OUT=/verif/seeded/$ID
mkdir -p $OUT
git -C $WT diff > $OUT/patch.diff
cp $WT/demo_*.py $OUT/ 2>/dev/null
DEMO=$(ls $WT/demo_*.py | head -1)
echo "== suite with change" | tee $OUT/confirm.log
(cd $WT && PYTHONPATH=$WT /venv/bin/python -m pytest -q -p no:cacheprovider 2>&1 | tail -1) | tee -a $OUT/confirm.log
echo "== demo with change (must fail)" | tee -a $OUT/confirm.log
(cd $WT && PYTHONPATH=$WT /venv/bin/python $DEMO > /tmp/demo_out.txt 2>&1; echo "exit=$?"; tail -3 /tmp/demo_out.txt) | tee -a $OUT/confirm.log
git -C $WT apply -R $OUT/patch.diff   # (no `git stash`: the stash stack is shared by all worktrees of a repository)
echo "== demo without change (must pass)" | tee -a $OUT/confirm.log
(cd $WT && PYTHONPATH=$WT /venv/bin/python $DEMO > /tmp/demo_out.txt 2>&1; echo "exit=$?"; tail -1 /tmp/demo_out.txt) | tee -a $OUT/confirm.log
git -C $WT apply $OUT/patch.diff
if ! git -C /repo diff --quiet; then echo "/repo not clean"; exit 2; fi
git -C /repo apply $OUT/patch.diff || { echo "patch does not apply"; exit 2; }
for P in "$@"; do
  echo "== ./check $P with the change applied to /repo" | tee -a $OUT/confirm.log
  (cd /verif && timeout 1500 ./check $P 2>&1 | grep -v "^KNOWN" | tail -4; echo "exit=${PIPESTATUS[0]}") | tee -a $OUT/confirm.log
done
git -C /repo checkout -- .
git -C /repo status --short | head -3
