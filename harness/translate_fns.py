"""Translator for small pure functions and guards (tie of the first kind: the model is regenerated from the source).

A deliberately small Python → Lean translator (`ast` only).  It understands exactly the statement and
expression forms listed below; anything else makes a target "not translatable" and its obligation is
reported as broken (never silently skipped).  The translated definitions go to
`lean/Robotools/Generated/Fns.lean`; `lean/Robotools/Proofs/GenFns.lean` proves each of them equal to the
hand-written model function the property theorems are about, so after a source change either the proof
still goes through (harmless rewrite) or an obligation breaks and the check starts its failing-input search.

Numbers: in a `Rat` target every Python number becomes a `Rat` (exact); `math.ceil(x)` becomes
`((Rat.ceil x : Int) : Rat)`.  In an `Int` target numbers are `Int`, `//` is floor division (`Int.fdiv`),
`len(x)` is `(x.length : Int)`.  This is the exact-arithmetic reading of the code (DESIGN §3.1): the binary64
behaviour outside the exactness envelope is not what the translation captures.  Python objects the translation
has to give a meaning to (insertion-ordered dicts as association lists, list repetition, slicing) are the
definitions of `lean/Robotools/Generated/Prelude.lean` — hand-written, a dozen lines, part of the trusted base.

Statements : docstring, `x = e`, `x: T = e`, `x.append(e)`, `d[k] = e`, `d[k] += e`, `if c: return e`,
             `if c: raise E(..)`, `if c: x = e` / `if c: d[k] = e` (no else), `if c: x = a else: x = b`,
             `if/elif/else` chains of returns, `for k, f in d.items(): <simple statements on one dict>`,
             `return e`, `raise E(..)`; logging calls and isinstance-asserts are skipped (listed per target)
Expressions: names, numbers, strings, `[e, …]`, `a op b` for + - * / // , comparisons, `not`, `and`, `or`,
             `k in d` / `not k in d`, `x in {..literals..}`, `math.ceil(e)`, `numpy.sum(e)`, `[e] * k`,
             `xs * k` (list repetition), `xs[:n]`, `len(xs)`, `dict(d)`, `{k: e for k, f in d.items()}`,
             attribute reads listed in the target's `attrs` map (e.g. `source.is_trough`)
"""
from __future__ import annotations

import ast
import os
from pathlib import Path

REPO = Path(os.environ.get("VERIF_REPO", "/repo"))
OUT = Path(__file__).resolve().parent.parent / "lean" / "Robotools" / "Generated" / "Fns.lean"


class Unsupported(Exception):
    pass


# Each target: source file, function (Class.method allowed), Lean name, Lean binder, Lean result type, options:
#   num     : "Rat" | "Int"  — the type of number literals
#   raises  : the function may raise; result type is `Except String <rty>` and every `return e` becomes `.ok e`
#   attrs   : unparsed attribute / subscript expressions that are read as parameters
#   dicts   : local / parameter names that are dicts (association lists `Py.Dict`)
#   lists   : names that are lists
#   skip    : predicates on unparsed statements that are ignored (logging, type assertions)
#   slice   : ("loop", var-substring, stop-substring) — translate the body of the first `for` loop whose header mentions
#             `var-substring`, up to (excluding) the first statement whose text contains `stop-substring`;
#             the translated function returns `result`
TARGETS = [
    dict(file="robotools/worklists/utils.py", func="partition_volume", lean="partition_volume",
         binder="(volume max_volume : Rat)", rty="List Rat", num="Rat"),
    dict(file="robotools/liquidhandling/labware.py", func="Labware.add", lean="labware_add_step",
         binder="(cur volume max_volume : Rat)", rty="Rat", num="Rat", raises=True,
         slice=("loop", "compositions", "composition is not None"), result="cur",
         attrs={"self._volumes[idx]": "cur", "self.max_volume": "max_volume"}, skip=["idx = self.indices[well]"]),
    dict(file="robotools/liquidhandling/labware.py", func="Labware.remove", lean="labware_remove_step",
         binder="(cur volume min_volume : Rat)", rty="Rat", num="Rat", raises=True,
         slice=("loop", "volumes", "\0never"), result="cur",
         attrs={"self._volumes[idx]": "cur", "self.min_volume": "min_volume"}, skip=["idx = self.indices[well]"]),
    dict(file="robotools/liquidhandling/composition.py", func="combine_composition", lean="combine_composition",
         binder="(volume_A : Rat) (composition_A : Py.Dict) (volume_B : Rat) (composition_B : Py.Dict)", rty="Py.Dict",
         num="Rat", dicts=["composition_A", "composition_B", "volumetric_fractions", "new_composition"],
         skip=["if composition_A is None or composition_B is None:"]),
    dict(file="robotools/worklists/utils.py", func="optimize_partition_by", lean="optimize_partition_by",
         binder="(source_is_trough destination_is_trough : Bool) (partition_by : String)", rty="String", num="Int",
         raises=True, attrs={"source.is_trough": "source_is_trough", "destination.is_trough": "destination_is_trough"},
         skip=["logger.warning"]),
    dict(file="robotools/utils.py", func="get_trough_wells", lean="get_trough_wells",
         binder="(n : Int) (trough_wells : List String)", rty="List String", num="Int", raises=True,
         lists=["trough_wells"], skip=["if not isinstance(n, int):", "trough_wells = list(numpy.asarray(trough_wells).flatten('F'))"]),
]


class Tr:
    def __init__(self, t: dict):
        self.t = t
        self.num = t.get("num", "Rat")
        self.raises = t.get("raises", False)
        self.attrs = t.get("attrs", {})
        self.dicts = set(t.get("dicts", []))
        self.lists = set(t.get("lists", []))
        self.skip = t.get("skip", [])

    # ---------------------------------------------------------------- expressions
    def lit(self, v) -> str:
        if isinstance(v, bool):
            return "true" if v else "false"
        if isinstance(v, str):
            if any(ord(c) > 126 or c in '"\\' or ord(c) < 32 for c in v):
                raise Unsupported("string literal")
            return f'"{v}"'
        if isinstance(v, (int, float)):
            if self.num == "Int":
                if isinstance(v, float) and not v.is_integer():
                    raise Unsupported("float literal in an Int target")
                return f"({int(v)} : Int)"
            if isinstance(v, float) and not v.is_integer():
                n, d = v.as_integer_ratio()
                return f"(({n} : Rat) / {d})"
            return f"({int(v)} : Rat)"
        raise Unsupported(f"constant {v!r}")

    def expr(self, e: ast.AST) -> str:
        src = ast.unparse(e)
        if src in self.attrs:
            return self.attrs[src]
        if isinstance(e, ast.Name):
            return e.id
        if isinstance(e, ast.Constant):
            return self.lit(e.value)
        if isinstance(e, ast.List):
            return "[" + ", ".join(self.expr(x) for x in e.elts) + "]"
        if isinstance(e, ast.BinOp):
            # [e] * k  (list repetition of a singleton) / xs * k (list repetition)
            if isinstance(e.op, ast.Mult) and isinstance(e.left, ast.List) and len(e.left.elts) == 1:
                if self.num == "Rat":
                    return f"(List.replicate (Rat.floor {self.atom(e.right)}).toNat {self.atom(e.left.elts[0])})"
                return f"(List.replicate (Int.toNat {self.atom(e.right)}) {self.atom(e.left.elts[0])})"
            if isinstance(e.op, ast.Mult) and isinstance(e.left, ast.Name) and e.left.id in self.lists:
                return f"(Py.repeat {e.left.id} {self.atom(e.right)})"
            if isinstance(e.op, ast.FloorDiv):
                if self.num != "Int":
                    raise Unsupported("// in a Rat target")
                return f"(Int.fdiv {self.atom(e.left)} {self.atom(e.right)})"
            ops = {ast.Add: "+", ast.Sub: "-", ast.Mult: "*", ast.Div: "/"}
            if type(e.op) not in ops or (isinstance(e.op, ast.Div) and self.num == "Int"):
                raise Unsupported(f"operator {type(e.op).__name__}")
            return f"({self.expr(e.left)} {ops[type(e.op)]} {self.expr(e.right)})"
        if isinstance(e, ast.Subscript):
            if isinstance(e.value, ast.Name) and e.value.id in self.dicts:
                return f"(Py.dget {e.value.id} {self.atom(e.slice)})"
            if isinstance(e.value, ast.Name) and e.value.id in self.lists and isinstance(e.slice, ast.Slice) \
                    and e.slice.lower is None and e.slice.step is None and e.slice.upper is not None:
                return f"(List.take (Int.toNat {self.atom(e.slice.upper)}) {e.value.id})"
            if isinstance(e.slice, ast.Slice) and e.slice.lower is None and e.slice.step is None and e.slice.upper is not None:
                return f"(List.take (Int.toNat {self.atom(e.slice.upper)}) {self.atom(e.value)})"
            raise Unsupported("subscript " + src)
        if isinstance(e, ast.DictComp):
            # {k: <expr in k, v> for k, v in d.items()}
            g = e.generators[0]
            if len(e.generators) != 1 or g.ifs or not (isinstance(g.iter, ast.Call) and isinstance(g.iter.func, ast.Attribute)
                                                        and g.iter.func.attr == "items" and isinstance(g.target, ast.Tuple)
                                                        and len(g.target.elts) == 2 and all(isinstance(x, ast.Name) for x in g.target.elts)):
                raise Unsupported("dict comprehension " + src)
            k, v = (x.id for x in g.target.elts)
            if ast.unparse(e.key) != k:
                raise Unsupported("dict comprehension key")
            d = ast.unparse(g.iter.func.value)
            return f"(List.map (fun (p : String × Rat) => let {k} := p.1; let {v} := p.2; ({k}, {self.expr(e.value)})) {d})"
        if isinstance(e, ast.Call):
            fn = ast.unparse(e.func)
            if fn == "math.ceil" and len(e.args) == 1 and not e.keywords:
                return f"(((Rat.ceil {self.atom(e.args[0])} : Int)) : Rat)"
            if fn in ("numpy.sum", "np.sum", "sum") and len(e.args) == 1 and not e.keywords:
                return f"(List.sum {self.atom(e.args[0])})"
            if fn == "len" and len(e.args) == 1:
                return f"((List.length {self.atom(e.args[0])} : Nat) : Int)"
            if fn == "dict" and len(e.args) == 1 and isinstance(e.args[0], ast.Name) and e.args[0].id in self.dicts:
                return e.args[0].id
            raise Unsupported(f"call {fn}")
        if isinstance(e, ast.IfExp):
            return f"(if {self.cond(e.test)} then {self.expr(e.body)} else {self.expr(e.orelse)})"
        raise Unsupported(type(e).__name__ + ": " + src)

    def atom(self, e: ast.AST) -> str:
        s = self.expr(e)
        return s if s.startswith("(") or s.startswith("[") or s.startswith('"') or s.replace("_", "a").isalnum() else f"({s})"

    def cond(self, e: ast.AST) -> str:
        src = ast.unparse(e)
        if src in self.attrs:
            return f"{self.attrs[src]} = true"
        if isinstance(e, ast.UnaryOp) and isinstance(e.op, ast.Not):
            return f"¬ ({self.cond(e.operand)})"
        if isinstance(e, ast.BoolOp):
            op = " ∧ " if isinstance(e.op, ast.And) else " ∨ "
            return "(" + op.join(f"({self.cond(v)})" for v in e.values) + ")"
        if isinstance(e, ast.Compare) and len(e.ops) == 1:
            l, r, op = e.left, e.comparators[0], e.ops[0]
            if isinstance(op, (ast.In, ast.NotIn)):
                neg = "¬ " if isinstance(op, ast.NotIn) else ""
                if isinstance(r, ast.Name) and r.id in self.dicts:
                    return f"{neg}(Py.dhas {r.id} {self.atom(l)} = true)"
                if isinstance(r, (ast.Set, ast.List, ast.Tuple)) and all(isinstance(x, ast.Constant) for x in r.elts):
                    return f"{neg}({self.atom(l)} ∈ [{', '.join(self.lit(x.value) for x in r.elts)}])"
                raise Unsupported("membership " + src)
            ops = {ast.Eq: "=", ast.NotEq: "≠", ast.Lt: "<", ast.LtE: "≤", ast.Gt: ">", ast.GtE: "≥"}
            if type(op) not in ops:
                raise Unsupported("comparison " + src)
            return f"{self.expr(l)} {ops[type(op)]} {self.expr(r)}"
        if isinstance(e, ast.Name) or isinstance(e, ast.Attribute):
            return f"{self.expr(e)} = true"
        raise Unsupported("condition " + src)

    # ---------------------------------------------------------------- statements
    def ret(self, s: str) -> str:
        return f"(Except.ok {s})" if self.raises else s

    def skipped(self, s: ast.stmt) -> bool:
        text = ast.unparse(s)
        head = text.split("\n")[0]
        if any(head.startswith(k) or text.startswith(k) for k in self.skip):
            return True
        # an `if` all of whose branches consist of skipped statements only (e.g. logging) has no effect
        if isinstance(s, ast.If) and s.body and all(self.skipped(b) for b in s.body) and all(self.skipped(b) for b in s.orelse):
            return True
        return False

    def raise_expr(self, s: ast.Raise) -> str:
        if not self.raises:
            raise Unsupported("raise in a target that is declared not to raise")
        name = ast.unparse(s.exc.func) if isinstance(s.exc, ast.Call) else ast.unparse(s.exc)
        return f'(Except.error "{name}")'

    def simple(self, s: ast.stmt, ind: str):
        """A statement that only updates variables: returns (lean line(s) ending in newline, assigned variable) or None."""
        if isinstance(s, (ast.Assign, ast.AnnAssign)):
            tgt = s.targets[0] if isinstance(s, ast.Assign) else s.target
            if s.value is None:
                raise Unsupported("annotation without value")
            tsrc = ast.unparse(tgt)
            if tsrc in self.attrs:
                return f"{ind}let {self.attrs[tsrc]} := {self.expr(s.value)}\n", self.attrs[tsrc]
            if isinstance(tgt, ast.Name):
                return f"{ind}let {tgt.id} := {self.expr(s.value)}\n", tgt.id
            if isinstance(tgt, ast.Subscript) and isinstance(tgt.value, ast.Name) and tgt.value.id in self.dicts:
                d = tgt.value.id
                return f"{ind}let {d} := Py.dset {d} {self.atom(tgt.slice)} {self.atom(s.value)}\n", d
            raise Unsupported("assignment target " + tsrc)
        if isinstance(s, ast.AugAssign) and isinstance(s.op, (ast.Add, ast.Sub)):
            op = "+" if isinstance(s.op, ast.Add) else "-"
            tsrc = ast.unparse(s.target)
            if tsrc in self.attrs:
                v = self.attrs[tsrc]
                return f"{ind}let {v} := ({v} {op} {self.expr(s.value)})\n", v
            if isinstance(s.target, ast.Name):
                v = s.target.id
                return f"{ind}let {v} := ({v} {op} {self.expr(s.value)})\n", v
            if isinstance(s.target, ast.Subscript) and isinstance(s.target.value, ast.Name) and s.target.value.id in self.dicts:
                d = s.target.value.id
                k = self.atom(s.target.slice)
                return f"{ind}let {d} := Py.dset {d} {k} ((Py.dget {d} {k}) {op} {self.expr(s.value)})\n", d
            raise Unsupported("augmented assignment " + tsrc)
        if isinstance(s, ast.Expr) and isinstance(s.value, ast.Call) and isinstance(s.value.func, ast.Attribute) \
                and s.value.func.attr == "append" and isinstance(s.value.func.value, ast.Name) and len(s.value.args) == 1:
            v = s.value.func.value.id
            return f"{ind}let {v} := {v} ++ [{self.expr(s.value.args[0])}]\n", v
        if isinstance(s, ast.If) and not s.orelse and all(not isinstance(b, (ast.Return, ast.Raise)) for b in s.body):
            # if c: <simple statements on ONE variable>
            parts = [self.simple(b, ind + "    ") for b in s.body]
            if any(p is None for p in parts):
                return None
            vs = {p[1] for p in parts}
            if len(vs) != 1:
                raise Unsupported("conditional update of several variables")
            v = vs.pop()
            body = "".join(p[0] for p in parts)
            return f"{ind}let {v} := if {self.cond(s.test)} then (\n{body}{ind}    {v})\n{ind}  else {v}\n", v
        if isinstance(s, ast.If) and len(s.body) == 1 and len(s.orelse) == 1:
            a, b = self.simple(s.body[0], ""), self.simple(s.orelse[0], "")
            if a and b and a[1] == b[1] and a[0].count("\n") == 1 and b[0].count("\n") == 1:
                v = a[1]
                ea = a[0].split(":=", 1)[1].strip()
                eb = b[0].split(":=", 1)[1].strip()
                return f"{ind}let {v} := if {self.cond(s.test)} then {ea} else {eb}\n", v
        return None

    def block(self, stmts: list[ast.stmt], ind: str, final: str | None = None) -> str:
        if not stmts:
            if final is not None:
                return f"{ind}{self.ret(final)}"
            raise Unsupported("function may fall off its end")
        s, rest = stmts[0], stmts[1:]
        if isinstance(s, ast.Expr) and isinstance(s.value, ast.Constant) and isinstance(s.value.value, str):
            return self.block(rest, ind, final)          # docstring
        if self.skipped(s):
            return self.block(rest, ind, final)
        if isinstance(s, ast.Return):
            if s.value is None:
                raise Unsupported("bare return")
            return f"{ind}{self.ret(self.expr(s.value))}"
        if isinstance(s, ast.Raise):
            return f"{ind}{self.raise_expr(s)}"
        sim = self.simple(s, ind)
        if sim is not None:
            return sim[0] + self.block(rest, ind, final)
        if isinstance(s, ast.For):
            # for k, f in d.items(): <simple statements on one dict>
            it = s.iter
            if isinstance(it, ast.Call) and isinstance(it.func, ast.Attribute) and it.func.attr == "items" \
                    and isinstance(s.target, ast.Tuple) and len(s.target.elts) == 2 and not s.orelse:
                k, f = (x.id for x in s.target.elts)
                parts = [self.simple(b, ind + "      ") for b in s.body]
                if any(p is None for p in parts):
                    raise Unsupported("loop body " + ast.unparse(s.body[0]).split("\n")[0])
                vs = {p[1] for p in parts}
                if len(vs) != 1:
                    raise Unsupported("loop updates several variables")
                v = vs.pop()
                body = "".join(p[0] for p in parts)
                d = ast.unparse(it.func.value)
                return (f"{ind}let {v} := List.foldl (fun ({v} : Py.Dict) (p : String × Rat) =>\n{ind}      let {k} := p.1; let {f} := p.2\n"
                        f"{body}{ind}      {v}) {v} {d}\n" + self.block(rest, ind, final))
            raise Unsupported("for loop " + ast.unparse(s).split("\n")[0])
        if isinstance(s, ast.If):
            # if c: return/raise …   [elif …]   [else: …]    followed by the rest
            def branch(body):
                return self.block(body, ind + "  ", final if not rest else None) if body else None
            terminal = isinstance(s.body[-1], (ast.Return, ast.Raise))
            if terminal and not s.orelse:
                return f"{ind}if {self.cond(s.test)} then\n{self.block(s.body, ind + '  ')}\n{ind}else\n" + self.block(rest, ind + "  ", final)
            if s.orelse:
                # both branches continue with the rest (duplicated) unless they return
                tb = self.block(s.body + rest, ind + "  ", final)
                eb = self.block(s.orelse + rest, ind + "  ", final)
                return f"{ind}if {self.cond(s.test)} then\n{tb}\n{ind}else\n{eb}"
        raise Unsupported("statement " + ast.unparse(s).split("\n")[0])


def find_func(tree: ast.AST, name: str):
    if "." in name:
        cls, meth = name.split(".")
        for node in ast.walk(tree):
            if isinstance(node, ast.ClassDef) and node.name == cls:
                for sub in node.body:
                    if isinstance(sub, ast.FunctionDef) and sub.name == meth:
                        return sub
        return None
    for node in ast.walk(tree):
        if isinstance(node, ast.FunctionDef) and node.name == name:
            return node
    return None


def body_of(fn: ast.FunctionDef, t: dict) -> tuple[list[ast.stmt], str | None]:
    sl = t.get("slice")
    if not sl:
        return fn.body, None
    kind, var, stop = sl
    for node in fn.body:
        if isinstance(node, ast.For) and var in ast.unparse(node.iter):
            out = []
            for s in node.body:
                if stop in ast.unparse(s):
                    break
                out.append(s)
            return out, t["result"]
    raise Unsupported("loop not found")


def normalise(fn: ast.FunctionDef, t: dict) -> ast.FunctionDef:
    """Make the translation independent of the NAMES the source happens to use: parameters are renamed, by position,
    to the names of the Lean binder (whole-function targets only), and local variables that are assigned a dict
    (literal, comprehension, `dict(...)`) are recognised as dictionaries whatever they are called."""
    import copy
    import re as _re
    fn = copy.deepcopy(fn)
    if not t.get("slice") and not t.get("attrs"):
        want = [n for grp in _re.findall(r"\(([^:()]*):", t["binder"]) for n in grp.split()]
        have = [a.arg for a in fn.args.args if a.arg != "self"]
        if len(want) == len(have):
            ren = {h: w for h, w in zip(have, want) if h != w}
            if ren:
                class R(ast.NodeTransformer):
                    def visit_Name(self, n):
                        return ast.copy_location(ast.Name(id=ren.get(n.id, n.id), ctx=n.ctx), n)

                    def visit_arg(self, n):
                        n.arg = ren.get(n.arg, n.arg)
                        return n
                fn = R().visit(fn)
                t["skip"] = list(t.get("skip", []))
                t["dicts"] = [ren.get(d, d) for d in t.get("dicts", [])]
    dicts = set(t.get("dicts", []))
    for node in ast.walk(fn):
        if isinstance(node, ast.Assign) and len(node.targets) == 1 and isinstance(node.targets[0], ast.Name):
            v = node.value
            if isinstance(v, (ast.Dict, ast.DictComp)) or (isinstance(v, ast.Call) and isinstance(v.func, ast.Name) and v.func.id == "dict"):
                dicts.add(node.targets[0].id)
    t["dicts"] = sorted(dicts)
    return fn


def translate_all() -> tuple[str, list[str]]:
    out = ["/- GENERATED by harness/translate_fns.py from /repo's sources — do not edit. -/",
           "import Robotools.Generated.Prelude", "namespace Robotools.Generated", ""]
    missing = []
    for t in TARGETS:
        rel, fname, lname, binder = t["file"], t["func"], t["lean"], t["binder"]
        rty = f"Except String ({t['rty']})" if t.get("raises") else t["rty"]
        try:
            fn = find_func(ast.parse((REPO / rel).read_text(encoding="utf-8")), fname)
            if fn is None:
                raise Unsupported("function not found")
            t = dict(t)
            fn = normalise(fn, t)
            stmts, final = body_of(fn, t)
            body = Tr(t).block(stmts, "  ", final)
            what = "the per-well step of the loop of " if t.get("slice") else ""
            out.append(f"/-- {what}`{fname}` of {rel}, translated statement by statement. -/")
            out.append(f"def {lname} {binder} : {rty} :=\n{body}\n")
            out.append(f"def {lname}_translated : Bool := true\n")
        except (Unsupported, OSError, SyntaxError, KeyError) as e:
            missing.append(f"{fname}: {e}")
            # a sentinel that makes the obligation fail instead of silently passing
            out.append(f"/-- NOT TRANSLATABLE: {str(e)[:120]} -/")
            dflt = "(Except.error \"untranslated\")" if t.get("raises") else "default"
            out.append(f"def {lname} {binder} : {rty} := {dflt}\n")
            out.append(f"def {lname}_translated : Bool := false\n")
    out.append("end Robotools.Generated\n")
    return "\n".join(out), missing


def regenerate() -> tuple[bool, list[str]]:
    text, missing = translate_all()
    old = OUT.read_text(encoding="utf-8") if OUT.exists() else None
    if old != text:
        OUT.parent.mkdir(parents=True, exist_ok=True)
        OUT.write_text(text, encoding="utf-8")
        return True, missing
    return False, missing


if __name__ == "__main__":
    changed, missing = regenerate()
    print("changed" if changed else "unchanged", "missing:", missing)
    print(OUT.read_text())
