"""Translator for small pure functions (tie of the first kind: the model is regenerated from the source).

A deliberately tiny Python → Lean translator (`ast` only).  It understands exactly the statement and
expression forms listed below; anything else makes the function "not translatable" and its obligation is
reported as broken (never silently skipped).  The translated definitions go to
`lean/Robotools/Generated/Fns.lean`; `lean/Robotools/Proofs/GenFns.lean` proves each of them equal to the
hand-written model function the property theorems are about, so after a source change either the proof
still goes through (harmless rewrite) or an obligation breaks and the check starts its failing-input search.

Numbers: every Python number becomes a `Rat` (exact); `math.ceil(x)` becomes `((Rat.ceil x : Int) : Rat)`;
`[e] * k` becomes `List.replicate (Rat.floor k).toNat e`; `numpy.sum(l)` becomes `List.sum l`.
This is the exact-arithmetic reading of the code (DESIGN §3.1): the binary64 behaviour outside the exactness
envelope is not what the translation captures.

Statements : docstring, `x = e`, `x: T = e`, `x.append(e)`, `if c: return e`, `if c: x = e`, `return e`
Expressions: names, int/float constants, `[e, …]`, `a op b` for + - * /, comparisons == != < <= > >=,
             `math.ceil(e)`, `numpy.sum(e)`, `[e] * k`
"""
from __future__ import annotations

import ast
import os
from pathlib import Path

REPO = Path(os.environ.get("VERIF_REPO", "/repo"))
OUT = Path(__file__).resolve().parent.parent / "lean" / "Robotools" / "Generated" / "Fns.lean"


class Unsupported(Exception):
    pass


# (source file, function name, Lean name, parameter names → Lean binder, return type)
TARGETS = [
    ("robotools/worklists/utils.py", "partition_volume", "partition_volume", "(volume max_volume : Rat)", "List Rat"),
]


class Tr:
    def __init__(self):
        self.list_vars: set[str] = set()

    # ---------------------------------------------------------------- expressions
    def expr(self, e: ast.AST) -> str:
        if isinstance(e, ast.Name):
            return e.id
        if isinstance(e, ast.Constant):
            if isinstance(e.value, bool) or not isinstance(e.value, (int, float)):
                raise Unsupported(f"constant {e.value!r}")
            if isinstance(e.value, float) and not e.value.is_integer():
                n, d = e.value.as_integer_ratio()
                return f"(({n} : Rat) / {d})"
            return f"({int(e.value)} : Rat)"
        if isinstance(e, ast.List):
            return "[" + ", ".join(self.expr(x) for x in e.elts) + "]"
        if isinstance(e, ast.BinOp):
            # [e] * k  (list repetition)
            if isinstance(e.op, ast.Mult) and isinstance(e.left, ast.List) and len(e.left.elts) == 1:
                return f"(List.replicate (Rat.floor {self.atom(e.right)}).toNat {self.atom(e.left.elts[0])})"
            ops = {ast.Add: "+", ast.Sub: "-", ast.Mult: "*", ast.Div: "/"}
            if type(e.op) not in ops:
                raise Unsupported(f"operator {type(e.op).__name__}")
            return f"({self.expr(e.left)} {ops[type(e.op)]} {self.expr(e.right)})"
        if isinstance(e, ast.Call):
            fn = ast.unparse(e.func)
            if fn == "math.ceil" and len(e.args) == 1 and not e.keywords:
                return f"(((Rat.ceil {self.atom(e.args[0])} : Int)) : Rat)"
            if fn in ("numpy.sum", "np.sum", "sum") and len(e.args) == 1 and not e.keywords:
                return f"(List.sum {self.atom(e.args[0])})"
            raise Unsupported(f"call {fn}")
        raise Unsupported(type(e).__name__)

    def atom(self, e: ast.AST) -> str:
        s = self.expr(e)
        return s if s.startswith("(") or s.startswith("[") or s.isidentifier() else f"({s})"

    def cond(self, e: ast.AST) -> str:
        if isinstance(e, ast.Compare) and len(e.ops) == 1:
            ops = {ast.Eq: "=", ast.NotEq: "≠", ast.Lt: "<", ast.LtE: "≤", ast.Gt: ">", ast.GtE: "≥"}
            if type(e.ops[0]) not in ops:
                raise Unsupported("comparison")
            return f"{self.expr(e.left)} {ops[type(e.ops[0])]} {self.expr(e.comparators[0])}"
        raise Unsupported("condition " + ast.unparse(e))

    # ---------------------------------------------------------------- statements
    def block(self, stmts: list[ast.stmt], ind: str) -> str:
        if not stmts:
            raise Unsupported("function may fall off its end")
        s, rest = stmts[0], stmts[1:]
        if isinstance(s, ast.Expr) and isinstance(s.value, ast.Constant) and isinstance(s.value.value, str):
            return self.block(rest, ind)          # docstring
        if isinstance(s, ast.Return):
            if s.value is None:
                raise Unsupported("bare return")
            return f"{ind}{self.expr(s.value)}"
        if isinstance(s, (ast.Assign, ast.AnnAssign)):
            tgt = s.targets[0] if isinstance(s, ast.Assign) else s.target
            if not isinstance(tgt, ast.Name) or s.value is None:
                raise Unsupported("assignment target")
            return f"{ind}let {tgt.id} := {self.expr(s.value)}\n" + self.block(rest, ind)
        if isinstance(s, ast.Expr) and isinstance(s.value, ast.Call) and isinstance(s.value.func, ast.Attribute) \
                and s.value.func.attr == "append" and isinstance(s.value.func.value, ast.Name) and len(s.value.args) == 1:
            v = s.value.func.value.id
            return f"{ind}let {v} := {v} ++ [{self.expr(s.value.args[0])}]\n" + self.block(rest, ind)
        if isinstance(s, ast.If) and not s.orelse and len(s.body) == 1:
            b = s.body[0]
            if isinstance(b, ast.Return) and b.value is not None:
                return (f"{ind}if {self.cond(s.test)} then {self.expr(b.value)}\n{ind}else\n" + self.block(rest, ind + "  "))
            if isinstance(b, ast.Assign) and isinstance(b.targets[0], ast.Name):
                x = b.targets[0].id
                return (f"{ind}let {x} := if {self.cond(s.test)} then {self.expr(b.value)} else {x}\n" + self.block(rest, ind))
        raise Unsupported("statement " + ast.unparse(s).split("\n")[0])


def find_func(tree: ast.AST, name: str):
    for node in ast.walk(tree):
        if isinstance(node, ast.FunctionDef) and node.name == name:
            return node
    return None


def translate_all() -> tuple[str, list[str]]:
    out = ["/- GENERATED by harness/translate_fns.py from /repo's sources — do not edit. -/",
           "namespace Robotools.Generated", ""]
    missing = []
    for rel, fname, lname, binder, rty in TARGETS:
        try:
            fn = find_func(ast.parse((REPO / rel).read_text(encoding="utf-8")), fname)
            if fn is None:
                raise Unsupported("function not found")
            params = [a.arg for a in fn.args.args + fn.args.kwonlyargs]
            body = Tr().block(fn.body, "  ")
            out.append(f"/-- `{fname}({', '.join(params)})` of {rel}, translated statement by statement. -/")
            out.append(f"def {lname} {binder} : {rty} :=\n{body}\n")
            out.append(f"def {lname}_translated : Bool := true\n")
        except (Unsupported, OSError, SyntaxError) as e:
            missing.append(f"{fname}: {e}")
            # a sentinel that makes the obligation fail instead of silently passing
            out.append(f"/-- NOT TRANSLATABLE: {str(e)[:120]} -/")
            out.append(f"def {lname} {binder} : {rty} := default\n")
            out.append(f"def {lname}_translated : Bool := false\n")
    out.append("end Robotools.Generated\n")
    return "\n".join(out), missing


def regenerate() -> tuple[bool, list[str]]:
    text, missing = translate_all()
    old = OUT.read_text(encoding="utf-8") if OUT.exists() else None
    if old != text:
        OUT.parent.mkdir(parents=True, exist_ok=True)
        OUT.write_text(text, encoding="utf-8")
        return True, missing
    return False, missing


if __name__ == "__main__":
    changed, missing = regenerate()
    print("changed" if changed else "unchanged", "missing:", missing)
    print(OUT.read_text())
