"""Generators of stateful programs (labware declarations + operation sequences).

All values lie on the dyadic grid of DESIGN §3.1 unless a profile asks otherwise.  The generator
keeps live robotools objects while it builds a program so that it can aim operations at the
current state (exact limits, one grid step beyond, repeats …); the finished program is then run
from scratch by the correspondence check.
"""
from __future__ import annotations

import random
from fractions import Fraction as F

import impl
from proto import ANY_TIP, Bad, PyInt

ROWS = "ABCDEFGHIJKLMNOPQRSTUVWXYZ"
STEPS = [F(1), F(1, 2), F(1, 4), F(1, 8)]
TEXT_ALPHABET = [chr(c) for c in range(32, 127)] + [chr(c) for c in range(160, 256)]


def wid(r: int, c: int) -> str:
    return f"{ROWS[r]}{c + 1:02d}"


def grid(rng: random.Random, lo, hi) -> F:
    """A grid value in [lo, hi]."""
    lo, hi = F(lo), F(hi)
    if hi <= lo:
        return lo
    s = rng.choice([1, 1, 1, 2, 4, 8])
    n = rng.randint(int(lo * s), int(hi * s))
    return max(lo, min(hi, F(n, s)))


def rand_text(rng, maxlen=12, alphabet=None, allow_semicolon=False) -> str:
    alphabet = alphabet or TEXT_ALPHABET
    n = rng.randint(0, maxlen)
    s = "".join(rng.choice(alphabet) for _ in range(n))
    if not allow_semicolon:
        s = s.replace(";", ",")
    return s


def _library_names():
    """Labware names the library itself defines (EVOware built-ins): a labware object carrying one of them is a labware
    like any other for the volume tracking."""
    names = ["Systemliquid", "Waste", "Wash Station"]
    try:
        from robotools.evotools.types import Labwares
        names += [str(m.value) for m in Labwares]
    except Exception:  # noqa: BLE001
        pass
    return sorted(set(names))


def rand_name(rng, used, p_lib=0.06) -> str:
    if rng.random() < p_lib:
        n = rng.choice(_library_names())
        if n not in used:
            used.add(n)
            return n
    while True:
        n = rng.choice(["P", "T", "plate", "stock", "Buffer", "MTP-96", "dil", "Rack_1", "Sample µ", "W"]) + str(rng.randint(0, 99))
        if n not in used:
            used.add(n)
            return n


def gen_plate(rng, used, profile) -> dict:
    small = rng.random() < profile.get("p_small", 0.7)
    rows = rng.choice([1, 2, 3, 4, 8]) if small else rng.randint(1, 16)
    cols = rng.choice([1, 2, 3, 4, 6, 12]) if small else rng.randint(1, 24)
    mx = rng.choice([F(100), F(200), F(300), F(1000), F(2500), F(50), F(75, 2), F(4000)])
    mn = rng.choice([F(0), F(0), F(0), F(5), F(10), F(25, 2)])
    if mn >= mx:
        mn = F(0)
    mode = rng.random()
    wide = rng.random() < profile.get("p_wide", 0.0)
    if wide:
        # a strip with 100+ columns: well IDs of four characters ("A100" next to "A10")
        rows, cols = rng.choice([1, 2]), rng.randint(100, 112)
    n = rows * cols
    if wide:
        filled = set(rng.sample(range(n), 6)) | {9, 10, min(n - 1, 99), min(n - 1, 108)}
        v0 = grid(rng, mn, mx)
        init = ("V", [v0 if i in filled else F(0) for i in range(n)])
    elif mode < 0.25:
        init = None
    elif mode < 0.5:
        init = ("S", grid(rng, 0, mx))
    elif mode < 0.8:
        init = ("V", [rng.choice([F(0), grid(rng, 0, mx), mx, grid(rng, mn, mx)]) for _ in range(n)])
    else:
        init = ("M", rows, cols, [rng.choice([F(0), grid(rng, 0, mx), grid(rng, mn, mx)]) for _ in range(n)])
    names = {}
    if init is not None and rng.random() < 0.4:
        flat = [init[1]] * n if init[0] == "S" else (init[1] if init[0] == "V" else init[3])
        for i in range(n):
            if flat[i] > 0 and rng.random() < 0.4:
                # an explicit None stands for "no name given": the default name applies
                names[wid(i // cols, i % cols)] = rng.choice(["water", "glucose", "X", "buffer", "dye µ", None, None])
    return {"kind": "plate", "name": rand_name(rng, used, profile.get("p_library_name", 0.06)), "rows": rows, "cols": cols, "min": mn, "max": mx,
            "init": init, "names": names}


def gen_trough(rng, used, profile) -> dict:
    vrows = rng.choice([1, 2, 4, 6, 8, 8, 16]) if rng.random() < 0.8 else rng.randint(1, 16)
    cols = rng.choice([1, 1, 2, 3, 4])
    mx = rng.choice([F(10000), F(100000), F(25000), F(1000)])
    mn = rng.choice([F(0), F(100), F(1000), F(10)])
    if mn >= mx:
        mn = F(0)
    if rng.random() < 0.3:
        init = ("S", grid(rng, mn, mx))
    else:
        init = ("V", [rng.choice([F(0), mx, grid(rng, mn, mx), grid(rng, mn, mx)]) for _ in range(cols)])
    col_names = None
    flat = [init[1]] * cols if init[0] == "S" else init[1]
    if rng.random() < 0.4:
        col_names = ("V", [(rng.choice(["water", "acid", "base", "X"]) if (flat[c] > 0 and rng.random() < 0.7) else None) for c in range(cols)])
    if rng.random() < 0.2:
        # the same trough declared through the generic constructor `Labware(name, 1, cols, virtual_rows=k)` (deprecated
        # but accepted): it must behave like a `Trough` in every respect, in particular in the device numbering
        names = {}
        if col_names is not None:
            names = {wid(0, c): nm for c, nm in enumerate(col_names[1]) if nm is not None}
        return {"kind": "plate", "name": rand_name(rng, used, profile.get("p_library_name", 0.06)), "rows": 1, "cols": cols, "vrows": vrows, "min": mn, "max": mx,
                "init": ("V", list(flat)), "names": names}
    return {"kind": "trough", "name": rand_name(rng, used, profile.get("p_library_name", 0.06)), "vrows": vrows, "cols": cols, "min": mn, "max": mx,
            "init": init, "col_names": col_names}


def gen_cfg(rng, profile) -> dict:
    dev = rng.choice(profile.get("devices", ["evo", "fluent"]))
    mv = rng.choice(profile.get("max_volumes", [F(950), F(950), F(1000), F(200), F(100), F(50), F(25, 2), F(5, 2), F(75, 2), F(300)]))
    return {"dev": dev, "max_volume": mv, "auto_split": rng.random() < profile.get("p_autosplit", 0.85),
            "diti_mode": rng.random() < 0.2}


class Builder:
    """Builds one program while tracking the live implementation state."""

    def __init__(self, rng: random.Random, profile: dict):
        self.rng = rng
        self.profile = profile
        used = set()
        nlabs = rng.choice(profile.get("nlabs", [1, 2, 2, 3]))
        self.specs = []
        for i in range(nlabs):
            want_trough = rng.random() < profile.get("p_trough", 0.35)
            self.specs.append(gen_trough(rng, used, profile) if want_trough else gen_plate(rng, used, profile))
        if nlabs >= 2 and rng.random() < profile.get("p_twin", 0.0):
            # an identical twin: a second object with the same name, geometry, limits and contents (a plate and its
            # replacement on the same carrier site) — still two labware, each with its own history
            import copy as _copy
            self.specs[1] = _copy.deepcopy(self.specs[0])
        elif nlabs >= 2 and rng.random() < profile.get("p_same_name", 0.0):
            # two different labware objects with the same name (an old and a fresh plate on the same carrier site):
            # legal wherever nothing has to resolve a rack label back to an object (not in the replay streams of C01/C03)
            self.specs[1]["name"] = self.specs[0]["name"]
        self.cfg = gen_cfg(rng, profile)
        self.cfg0 = self.cfg             # configuration the worklist is created with (op `reconfigure` replaces self.cfg)
        self.reconfigured = False
        self.vol_memory = []             # transfer volumes used so far (re-used after a reconfiguration)
        self.ops = []
        try:
            self.labs = [impl.make_lab(s) for s in self.specs]
        except Exception:  # noqa: BLE001
            # a labware the generator takes for constructible is refused by the code under test: the program consists
            # of the declarations alone, and the correspondence check reports the refusal
            self.labs = None
        self.wl = impl.make_wl(self.cfg)
        self.failed = False
        # non-integer max_volume + auto_split: split steps v/k are not dyadic, tracked volumes carry
        # float noise; such programs are compared with a tolerance and never aim at exact limits
        self.inexact = bool(self.cfg["auto_split"] and F(self.cfg["max_volume"]).denominator != 1)

    def adj(self, room: F) -> F:
        """Room to a limit; kept one grid step away from the limit in inexact programs."""
        if not self.inexact:
            return room
        import math
        return max(F(0), F(math.floor(room * 8), 8) - F(1, 4))

    def snap(self, v: F) -> F:
        import math
        return F(math.floor(v * 8), 8) if self.inexact else v

    # ---------- helpers on live state
    def wells_of(self, li):
        return self.labs[li].wells

    def vol(self, li, well) -> F:
        L = self.labs[li]
        return F(float(L.volumes[L.indices[well]]))

    def pick_wells(self, li, kmax=6, allow_repeat=True):
        rng = self.rng
        W = self.wells_of(li)
        R, C = W.shape
        mode = rng.random()
        if mode < 0.25:
            return ("S", str(W[rng.randrange(R), rng.randrange(C)]))
        if mode < 0.45 and R * C > 1:
            # 2-D slice
            r0 = rng.randrange(R); r1 = rng.randint(r0 + 1, min(R, r0 + 4))
            c0 = rng.randrange(C); c1 = rng.randint(c0 + 1, min(C, c0 + 3))
            sub = W[r0:r1, c0:c1]
            return ("M", sub.shape[0], sub.shape[1], [str(x) for x in sub.flatten()])
        if mode < 0.6:
            c = rng.randrange(C)
            col = [str(x) for x in W[:, c]]
            k = rng.randint(1, min(len(col), kmax))
            return ("V", col[:k])
        k = rng.randint(1, kmax)
        flat = [str(x) for x in W.flatten()]
        if allow_repeat and rng.random() < 0.4:
            base = [rng.choice(flat) for _ in range(max(1, k // 2))]
            return ("V", [rng.choice(base) for _ in range(k)])
        return ("V", [rng.choice(flat) for _ in range(k)])

    @staticmethod
    def flatF(a):
        if a[0] == "S":
            return [a[1]]
        if a[0] == "V":
            return list(a[1])
        r, c, l = a[1], a[2], a[3]
        return [l[i * c + j] for j in range(c) for i in range(r)]

    def label(self):
        rng = self.rng
        x = rng.random()
        if x < 0.35:
            return None
        if x < 0.45:
            return rng.choice(["first", "last", ""])
        if x < 0.55:
            return rng.choice(["line1\nline2", "  padded  ", "\xa0nbsp\xa0", "a\n\nb", "\n"])
        return rand_text(rng, 16) or "lbl"

    def kw(self):
        rng = self.rng
        kw = {}
        if rng.random() < 0.3:
            kw["liquid_class"] = rng.choice(["Water_FD", "LC µ", "", "Trough_Water_FD_AspLLT"])
        if rng.random() < 0.3:
            kw["tip"] = rng.choice([
                ("single", ("int", rng.randint(1, 8))),
                ("single", ("member", rng.choice([1, 2, 4, 8, 16, 32, 64, 128]))),
                ("many", [("int", rng.randint(1, 8)) for _ in range(rng.randint(1, 4))]),
                ("many", [rng.choice([("int", rng.randint(1, 8)), ("member", rng.choice([1, 2, 4, 8, 16, 32, 64, 128]))]) for _ in range(rng.randint(0, 5))]),
                ANY_TIP,
            ])
        if rng.random() < 0.15:
            kw["rack_id"] = rng.choice(["bc123", "", "x" * 32])
        if rng.random() < 0.1:
            kw["rack_type"] = rng.choice(["96 Well", "Trough 100ml"])
        if rng.random() < 0.08:
            kw["tube_id"] = rng.choice(["t1", "tube µ"])
        if rng.random() < 0.05:
            kw["forced_rack_type"] = "forced"
        return kw

    def bad_kw(self):
        rng = self.rng
        return rng.choice([
            {"liquid_class": "a;b"}, {"rack_id": "y" * 33}, {"rack_id": "a;b"}, {"rack_type": "z" * 33},
            {"tip": ("single", ("int", 0))}, {"tip": ("single", ("int", 9))}, {"tip": ("many", [("int", 1), ("member", -1)])},
            {"tip": ("single", ("bad", 1.5))}, {"tip": ("many", [("int", 2), ("bad", "x")])}, {"forced_rack_type": "q;"},
            {"tube_id": "a;b"}, {"rack_type": "a;b"},
        ])

    # ---------- volume choices
    def remove_volumes(self, li, wells, fail=False):
        """Per-well removal volumes for the flattened well list; cumulative per real well."""
        rng = self.rng
        L = self.labs[li]
        remaining = {}
        vols = []
        flat = self.flatF(wells)
        target = rng.randrange(len(flat)) if flat else 0
        for i, w in enumerate(flat):
            idx = L.indices[w]
            cur = remaining.get(idx, F(float(L.volumes[idx])))
            room = self.adj(cur - F(L.min_volume))
            step = rng.choice(STEPS)
            if fail and i == target:
                v = max(F(0), self.snap(cur - F(L.min_volume))) + step + (F(1, 2) if self.inexact else 0)
            else:
                x = rng.random()
                if room <= 0:
                    v = F(0)
                elif x < 0.15:
                    v = F(0)
                elif x < 0.35:
                    v = room               # exactly to the limit
                elif x < 0.45 and room > step:
                    v = room - step
                else:
                    v = grid(rng, 0, room / max(1, flat.count(w)))
            vols.append(v)
            if not (fail and i == target):
                remaining[idx] = cur - v
        return vols

    def add_volumes(self, li, wells, fail=False):
        rng = self.rng
        L = self.labs[li]
        remaining = {}
        vols = []
        flat = self.flatF(wells)
        target = rng.randrange(len(flat)) if flat else 0
        for i, w in enumerate(flat):
            idx = L.indices[w]
            cur = remaining.get(idx, F(float(L.volumes[idx])))
            room = self.adj(F(L.max_volume) - cur)
            step = rng.choice(STEPS)
            if fail and i == target:
                v = max(F(0), self.snap(F(L.max_volume) - cur)) + step + (F(1, 2) if self.inexact else 0)
            else:
                x = rng.random()
                if room <= 0:
                    v = F(0)
                elif x < 0.15:
                    v = F(0)
                elif x < 0.35:
                    v = room
                elif x < 0.45 and room > step:
                    v = room - step
                else:
                    v = grid(rng, 0, room / max(1, flat.count(w)))
            vols.append(v)
            if not (fail and i == target):
                remaining[idx] = cur + v
        return vols

    def shape_vols(self, wells, vols):
        """Give the volume list the shape of the wells argument, or a scalar when constant."""
        rng = self.rng
        if len(set(vols)) == 1 and rng.random() < 0.6:
            return ("S", vols[0])
        if wells[0] == "M":
            if rng.random() < 0.3:
                # mixed dimensionality: 2-D wells with a flat volume list (both are read column-major)
                return ("V", vols)
            r, c = wells[1], wells[2]
            # vols are in column-major order; lay them out row-major
            rm = [vols[j * r + i] for i in range(r) for j in range(c)]
            return ("M", r, c, rm)
        n = len(vols)
        facts = [(r, n // r) for r in range(2, n) if n % r == 0]
        if wells[0] == "V" and facts and rng.random() < 0.2:
            # mixed dimensionality: flat wells with a 2-D volume array whose column-major reading is `vols`
            r, c = rng.choice(facts)
            rm = [vols[j * r + i] for i in range(r) for j in range(c)]
            return ("M", r, c, rm)
        return ("V", vols)

    def comps_for(self, n):
        rng = self.rng
        if rng.random() < 0.5:
            return None
        out = []
        for _ in range(n):
            x = rng.random()
            if x < 0.2:
                out.append(None)
            elif x < 0.6:
                out.append({rng.choice(["water", "glucose", "X", "new"]): F(1)})
            else:
                a = rng.choice([F(1, 2), F(1, 4), F(3, 4), F(1, 8)])
                out.append({"water": a, rng.choice(["glucose", "X"]): 1 - a})
        return out

    # ---------- op generators
    def op_add(self, fail=False):
        li = self.rng.randrange(len(self.labs))
        wells = self.pick_wells(li)
        vols = self.add_volumes(li, wells, fail)
        return {"op": "add", "lab": li, "wells": wells, "vols": self.shape_vols(wells, vols), "label": self.label(),
                "comps": self.comps_for(len(vols))}

    def op_remove(self, fail=False):
        li = self.rng.randrange(len(self.labs))
        wells = self.pick_wells(li)
        vols = self.remove_volumes(li, wells, fail)
        return {"op": "remove", "lab": li, "wells": wells, "vols": self.shape_vols(wells, vols), "label": self.label()}

    def per_well_tips(self, op):
        """A tip collection with as many members as the operation has wells, as list / tuple / object array: a collection
        is one selection (the OR of its members) for EVERY record, however its length compares with the well count."""
        rng = self.rng
        if op is None or rng.random() >= self.profile.get("p_tips_per_well", 0.0):
            return
        w = op.get("wells")
        n = 1 if w[0] == "S" else len(w[1]) if w[0] == "V" else len(w[3])
        if 1 <= n <= 8:
            tips = rng.sample(range(1, 9), n)
            op["kw"]["tip"] = ("many", [("int", t) if rng.random() < 0.5 else ("member", 2 ** (t - 1)) for t in tips],
                               rng.choice(["array", "array", "tuple", "list"]))

    def op_aspirate(self, fail=False):
        op = self.op_remove(fail)
        op["op"] = "aspirate"
        op["kw"] = self.kw()
        self.per_well_tips(op)
        return op

    def op_dispense(self, fail=False):
        op = self.op_add(fail)
        op["op"] = "dispense"
        op["kw"] = self.kw()
        self.per_well_tips(op)
        return op

    def op_near_oversize(self):
        """An aspirate / dispense of a single step just above the worklist's max_volume that the labware itself could
        take: only the per-step bound can refuse it (InvalidOperationError), whatever the distance to the bound."""
        rng = self.rng
        M = self.cfg["max_volume"]
        d = rng.choice([F(1, 128), M / 2**17, M / 2**15, F(1, 8), F(1, 64)])
        v = M + d
        cands = []
        for li, L in enumerate(self.labs):
            for w in [str(x) for x in L.wells.flatten()]:
                cur = self.vol(li, w)
                if cur - F(L.min_volume) >= v:
                    cands.append(("aspirate", li, w))
                if F(L.max_volume) - cur >= v:
                    cands.append(("dispense", li, w))
        if not cands:
            return None
        k, li, w = rng.choice(cands)
        op = {"op": k, "lab": li, "wells": ("V", [w]) if rng.random() < 0.7 else ("S", w), "vols": ("V", [v]) if rng.random() < 0.7 else ("S", v),
              "label": self.label(), "kw": self.kw()}
        if k == "dispense":
            op["comps"] = None
        return op

    def transfer_triples(self, si, di, n):
        rng = self.rng
        S, D = self.labs[si], self.labs[di]
        sw = [str(x) for x in S.wells.flatten()]
        dw = [str(x) for x in D.wells.flatten()]
        srcs = [rng.choice(sw) for _ in range(n)]
        dsts = [rng.choice(dw) for _ in range(n)]
        if rng.random() < 0.5:
            # a column of the source to a column of the destination, shuffled
            c = rng.randrange(S.wells.shape[1]); d = rng.randrange(D.wells.shape[1])
            srcs = [str(S.wells[i % S.wells.shape[0], c]) for i in range(n)]
            dsts = [str(D.wells[i % D.wells.shape[0], d]) for i in range(n)]
            order = list(range(n)); rng.shuffle(order)
            srcs = [srcs[i] for i in order]; dsts = [dsts[i] for i in order]
        if si == di and n >= 2 and rng.random() < 0.5:
            # a serial dilution inside one labware: every destination is the source of the next step
            # (down a column, along a row, or along a random path) — in argument order
            R, C = S.wells.shape
            x = rng.random()
            if x < 0.4 and R >= 2:
                c = rng.randrange(C)
                path = [str(S.wells[i % R, c]) for i in range(n + 1)]
            elif x < 0.8 and C >= 2:
                r = rng.randrange(R)
                path = [str(S.wells[r, i % C]) for i in range(n + 1)]
            else:
                path = [rng.choice(sw) for _ in range(n + 1)]
            srcs, dsts = path[:-1], path[1:]
        return srcs, dsts

    def op_transfer(self, fail=None):
        rng = self.rng
        si = rng.randrange(len(self.labs))
        di = rng.randrange(len(self.labs))
        if rng.random() < 0.15:
            di = si
        S, D = self.labs[si], self.labs[di]
        M = self.cfg["max_volume"]
        n = rng.choice([1, 1, 2, 3, 4, 6, 8, 12])
        srcs, dsts = self.transfer_triples(si, di, n)
        # budget per real source / destination well
        s_room, d_room = {}, {}
        vols = []
        for s, d in zip(srcs, dsts):
            sidx = S.indices[s]; didx = D.indices[d]
            sr = s_room.get(sidx, F(float(S.volumes[sidx])) - F(S.min_volume))
            dr = d_room.get(didx, F(D.max_volume) - F(float(D.volumes[didx])))
            if si == di and sidx == didx:
                room = self.adj(max(F(0), sr))
            else:
                room = self.adj(max(F(0), min(sr, dr)))
            x = rng.random()
            step = rng.choice(STEPS)
            cands = [F(0), M, M + step, 2 * M, 2 * M - step, M / 2, 3 * M + F(1, 2), M - step, room, grid(rng, 0, room)]
            if F(M).denominator > 2**20:
                # a max_volume that is not a short binary fraction (950.3): its neighbours in single and half precision
                import numpy as _np
                cands += [F(float(_np.float32(float(M)))), F(float(_np.float16(float(M)))), F(float(_np.float32(float(M)))), F(float(_np.float16(float(M))))]
            if F(M).denominator > 2**20 and rng.random() < self.profile.get("p_dtype_neighbour", 0.0):
                # exactly the single / half precision neighbour of a max_volume that is not a short binary fraction
                import numpy as _np
                v = F(float(rng.choice([_np.float32, _np.float16])(float(M))))
                if v > room:
                    v = grid(rng, 0, room)
            elif self.reconfigured and self.vol_memory and rng.random() < self.profile.get("p_reuse_after_reconfigure", 0.0):
                # the very volumes transferred before the worklist was reconfigured
                v = rng.choice(self.vol_memory)
                if v > room:
                    v = room if rng.random() < 0.5 else grid(rng, 0, room)
            elif x < 0.1:
                v = F(0)
            elif x < 0.55:
                v = rng.choice(self.vol_memory if (self.reconfigured and self.vol_memory and rng.random() < 0.7) else cands)
                if v > room:
                    v = room if rng.random() < 0.5 else grid(rng, 0, room)
            else:
                v = grid(rng, 0, room)
            if not self.cfg["auto_split"] and v > M:
                v = M if rng.random() < 0.5 else grid(rng, 0, M)
                v = min(v, room)
            v = max(F(0), v)
            if v > 40 * M:     # keep the number of split steps small (DESIGN §3.1)
                v = grid(rng, 0, 40 * M)
            vols.append(v)
            if v > 0 and v not in self.vol_memory:
                self.vol_memory.append(v)
            s_room[sidx] = sr - v
            if not (si == di and sidx == didx):
                d_room[didx] = dr - v
        if fail is None and n >= 2 and rng.random() < self.profile.get("p_near_equal", 0.12):
            # two volumes of one request that differ by less than the two decimals a record carries (1900 and 1900.004;
            # 950 and 950.002 around a multiple of max_volume): each pair still moves ITS volume in ITS number of steps
            i, j = rng.sample(range(n), 2)
            delta = rng.choice([F(1, 512), F(1, 256), F(1, 1024), F(1, 2**20)])   # dyadic: exact in binary floating point
            base = vols[i]
            if rng.random() < 0.5 and self.cfg["auto_split"]:
                base = rng.choice([M, 2 * M])
            sidx_i, sidx_j = S.indices[srcs[i]], S.indices[srcs[j]]
            didx_i, didx_j = D.indices[dsts[i]], D.indices[dsts[j]]
            roomy = lambda k, sidx, didx: min(s_room[sidx] + vols[k], (d_room.get(didx, F(0)) + vols[k]) if not (si == di and sidx == didx) else s_room[sidx] + vols[k])
            if base + delta <= roomy(j, sidx_j, didx_j) and base <= roomy(i, sidx_i, didx_i) and sidx_i != sidx_j and didx_i != didx_j and base > 0 \
                    and not (si == di and (sidx_i == didx_j or sidx_j == didx_i)):
                vols[i] = base
                vols[j] = base + delta if rng.random() < 0.7 else max(F(0), base - delta)
        op = {"op": "transfer", "src": si, "dst": di, "label": self.label(),
              "wash": rng.choice([1, 1, 2, 3, 4, "flush", "reuse"]),
              "partition_by": rng.choice(["auto", "auto", "source", "destination"]), "kw": self.kw()}
        if fail == "underflow" and vols:
            i = rng.randrange(n)
            sidx = S.indices[srcs[i]]
            vols[i] = self.snap(F(float(S.volumes[sidx]))) + 1 + rng.choice(STEPS) + sum(vols)
        elif fail == "overflow" and vols:
            i = rng.randrange(n)
            vols[i] = F(D.max_volume) + rng.choice(STEPS)
        elif fail == "toolarge":
            i = rng.randrange(n)
            vols[i] = M + rng.choice(STEPS + [F(1, 128), M / 2**17])     # also just above the limit, absolutely and relatively
        if self.cfg["auto_split"]:
            # DESIGN §3.1: at most a few hundred split steps per volume (a same-well transfer never
            # overflows, so an injected "overflow" volume could otherwise be split 40 000 times)
            vols = [min(v, 400 * M) for v in vols]
        if fail == "kw":
            op["kw"] = self.bad_kw()
            if all(v == 0 for v in vols):
                vols[0] = F(1)
        elif fail == "wash":
            op["wash"] = rng.choice([0, 5, 7])
        elif fail == "mode":
            op["partition_by"] = rng.choice(["row", "", "Source"])
        elif fail == "label":
            op["label"] = "bad;label"
        # argument shapes: broadcast singletons where possible
        if len(set(srcs)) == 1 and rng.random() < 0.5:
            op["src_wells"] = ("S", srcs[0])
        else:
            op["src_wells"] = ("V", srcs)
        if len(set(dsts)) == 1 and rng.random() < 0.5:
            op["dst_wells"] = ("S", dsts[0])
        else:
            op["dst_wells"] = ("V", dsts)
        if len(set(vols)) == 1 and rng.random() < 0.5:
            op["vols"] = ("S", vols[0])
        else:
            op["vols"] = ("V", vols)
        if fail == "length" and n >= 2:
            op["vols"] = ("V", vols[:-1] if n > 2 else vols + [F(1)])
            op["src_wells"] = ("V", srcs)
        if fail == "negative":
            # also negative volumes far below any rounding threshold (float noise such as 0.3 - 0.2 - 0.1, the
            # smallest subnormal): negative is negative
            vv = list(vols); vv[rng.randrange(n)] = -rng.choice([F(1), F(5), F(1, 2), F(1, 2**40), F(1, 2**55), F(1, 10**12), F(5e-324), F(1, 2**70)])
            op["vols"] = ("V", vv)
        # 2-D form for square-ish requests
        if fail is None and n in (4, 6, 8, 12) and rng.random() < 0.25 and op["src_wells"][0] == "V" and op["dst_wells"][0] == "V" and op["vols"][0] == "V":
            r = 2; c = n // 2
            tom = lambda l: [l[j * r + i] for i in range(r) for j in range(c)]
            op["src_wells"] = ("M", r, c, tom(srcs)); op["dst_wells"] = ("M", r, c, tom(dsts)); op["vols"] = ("M", r, c, tom(vols))
        elif fail is None and n >= 2 and rng.random() < 0.3:
            # every argument is flattened column-major on its own: rows (1, n), columns (n, 1) and r x c blocks of
            # *different* shapes spell the same request (a row against a column must not become an outer product)
            def reshape(a):
                if a[0] != "V" or len(a[1]) != n:
                    return a
                l = list(a[1])
                facts = [(r, n // r) for r in range(1, n + 1) if n % r == 0]
                r, c = rng.choice(facts + [(1, n), (n, 1)])
                return ("M", r, c, [l[j * r + i] for i in range(r) for j in range(c)])
            for key in ("src_wells", "dst_wells", "vols"):
                if rng.random() < 0.6:
                    op[key] = reshape(op[key])
        if rng.random() < self.profile.get("p_narrow_vols", 0.0):
            op["vols_dtype"] = rng.choice(["float16", "float32", "float32"])
            if op["vols"][0] == "S":
                op["vols"] = ("V", [op["vols"][1]] * n)
        if fail == "length" and n >= 4 and rng.random() < 0.5:
            # lengths that differ although the shapes are broadcastable: an r x c block of wells with r (or c) volumes
            facts = [(r, n // r) for r in range(2, n) if n % r == 0]
            if facts:
                r, c = rng.choice(facts)
                tom = lambda l: [l[j * r + i] for i in range(r) for j in range(c)]
                op["src_wells"] = ("M", r, c, tom(srcs)); op["dst_wells"] = ("M", r, c, tom(dsts))
                op["vols"] = rng.choice([("V", vols[:r]), ("M", r, 1, vols[:r]), ("M", 1, c, vols[:c]), ("V", vols[:c])])
        return op

    def ops_drain_refill(self):
        """Empty a well completely (labware with min_volume 0), then refill it from elsewhere."""
        rng = self.rng
        cands = []
        for li, L in enumerate(self.labs):
            if F(L.min_volume) == 0:
                for w in [str(x) for x in L.wells[0 if L.is_trough else slice(None)].flatten()]:
                    v = self.vol(li, w)
                    if 0 < v <= 40 * self.cfg["max_volume"] and (self.cfg["auto_split"] or v <= self.cfg["max_volume"]):
                        cands.append((li, w, v))
        if not cands or self.inexact:
            return []
        li, w, v = rng.choice(cands)
        L = self.labs[li]
        # a destination with enough room
        dests = []
        for di, D in enumerate(self.labs):
            for d in [str(x) for x in D.wells.flatten()]:
                if not (di == li and D.indices[d] == L.indices[w]) and F(D.max_volume) - self.vol(di, d) >= v:
                    dests.append((di, d))
        if not dests:
            return []
        di, d = rng.choice(dests)
        ops = [{"op": "transfer", "src": li, "src_wells": ("S", w), "dst": di, "dst_wells": ("S", d), "vols": ("S", v),
                "label": "drain", "wash": 1, "partition_by": "auto", "kw": {}}]
        # refill from a third well with different content
        srcs = []
        for si, S in enumerate(self.labs):
            for s_ in [str(x) for x in S.wells.flatten()]:
                room = self.vol(si, s_) - F(S.min_volume)
                if not (si == li and S.indices[s_] == L.indices[w]) and not (si == di and S.indices[s_] == self.labs[di].indices[d]) and room > 0:
                    srcs.append((si, s_, room))
        if srcs:
            si, s_, room = rng.choice(srcs)
            amount = min(room, F(L.max_volume), 40 * self.cfg["max_volume"])
            if not self.cfg["auto_split"]:
                amount = min(amount, self.cfg["max_volume"])
            amount = grid(rng, F(1, 8), amount) if amount > F(1, 8) else amount
            ops.append({"op": "transfer", "src": si, "src_wells": ("S", s_), "dst": li, "dst_wells": ("S", w), "vols": ("S", amount),
                        "label": "refill", "wash": 1, "partition_by": "auto", "kw": {}})
            if rng.random() < 0.6:
                ops.append({"op": "transfer", "src": li, "src_wells": ("S", w), "dst": di, "dst_wells": ("S", d),
                            "vols": ("S", grid(rng, 0, min(amount, F(self.labs[di].max_volume) - self.vol(di, d) - v)) if F(self.labs[di].max_volume) - self.vol(di, d) - v > 0 else F(0)),
                            "label": "pass on", "wash": 1, "partition_by": "auto", "kw": {}})
        return ops

    def op_distribute(self, fail=None):
        rng = self.rng
        troughs = [i for i, L in enumerate(self.labs) if L.is_trough]
        if not troughs:
            return None
        si = rng.choice(troughs)
        di = rng.randrange(len(self.labs))
        S, D = self.labs[si], self.labs[di]
        col = rng.randrange(S.n_columns)
        flat = [str(x) for x in D.wells.flatten()]
        # destination wells with pairwise distinct positions (distinct real wells)
        seen = set(); dws = []
        rng.shuffle(flat)
        for w in flat:
            idx = D.indices[w]
            if idx not in seen and not (si == di and idx == S.indices[str(S.wells[0, col])]):
                seen.add(idx); dws.append(w)
            if len(dws) >= rng.choice([1, 2, 3, 5, 8]):
                break
        if not dws:
            return None
        if rng.random() < self.profile.get("p_dist_alias", 0.0):
            # several destination wells that are one real well (virtual rows of a trough column; a plate well listed
            # twice): outside C01's "pairwise distinct positions", inside the scope of C02/C03/C11/C16
            w0 = rng.choice(dws)
            idx0 = D.indices[w0]
            same = [w for w in flat if D.indices[w] == idx0 and w not in dws]
            extra = rng.sample(same, min(len(same), rng.randint(1, 3))) if same else [w0]
            dws = dws + extra
            rng.shuffle(dws)
        n = len(dws)
        avail = self.snap(F(float(S.volumes[0, col])) - F(S.min_volume))
        from collections import Counter as _C
        mult = _C(D.indices[w] for w in dws)
        room = self.snap(min((F(D.max_volume) - F(float(D.volumes[D.indices[w]]))) / mult[D.indices[w]] for w in dws))
        M = self.cfg["max_volume"]
        import math as _m
        g8 = lambda x: F(_m.floor(x * 8), 8)
        cap = g8(self.adj(max(F(0), min(avail / n, room, M))))
        x = rng.random()
        if x < 0.1:
            v = F(0)
        elif x < 0.4:
            v = cap
        else:
            v = grid(rng, 0, cap)
        if fail == "underflow":
            v = min(M, g8(max(F(0), avail) / n) + 1 + rng.choice(STEPS) + (F(1, 2) if self.inexact else 0))
            if v * n <= avail + (1 if self.inexact else 0):
                return None
        elif fail == "overflow":
            v = room + rng.choice(STEPS) + (F(1, 2) if self.inexact else 0)
            if v > M or v * n > avail - (1 if self.inexact else 0):
                return None
        elif fail == "toolarge":
            v = M + rng.choice(STEPS + [F(1, 128), M / 2**17])
        op = {"op": "distribute", "src": si, "src_col": col, "dst": di,
              "dst_wells": ("V", dws) if rng.random() < 0.8 or n > 1 else ("S", dws[0]),
              "vol": PyInt(int(v)) if (v.denominator == 1 and rng.random() < 0.3) else v,
              "multi_disp": rng.choice([1, 1, 2, 6, 12]), "diti_reuse": rng.choice([1, 1, 2]),
              "label": rng.choice(["", "", "distribute µ", "dist"]),
              "direction": rng.choice(["left_to_right", "left_to_right", "right_to_left"])}
        if rng.random() < 0.2:
            op["liquid_class"] = "Water_FD"
        if fail == "direction":
            op["direction"] = "up"
        if fail == "rack":
            op[rng.choice(["src_rack_id", "dst_rack_type"])] = rng.choice(["a;b", "r" * 33])
        if fail == "lc":
            op["liquid_class"] = "a;b"
        return op

    def op_reconfigure(self):
        """The worklist's public attributes `max_volume` / `auto_split` are reassigned between operations."""
        rng = self.rng
        choices = [m for m in self.profile.get("max_volumes", [F(950), F(1000), F(200), F(100), F(50), F(300)]) if m != self.cfg["max_volume"]]
        new = dict(self.cfg)
        if choices:
            new["max_volume"] = rng.choice(choices)
        if rng.random() < 0.15:
            new["auto_split"] = not new["auto_split"]
        self.cfg = new
        self.reconfigured = True
        if new["auto_split"] and F(new["max_volume"]).denominator != 1:
            self.inexact = True
        return {"op": "reconfigure", "cfg": dict(new)}

    def op_misc(self):
        rng = self.rng
        x = rng.random()
        if x < 0.3:
            return {"op": "comment", "text": rng.choice([None, "", "hello", "multi\nline", " µ spaced ", "\xa0x\xa0"])}
        if x < 0.5:
            return {"op": "wash", "scheme": rng.choice([1, 2, 3, 4])}
        if x < 0.65:
            return {"op": "flush"}
        if x < 0.85:
            return {"op": "commit"}
        if x < 0.92:
            return {"op": "decontaminate"}
        return {"op": "set_diti", "index": rng.randint(0, 5)}

    # ---------- driving
    def push(self, op) -> bool:
        """Append `op`, apply it to the live state; returns False if it raised."""
        if op is None:
            return True
        self.ops.append(op)
        try:
            impl.apply_op(self.labs, self.wl, op)
            return True
        except Exception:  # noqa: BLE001
            self.failed = True
            return False

    def program(self, **extra) -> dict:
        p = {"cfg": self.cfg0, "labs": self.specs, "ops": self.ops, "exact": not self.inexact}
        p.update(extra)
        return p


def gen_worklist_program(rng: random.Random, profile: dict) -> dict:
    """A mostly valid worklist program; with probability p_fail the last operation is built to fail."""
    b = Builder(rng, profile)
    if b.labs is None:
        return b.program()
    nops = rng.randint(*profile.get("nops", (1, 8)))
    kinds = profile.get("kinds", ["transfer"] * 4 + ["aspirate", "dispense", "distribute", "distribute", "misc", "add", "remove", "drain_refill"])
    for _ in range(nops):
        k = rng.choice(kinds)
        if k == "drain_refill":
            ok = True
            for op in b.ops_drain_refill():
                if not b.push(op):
                    ok = False
                    break
            if not ok:
                return b.program()
            continue
        op = {"transfer": b.op_transfer, "aspirate": b.op_aspirate, "dispense": b.op_dispense, "distribute": b.op_distribute,
              "misc": b.op_misc, "add": b.op_add, "remove": b.op_remove, "reconfigure": b.op_reconfigure}[k]()
        if not b.push(op):
            return b.program()
    if rng.random() < profile.get("p_fail", 0.2):
        k = rng.choice(profile.get("fail_kinds", ["transfer"] * 3 + ["aspirate", "dispense", "distribute", "distribute"]))
        if k == "transfer":
            op = b.op_transfer(fail=rng.choice(profile.get("transfer_faults", ["underflow", "overflow", "toolarge", "kw", "wash", "mode", "label", "length", "negative"])))
        elif k in ("aspirate", "dispense"):
            mk = b.op_aspirate if k == "aspirate" else b.op_dispense
            x = rng.random()
            near = b.op_near_oversize() if x < 0.25 else None
            if near is not None:
                op = near
            elif x < 0.45:
                op = mk(fail=True)
            elif x < 0.7:
                # a single step above the worklist's max_volume (possibly by less than a hundredth): never split, never emitted
                op = mk()
                if op["vols"][0] == "V" and op["vols"][1]:
                    vs = list(op["vols"][1])
                    vs[rng.randrange(len(vs))] = b.cfg["max_volume"] + rng.choice(STEPS + [F(1, 128), b.cfg["max_volume"] / 2**17])
                    op["vols"] = ("V", vs)
                elif op["vols"][0] == "S":
                    op["vols"] = ("S", b.cfg["max_volume"] + rng.choice(STEPS + [F(1, 128), b.cfg["max_volume"] / 2**17]))
            else:
                op = dict(mk(), kw=b.bad_kw())
        else:
            op = b.op_distribute(fail=rng.choice(["underflow", "overflow", "toolarge", "direction", "rack", "lc"]))
        b.push(op)
        # optionally the script catches the exception and goes on with the same labware and worklist
        lo, hi = profile.get("after_fail", (0, 0))
        for _ in range(rng.randint(lo, hi)):
            k = rng.choice([x for x in kinds if x != "drain_refill"])
            op = {"transfer": b.op_transfer, "aspirate": b.op_aspirate, "dispense": b.op_dispense, "distribute": b.op_distribute,
                  "misc": b.op_misc, "add": b.op_add, "remove": b.op_remove}[k]()
            b.push(op)
    return b.program()


def gen_labware_program(rng: random.Random, profile: dict) -> dict:
    """Direct add/remove histories on labware (no worklist records)."""
    prof = dict(profile)
    b = Builder(rng, prof)
    if b.labs is None:
        return b.program()
    nops = rng.randint(*profile.get("nops", (1, 12)))
    for _ in range(nops):
        fail = rng.random() < profile.get("p_fail_each", 0.15)
        op = b.op_add(fail) if rng.random() < 0.5 else b.op_remove(fail)
        b.push(op)       # continue after failures (C02: rejected operations stay in the history)
    return b.program()
