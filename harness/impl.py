"""Runs programs on the real robotools from /repo's working tree, in-process."""
from __future__ import annotations

import logging
import math
import os
import sys
import warnings
from fractions import Fraction

REPO = os.environ.get("VERIF_REPO", "/repo")
if REPO not in sys.path:
    sys.path.insert(0, REPO)

import numpy as np  # noqa: E402
import robotools  # noqa: E402

assert os.path.realpath(robotools.__file__).startswith(os.path.realpath(REPO) + os.sep), (
    f"robotools imported from {robotools.__file__}, expected under {REPO}"
)

from robotools import (  # noqa: E402
    BaseWorklist,
    EvoWorklist,
    FluentWorklist,
    InvalidOperationError,
    Labware,
    Tip,
    Trough,
    VolumeOverflowError,
    VolumeUnderflowError,
)

from proto import Bad, PyInt  # noqa: E402

logging.getLogger("robotools").setLevel(logging.ERROR)
logging.disable(logging.WARNING)
warnings.simplefilter("ignore")


def classify(exc: BaseException | None) -> str | None:
    if exc is None:
        return None
    if isinstance(exc, VolumeOverflowError):
        return "overflow"
    if isinstance(exc, VolumeUnderflowError):
        return "underflow"
    if isinstance(exc, InvalidOperationError):
        return "invalidOp"
    if isinstance(exc, ValueError):
        return "valueErr"
    return "reject"


def fl(x):
    """Fraction / PyInt / special → the Python number robotools receives."""
    if isinstance(x, PyInt):
        return int(x)
    if isinstance(x, Bad):
        return x.value
    if x == "nan":
        return float("nan")
    if x == "inf":
        return float("inf")
    if isinstance(x, Fraction):
        return float(x)
    return x


def _layout(a):
    """Memory layout of a generated array argument: a deterministic function of its content (so replays
    are exact).  The semantics of every robotools function is independent of the layout (C-/Fortran-ordered,
    strided view, nested lists), so varying it is always a legal re-spelling of the same argument."""
    import zlib
    return zlib.crc32(repr(a).encode()) % 4


def _relayout(m, k):
    if k == 1:
        return np.asfortranarray(m)
    if k == 2:                       # non-contiguous view into a larger buffer
        big = np.empty((m.shape[0] * 2, m.shape[1] + 1), dtype=m.dtype)
        big[::2, :-1] = m
        v = big[::2, :-1]
        assert v.shape == m.shape and not v.flags["C_CONTIGUOUS"] or m.size <= 1 or m.shape[0] == 1
        return v
    if k == 3:
        return m.tolist()            # nested lists
    return m


def _narrow(a, xs):
    """Content-determined element type of a numeric array argument: float64, or — when every value is exactly
    representable there, so that the request is the same request — float32 / float16 (what a caller gets from a
    pipetting table stored compactly).  The model sees the exact values."""
    import zlib
    k = zlib.crc32(("dtype" + repr(a)).encode()) % 6
    with np.errstate(over="ignore", invalid="ignore"):
        if k == 0 and all(math.isfinite(x) and float(np.float16(x)) == x for x in xs):
            return np.float16
        if k in (0, 1) and all(math.isfinite(x) and float(np.float32(x)) == x for x in xs):
            return np.float32
    return float


def arr_num(a):
    if a[0] == "S":
        return fl(a[1])
    if a[0] == "V":
        xs = [fl(x) for x in a[1]]
        k = _layout(a)
        if k == 1 and xs:
            return np.array(xs, dtype=_narrow(a, xs))
        if k == 2 and xs:
            return np.array([y for x in xs for y in (x, -1.0)], dtype=float)[::2]
        return xs
    xs = [fl(x) for x in a[3]]
    m = np.array(xs, dtype=_narrow(a, xs) if xs else float).reshape((a[1], a[2]))
    return _relayout(m, _layout(a)) if m.size else m


def arr_str(a):
    if a[0] == "S":
        return a[1]
    if a[0] == "V":
        xs = list(a[1])
        k = _layout(a)
        if k == 1 and xs:
            return np.array(xs, dtype=object).astype(str)
        if k == 2 and xs:
            return tuple(xs)
        return xs
    if not a[3]:
        return np.zeros((a[1], a[2]), dtype=str)
    m = np.array(list(a[3]), dtype=object).astype(str).reshape((a[1], a[2]))
    return _relayout(m, _layout(a))


def tipsym(t):
    kind, v = t
    if kind == "int":
        return int(v)
    if kind == "member":
        return Tip(v)
    return v


def tiparg(t, container=None):
    if t[0] == "single":
        return tipsym(t[1])
    xs = [tipsym(x) for x in t[1]]
    # a collection of tips may be any iterable: list or tuple (content-determined unless the caller asks)
    import zlib
    if container is None and len(t) > 2:
        container = t[2]
    if container is None:
        container = ("tuple", "array", "list", "list")[zlib.crc32(("tips" + repr(t)).encode()) % 4]
    if container == "array":
        # an object array holds the very Python ints / Tip members (an int64 array would hold numpy integers instead)
        a = np.empty(len(xs), dtype=object)
        for k, x in enumerate(xs):
            a[k] = x
        return a
    return tuple(xs) if container == "tuple" else xs


def kwargs_of(kw: dict) -> dict:
    out = {}
    for k, v in kw.items():
        out[k] = tiparg(v) if k == "tip" else v
    return out


def comps_of(cs):
    if cs is None:
        return None
    return [None if c is None else {k: float(v) for k, v in c.items()} for c in cs]


def _init_arg(a):
    """`initial_volumes` argument: scalar, list, or (for part of the cases, chosen by content) a float64 ndarray."""
    if a[0] == "S":
        return fl(a[1])
    if a[0] == "V":
        xs = [fl(x) for x in a[1]]
        if xs and _layout(a) in (1, 2) and all(isinstance(x, float) or isinstance(x, int) for x in xs):
            try:
                return np.array(xs, dtype=float)
            except (TypeError, ValueError):
                return xs
        return xs
    return np.array([fl(x) for x in a[3]], dtype=float).reshape((a[1], a[2]))


def _scribble(arg):
    """The caller's array stays the caller's: after a successful construction it is overwritten.  A labware
    that kept a reference instead of a copy would change with it (C04/C11/C20: its state is its own)."""
    if isinstance(arg, np.ndarray) and arg.dtype == float and arg.flags.writeable:
        arg[...] = -777.0


def make_lab(spec: dict):
    if spec["kind"] == "plate":
        kwargs = dict(min_volume=fl(spec["min"]), max_volume=fl(spec["max"]))
        init = None
        if spec.get("init") is not None:
            init = _init_arg(spec["init"])
            kwargs["initial_volumes"] = init
        if spec.get("vrows") is not None:
            kwargs["virtual_rows"] = fl(spec["vrows"])
        if spec.get("names"):
            kwargs["component_names"] = dict(spec["names"])
        L = Labware(spec["name"], fl(spec["rows"]), fl(spec["cols"]), **kwargs)
        _scribble(init)
        return L
    init = _init_arg(spec["init"])
    cn = spec.get("col_names")
    if cn is not None:
        if cn[0] == "S":
            cn = cn[1]
        elif cn[0] == "V":
            cn = list(cn[1])
        else:
            cn = [list(cn[3][i * cn[2]:(i + 1) * cn[2]]) for i in range(cn[1])]
    T = Trough(spec["name"], fl(spec["vrows"]), fl(spec["cols"]), min_volume=fl(spec["min"]),
               max_volume=fl(spec["max"]), initial_volumes=init, column_names=cn)
    _scribble(init)
    return T


def make_wl(cfg: dict, filepath=None):
    cls = {"evo": EvoWorklist, "fluent": FluentWorklist, "base": BaseWorklist}[cfg["dev"]]
    if cfg["dev"] == "evo":
        # `robotools.Worklist` is the (deprecated) public alias of the EVO worklist and takes the same arguments:
        # content-determined, a quarter of the EVO worklists are created through it
        import zlib
        alias = getattr(robotools, "Worklist", None)
        if alias is not None and zlib.crc32(("alias" + repr(sorted(cfg.items(), key=str))).encode()) % 4 == 0:
            cls = alias
    return cls(filepath, max_volume=fl(cfg["max_volume"]), auto_split=cfg.get("auto_split", True),
               diti_mode=cfg.get("diti_mode", False))


def q(x) -> Fraction | str:
    x = float(x)
    if math.isnan(x):
        return "nan"
    if math.isinf(x):
        return "inf" if x > 0 else "-inf"
    return Fraction(x)


def dump_lab(L) -> dict:
    return {
        "vols": [q(v) for v in L.volumes.flatten()],
        "comp": [(k, [q(v) for v in arr.flatten()]) for k, arr in L.composition.items()],
        "hist": [(lb, [q(v) for v in st.flatten()]) for lb, st in L.history],
    }


def dump_state(labs, wl) -> dict:
    return {"labs": [dump_lab(L) for L in labs], "recs": [str(r) for r in wl]}


def apply_op(labs, wl, op: dict):
    k = op["op"]
    if k == "reconfigure":
        # the worklist's public attributes are reassigned between operations (e.g. other tips mounted)
        wl.max_volume = fl(op["cfg"]["max_volume"])
        wl.auto_split = op["cfg"].get("auto_split", True)
    elif k == "add":
        labs[op["lab"]].add(arr_str(op["wells"]), arr_num(op["vols"]), op.get("label"), compositions=comps_of(op.get("comps")))
    elif k == "remove":
        labs[op["lab"]].remove(arr_str(op["wells"]), arr_num(op["vols"]), op.get("label"))
    elif k == "condense":
        labs[op["lab"]].condense_log(op["n"], label=op.get("label"))
    elif k == "aspirate":
        wl.aspirate(labs[op["lab"]], arr_str(op["wells"]), arr_num(op["vols"]), label=op.get("label"), **kwargs_of(op.get("kw", {})))
    elif k == "dispense":
        wl.dispense(labs[op["lab"]], arr_str(op["wells"]), arr_num(op["vols"]), label=op.get("label"),
                    compositions=comps_of(op.get("comps")), **kwargs_of(op.get("kw", {})))
    elif k == "transfer":
        vols = arr_num(op["vols"])
        if op.get("vols_dtype") and op["vols"][0] != "S":
            # the generator asks for a compact element type: honoured when every value is exactly representable in it
            dt = {"float16": np.float16, "float32": np.float32}[op["vols_dtype"]]
            flat = [fl(x) for x in (op["vols"][1] if op["vols"][0] == "V" else op["vols"][3])]
            with np.errstate(over="ignore", invalid="ignore"):
                if flat and all(math.isfinite(x) and float(dt(x)) == x for x in flat):
                    vols = np.asarray(vols, dtype=float).astype(dt)
        wash = op.get("wash", 1)
        if isinstance(wash, int) and not isinstance(wash, bool):
            # a wash scheme read from a numpy array / a settings table is a numpy integer (content-determined spelling)
            import zlib
            kq = zlib.crc32(("wash" + repr(op.get("src_wells")) + repr(op.get("vols"))).encode()) % 5
            wash = np.int64(wash) if kq == 0 else np.int32(wash) if kq == 1 else wash
        wl.transfer(labs[op["src"]], arr_str(op["src_wells"]), labs[op["dst"]], arr_str(op["dst_wells"]), vols,
                    label=op.get("label"), wash_scheme=wash, partition_by=op.get("partition_by", "auto"),
                    **kwargs_of(op.get("kw", {})))
    elif k == "distribute":
        kw = {n: op[n] for n in ("diti_reuse", "multi_disp", "liquid_class", "label", "direction", "src_rack_id",
                                 "src_rack_type", "dst_rack_id", "dst_rack_type") if n in op}
        wl.distribute(labs[op["src"]], op["src_col"], labs[op["dst"]], arr_str(op["dst_wells"]), volume=fl(op["vol"]), **kw)
    elif k == "comment":
        wl.comment(op.get("text"))
    elif k == "wash":
        wl.wash(op["scheme"])
    elif k == "decontaminate":
        wl.decontaminate()
    elif k == "flush":
        wl.flush()
    elif k == "commit":
        wl.commit()
    elif k == "set_diti":
        wl.set_diti(op["index"])
    elif k in ("aspirate_well", "dispense_well"):
        getattr(wl, k)(op["rack_label"], fl(op["position"]), fl(op["vol"]), **kwargs_of(op.get("kw", {})))
    elif k == "reagent_distribution":
        kw = {n: op[n] for n in ("diti_reuse", "multi_disp", "liquid_class", "direction", "src_rack_id", "src_rack_type",
                                 "dst_rack_id", "dst_rack_type") if n in op}
        if "exclude" in op:
            ex = [fl(x) for x in op["exclude"]]
            # any iterable is legal (`Optional[Iterable[int]]`): list, tuple, set, one-shot iterator, generator, int array
            k4 = _layout(("excl", tuple(repr(x) for x in ex))) if ex else 0
            all_int = all(isinstance(x, int) and not isinstance(x, bool) for x in ex)
            kw["exclude_wells"] = (ex if k4 == 0 else tuple(ex) if k4 == 1 else iter(list(ex)) if k4 == 2
                                   else (x for x in list(ex)) if not all_int else np.array(ex, dtype=int))
        wl.reagent_distribution(op["src_label"], fl(op["src_start"]), fl(op["src_end"]), op["dst_label"], fl(op["dst_start"]),
                                fl(op["dst_end"]), volume=fl(op["vol"]), **kw)
    elif k in ("evo_aspirate", "evo_dispense"):
        vol = op["vol"]
        if isinstance(vol, list):
            xs = [fl(x) for x in vol]
            # per-tip volumes are a LIST; its elements may be Python numbers or numpy scalars of any float width
            # (what list(array) gives) — content-determined, narrow types only when every value is exact in them
            dt = _narrow(("evovol", tuple(repr(x) for x in vol)), [float(x) for x in xs if isinstance(x, (int, float))]) \
                if all(isinstance(x, (int, float)) and not isinstance(x, bool) for x in xs) and xs else float
            import zlib as _z
            if op.get("vol_dtype"):
                dtf = {"float16": np.float16, "float32": np.float32}[op["vol_dtype"]]
                with np.errstate(over="ignore", invalid="ignore"):
                    if all(isinstance(x, (int, float)) and math.isfinite(x) and float(dtf(x)) == x for x in xs):
                        dt = dtf
            if dt is not float:
                vol = [dt(x) for x in xs]
            elif xs and all(isinstance(x, float) for x in xs) and _z.crc32(repr(vol).encode()) % 4 == 0:
                vol = [np.float64(x) for x in xs]
            else:
                vol = xs
        else:
            vol = fl(vol)
        kw = dict(arm=op.get("arm", 0), label=op.get("label"))
        if k == "evo_dispense":
            kw["compositions"] = comps_of(op.get("comps"))
        getattr(wl, k)(labs[op["lab"]], arr_str(op["wells"]), (fl(op["grid"]), fl(op["site"])),
                       [tipsym(t) for t in op["tips"]], vol, op["liquid_class"], **kw)
    elif k == "evo_wash":
        wl.evo_wash(tips=[tipsym(t) for t in op["tips"]], waste_location=(fl(op["waste_grid"]), fl(op["waste_site"])),
                    cleaner_location=(fl(op["cleaner_grid"]), fl(op["cleaner_site"])), arm=op.get("arm", 0),
                    waste_vol=fl(op["waste_vol"]), waste_delay=fl(op["waste_delay"]), cleaner_vol=fl(op["cleaner_vol"]),
                    cleaner_delay=fl(op["cleaner_delay"]), airgap=fl(op["airgap"]), airgap_speed=fl(op["airgap_speed"]),
                    retract_speed=fl(op["retract_speed"]), fastwash=fl(op["fastwash"]), low_volume=fl(op["low_volume"]))
    else:
        raise KeyError(k)


def _poke_returned_objects(labs):
    """What a public accessor returns belongs to the caller: a script may edit it (convert fractions to percent, pop
    entries, scale a copy of the volumes).  After every operation the harness does so with the dict of
    `get_well_composition` (first / last / middle well) and the array of `volumes`; the library's own state must not
    care (a cache that hands out its own object would)."""
    for L in labs:
        try:
            W = L.wells
            for w in {str(W[0, 0]), str(W[-1, -1]), str(W[W.shape[0] // 2, W.shape[1] // 2])}:
                d = L.get_well_composition(w)
                if isinstance(d, dict):
                    for k in list(d):
                        d[k] = d[k] * 100 + 7
                    d["__poked__"] = 1.0
                    d.pop(next(iter(d)), None)
            v = L.volumes
            if isinstance(v, np.ndarray) and v.flags.writeable:
                v[...] = -555.0
        except Exception:  # noqa: BLE001
            pass


class Run:
    """Result of running a program on the implementation."""

    def __init__(self):
        self.lab_results = []   # per lab declaration: None (ok) or error class
        self.labs = []          # live Labware objects (successfully constructed ones)
        self.wl = None
        self.obs = []           # per op: {"err": cls|None, "exc": repr, "state": {...}}
        self.init_state = None


def _trace_entry(li, kind, wells, volumes):
    try:
        ws = [str(w) for w in np.array(wells).flatten("F")]
        vs = [float(v) for v in np.array(volumes, dtype=float).flatten("F")]
        if len(vs) == 1:
            vs = vs * len(ws)
    except Exception:  # noqa: BLE001
        ws, vs = [], []
    return {"lab": li, "kind": kind, "wells": ws, "vols": vs, "ok": False}


def _wrap_labware(run, li, L):
    """Record every Labware.add/remove call (observation only; the original method runs unchanged)."""
    orig_add, orig_remove = L.add, L.remove

    def add(wells, volumes, label=None, compositions=None):
        entry = _trace_entry(li, "add", wells, volumes)
        run.trace.append(entry)
        out = orig_add(wells, volumes, label, compositions=compositions)
        entry["ok"] = True
        return out

    def remove(wells, volumes, label=None):
        entry = _trace_entry(li, "remove", wells, volumes)
        run.trace.append(entry)
        out = orig_remove(wells, volumes, label)
        entry["ok"] = True
        return out

    L.add = add
    L.remove = remove


def run_program(prog: dict, observers=(), stop_on_error: bool = True) -> Run:
    """Declare the labware, then run the operations; after each op record error class + full state.

    observers: callables `(run, op_index, op, exc)` invoked after every operation with live objects.
    """
    r = Run()
    for spec in prog.get("labs", []):
        try:
            r.labs.append(make_lab(spec))
            r.lab_results.append(None)
        except Exception as e:  # noqa: BLE001
            r.lab_results.append(classify(e))
    r.wl = make_wl(prog["cfg"])
    r.init_state = dump_state(r.labs, r.wl)
    r.trace = []
    for li, L in enumerate(r.labs):
        _wrap_labware(r, li, L)
    for i, op in enumerate(prog.get("ops", [])):
        exc = None
        r.trace = []
        try:
            apply_op(r.labs, r.wl, op)
        except Exception as e:  # noqa: BLE001
            exc = e
        r.obs.append({"err": classify(exc), "exc": repr(exc) if exc else None, "state": dump_state(r.labs, r.wl)})
        for ob in observers:
            ob(r, i, op, exc)
        _poke_returned_objects(r.labs)
        if exc is not None and stop_on_error:
            break
    return r
