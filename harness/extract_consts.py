"""Translator for tables and templates (DESIGN §2.1, secondary tie).

Parses robotools' sources with `ast` and regenerates `lean/Robotools/Generated/Consts.lean`.
`Robotools/Proofs/GenOK.lean` proves `Generated.X = Spec.X` for every item, so a source change to
a table, limit or record template breaks a proof obligation.  Items the extractor can no longer
find are emitted as a sentinel value (so that the obligation fails) and listed in `missing`.
"""
from __future__ import annotations

import ast
import os
import sys
from pathlib import Path

REPO = Path(os.environ.get("VERIF_REPO", "/repo"))
OUT = Path(__file__).resolve().parent.parent / "lean" / "Robotools" / "Generated" / "Consts.lean"


def parse(rel: str) -> ast.Module:
    return ast.parse((REPO / rel).read_text(encoding="utf-8"))


def find_func(tree: ast.AST, name: str, cls: str | None = None):
    for node in ast.walk(tree):
        if cls is not None:
            if isinstance(node, ast.ClassDef) and node.name == cls:
                for sub in node.body:
                    if isinstance(sub, ast.FunctionDef) and sub.name == name:
                        return sub
        elif isinstance(node, ast.FunctionDef) and node.name == name:
            return node
    return None


def lean_str(s: str) -> str:
    out = []
    for ch in s:
        if ch == '"':
            out.append('\\"')
        elif ch == "\\":
            out.append("\\\\")
        elif ch == "\n":
            out.append("\\n")
        elif ch == "\r":
            out.append("\\r")
        elif ord(ch) < 32 or ord(ch) > 126:
            out.append("\\u{%x}" % ord(ch))
        else:
            out.append(ch)
    return '"' + "".join(out) + '"'


def lean_list(items, f=str) -> str:
    return "[" + ", ".join(f(x) for x in items) + "]"


def template_of(js: ast.JoinedStr) -> list[str]:
    """f-string → list of literal pieces and `{expr[:spec]}` placeholders."""
    parts: list[str] = []
    for v in js.values:
        if isinstance(v, ast.Constant):
            parts.append(str(v.value))
        elif isinstance(v, ast.FormattedValue):
            spec = ""
            if v.format_spec is not None:
                spec = ":" + "".join(str(x.value) for x in v.format_spec.values if isinstance(x, ast.Constant))
            conv = "" if v.conversion == -1 else "!" + chr(v.conversion)
            parts.append("{" + ast.unparse(v.value) + conv + spec + "}")
    return parts


def fstrings_in(node: ast.AST) -> list[ast.JoinedStr]:
    return [n for n in ast.walk(node) if isinstance(n, ast.JoinedStr)]


def appended_templates(fn: ast.FunctionDef) -> list[list[str]]:
    """Templates / literals passed to `self.append(...)` or returned, in source order."""
    out = []
    for n in ast.walk(fn):
        if isinstance(n, ast.Call) and isinstance(n.func, ast.Attribute) and n.func.attr == "append" \
                and isinstance(n.func.value, ast.Name) and n.func.value.id == "self" and n.args:
            a = n.args[0]
            if isinstance(a, ast.JoinedStr):
                out.append(template_of(a))
            elif isinstance(a, ast.Constant) and isinstance(a.value, str):
                out.append([a.value])
    return out


def returned_template(fn: ast.FunctionDef) -> list[str] | None:
    for n in ast.walk(fn):
        if isinstance(n, ast.Return) and isinstance(n.value, ast.JoinedStr):
            return template_of(n.value)
    return None


def int_consts(node: ast.AST) -> list[int]:
    return [n.value for n in ast.walk(node) if isinstance(n, ast.Constant) and isinstance(n.value, int) and not isinstance(n.value, bool)]


def extract() -> tuple[dict, list[str]]:
    c: dict = {}
    missing: list[str] = []

    def need(key, value):
        if value is None:
            missing.append(key)
        c[key] = value

    # ---- evotools/types.py : Tip enum, int_to_tip
    t = parse("robotools/evotools/types.py")
    tip_enum = None
    for node in ast.walk(t):
        if isinstance(node, ast.ClassDef) and node.name == "Tip":
            tip_enum = []
            for sub in node.body:
                if isinstance(sub, ast.Assign) and len(sub.targets) == 1 and isinstance(sub.targets[0], ast.Name):
                    try:
                        tip_enum.append((sub.targets[0].id, ast.literal_eval(sub.value)))
                    except Exception:  # noqa: BLE001
                        tip_enum = None
                        break
    need("tipEnum", tip_enum)
    fn = find_func(t, "int_to_tip")
    table = None
    if fn is not None and tip_enum is not None:
        table = []
        enum = dict(tip_enum)
        for n in ast.walk(fn):
            if isinstance(n, ast.If) and isinstance(n.test, ast.Compare) and len(n.test.ops) == 1 \
                    and isinstance(n.test.ops[0], ast.Eq) and isinstance(n.test.comparators[0], ast.Constant):
                ret = n.body[0] if n.body else None
                if isinstance(ret, ast.Return) and isinstance(ret.value, ast.Attribute) and ret.value.attr in enum:
                    table.append((n.test.comparators[0].value, enum[ret.value.attr]))
        table.sort()
    need("tipTable", table)

    # ---- worklists/utils.py : limits in prepare_aspirate_dispense_parameters
    u = parse("robotools/worklists/utils.py")
    fn = find_func(u, "prepare_aspirate_dispense_parameters")
    ints = int_consts(fn) if fn else []
    big = sorted({i for i in ints if i > 1000})
    need("maxRecordVolume", big[0] if len(big) == 1 else None)
    lens = sorted({i for i in ints if 8 < i <= 1000})
    need("maxTextLen", lens[0] if len(lens) == 1 else None)
    # the volume format `f"{numpy.round(volume, decimals=2):.2f}"`
    vf = None
    if fn:
        for js in fstrings_in(fn):
            tpl = template_of(js)
            if len(tpl) == 1 and "round" in tpl[0]:
                vf = tpl[0]
    need("volumeFormat", vf)
    # tip = sum(set(tips))
    agg = None
    if fn:
        for n in ast.walk(fn):
            if isinstance(n, ast.Assign) and isinstance(n.targets[0], ast.Name) and n.targets[0].id == "tip" \
                    and isinstance(n.value, ast.Call) and isinstance(n.value.func, ast.Name) and n.value.func.id == "sum":
                agg = ast.unparse(n.value)
    need("tipAggregation", agg)

    # ---- worklists/base.py : templates
    b = parse("robotools/worklists/base.py")
    def tpl_of(method, idx=0):
        fn = find_func(b, method, "BaseWorklist")
        if fn is None:
            return None
        ts = appended_templates(fn)
        return ts[idx] if idx < len(ts) else None
    need("templateA", tpl_of("aspirate_well"))
    need("templateD", tpl_of("dispense_well"))
    need("templateR", tpl_of("reagent_distribution"))
    need("templateComment", tpl_of("comment"))
    fnw = find_func(b, "wash", "BaseWorklist")
    wts = appended_templates(fnw) if fnw else []
    w_const = [t for t in wts if len(t) == 1 and not t[0].startswith("{")]
    w_fmt = [t for t in wts if t not in w_const]
    need("templateWashDiti", w_const[0] if len(wts) == 2 and len(w_const) == 1 else None)
    need("templateWash", w_fmt[0] if len(wts) == 2 and len(w_fmt) == 1 else None)
    need("templateDecon", tpl_of("decontaminate"))
    need("templateFlush", tpl_of("flush"))
    need("templateCommit", tpl_of("commit"))
    need("templateSetDiti", tpl_of("set_diti"))
    schemes = None
    if fnw:
        for n in ast.walk(fnw):
            if isinstance(n, ast.Set):
                try:
                    schemes = sorted(ast.literal_eval(n))
                except Exception:  # noqa: BLE001
                    pass
    need("washSchemes", schemes)
    # src/dst parameter sub-templates of the R record
    fnr = find_func(b, "reagent_distribution", "BaseWorklist")
    rsrc = rdst = None
    if fnr:
        for n in ast.walk(fnr):
            if isinstance(n, ast.Assign) and isinstance(n.targets[0], ast.Name) and isinstance(n.value, ast.JoinedStr):
                if n.targets[0].id == "src_parameters":
                    rsrc = template_of(n.value)
                if n.targets[0].id == "dst_parameters":
                    rdst = template_of(n.value)
    need("templateRsrc", rsrc)
    need("templateRdst", rdst)
    fns = find_func(b, "save", "BaseWorklist")
    save_kw = None
    joiner = None
    if fns:
        for n in ast.walk(fns):
            if isinstance(n, ast.Call) and isinstance(n.func, ast.Name) and n.func.id == "open":
                save_kw = sorted((k.arg, ast.literal_eval(k.value)) for k in n.keywords) + [("mode", ast.literal_eval(n.args[1]))]
            if isinstance(n, ast.Call) and isinstance(n.func, ast.Attribute) and n.func.attr == "join" \
                    and isinstance(n.func.value, ast.Constant):
                joiner = n.func.value.value
    need("saveOpen", save_kw)
    need("saveJoiner", joiner)

    # ---- row letters (labware.py, transform.py), hex digits
    def str_consts(tree, minlen):
        return sorted({n.value for n in ast.walk(tree) if isinstance(n, ast.Constant) and isinstance(n.value, str)
                       and len(n.value) >= minlen and n.value.isalnum() and " " not in n.value})
    lw = parse("robotools/liquidhandling/labware.py")
    fn_init = find_func(lw, "__init__", "Labware")
    rl = [s for s in str_consts(fn_init, 20)] if fn_init else []
    need("rowLettersLabware", rl[0] if len(rl) == 1 else None)
    tr = parse("robotools/transform.py")
    rl2 = sorted({s for f in ("make_well_index_dict", "make_well_array") for s in str_consts(find_func(tr, f), 20)})
    need("rowLettersTransform", rl2[0] if len(rl2) == 1 else None)
    # well-ID format `f"{row}{column:02d}"`
    idf = set()
    for tree in (fn_init, find_func(tr, "make_well_index_dict"), find_func(tr, "make_well_array")):
        if tree is not None:
            for js in fstrings_in(tree):
                tpl = template_of(js)
                if any("02d" in p for p in tpl) and tpl[0].startswith("{"):
                    idf.add("".join(tpl))
    need("wellIdFormats", sorted(idf))
    eu = parse("robotools/evotools/utils.py")
    fnh = find_func(eu, "to_hex")
    hd = [s for s in str_consts(fnh, 16)] if fnh else []
    need("hexDigits", hd[0] if len(hd) == 1 else None)

    # ---- evotools/commands.py
    cm = parse("robotools/evotools/commands.py")
    mdv = None
    for n in cm.body:
        if isinstance(n, ast.Assign) and isinstance(n.targets[0], ast.Name) and n.targets[0].id == "MAX_DILUTOR_VOLUME":
            mdv = ast.literal_eval(n.value)
    need("maxDilutorVolume", mdv)
    fnp = find_func(cm, "prepare_evo_aspirate_dispense_parameters")
    ints = int_consts(fnp) if fnp else []
    need("maxGrid", 67 if 67 in ints else None)
    need("maxSite", 128 if 128 in ints else None)
    fna = find_func(cm, "evo_aspirate")
    fnd = find_func(cm, "evo_dispense")
    fnwash = find_func(cm, "evo_wash")
    need("templateEvoAspirate", returned_template(fna) if fna else None)
    need("templateEvoDispense", returned_template(fnd) if fnd else None)
    need("templateEvoWash", returned_template(fnwash) if fnwash else None)
    slots = None
    if fna and fnd:
        found = []
        for fn in (fna, fnd):
            for n in ast.walk(fn):
                if isinstance(n, ast.For) and isinstance(n.iter, ast.List):
                    try:
                        found.append(ast.literal_eval(n.iter))
                    except Exception:  # noqa: BLE001
                        pass
        if len(found) == 2 and found[0] == found[1]:
            slots = found[0]
    need("tipSlots", slots)
    fng = find_func(cm, "evo_get_selection")
    sel = None
    if fng:
        ints = int_consts(fng)
        # `bit_counter > 6` (7 bits per character) and `+ 48`
        gt = [n.comparators[0].value for n in ast.walk(fng) if isinstance(n, ast.Compare) and isinstance(n.ops[0], ast.Gt)
              and isinstance(n.comparators[0], ast.Constant) and isinstance(n.left, ast.Name) and n.left.id == "bit_counter"]
        adds = sorted({n.right.value for n in ast.walk(fng) if isinstance(n, ast.BinOp) and isinstance(n.op, ast.Add)
                       and isinstance(n.right, ast.Constant) and isinstance(n.right.value, int) and n.right.value > 1})
        if len(set(gt)) == 2 or (gt and len(set(gt)) == 1 and max(gt) > 0):
            pass
        bits = sorted(set(g for g in gt if g > 0))
        if len(bits) == 1 and len(adds) == 1:
            sel = (bits[0] + 1, adds[0])
        hdr = [template_of(js) for js in fstrings_in(fng)]
        c["selectionHeader"] = hdr[0] if hdr else None
    need("selBits", sel[0] if sel else None)
    need("selOffset", sel[1] if sel else None)

    # ---- the ORDER in which an operation updates the tracking, comments and emits (C03: tracking first, record last):
    # calls from a fixed vocabulary and `raise` statements of the method body, in source order
    def order(rel, cls, fn, vocab):
        f = find_func(parse(rel), fn, cls)
        if f is None:
            return None
        out: list[str] = []

        class V(ast.NodeVisitor):
            def visit_Raise(self, n):
                out.append("raise " + (ast.unparse(n.exc.func) if isinstance(n.exc, ast.Call) else ast.unparse(n.exc) if n.exc else ""))

            def visit_Call(self, n):
                self.generic_visit(n)
                if ast.unparse(n.func) in vocab:
                    out.append(ast.unparse(n.func))

        for st in f.body:
            V().visit(st)
        return out

    need("orderAspirate", order("robotools/worklists/base.py", "BaseWorklist", "aspirate",
                                {"labware.remove", "self.comment", "self.aspirate_well", "self._get_well_position"}))
    need("orderDispense", order("robotools/worklists/base.py", "BaseWorklist", "dispense",
                                {"labware.add", "self.comment", "self.dispense_well", "self._get_well_position"}))
    need("orderDistribute", order("robotools/worklists/base.py", "BaseWorklist", "distribute",
                                  {"source.remove", "source.get_well_composition", "destination.add", "self.comment",
                                   "self.reagent_distribution", "self._get_well_position"}))
    need("orderEvoAspirate", order("robotools/evotools/worklist.py", "EvoWorklist", "evo_aspirate",
                                   {"labware.remove", "self.comment", "self.append", "commands.evo_aspirate"}))
    need("orderEvoDispense", order("robotools/evotools/worklist.py", "EvoWorklist", "evo_dispense",
                                   {"labware.add", "self.comment", "self.append", "commands.evo_dispense"}))
    return c, missing


def render(c: dict) -> str:
    def S(key):
        v = c.get(key)
        return lean_str("<missing>") if v is None else lean_str(v)

    def N(key):
        v = c.get(key)
        return "0" if v is None else str(v)

    def L(key):
        v = c.get(key)
        return lean_list(["<missing>"], lean_str) if v is None else lean_list(v, lean_str)

    lines = [
        "/- GENERATED by harness/extract_consts.py from /repo's sources — do not edit. -/",
        "namespace Robotools.Generated",
        "",
        "def tipTable : List (Int × Nat) := " + lean_list(c.get("tipTable") or [(0, 0)], lambda p: f"({p[0]}, {p[1]})"),
        "def tipEnum : List (String × Int) := " + lean_list(c.get("tipEnum") or [("<missing>", 0)], lambda p: f"({lean_str(p[0])}, {p[1]})"),
        f"def maxRecordVolume : Nat := {N('maxRecordVolume')}",
        f"def maxTextLen : Nat := {N('maxTextLen')}",
        f"def volumeFormat : String := {S('volumeFormat')}",
        f"def tipAggregation : String := {S('tipAggregation')}",
        "def washSchemes : List Nat := " + lean_list(c.get("washSchemes") or [0]),
        f"def rowLettersLabware : String := {S('rowLettersLabware')}",
        f"def rowLettersTransform : String := {S('rowLettersTransform')}",
        "def wellIdFormats : List String := " + L("wellIdFormats"),
        f"def hexDigits : String := {S('hexDigits')}",
        f"def maxGrid : Nat := {N('maxGrid')}",
        f"def maxSite : Nat := {N('maxSite')}",
        f"def maxDilutorVolume : Nat := {N('maxDilutorVolume')}",
        f"def selBits : Nat := {N('selBits')}",
        f"def selOffset : Nat := {N('selOffset')}",
        "def selectionHeader : List String := " + L("selectionHeader"),
        "def tipSlots : List Nat := " + lean_list(c.get("tipSlots") or [0]),
        f"def saveJoiner : String := {S('saveJoiner')}",
        "def saveOpen : List (String × String) := " + lean_list(c.get("saveOpen") or [("<missing>", "")], lambda p: f"({lean_str(p[0])}, {lean_str(p[1])})"),
    ]
    for key in ("templateA", "templateD", "templateR", "templateRsrc", "templateRdst", "templateComment", "templateWashDiti",
                "templateWash", "templateDecon", "templateFlush", "templateCommit", "templateSetDiti",
                "templateEvoAspirate", "templateEvoDispense", "templateEvoWash"):
        lines.append(f"def {key} : List String := " + L(key))
    for key in ("orderAspirate", "orderDispense", "orderDistribute", "orderEvoAspirate", "orderEvoDispense"):
        lines.append(f"def {key} : List String := " + L(key))
    lines += ["", "end Robotools.Generated", ""]
    return "\n".join(lines)


def regenerate() -> tuple[bool, list[str]]:
    """Rewrite Generated/Consts.lean if its content changed. Returns (changed, missing)."""
    c, missing = extract()
    text = render(c)
    old = OUT.read_text(encoding="utf-8") if OUT.exists() else None
    if old != text:
        OUT.parent.mkdir(parents=True, exist_ok=True)
        OUT.write_text(text, encoding="utf-8")
        return True, missing
    return False, missing


if __name__ == "__main__":
    changed, missing = regenerate()
    print("changed" if changed else "unchanged", "missing:", missing)
    if "--show" in sys.argv:
        print(OUT.read_text())
