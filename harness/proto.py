"""Line protocol shared by the Python harness and the Lean driver (DESIGN §4.2).

Values inside programs are plain Python data:
  * numbers are `fractions.Fraction` (exact); `PyInt(n)` marks a Python int where the
    implementation renders it with str();
  * array-like arguments are `("S", x)`, `("V", [..])`, `("M", r, c, [row-major ..])`;
  * strings are Python str; `None` is None.
"""
from __future__ import annotations

import json
import os
import subprocess
from fractions import Fraction
from pathlib import Path

VERIF = Path(__file__).resolve().parent.parent
LEAN_DIR = VERIF / "lean"


class PyInt(int):
    """A value that robotools receives as a Python int (rendered with str())."""


class Bad:
    """A value of the wrong type (e.g. a float where an int is required)."""

    def __init__(self, value):
        self.value = value

    def __repr__(self):
        return f"Bad({self.value!r})"


# ---------------------------------------------------------------- encoding
def e_str(s: str) -> str:
    return "s" + ".".join(str(ord(c)) for c in s)


def e_opt(f, x):
    return "~" if x is None else f(x)


def e_rat(q) -> str:
    q = Fraction(q)
    return f"{q.numerator}/{q.denominator}"


def e_pynum(x) -> str:
    if isinstance(x, PyInt) or (isinstance(x, int) and not isinstance(x, bool)):
        return f"i{int(x)}"
    return "f" + e_rat(x)


def e_arr(f, a) -> str:
    if a[0] == "S":
        return "S:" + f(a[1])
    if a[0] == "V":
        return "V:" + ",".join(f(x) for x in a[1])
    if a[0] == "M":
        return f"M:{a[1]}:{a[2]}:" + ",".join(f(x) for x in a[3])
    raise ValueError(a)


def e_comp(c: dict) -> str:
    return "c" + "&".join(f"{e_str(k)}={e_rat(v)}" for k, v in c.items())


def e_comps(cs) -> str:
    if cs is None:
        return "~"
    return "L" + "|".join(e_opt(e_comp, c) for c in cs)


def e_tipsym(t) -> str:
    kind, v = t
    if kind == "int":
        return str(v)
    if kind == "member":
        return f"m{v}"
    return "b"


def e_tiparg(t) -> str:
    """t = ("single", sym) | ("many", [sym..]); sym = ("int", n) | ("member", value) | ("bad", _)."""
    if t[0] == "single":
        return "t" + e_tipsym(t[1])
    return "T" + ",".join(e_tipsym(x) for x in t[1])


ANY_TIP = ("single", ("member", -1))


def e_kw(kw: dict) -> list[str]:
    return [
        e_str(kw.get("liquid_class", "")),
        e_tiparg(kw.get("tip", ANY_TIP)),
        e_str(kw.get("rack_id", "")),
        e_str(kw.get("tube_id", "")),
        e_str(kw.get("rack_type", "")),
        e_str(kw.get("forced_rack_type", "")),
    ]


def e_size(x) -> str:
    if isinstance(x, Bad):
        return "o"
    return f"i{int(x)}"


def e_initval(x) -> str:
    if x == "nan":
        return "nan"
    return e_rat(x)


def e_intarg(x) -> str:
    if isinstance(x, Bad):
        return "b"
    return str(int(x))


def e_wash(w) -> str:
    if w in ("flush", "reuse"):
        return w
    return f"w{int(w)}"


def e_names(d: dict) -> str:
    return "n" + "&".join(f"{e_str(k)}={e_opt(e_str, v)}" for k, v in d.items())


def lab_line(lab: dict) -> str:
    if lab["kind"] == "plate":
        return " ".join(
            [
                "plate",
                e_str(lab["name"]),
                e_size(lab["rows"]),
                e_size(lab["cols"]),
                e_rat(lab["min"]),
                e_rat(lab["max"]),
                e_opt(lambda a: e_arr(e_initval, a), lab.get("init")),
                e_opt(e_size, lab.get("vrows")),
                e_names(lab.get("names") or {}),
            ]
        )
    return " ".join(
        [
            "trough",
            e_str(lab["name"]),
            e_size(lab["vrows"]),
            e_size(lab["cols"]),
            e_rat(lab["min"]),
            e_rat(lab["max"]),
            e_arr(e_initval, lab["init"]),
            e_opt(lambda a: e_arr(lambda s: e_opt(e_str, s), a), lab.get("col_names")),
        ]
    )


def cfg_line(cfg: dict) -> str:
    return " ".join(
        [
            "cfg",
            cfg["dev"],
            e_rat(cfg["max_volume"]),
            "1" if cfg.get("auto_split", True) else "0",
            "1" if cfg.get("diti_mode", False) else "0",
        ]
    )


def e_evovol(v) -> str:
    if isinstance(v, list):
        return "l" + ",".join(e_rat(x) for x in v)
    return "x" + e_rat(v)


def op_line(op: dict) -> str:
    k = op["op"]
    A = lambda a: e_arr(e_str, a)
    V = lambda a: e_arr(e_rat, a)
    if k == "reconfigure":
        return cfg_line(op["cfg"])       # the driver's `cfg` line replaces the configuration, nothing else
    if k == "add":
        return " ".join(["op add", str(op["lab"]), A(op["wells"]), V(op["vols"]), e_opt(e_str, op.get("label")), e_comps(op.get("comps"))])
    if k == "remove":
        return " ".join(["op remove", str(op["lab"]), A(op["wells"]), V(op["vols"]), e_opt(e_str, op.get("label"))])
    if k == "condense":
        return " ".join(["op condense", str(op["lab"]), str(op["n"]), e_opt(e_str, op.get("label"))])
    if k == "aspirate":
        return " ".join(["op aspirate", str(op["lab"]), A(op["wells"]), V(op["vols"]), e_opt(e_str, op.get("label"))] + e_kw(op.get("kw", {})))
    if k == "dispense":
        return " ".join(["op dispense", str(op["lab"]), A(op["wells"]), V(op["vols"]), e_opt(e_str, op.get("label")), e_comps(op.get("comps"))] + e_kw(op.get("kw", {})))
    if k == "transfer":
        return " ".join(
            ["op transfer", str(op["src"]), A(op["src_wells"]), str(op["dst"]), A(op["dst_wells"]), V(op["vols"]),
             e_opt(e_str, op.get("label")), e_wash(op.get("wash", 1)), e_str(op.get("partition_by", "auto"))]
            + e_kw(op.get("kw", {}))
        )
    if k == "distribute":
        return " ".join(
            ["op distribute", str(op["src"]), str(op["src_col"]), str(op["dst"]), A(op["dst_wells"]), e_pynum(op["vol"]),
             str(op.get("diti_reuse", 1)), str(op.get("multi_disp", 1)), e_str(op.get("liquid_class", "")),
             e_str(op.get("label", "")), e_str(op.get("direction", "left_to_right")),
             e_str(op.get("src_rack_id", "")), e_str(op.get("src_rack_type", "")),
             e_str(op.get("dst_rack_id", "")), e_str(op.get("dst_rack_type", ""))]
        )
    if k == "comment":
        return "op comment " + e_opt(e_str, op.get("text"))
    if k == "wash":
        return f"op wash {int(op['scheme'])}"
    if k in ("decontaminate", "flush", "commit"):
        return "op " + k
    if k == "set_diti":
        return f"op set_diti {int(op['index'])}"
    if k in ("aspirate_well", "dispense_well"):
        return " ".join([f"op {k}", e_str(op["rack_label"]), e_intarg(op["position"]), e_rat(op["vol"])] + e_kw(op.get("kw", {})))
    if k == "reagent_distribution":
        return " ".join(
            ["op reagent_distribution", e_str(op["src_label"]), e_intarg(op["src_start"]), e_intarg(op["src_end"]),
             e_str(op["dst_label"]), e_intarg(op["dst_start"]), e_intarg(op["dst_end"]), e_pynum(op["vol"]),
             str(op.get("diti_reuse", 1)), str(op.get("multi_disp", 1)),
             (",".join("b" if isinstance(x, Bad) else str(x) for x in op.get("exclude", [])) or "_"), e_str(op.get("liquid_class", "")),
             e_str(op.get("direction", "left_to_right")), e_str(op.get("src_rack_id", "")),
             e_str(op.get("src_rack_type", "")), e_str(op.get("dst_rack_id", "")), e_str(op.get("dst_rack_type", ""))]
        )
    if k in ("evo_aspirate", "evo_dispense"):
        toks = [f"op {k}", str(op["lab"]), A(op["wells"]), e_intarg(op["grid"]), e_intarg(op["site"]),
                (",".join(e_tipsym(t) for t in op["tips"]) or "_"), e_evovol(op["vol"]), e_str(op["liquid_class"]),
                str(op.get("arm", 0)), e_opt(e_str, op.get("label"))]
        if k == "evo_dispense":
            toks.append(e_comps(op.get("comps")))
        return " ".join(toks)
    if k == "evo_wash":
        return " ".join(
            ["op evo_wash", (",".join(e_tipsym(t) for t in op["tips"]) or "_"), e_intarg(op["waste_grid"]), e_intarg(op["waste_site"]),
             e_intarg(op["cleaner_grid"]), e_intarg(op["cleaner_site"]), str(op.get("arm", 0)),
             e_opt(e_pynum, op["waste_vol"]), e_intarg(op["waste_delay"]), e_opt(e_pynum, op["cleaner_vol"]),
             e_intarg(op["cleaner_delay"]), e_intarg(op["airgap"]), e_intarg(op["airgap_speed"]),
             e_intarg(op["retract_speed"]), e_intarg(op["fastwash"]), e_intarg(op["low_volume"])]
        )
    raise ValueError(f"unknown op {k}")


# ---------------------------------------------------------------- decoding
def d_str(tok: str) -> str:
    assert tok[0] == "s", tok
    if len(tok) == 1:
        return ""
    return "".join(chr(int(x)) for x in tok[1:].split("."))


def d_rat(tok: str) -> Fraction:
    n, d = tok.split("/")
    return Fraction(int(n), int(d))


def d_rats(tok: str) -> list[Fraction]:
    return [d_rat(x) for x in tok.split(",")] if tok else []


def d_state(line: str) -> dict:
    """Parse a `state …` dump into {"labs": [{"vols","comp","hist"}], "recs": [...]}."""
    assert line.startswith("state "), line
    toks = line.split(" ")
    labs = []
    recs = []
    cur = None
    for t in toks[1:]:
        if not t:
            continue
        key, _, val = t.partition("=")
        if key == "nlabs":
            continue
        if key == "lab":
            cur = {}
            labs.append(cur)
        elif key == "vols":
            cur["vols"] = d_rats(val)
        elif key == "comp":
            comp = []
            if val:
                for item in val.split(";"):
                    k, _, arr = item.partition(":")
                    comp.append((d_str(k), d_rats(arr)))
            cur["comp"] = comp
        elif key == "hist":
            hist = []
            if val:
                for item in val.split(";"):
                    k, _, arr = item.partition(":")
                    hist.append((None if k == "~" else d_str(k), d_rats(arr)))
            cur["hist"] = hist
        elif key == "recs":
            recs = [d_str(x) for x in val.split(",")] if val else []
    return {"labs": labs, "recs": recs}


def d_arr_str(tok: str):
    parts = tok.split(":")
    if parts[0] == "S":
        return ("S", d_str(parts[1]))
    if parts[0] == "V":
        return ("V", [d_str(x) for x in parts[1].split(",")] if parts[1] else [])
    return ("M", int(parts[1]), int(parts[2]), [d_str(x) for x in parts[3].split(",")] if parts[3] else [])


# ---------------------------------------------------------------- driver process
def run_driver(lines: list[str], timeout: int = 3600) -> list[str]:
    """Run the Lean driver once over all request lines; one answer per line."""
    exe = LEAN_DIR / ".lake" / "build" / "bin" / "driver"
    inp = "\n".join(lines) + "\n"
    if exe.exists() and os.environ.get("VERIF_DRIVER", "exe") == "exe":
        cmd = [str(exe)]
    else:
        cmd = ["lake", "env", "lean", "--run", "Driver.lean"]
    p = subprocess.run(cmd, cwd=LEAN_DIR, input=inp, capture_output=True, text=True, timeout=timeout)
    if p.returncode != 0:
        raise RuntimeError(f"driver failed ({p.returncode}): {p.stderr[-2000:]}")
    out = p.stdout.split("\n")
    if out and out[-1] == "":
        out.pop()
    if len(out) != len(lines):
        raise RuntimeError(f"driver answered {len(out)} lines for {len(lines)} requests; stderr={p.stderr[-500:]}")
    return out


# ---------------------------------------------------------------- JSON (replays, corpus)
def to_json(x):
    if isinstance(x, PyInt):
        return {"$int": int(x)}
    if isinstance(x, Fraction):
        return {"$q": f"{x.numerator}/{x.denominator}"}
    if isinstance(x, Bad):
        return {"$bad": repr(x.value)}
    if isinstance(x, tuple):
        return {"$t": [to_json(y) for y in x]}
    if isinstance(x, list):
        return [to_json(y) for y in x]
    if isinstance(x, dict):
        return {"$d": [[to_json(k), to_json(v)] for k, v in x.items()]}
    return x


def from_json(x):
    if isinstance(x, list):
        return [from_json(y) for y in x]
    if isinstance(x, dict):
        if "$int" in x:
            return PyInt(x["$int"])
        if "$q" in x:
            n, d = x["$q"].split("/")
            return Fraction(int(n), int(d))
        if "$bad" in x:
            return Bad(eval(x["$bad"]))  # noqa: S307 - our own replay files
        if "$t" in x:
            return tuple(from_json(y) for y in x["$t"])
        if "$d" in x:
            return {from_json(k): from_json(v) for k, v in x["$d"]}
    return x


def dumps(x) -> str:
    return json.dumps(to_json(x), ensure_ascii=True)


def loads(s: str):
    return from_json(json.loads(s))
