import Robotools.Props.C06
#print axioms Robotools.C06.partition_spec
#print axioms Robotools.C06.partition_zero
#print axioms Robotools.C06.multi_disp_fits
#print axioms Robotools.C06.multi_disp_unchanged
#print axioms Robotools.C06.source_partition_spec
#print axioms Robotools.GenFns.gen_partition_volume_ok
#print axioms Robotools.GenFns.translated
