import Robotools.Props.C06
#print axioms Robotools.C06.partition_spec
#print axioms Robotools.C06.partition_zero
#print axioms Robotools.C06.multi_disp_fits
#print axioms Robotools.C06.multi_disp_unchanged
