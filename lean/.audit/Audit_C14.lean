import Robotools.Props.C14
#print axioms Robotools.C14.planFrom_ok
#print axioms Robotools.C14.volumes_ok
#print axioms Robotools.C14.sources_earlier
#print axioms Robotools.C14.budget
#print axioms Robotools.C14.planFrom_none_stuck
#print axioms Robotools.Dil.planCol_inv
#print axioms Robotools.Dil.fold_inv
#print axioms Robotools.Dil.findSource_spec
#print axioms Robotools.Dil.drawn_future
