import Robotools.Props.C15
#print axioms Robotools.C15.shift_offset
#print axioms Robotools.C15.shift_refused_iff
#print axioms Robotools.C15.unshift_shift
#print axioms Robotools.C15.shift_unshift
#print axioms Robotools.C15.rotate_cw_formula
#print axioms Robotools.C15.rotate_ccw_formula
#print axioms Robotools.C15.ccw_cw
#print axioms Robotools.C15.cw_ccw
#print axioms Robotools.C15.cw_four
#print axioms Robotools.C15.rotate_total
#print axioms Robotools.C15.mapM_shape
#print axioms Robotools.C15.derandomize_randomize
#print axioms Robotools.C15.randomize_derandomize
#print axioms Robotools.C15.randomize_injective
#print axioms Robotools.C15.randomize_keeps
