import Robotools.Props.C18
import Robotools.Proofs.GenFns
#print axioms Robotools.C18.perm
#print axioms Robotools.C18.single_column
#print axioms Robotools.C18.groups_nonempty
#print axioms Robotools.C18.groups_sorted
#print axioms Robotools.C18.group_keys_complete
#print axioms Robotools.C18.rows_sorted
#print axioms Robotools.C18.auto_rule
#print axioms Robotools.C18.explicit_respected
#print axioms Robotools.C18.invalid_mode_rejected
#print axioms Robotools.GenFns.all_translated
#print axioms Robotools.GenFns.gen_optimize_partition_by_ok
