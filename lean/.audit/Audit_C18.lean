import Robotools.Props.C18
#print axioms Robotools.C18.perm
#print axioms Robotools.C18.single_column
#print axioms Robotools.C18.groups_nonempty
#print axioms Robotools.C18.groups_sorted
#print axioms Robotools.C18.group_keys_complete
#print axioms Robotools.C18.rows_sorted
#print axioms Robotools.C18.auto_rule
#print axioms Robotools.C18.explicit_respected
#print axioms Robotools.C18.invalid_mode_rejected
