import Robotools.Props.C20
#print axioms Robotools.C20.table_grid
#print axioms Robotools.C20.mk_ok
#print axioms Robotools.C20.mk_layout_scalar
#print axioms Robotools.C20.mk_layout_flat
#print axioms Robotools.C20.mk_layout_none
#print axioms Robotools.C20.trough_mk_ok
#print axioms Robotools.C20.mk_error_is_valueErr
#print axioms Robotools.C20.trough_mk_error_is_valueErr
#print axioms Robotools.C20.mk_rejects
#print axioms Robotools.C20.mk_rejects_length
#print axioms Robotools.C20.initialComposition_rejects_unknown
#print axioms Robotools.C20.default_names_distinct
#print axioms Robotools.C20.default_column_names_distinct
