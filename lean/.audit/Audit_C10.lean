import Robotools.Props.C10
#print axioms Robotools.C10.mask_single
#print axioms Robotools.C10.mask_member
#print axioms Robotools.C10.mask_any
#print axioms Robotools.C10.mask_rejects_int
#print axioms Robotools.C10.mask_rejects_bad
#print axioms Robotools.C10.mask_list
#print axioms Robotools.C10.mask_set_ext
#print axioms Robotools.C10.mask_list_rejects
#print axioms Robotools.C10.evo_mask_or
#print axioms Robotools.C10.slot_i_is_tip_i
#print axioms Robotools.C10.fillSlots_length
#print axioms Robotools.C10.fillSlots_volumes
