import Robotools.Props.C05
#print axioms Robotools.C05.combine_zero
#print axioms Robotools.C05.combine_spec
#print axioms Robotools.C05.wellComp_spec
#print axioms Robotools.C05.addStep_amount
#print axioms Robotools.C05.addStep_compValid
#print axioms Robotools.C05.removeStep_frac
#print axioms Robotools.C05.removeStep_amount
#print axioms Robotools.C05.addStep_fracSum
#print axioms Robotools.C05.frac_range
#print axioms Robotools.C05.pair_conserves
#print axioms Robotools.C05.pair_same_well
