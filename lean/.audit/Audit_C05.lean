import Robotools.Props.C05History
import Robotools.Proofs.GenFns
#print axioms Robotools.C05.combine_zero
#print axioms Robotools.C05.combine_spec
#print axioms Robotools.C05.wellComp_spec
#print axioms Robotools.C05.addStep_amount
#print axioms Robotools.C05.addStep_compValid
#print axioms Robotools.C05.removeStep_frac
#print axioms Robotools.C05.removeStep_amount
#print axioms Robotools.C05.addStep_fracSum
#print axioms Robotools.C05.frac_range
#print axioms Robotools.C05.pair_conserves
#print axioms Robotools.C05.pair_same_well
#print axioms Robotools.C05.history_normalised
#print axioms Robotools.C05.history_ideal_mixture
#print axioms Robotools.C05.history_normalised_dist
#print axioms Robotools.C05.history_ideal_mixture_dist
#print axioms Robotools.C05.constructed_good
#print axioms Robotools.CtorGood.mk_good
#print axioms Robotools.CtorGood.trough_mk_good
#print axioms Robotools.GenFns.all_translated
#print axioms Robotools.GenFns.gen_combine_composition_ok
#print axioms Robotools.Amt.mixed_removeStep
#print axioms Robotools.Amt.mixed_addStep
#print axioms Robotools.Amt.take_amt
#print axioms Robotools.Amt.put_amt
#print axioms Robotools.Amt.ablock_pair
#print axioms Robotools.Amt.compile_ablock
