import Robotools.Props.C03
import Robotools.Props.C01Dist
import Robotools.Proofs.OrderOK
#print axioms Robotools.C03.step_safe
#print axioms Robotools.C03.step_cfg
#print axioms Robotools.C03.step_wf
#print axioms Robotools.C03.abort_safe
#print axioms Robotools.C03.run_safe
#print axioms Robotools.C03.steps_bounded
#print axioms Robotools.C03.prepareAD_oversize
#print axioms Robotools.C03.pair_mem_plan_nosplit
#print axioms Robotools.C03.no_split_rejects
#print axioms Robotools.RP.safe_append
#print axioms Robotools.RP.safe_rm_emit
#print axioms Robotools.RP.safe_ad_emit
#print axioms Robotools.RP.safe_compileTransfer
#print axioms Robotools.RP.compile_safe
#print axioms Robotools.RP.within_compile
#print axioms Robotools.RP.recs_within_exec
#print axioms Robotools.C01D.abort_safe_dist
#print axioms Robotools.C01D.abort_safe_evo
#print axioms Robotools.C01D.abort_safe_fluent
#print axioms Robotools.C01D.step_safeD
#print axioms Robotools.Dist.safe_compileDistribute
#print axioms Robotools.Dist.compileRD_cases
#print axioms Robotools.Dist.posInj_evo
#print axioms Robotools.Dist.nodup_pos
#print axioms Robotools.OrderOK.compileAspirate_order
#print axioms Robotools.OrderOK.compileDispense_order
#print axioms Robotools.OrderOK.compileDistribute_order
#print axioms Robotools.OrderOK.compileEvoAspirate_order
#print axioms Robotools.OrderOK.compileEvoDispense_order
