import Robotools.Props.C03
#print axioms Robotools.C03.step_safe
#print axioms Robotools.C03.step_cfg
#print axioms Robotools.C03.step_wf
#print axioms Robotools.C03.abort_safe
#print axioms Robotools.C03.run_safe
#print axioms Robotools.RP.safe_append
#print axioms Robotools.RP.safe_rm_emit
#print axioms Robotools.RP.safe_ad_emit
#print axioms Robotools.RP.safe_compileTransfer
#print axioms Robotools.RP.compile_safe
