import Robotools.Props.C07
#print axioms Robotools.C07.flows_split
#print axioms Robotools.C07.flows_nosplit
#print axioms Robotools.C07.flows_perm
#print axioms Robotools.C07.flows_mode_indep
#print axioms Robotools.C07.discipline
#print axioms Robotools.C07.pair_volume_bounds
#print axioms Robotools.C07.break_closes
#print axioms Robotools.C07.no_break_without_split
#print axioms Robotools.C07.action_records
#print axioms Robotools.C07.pair_same_fields
#print axioms Robotools.C07.rejects_lengths
#print axioms Robotools.C07.rejects_negative
#print axioms Robotools.C07.base_refuses_transfer
