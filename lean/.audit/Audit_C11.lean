import Robotools.Props.C11
#print axioms Robotools.C11.micro_hist_other
#print axioms Robotools.C11.micro_hist_log
#print axioms Robotools.C11.exec_hist_append
#print axioms Robotools.C11.condense_spec
#print axioms Robotools.C11.add_one_entry
#print axioms Robotools.C11.remove_one_entry
#print axioms Robotools.C11.aspirate_one_entry
#print axioms Robotools.C11.dispense_one_entry
#print axioms Robotools.C11.record_ops_no_entry
#print axioms Robotools.C11.transfer_entries
#print axioms Robotools.C11.lvh_count
#print axioms Robotools.C11.lvh_zero_no_split
#print axioms Robotools.C11.lvh_label
#print axioms Robotools.C11.report_order
