import Robotools.Props.C04
#print axioms Robotools.C04.micro_shape
#print axioms Robotools.C04.executed_prefix
#print axioms Robotools.C04.executed_all_of_ok
#print axioms Robotools.C04.exec_ledger
#print axioms Robotools.C04.exec_frame
#print axioms Robotools.C04.compileRemove_shape
#print axioms Robotools.C04.compileAdd_shape
#print axioms Robotools.C04.compileAdd_rejects_shape
#print axioms Robotools.C04.compileRemove_rejects_shape
#print axioms Robotools.C04.scalar_broadcast
#print axioms Robotools.C04.flattenF_mat_get
#print axioms Robotools.C04.flattenF_mat_length
#print axioms Robotools.C04.flattenF_pairs
#print axioms Robotools.C04.trough_alias
#print axioms Robotools.C04.plate_index
#print axioms Robotools.C04.repeat_charged
