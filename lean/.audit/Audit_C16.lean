import Robotools.Props.C16
#print axioms Robotools.C16.compile_erase
#print axioms Robotools.C16.step_sim
#print axioms Robotools.C16.device_simulation
#print axioms Robotools.C16.same_labware
#print axioms Robotools.C16.same_records
#print axioms Robotools.C16.eraseRec_asp_outside
#print axioms Robotools.C16.base_refuses_transfer
#print axioms Robotools.C16.base_emits_nothing
#print axioms Robotools.Dev.exec_erase
#print axioms Robotools.Dev.emitAD_erase
#print axioms Robotools.Dev.compileTransfer_erase
#print axioms Robotools.Dev.compileDistribute_erase
#print axioms Robotools.Dev.compileRD_erase
#print axioms Robotools.Dev.excluded_in_range
#print axioms Robotools.Dev.pos_valid
#print axioms Robotools.Dev.prepareAD_pos
