import Robotools.Props.C19
import Robotools.Proofs.GenFns
#print axioms Robotools.C19.rejects_empty
#print axioms Robotools.C19.length_eq
#print axioms Robotools.C19.get_mod
#print axioms Robotools.C19.zero
#print axioms Robotools.C19.arr_colmajor
#print axioms Robotools.GenFns.all_translated
#print axioms Robotools.GenFns.gen_get_trough_wells_ok
#print axioms Robotools.GenFns.gen_get_trough_wells_neg
