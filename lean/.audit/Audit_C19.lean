import Robotools.Props.C19
#print axioms Robotools.C19.rejects_empty
#print axioms Robotools.C19.length_eq
#print axioms Robotools.C19.get_mod
#print axioms Robotools.C19.zero
#print axioms Robotools.C19.arr_colmajor
