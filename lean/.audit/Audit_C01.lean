import Robotools.Props.C01
#print axioms Robotools.C01.replay_volumes
#print axioms Robotools.C01.match_vol
#print axioms Robotools.C01.record_address
#print axioms Robotools.C01.roundHalfEven_close
#print axioms Robotools.C01.render_vol_close
#print axioms Robotools.RP.wellOf_pos
#print axioms Robotools.RP.interp_asp
#print axioms Robotools.RP.interp_disp
#print axioms Robotools.RP.asp_core
#print axioms Robotools.RP.disp_core
#print axioms Robotools.RP.compile_safe
