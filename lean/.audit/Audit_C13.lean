import Robotools.Props.C13
#print axioms Robotools.C13.evo_cmd_agrees
#print axioms Robotools.C13.evo_names_arguments
#print axioms Robotools.C13.evo_tracking_aspirate
#print axioms Robotools.C13.evo_tracking_dispense
#print axioms Robotools.C13.accepted_expressible
#print axioms Robotools.C13.evo_rejects
#print axioms Robotools.C13.rejected_emits_no_command
#print axioms Robotools.C13.evo_wash_spec
#print axioms Robotools.C13.evo_wash_rejects_grid
#print axioms Robotools.C13.evo_wash_rejects_other
#print axioms Robotools.Evo.evoAD_spec
#print axioms Robotools.Evo.evoSel_spec
#print axioms Robotools.Evo.enumWells_eq
#print axioms Robotools.Evo.sel_sorted
#print axioms Robotools.Evo.evoVols_spec
#print axioms Robotools.Evo.evoTipVals_spec
