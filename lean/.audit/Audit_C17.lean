import Robotools.Props.C17
#print axioms Robotools.C17.read_back
#print axioms Robotools.C17.empty_file
#print axioms Robotools.C17.no_trailing_break
#print axioms Robotools.C17.file_is_crlf_join
#print axioms Robotools.C17.latin1_round_trip
#print axioms Robotools.C17.latin1_rejects
#print axioms Robotools.C17.gwl_suffix_iff
#print axioms Robotools.C17.comment_recs_wf
