import Robotools.Props.C02
import Robotools.Proofs.GenFns
#print axioms Robotools.C02.addStep_ok_iff
#print axioms Robotools.C02.addStep_vol
#print axioms Robotools.C02.addStep_err
#print axioms Robotools.C02.removeStep_ok_iff
#print axioms Robotools.C02.removeStep_vol
#print axioms Robotools.C02.removeStep_err
#print axioms Robotools.C02.addStep_valid
#print axioms Robotools.C02.removeStep_valid
#print axioms Robotools.C02.micro_valid
#print axioms Robotools.C02.exec_decompose
#print axioms Robotools.C02.exec_append
#print axioms Robotools.C02.exec_valid
#print axioms Robotools.C02.compile_nonneg
#print axioms Robotools.C02.step_limits
#print axioms Robotools.C02.world_limits
#print axioms Robotools.C02.mk_valid
#print axioms Robotools.C02.trough_mk_valid
#print axioms Robotools.GenFns.all_translated
#print axioms Robotools.GenFns.gen_add_step_spec
#print axioms Robotools.GenFns.gen_remove_step_spec
#print axioms Robotools.GenFns.gen_addStep_ok
#print axioms Robotools.GenFns.gen_removeStep_ok
