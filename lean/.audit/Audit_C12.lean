import Robotools.Props.C12
#print axioms Robotools.C12.decode_encode
#print axioms Robotools.C12.encode_inj
#print axioms Robotools.C12.encode_length
#print axioms Robotools.C12.padding_zero
#print axioms Robotools.C12.selectionBits_spec
#print axioms Robotools.C12.selectionBits_length
