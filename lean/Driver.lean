/-
  Driver — line protocol between the Python harness and the Lean model (DESIGN §4.2).
  Run as `lake env lean --run Driver.lean` (or compiled, see lakefile).  One request per line on
  stdin, one answer per line on stdout.  Strings travel as `s<cp>.<cp>…` (code points).
-/
import Robotools.Model.World
import Robotools.Model.Replay
import Robotools.Model.ReplayInit
import Robotools.Model.Transform
import Robotools.Model.Save
import Robotools.Model.Dilution
open Robotools

abbrev P := Except String

def fail {α} (msg : String) : P α := .error msg

/-! ## Decoding -/

def pNat (s : String) : P Nat := match s.toNat? with | some n => pure n | none => fail s!"nat:{s}"
def pInt (s : String) : P Int := match s.toInt? with | some n => pure n | none => fail s!"int:{s}"

def pRat (s : String) : P Rat :=
  match s.splitOn "/" with
  | [n] => do pure ((← pInt n) : Rat)
  | [n, d] => do
    let n ← pInt n; let d ← pNat d
    if d = 0 then fail "den0" else pure ((n : Rat) / (d : Rat))
  | _ => fail s!"rat:{s}"

def pStr (s : String) : P String :=
  match s.toList with
  | 's' :: rest =>
    if rest.isEmpty then pure ""
    else do
      let cps ← ((String.ofList rest).splitOn ".").mapM pNat
      pure (String.ofList (cps.map Char.ofNat))
  | _ => fail s!"str:{s}"

def pOpt {α} (f : String → P α) (s : String) : P (Option α) :=
  if s = "~" then pure none else do pure (some (← f s))

def pList {α} (sep : String) (f : String → P α) (s : String) : P (List α) :=
  if s.isEmpty || s = "_" then pure [] else (s.splitOn sep).mapM f

def pArr {α} (f : String → P α) (s : String) : P (Arr α) :=
  match s.splitOn ":" with
  | ["S", e] => do pure (.scalar (← f e))
  | ["V", es] => do pure (.vec (← pList "," f es))
  | ["M", r, c, es] => do pure (.mat (← pNat r) (← pNat c) (← pList "," f es))
  | _ => fail s!"arr:{s}"

def pBool (s : String) : P Bool := if s = "1" then pure true else if s = "0" then pure false else fail "bool"

def pPyNum (s : String) : P PyNum :=
  match s.toList with
  | 'i' :: rest => do pure ⟨((← pInt (String.ofList rest)) : Rat), true⟩
  | 'f' :: rest => do pure ⟨← pRat (String.ofList rest), false⟩
  | _ => fail s!"pynum:{s}"

def pComp (s : String) : P Comp :=
  match s.toList with
  | 'c' :: rest =>
    pList "&" (fun kv => match kv.splitOn "=" with
      | [k, v] => do pure (← pStr k, ← pRat v)
      | _ => fail "comp-kv") (String.ofList rest)
  | _ => fail s!"comp:{s}"

def pComps (s : String) : P (Option (List (Option Comp))) :=
  if s = "~" then pure none
  else match s.toList with
    | 'L' :: rest => do pure (some (← pList "|" (pOpt pComp) (String.ofList rest)))
    | _ => fail s!"comps:{s}"

def pTipSym (s : String) : P TipSym :=
  match s.toList with
  | ['b'] => pure .bad
  | 'm' :: rest => do pure (.member (← pInt (String.ofList rest)))
  | _ => do pure (.int (← pInt s))

def pTipArg (s : String) : P TipArg :=
  match s.toList with
  | 't' :: rest => do pure (.single (← pTipSym (String.ofList rest)))
  | 'T' :: rest => do pure (.many (← pList "," pTipSym (String.ofList rest)))
  | _ => fail s!"tip:{s}"

def pKW (ts : List String) : P KW :=
  match ts with
  | [lc, tip, rid, tid, rt, frt] => do
    pure { liquidClass := ← pStr lc, tip := ← pTipArg tip, rackId := ← pStr rid,
           tubeId := ← pStr tid, rackType := ← pStr rt, forcedRackType := ← pStr frt }
  | _ => fail "kw"

def pSize (s : String) : P SizeArg :=
  match s.toList with
  | ['o'] => pure .other
  | 'i' :: rest => do pure (.int (← pInt (String.ofList rest)))
  | _ => fail s!"size:{s}"

def pInitVal (s : String) : P InitVal := if s = "nan" then pure none else do pure (some (← pRat s))

def pIntArg (s : String) : P IntArg :=
  if s = "b" then pure ⟨0, true⟩ else do pure ⟨← pInt s, false⟩

def pWash (s : String) : P WashArg :=
  if s = "flush" then pure .flush
  else if s = "reuse" then pure .reuse
  else match s.toList with
    | 'w' :: rest => do pure (.scheme (← pInt (String.ofList rest)))
    | _ => fail "wash"

def pNames (s : String) : P (List (String × Option String)) :=
  match s.toList with
  | 'n' :: rest =>
    pList "&" (fun kv => match kv.splitOn "=" with
      | [k, v] => do pure (← pStr k, ← pOpt pStr v)
      | _ => fail "names-kv") (String.ofList rest)
  | _ => fail s!"names:{s}"

def pEvoVol (s : String) : P EvoVol :=
  match s.toList with
  | 'l' :: rest => do pure (.list (← pList "," pRat (String.ofList rest)))
  | 'x' :: rest => do pure (.scalar (← pRat (String.ofList rest)))
  | _ => pure .other

/-! ## Encoding -/

def eStr (s : String) : String := "s" ++ ".".intercalate (s.toList.map fun c => toString c.toNat)
def eChars (l : List Char) : String := eStr (String.ofList l)
def eRat (q : Rat) : String := toString q.num ++ "/" ++ toString q.den
def eOptStr (s : Option String) : String := match s with | some s => eStr s | none => "~"
def eRats (l : List Rat) : String := ",".intercalate (l.map eRat)
def eErr (e : Option Err) : String := match e with | none => "ok" | some e => "err:" ++ toString e

def dumpLab (L : Labware) : String :=
  "vols=" ++ eRats L.vols
  ++ " comp=" ++ ";".intercalate (L.comp.map fun (k, a) => eStr k ++ ":" ++ eRats a)
  ++ " hist=" ++ ";".intercalate (L.hist.map fun (l, a) => eOptStr l ++ ":" ++ eRats a)

def dumpWorld (w : World) : String :=
  "state nlabs=" ++ toString w.labs.length ++ " "
  ++ " ".intercalate (w.labs.zipIdx.map fun (L, i) => s!"lab={i} " ++ dumpLab L)
  ++ " recs=" ++ ",".intercalate (w.recs.map fun r => eStr r.render)

/-! ## Requests -/

def parseOp (ts : List String) : P Op :=
  match ts with
  | ["add", l, ws, vs, lb, cs] => do
    pure (.add (← pNat l) (← pArr pStr ws) (← pArr pRat vs) (← pOpt pStr lb) (← pComps cs))
  | ["remove", l, ws, vs, lb] => do
    pure (.remove (← pNat l) (← pArr pStr ws) (← pArr pRat vs) (← pOpt pStr lb))
  | ["condense", l, n, lb] => do pure (.condenseLog (← pNat l) (← pNat n) (← pOpt pStr lb))
  | "aspirate" :: l :: ws :: vs :: lb :: kw => do
    pure (.aspirate (← pNat l) (← pArr pStr ws) (← pArr pRat vs) (← pOpt pStr lb) (← pKW kw))
  | "dispense" :: l :: ws :: vs :: lb :: cs :: kw => do
    pure (.dispense (← pNat l) (← pArr pStr ws) (← pArr pRat vs) (← pOpt pStr lb) (← pComps cs)
      (← pKW kw))
  | "transfer" :: s :: sw :: d :: dw :: vs :: lb :: wash :: pb :: kw => do
    pure (.transfer (← pNat s) (← pArr pStr sw) (← pNat d) (← pArr pStr dw) (← pArr pRat vs)
      (← pOpt pStr lb) (← pWash wash) (← pStr pb) (← pKW kw))
  | ["distribute", s, scol, d, dw, v, dr, md, lc, lb, dir, sid, stp, did, dtp] => do
    pure (.distribute { src := ← pNat s, srcCol := ← pInt scol, dst := (← pNat d),
                        dstWells := ← pArr pStr dw, vol := ← pPyNum v, ditiReuse := ← pInt dr, multiDisp := ← pInt md,
                        liquidClass := ← pStr lc, label := ← pStr lb, direction := ← pStr dir, srcRackId := ← pStr sid,
                        srcRackType := ← pStr stp, dstRackId := ← pStr did, dstRackType := ← pStr dtp })
  | ["comment", s] => do pure (.comment (← pOpt pStr s))
  | ["wash", n] => do pure (.wash (← pInt n))
  | ["decontaminate"] => pure .decontaminate
  | ["flush"] => pure .flush
  | ["commit"] => pure .commit
  | ["set_diti", i] => do pure (.setDiti (← pInt i))
  | "aspirate_well" :: rl :: pos :: v :: kw => do
    let k ← pKW kw; let p ← pIntArg pos
    pure (.aspirateWell { rackLabel := ← pStr rl, position := p.v, posBad := p.bad, vol := ← pRat v,
                          liquidClass := k.liquidClass, tip := k.tip, rackId := k.rackId, tubeId := k.tubeId,
                          rackType := k.rackType, forcedRackType := k.forcedRackType })
  | "dispense_well" :: rl :: pos :: v :: kw => do
    let k ← pKW kw; let p ← pIntArg pos
    pure (.dispenseWell { rackLabel := ← pStr rl, position := p.v, posBad := p.bad, vol := ← pRat v,
                          liquidClass := k.liquidClass, tip := k.tip, rackId := k.rackId, tubeId := k.tubeId,
                          rackType := k.rackType, forcedRackType := k.forcedRackType })
  | ["reagent_distribution", sl, ss, se, dl, ds, de, v, dr, md, ex, lc, dir, sid, stp, did, dtp] => do
    pure (.reagentDistribution { srcLabel := ← pStr sl, srcStart := ← pIntArg ss, srcEnd := ← pIntArg se,
                                 dstLabel := ← pStr dl, dstStart := ← pIntArg ds, dstEnd := ← pIntArg de, vol := ← pPyNum v,
                                 ditiReuse := ← pInt dr, multiDisp := ← pInt md,
                                 exclude := ← pList "," pInt (",".intercalate ((ex.splitOn ",").filter (· ≠ "b"))),
                                 excludeBad := (ex.splitOn ",").contains "b",
                                 liquidClass := ← pStr lc, direction := ← pStr dir, srcRackId := ← pStr sid,
                                 srcRackType := ← pStr stp, dstRackId := ← pStr did, dstRackType := ← pStr dtp })
  | ["evo_aspirate", l, ws, grid, site, tips, v, lc, arm, lb] => do
    let g ← pIntArg grid; let s ← pIntArg site
    pure (.evoAspirate (← pNat l) { wells := ← pArr pStr ws, grid := g.v, gridBad := g.bad,
                                    site := s.v, siteBad := s.bad, tips := ← pList "," pTipSym tips, volume := ← pEvoVol v,
                                    liquidClass := ← pStr lc, arm := ← pInt arm } (← pOpt pStr lb))
  | ["evo_dispense", l, ws, grid, site, tips, v, lc, arm, lb, cs] => do
    let g ← pIntArg grid; let s ← pIntArg site
    pure (.evoDispense (← pNat l) { wells := ← pArr pStr ws, grid := g.v, gridBad := g.bad,
                                    site := s.v, siteBad := s.bad, tips := ← pList "," pTipSym tips, volume := ← pEvoVol v,
                                    liquidClass := ← pStr lc, arm := ← pInt arm } (← pOpt pStr lb) (← pComps cs))
  | ["evo_wash", tips, wg, ws, cg, cs, arm, wv, wd, cv, cd, ag, ags, rs, fw, lv] => do
    pure (.evoWash { tips := ← pList "," pTipSym tips, wasteGrid := ← pIntArg wg,
                     wasteSite := ← pIntArg ws, cleanerGrid := ← pIntArg cg, cleanerSite := ← pIntArg cs,
                     arm := ← pInt arm, wasteVol := ← pOpt pPyNum wv, wasteDelay := ← pIntArg wd,
                     cleanerVol := ← pOpt pPyNum cv, cleanerDelay := ← pIntArg cd, airgap := ← pIntArg ag,
                     airgapSpeed := ← pIntArg ags, retractSpeed := ← pIntArg rs, fastwash := ← pIntArg fw,
                     lowVolume := ← pIntArg lv })
  | _ => fail "unknown-op"

def eExceptStrs (x : Except Err (List String)) : String :=
  match x with
  | .ok l => "ok " ++ ",".intercalate (l.map eStr)
  | .error e => "err:" ++ toString e

def eArrStr (a : Arr String) : String :=
  match a with
  | .scalar s => "S:" ++ eStr s
  | .vec l => "V:" ++ ",".intercalate (l.map eStr)
  | .mat r c l => s!"M:{r}:{c}:" ++ ",".intercalate (l.map eStr)

def pGeom (r c v : String) : P Geom := do
  pure { rows := ← pNat r, cols := ← pNat c, vrows := ← pOpt pNat v }

/-- Pure-function requests. -/
def evalFn (ts : List String) : P String :=
  match ts with
  | ["partition_volume", v, m] => do
    pure ("ok " ++ eRats (partitionVolume (← pRat v) (← pRat m)))
  | ["partition_by_column", srcs, dsts, vols, mode] => do
    let ss ← pList "," pStr srcs; let ds ← pList "," pStr dsts; let vs ← pList "," pRat vols
    let m ← pStr mode
    if ¬(m = "source" ∨ m = "destination") then pure "err:valueErr"
    else
      let ts := ((ss.zip ds).zip vs).map fun ((s, d), v) => (⟨s, d, v⟩ : Triple)
      let gs := partitionByColumn ts (m = "destination")
      pure ("ok " ++ "|".intercalate (gs.map fun g =>
        ";".intercalate (g.map fun t => eStr t.src ++ "," ++ eStr t.dst ++ "," ++ eRat t.vol)))
  | ["optimize", st, dt, mode] => do
    match optimizePartitionBy (← pBool st) (← pBool dt) (← pStr mode) with
    | some b => pure ("ok " ++ (if b then "destination" else "source"))
    | none => pure "err:valueErr"
  | ["trough_wells", n, ws] => do
    let n ← pIntArg n
    let w ← pArr pStr ws
    if n.bad then pure "err:reject"
    else if n.v < 0 then pure "err:valueErr"
    else match getTroughWells n.v.toNat w.flattenF with
      | some l => pure ("ok " ++ ",".intercalate (l.map eStr))
      | none => pure "err:valueErr"
  | ["evo_pos", r, c, v, w] => do
    match (← pGeom r c v).evoPos (← pStr w) with
    | some p => pure s!"ok {p}" | none => pure "err:valueErr"
  | ["fluent_pos", r, c, v, w] => do
    match (← pGeom r c v).fluentPos (← pStr w) with
    | some p => pure s!"ok {p}" | none => pure "err:valueErr"
  | ["tables", r, c, v] => do
    let g ← pGeom r c v
    pure ("ok wells=" ++ ",".intercalate (g.wells.map eStr)
      ++ " indices=" ++ ",".intercalate (g.table.map fun (k, (a, b)) => eStr k ++ s!":{a}:{b}")
      ++ " positions=" ++ ",".intercalate (g.positions.map fun (k, p) => eStr k ++ s!":{p}"))
  | ["well_array", r, c] => do
    pure ("ok " ++ ",".intercalate ((makeWellArray (← pNat r) (← pNat c)).map eStr))
  | ["well_index_dict", r, c] => do
    pure ("ok " ++ ",".intercalate ((makeWellIndexDict (← pNat r) (← pNat c)).map
      fun (k, (a, b)) => eStr k ++ s!":{a}:{b}"))
  | ["wellof", dev, r, c, v, p] => do
    let g ← pGeom r c v
    let d : Device := if dev = "evo" then .evo else if dev = "fluent" then .fluent else .base
    match d.wellOf g (← pNat p) with
    | some (a, b) => pure s!"ok {a}:{b}" | none => pure "err:reject"
  | ["selection", r, c, wells] => do
    let r ← pNat r; let c ← pNat c
    let ws ← pList "," pStr wells
    let dict := makeWellIndexDict r c
    match ws.mapM fun w => dict.lookup w with
    | some sel => pure ("ok " ++ eChars (encodeSelection r c (selectionBits r c sel)))
    | none => pure "err:reject"
  | ["decode_selection", s] => do
    match decodeSelection (← pStr s).toList with
    | some (r, c, bits) =>
      pure (s!"ok {r} {c} " ++ String.ofList (bits.map fun b => if b then '1' else '0'))
    | none => pure "err:reject"
  | ["tipmask", t] => do
    match tipMask (← pTipArg t) with
    | .ok none => pure "ok ~"
    | .ok (some m) => pure s!"ok {m}"
    | .error e => pure ("err:" ++ toString e)
  | ["shifter", ra, ca, rb, cb, anchor, dir, ws] => do
    match Shifter.mk? (← pNat ra) (← pNat ca) (← pNat rb) (← pNat cb) (← pStr anchor) with
    | .error e => pure ("err:" ++ toString e)
    | .ok sh =>
      let w ← pArr pStr ws
      if dir = "none" then pure s!"ok {sh.dr} {sh.dc}"
      else match Arr.mapM? (if dir = "shift" then sh.shift1 else sh.unshift1) w with
        | .ok a => pure ("ok " ++ eArrStr a)
        | .error e => pure ("err:" ++ toString e)
  | ["rotator", r, c, dir, ws] => do
    let r ← pNat r; let c ← pNat c
    let w ← pArr pStr ws
    match Arr.mapM? (if dir = "cw" then rotateCw1 r c else rotateCcw1 r c) w with
    | .ok a => pure ("ok " ++ eArrStr a)
    | .error e => pure ("err:" ++ toString e)
  | ["randomizer", orig, rand, dir, ws] => do
    let o ← pList "," pStr orig; let r ← pList "," pStr rand
    let w ← pArr pStr ws
    let f := if dir = "rand" then randomize1 o r else derandomize1 o r
    pure ("ok " ++ eArrStr (w.map fun x => match f x with | some y => y | none => "None"))
  | ["save", recs] => do
    let rs ← pList "," pStr recs
    match fileBytes (rs.map String.toList) with
    | some bs => pure ("ok " ++ ",".intercalate (bs.map toString))
    | none => pure "err:reject"
  | ["gwl_suffix", name] => do
    pure (if hasGwlSuffix (← pStr name).toList then "ok 1" else "ok 0")
  | ["pyfloat", q] => do pure ("ok " ++ eChars (pyFloatRepr (← pRat q)))
  | "dilution" :: rest => evalDilution rest
  | _ => fail "unknown-fn"
where
  evalDilution (ts : List String) : P String :=
    match ts with
    | [r, c, stock, vmax, minT, ideal] => do
      let R ← pNat r; let C ← pNat c
      let vm ← pList "," pRat vmax
      let id ← pList "," pRat ideal   -- row-major R×C
      match planFrom R C (← pRat stock) vm (← pRat minT) id with
      | none => pure "err:valueErr"
      | some p =>
        pure ("ok " ++ ";".intercalate (p.instr.map fun i =>
          s!"{i.col}:{i.dsteps}:" ++ (match i.src with | none => "stock" | some s => toString s)
            ++ ":" ++ eRats i.vols)
          ++ " x=" ++ eRats p.x.flatten)
    | _ => fail "dilution-args"

structure DState where
  world : World
  deriving Inhabited

def initWorld : World :=
  { cfg := { dev := .evo, maxVolume := 950, autoSplit := true, ditiMode := false },
    labs := [], recs := [], carry := [] }

def rstateOf (labs : List Labware) : RState := RState.ofLabs labs

def handle (st : DState) (initLabs : List Labware) (line : String) :
    DState × List Labware × String :=
  let ts := (line.trimAscii.toString.splitOn " ").filter (· ≠ "")
  let w := st.world
  let bad (m : String) := (st, initLabs, "bad-op " ++ m)
  match ts with
  | ["reset"] => ({ world := initWorld }, [], "ok")
  | ["cfg", dev, mv, asplit, diti] =>
    match (do
      let d : Device ← (if dev = "evo" then pure Device.evo else if dev = "fluent" then pure Device.fluent
                        else if dev = "base" then pure Device.base else fail "dev")
      pure ({ dev := d, maxVolume := ← pRat mv, autoSplit := ← pBool asplit, ditiMode := ← pBool diti } : Cfg)
      : P Cfg) with
    | .ok c => ({ world := { w with cfg := c } }, initLabs, "ok")
    | .error m => bad m
  | ["plate", name, rows, cols, mn, mx, init, vrows, names] =>
    match (do
      pure ({ name := ← pStr name, rows := ← pSize rows, cols := ← pSize cols, minV := ← pRat mn,
              maxV := ← pRat mx, init := ← pOpt (pArr pInitVal) init, vrows := ← pOpt pSize vrows,
              names := ← pNames names } : PlateSpec) : P PlateSpec) with
    | .error m => bad m
    | .ok spec =>
      match Labware.mk? spec with
      | .ok L => ({ world := { w with labs := w.labs ++ [L] } }, initLabs ++ [L], "ok")
      | .error e => (st, initLabs, "err:" ++ toString e)
  | ["trough", name, vrows, cols, mn, mx, init, colnames] =>
    match (do
      pure ({ name := ← pStr name, vrows := ← pSize vrows, cols := ← pSize cols, minV := ← pRat mn,
              maxV := ← pRat mx, init := ← pArr pInitVal init,
              colNames := ← pOpt (pArr (pOpt pStr)) colnames } : TroughSpec) : P TroughSpec) with
    | .error m => bad m
    | .ok spec =>
      match Trough.mk? spec with
      | .ok L => ({ world := { w with labs := w.labs ++ [L] } }, initLabs ++ [L], "ok")
      | .error e => (st, initLabs, "err:" ++ toString e)
  | ["clear"] => ({ world := { w with recs := [] } }, initLabs, "ok")
  | ["dump"] => (st, initLabs, dumpWorld w)
  | ["replay"] =>
    -- independent replay of the current records from the initial labware contents
    match (rstateOf initLabs).run w.cfg.dev w.recs with
    | none => (st, initLabs, "replay none")
    | some rs =>
      (st, initLabs, "replay " ++ " ".intercalate (rs.labs.zipIdx.map fun (L, i) =>
        s!"lab={i} vols=" ++ eRats (L.wells.map (·.vol))
        ++ " amts=" ++ ";".intercalate (L.wells.map fun wl =>
            "&".intercalate (wl.amts.map fun (k, x) => eStr k ++ "=" ++ eRat x))))
  | "fn" :: rest =>
    match evalFn rest with
    | .ok s => (st, initLabs, s)
    | .error m => bad m
  | "op" :: rest =>
    match parseOp rest with
    | .error m => bad m
    | .ok op =>
      let (w', e) := w.step op
      ({ world := w' }, initLabs, eErr e)
  | _ => bad "unknown-line"

partial def loop (h : IO.FS.Stream) (out : IO.FS.Stream) (st : DState) (initLabs : List Labware) :
    IO Unit := do
  let line ← h.getLine
  if line.isEmpty then return ()
  let (st', il', ans) := handle st initLabs line
  out.putStrLn ans
  loop h out st' il'

def main : IO Unit := do
  let stdin ← IO.getStdin
  let stdout ← IO.getStdout
  loop stdin stdout { world := initWorld } []
  stdout.flush
