/-
  Robotools.Generated.Prelude — the meaning the function translator (harness/translate_fns.py) gives to the few
  Python objects it has to model.  Hand-written, import-free, part of the trusted base:

  * a `dict` with string keys and numeric values is an insertion-ordered association list (`Py.Dict`);
    `d[k]` of a missing key is not used by the translated code (every read is guarded by `k in d`), it is 0 here;
  * `xs * k` repeats a list `k` times (`k ≤ 0`: empty).
-/
namespace Robotools.Py

abbrev Dict := List (String × Rat)

def dhas (d : Dict) (k : String) : Bool := d.any fun p => p.1 == k

def dget (d : Dict) (k : String) : Rat := match d.lookup k with | some x => x | none => 0

/-- `d[k] = x`: overwrite in place, or append a new key (dicts keep insertion order). -/
def dset (d : Dict) (k : String) (x : Rat) : Dict :=
  match d with
  | [] => [(k, x)]
  | (k', y) :: rest => if k' = k then (k', x) :: rest else (k', y) :: dset rest k x

def «repeat» {α} (xs : List α) (k : Int) : List α := (List.replicate k.toNat xs).flatten

end Robotools.Py
