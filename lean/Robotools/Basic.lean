def hello := "world"
