/-
  Robotools.Model.Records — worklist records, tip masks, argument validation, rendering, parsing.
  Mirrors `worklists/utils.prepare_aspirate_dispense_parameters`, `evotools/types.py` and the
  record-emitting methods of `worklists/base.py`.
-/
import Robotools.Model.Basic
import Robotools.Spec.Consts
namespace Robotools

/-! ## Tips -/

/-- One element of a `tip`/`tips` argument. -/
inductive TipSym where
  | int (n : Int)          -- a plain Python int
  | member (v : Int)       -- a `Tip` member, given by its value (-1, 1, 2, 4, …, 128)
  | bad                    -- anything else (float, str, None …)
  deriving DecidableEq, Repr, Inhabited

inductive TipArg where
  | single (t : TipSym)
  | many (l : List TipSym)
  deriving Repr, Inhabited

/-- `int_to_tip`. -/
def intToTip (n : Int) : Except Err Nat :=
  match Spec.tipTable.lookup n with
  | some v => .ok v
  | none => .error .valueErr

/-- `sum(set(tips))` for tip values that are distinct powers of two = OR of the members. -/
def orMask (l : List Nat) : Nat := l.foldl (· ||| ·) 0

/-- Deduplicate, keeping first occurrences (models `set`). -/
def dedup (l : List Nat) : List Nat := l.foldl (fun acc x => if acc.contains x then acc else acc ++ [x]) []

def sumSet (l : List Nat) : Nat := (dedup l).foldl (· + ·) 0

/-- The tip part of `prepare_aspirate_dispense_parameters`: `none` = `Tip.Any` (empty field). -/
def tipMask (t : TipArg) : Except Err (Option Nat) :=
  match t with
  | .single (.int n) => do let v ← intToTip n; pure (some v)
  | .single (.member v) => if v = -1 then pure none else pure (some v.toNat)
  | .single .bad => .error .valueErr
  | .many l => do
    let vs ← l.mapM fun e => match e with
      | .int n => intToTip n
      | .member v => if v = -1 then .error .valueErr else pure v.toNat
      | .bad => .error .valueErr
    pure (some (sumSet vs))

/-! ## Records -/

structure ADFields where
  rackLabel : String
  rackId : String
  rackType : String
  position : Nat
  tubeId : String
  vol : Rat                 -- exact volume; rendered with two decimals
  liquidClass : String
  tip : Option Nat
  forcedRackType : String
  deriving DecidableEq, Repr, Inhabited

structure RFields where
  srcLabel : String
  srcId : String
  srcType : String
  srcStart : Int
  srcEnd : Int
  dstLabel : String
  dstId : String
  dstType : String
  dstStart : Int
  dstEnd : Int
  vol : PyNum               -- rendered with `str()`
  liquidClass : String
  ditiReuse : Int
  multiDisp : Int
  direction : Nat           -- 0 = left_to_right, 1 = right_to_left
  excluded : List Int       -- sorted
  deriving DecidableEq, Repr, Inhabited

inductive Rec where
  | asp (f : ADFields)
  | disp (f : ADFields)
  | rd (f : RFields)
  | wash (scheme : Nat)     -- `W{scheme};`
  | washDiti                -- `W;`
  | decon                   -- `WD;`
  | flush                   -- `F;`
  | brk                     -- `B;`
  | setDiti (i : Int)       -- `S;{i}`
  | comment (s : String)    -- `C;{s}`
  | evo (s : String)        -- an EVOware script command (`B;Aspirate(...)` …), already rendered
  deriving DecidableEq, Repr, Inhabited

def sc : List Char := [';']

def joinSemi (fields : List (List Char)) : List Char := sc.intercalate fields

def tipField (t : Option Nat) : List Char := match t with | none => [] | some m => natDigits m

def ADFields.fields (tag : Char) (f : ADFields) : List (List Char) :=
  [[tag], f.rackLabel.toList, f.rackId.toList, f.rackType.toList, natDigits f.position,
   f.tubeId.toList, fmt2 (round2 f.vol).toNat, f.liquidClass.toList, [], tipField f.tip,
   f.forcedRackType.toList]

def RFields.fields (f : RFields) : List (List Char) :=
  [['R'], f.srcLabel.toList, f.srcId.toList, f.srcType.toList, intDigits f.srcStart,
   intDigits f.srcEnd, f.dstLabel.toList, f.dstId.toList, f.dstType.toList,
   intDigits f.dstStart, intDigits f.dstEnd, f.vol.render, f.liquidClass.toList,
   intDigits f.ditiReuse, intDigits f.multiDisp, natDigits f.direction]
  ++ f.excluded.map intDigits

def Rec.renderChars : Rec → List Char
  | .asp f => joinSemi (f.fields 'A')
  | .disp f => joinSemi (f.fields 'D')
  | .rd f => joinSemi f.fields
  | .wash n => 'W' :: natDigits n ++ [';']
  | .washDiti => ['W', ';']
  | .decon => ['W', 'D', ';']
  | .flush => ['F', ';']
  | .brk => ['B', ';']
  | .setDiti i => 'S' :: ';' :: intDigits i
  | .comment s => 'C' :: ';' :: s.toList
  | .evo s => s.toList

def Rec.render (r : Rec) : String := String.ofList r.renderChars

/-! ## Validation -/

def textOK32 (s : String) : Bool := s.length ≤ 32 && !s.toList.contains ';'
def textOK (s : String) : Bool := !s.toList.contains ';'

structure ADArgs where
  rackLabel : String
  position : Int            -- a Python int (non-ints are sent as `posBad`)
  posBad : Bool := false
  vol : Rat
  liquidClass : String := ""
  tip : TipArg := .single (.member (-1))
  rackId : String := ""
  tubeId : String := ""
  rackType : String := ""
  forcedRackType : String := ""
  deriving Repr, Inhabited

/-- `prepare_aspirate_dispense_parameters` — same order of checks as the code. -/
def prepareAD (a : ADArgs) (maxVolume : Option Rat) : Except Err ADFields := do
  if !textOK32 a.rackLabel then throw .valueErr
  if a.posBad ∨ a.position < 0 then throw .valueErr
  if a.vol < 0 ∨ (Spec.maxRecordVolume : Rat) < a.vol then throw .valueErr
  match maxVolume with
  | some m => if m < a.vol then throw Err.invalidOp
  | none => pure ()
  if !textOK a.liquidClass then throw .valueErr
  let tip ← tipMask a.tip
  if !textOK32 a.rackId then throw .valueErr
  if !textOK32 a.tubeId then throw .valueErr
  if !textOK32 a.rackType then throw .valueErr
  if !textOK32 a.forcedRackType then throw .valueErr
  pure { rackLabel := a.rackLabel, rackId := a.rackId, rackType := a.rackType,
         position := a.position.toNat, tubeId := a.tubeId, vol := a.vol,
         liquidClass := a.liquidClass, tip := tip, forcedRackType := a.forcedRackType }

/-- `BaseWorklist.comment`: the records a (possibly multi-line) comment produces. -/
def commentRecs (c : Option String) : Except Err (List Rec) :=
  match c with
  | none => .ok []
  | some s =>
    if s.isEmpty then .ok []
    else if s.toList.contains ';' then .error .valueErr
    else .ok ((splitLines s.toList).filterMap fun l =>
      let t := stripChars l
      if t.isEmpty then none else some (Rec.comment (String.ofList t)))

end Robotools
