/-
  Robotools.Model.Replay — an independent interpreter of the Tecan worklist records.
  It shares with the worklist model only the record type, `Geom` and the *inverse* numbering
  (`Device.wellOf`); it tracks volumes and absolute component amounts per real well.
-/
import Robotools.Model.Records
import Robotools.Model.Geometry
namespace Robotools

/-- Absolute amounts (volume units) of each component. -/
abbrev Amounts := List (String × Rat)

def amtOf (a : Amounts) (k : String) : Rat := match a.lookup k with | some x => x | none => 0

def amtAdd (a : Amounts) (k : String) (x : Rat) : Amounts :=
  match a with
  | [] => [(k, x)]
  | (k', y) :: rest => if k' = k then (k', y + x) :: rest else (k', y) :: amtAdd rest k x

def amtScale (a : Amounts) (f : Rat) : Amounts := a.map fun (k, x) => (k, x * f)

def amtMerge (a b : Amounts) : Amounts := b.foldl (fun acc (k, x) => amtAdd acc k x) a

structure RWell where
  vol : Rat
  amts : Amounts
  deriving Repr, Inhabited

structure RLab where
  name : String
  geom : Geom
  minV : Rat
  maxV : Rat
  wells : List RWell
  deriving Repr, Inhabited

structure RState where
  labs : List RLab
  tip : Amounts          -- what the last `A` record took up
  deriving Repr, Inhabited

def RState.findLab (st : RState) (name : String) : Option (Nat × RLab) :=
  (st.labs.zipIdx.find? fun (L, _) => L.name = name).map fun (L, i) => (i, L)

def RLab.wellAt (L : RLab) (dev : Device) (pos : Nat) : Option Nat :=
  (dev.wellOf L.geom pos).bind fun rc =>
    let i := L.geom.flat rc
    if i < L.wells.length then some i else none

/-- Take `v` out of well `i` (limit check; amounts leave proportionally). -/
def RLab.take (L : RLab) (i : Nat) (v : Rat) : Option (RLab × Amounts) :=
  match L.wells[i]? with
  | none => none
  | some w =>
    if w.vol - v < L.minV then none
    else
      let f : Rat := if w.vol = 0 then 0 else v / w.vol
      let out := amtScale w.amts f
      let keep := amtScale w.amts (1 - f)
      some ({ L with wells := L.wells.set i { vol := w.vol - v, amts := keep } }, out)

/-- Put `v` with amounts `a` into well `i` (limit check). -/
def RLab.put (L : RLab) (i : Nat) (v : Rat) (a : Amounts) : Option RLab :=
  match L.wells[i]? with
  | none => none
  | some w =>
    if L.maxV < w.vol + v then none
    else some { L with wells := L.wells.set i { vol := w.vol + v, amts := amtMerge w.amts a } }

def RState.setLab (st : RState) (i : Nat) (L : RLab) : RState := { st with labs := st.labs.set i L }

/-- One reagent-distribution destination: take from the source position, put into `dpos`. -/
def RState.rdOne (dev : Device) (st : RState) (sl : Nat) (spos : Nat) (dl : Nat) (dpos : Nat)
    (v : Rat) : Option RState := do
  let S ← st.labs[sl]?
  let si ← S.wellAt dev spos
  let (S', out) ← S.take si v
  let st := st.setLab sl S'
  let D ← st.labs[dl]?
  let di ← D.wellAt dev dpos
  let D' ← D.put di v out
  pure (st.setLab dl D')

/-- Interpret one record with the exact volume `vol` it carries. -/
def RState.interp (dev : Device) (st : RState) (r : Rec) : Option RState :=
  match r with
  | .asp f => do
    let (l, L) ← st.findLab f.rackLabel
    let i ← L.wellAt dev f.position
    let (L', out) ← L.take i f.vol
    pure { (st.setLab l L') with tip := out }
  | .disp f => do
    let (l, L) ← st.findLab f.rackLabel
    let i ← L.wellAt dev f.position
    -- the tip delivers the composition it took up, scaled to the dispensed volume
    let L' ← L.put i f.vol st.tip
    pure (st.setLab l L')
  | .rd f => do
    let (sl, _) ← st.findLab f.srcLabel
    let (dl, _) ← st.findLab f.dstLabel
    if f.srcStart < 1 ∨ f.srcEnd < f.srcStart ∨ f.dstStart < 0 then none
    let nsrc : Nat := (f.srcEnd - f.srcStart + 1).toNat
    let dsts : List Nat :=
      ((List.range (f.dstEnd + 1 - f.dstStart).toNat).map (· + f.dstStart.toNat)).filter
        fun p => !f.excluded.contains (p : Int)
    let rec go (st : RState) (ds : List Nat) (k : Nat) : Option RState :=
      match ds with
      | [] => some st
      | d :: rest => do
        let st' ← st.rdOne dev sl (f.srcStart.toNat + k % nsrc) dl d f.vol.q
        go st' rest (k + 1)
    go st dsts 0
  | _ => some st

/-- Replay a record list. -/
def RState.run (dev : Device) (st : RState) : List Rec → Option RState
  | [] => some st
  | r :: rs => (st.interp dev r).bind fun st' => st'.run dev rs

end Robotools
