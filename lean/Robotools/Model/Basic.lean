/-
  Robotools.Model.Basic — numbers, text helpers, array-like arguments, error classes.
  Import-free (core Lean only).  Mirrors the numpy / Python behaviour summarised in DESIGN §3.
-/
namespace Robotools

/-- Error classes (DESIGN §3.4). -/
inductive Err where
  | overflow    -- VolumeOverflowError
  | underflow   -- VolumeUnderflowError
  | invalidOp   -- InvalidOperationError
  | valueErr    -- ValueError
  | reject      -- anything else (KeyError, AssertionError, TypeError, IndexError, CompatibilityError …)
  deriving DecidableEq, Repr, Inhabited

def Err.toString : Err → String
  | .overflow => "overflow" | .underflow => "underflow" | .invalidOp => "invalidOp"
  | .valueErr => "valueErr" | .reject => "reject"

instance : ToString Err := ⟨Err.toString⟩

/-! ## Numbers -/

/-- Round half to even, to an integer (numpy.round / Python round on exact values). -/
def roundHalfEven (x : Rat) : Int :=
  let f := x.floor
  let d := x - (f : Rat)
  if d < 1/2 then f
  else if 1/2 < d then f + 1
  else if f % 2 = 0 then f else f + 1

/-- `numpy.round(x, 2)` as an integer number of hundredths. -/
def round2 (x : Rat) : Int := roundHalfEven (x * 100)

/-- `numpy.round(x, 1)` as an integer number of tenths. -/
def round1 (x : Rat) : Int := roundHalfEven (x * 10)

/-- Decimal digits of a natural number (`str(n)`), as characters. -/
def natDigits (n : Nat) : List Char := (Nat.repr n).toList

/-- `f"{n:02d}"` for a natural number. -/
def pad2 (n : Nat) : List Char := if n < 10 then '0' :: natDigits n else natDigits n

/-- `"%.2f"` of a non-negative number of hundredths. -/
def fmt2 (h : Nat) : List Char := natDigits (h / 100) ++ '.' :: pad2 (h % 100)

/-- `str(i)` for a Python int. -/
def intDigits (i : Int) : List Char :=
  match i with
  | .ofNat n => natDigits n
  | .negSucc n => '-' :: natDigits (n + 1)

/-- Fraction digits of `r / d` (0 ≤ r < d) in base 10, at most `fuel` of them. -/
def fracDigits (d : Nat) : Nat → Nat → List Char
  | 0, _ => []
  | _ + 1, 0 => []
  | fuel + 1, r => Char.ofNat (48 + r * 10 / d) :: fracDigits d fuel (r * 10 % d)

/-- `repr(float)` for a value whose decimal expansion terminates within 17 digits and whose
    magnitude is in [1e-4, 1e16) (the exactness envelope of DESIGN §3.1). -/
def pyFloatRepr (q : Rat) : List Char :=
  let neg := q < 0
  let a : Rat := if neg then -q else q
  let ip : Nat := a.floor.toNat
  let r : Nat := (a.num.toNat) % a.den
  let fd := fracDigits a.den 20 r
  (if neg then ['-'] else []) ++ natDigits ip ++ '.' :: (if fd.isEmpty then ['0'] else fd)

/-- A Python number that remembers whether it was an `int` (for `str()`/f-string rendering). -/
structure PyNum where
  q : Rat
  isInt : Bool
  deriving DecidableEq, Repr, Inhabited

def PyNum.render (n : PyNum) : List Char :=
  if n.isInt then intDigits n.q.floor else pyFloatRepr n.q

/-! ## Text -/

abbrev Str := String

def Str.ofChars (l : List Char) : String := String.ofList l

/-- Python's `str.strip()` whitespace, restricted to Latin-1. -/
def isPyWhite (c : Char) : Bool :=
  let n := c.toNat
  (9 ≤ n && n ≤ 13) || (28 ≤ n && n ≤ 32) || n == 0x85 || n == 0xA0

def stripChars (l : List Char) : List Char :=
  ((l.dropWhile isPyWhite).reverse.dropWhile isPyWhite).reverse

/-- `s.split("\n")`. -/
def splitLines (l : List Char) : List (List Char) := l.splitOn '\n'

def hexDigit (n : Nat) : Char :=
  if n < 10 then Char.ofNat (48 + n) else Char.ofNat (55 + n)

/-- `to_hex` of evotools.utils: upper-case hexadecimal without prefix. -/
def toHex (n : Nat) : List Char :=
  if _h : n < 16 then [hexDigit n] else toHex (n / 16) ++ [hexDigit (n % 16)]
decreasing_by omega

/-- `f"{s:0>2}"` : left-pad with '0' to width 2. -/
def padLeft2 (l : List Char) : List Char :=
  List.replicate (2 - l.length) '0' ++ l

/-! ## Array-like arguments (numpy `array(x).flatten("F")`) -/

inductive Arr (α : Type) where
  | scalar (a : α)
  | vec (l : List α)
  | mat (r c : Nat) (l : List α)   -- row-major listing of an r×c array
  deriving Repr, Inhabited

/-- Column-major flattening. -/
def Arr.flattenF {α} : Arr α → List α
  | .scalar a => [a]
  | .vec l => l
  | .mat r c l => (List.range c).flatMap fun j => (List.range r).filterMap fun i => l[i * c + j]?

/-- Row-major flattening (`flatten()` / `reshape`). -/
def Arr.flattenC {α} : Arr α → List α
  | .scalar a => [a]
  | .vec l => l
  | .mat _ _ l => l

def Arr.size {α} : Arr α → Nat
  | .scalar _ => 1
  | .vec l => l.length
  | .mat _ _ l => l.length

def Arr.map {α β} (f : α → β) : Arr α → Arr β
  | .scalar a => .scalar (f a)
  | .vec l => .vec (l.map f)
  | .mat r c l => .mat r c (l.map f)

/-- `if len(v) == 1: v = repeat(v, n)`. -/
def broadcast1 {α} (l : List α) (n : Nat) : List α :=
  match l with
  | [a] => List.replicate n a
  | _ => l

end Robotools
