/-
  Robotools.Model.Transform — WellShifter / WellRotator / WellRandomizer on well IDs.
  Mirrors `robotools/transform.py`.
-/
import Robotools.Model.Geometry
namespace Robotools

/-- `make_well_array(R, C)[r, c]` with numpy index semantics (negative indices wrap). -/
def wellAt (R C : Nat) (r c : Int) : Option String :=
  let R' : Int := min 26 R
  let r' := if r < 0 then r + R' else r
  let c' := if c < 0 then c + C else c
  if 0 ≤ r' ∧ r' < R' ∧ 0 ≤ c' ∧ c' < C then some (wellId r'.toNat c'.toNat) else none

def indexOf (R C : Nat) (s : String) : Option (Nat × Nat) := (makeWellIndexDict R C).lookup s

structure Shifter where
  rA : Nat
  cA : Nat
  rB : Nat
  cB : Nat
  dr : Nat
  dc : Nat
  deriving Repr, Inhabited

/-- `WellShifter.__init__`. -/
def Shifter.mk? (rA cA rB cB : Nat) (anchor : String) : Except Err Shifter :=
  match indexOf rB cB anchor with
  | none => .error .reject
  | some (dr, dc) =>
    if rB < rA + dr then .error .valueErr
    else if cB < cA + dc then .error .valueErr
    else .ok ⟨rA, cA, rB, cB, dr, dc⟩

def Shifter.shift1 (s : Shifter) (w : String) : Except Err String :=
  match indexOf s.rA s.cA w with
  | none => .error .reject
  | some (r, c) => match wellAt s.rB s.cB (r + s.dr) (c + s.dc) with
    | some x => .ok x | none => .error .reject

def Shifter.unshift1 (s : Shifter) (w : String) : Except Err String :=
  match indexOf s.rB s.cB w with
  | none => .error .reject
  | some (r, c) => match wellAt s.rA s.cA ((r : Int) - s.dr) ((c : Int) - s.dc) with
    | some x => .ok x | none => .error .reject

/-- `WellRotator(original_shape=(R, C))`. -/
def rotateCw1 (R C : Nat) (w : String) : Except Err String :=
  match indexOf R C w with
  | none => .error .reject
  | some (r, c) => match wellAt C R c ((R : Int) - r - 1) with
    | some x => .ok x | none => .error .reject

def rotateCcw1 (R C : Nat) (w : String) : Except Err String :=
  match indexOf R C w with
  | none => .error .reject
  | some (r, c) => match wellAt C R ((C : Int) - c - 1) r with
    | some x => .ok x | none => .error .reject

/-- Apply an element-wise transform to an array-like argument, keeping its shape. -/
def Arr.mapM? {α β} (f : α → Except Err β) : Arr α → Except Err (Arr β)
  | .scalar a => do pure (.scalar (← f a))
  | .vec l => do pure (.vec (← l.mapM f))
  | .mat r c l => do pure (.mat r c (← l.mapM f))

/-- Randomiser: the lookup built from a permutation `perm` of the row-major well list
    (`original[i] ↦ randomized[i]`); `.get` returns `None` for unknown wells. -/
def randomize1 (orig rand : List String) (w : String) : Option String := (orig.zip rand).lookup w
def derandomize1 (orig rand : List String) (w : String) : Option String := (rand.zip orig).lookup w

end Robotools
