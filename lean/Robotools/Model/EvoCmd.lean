/-
  Robotools.Model.EvoCmd — EVOware script commands and the well-selection bitmap.
  Mirrors `evotools/commands.py`.
-/
import Robotools.Model.Records
import Robotools.Model.Geometry
namespace Robotools

/-! ## Well selection bitmap -/

/-- Value of up to 7 bits, least significant first. -/
def bitsToNat : List Bool → Nat
  | [] => 0
  | b :: bs => (if b then 1 else 0) + 2 * bitsToNat bs

/-- Split into chunks of `Spec.selBits` bits, each rendered as `chr(mask + 48)`. -/
def encodeBits (bits : List Bool) : List Char :=
  if _h : bits.isEmpty then []
  else Char.ofNat (bitsToNat (bits.take 7) + 48) :: encodeBits (bits.drop 7)
termination_by bits.length
decreasing_by
  have : bits ≠ [] := by intro h; simp [h] at _h
  have : 0 < bits.length := List.length_pos_iff.mpr this
  simp [List.length_drop]; omega

/-- `evo_get_selection(rows, cols, selected)` with `bits` = the selection column-major. -/
def encodeSelection (rows cols : Nat) (bits : List Bool) : List Char :=
  padLeft2 (toHex cols) ++ padLeft2 (toHex rows) ++ encodeBits bits

def natToBits : Nat → Nat → List Bool
  | 0, _ => []
  | k + 1, n => (n % 2 == 1) :: natToBits k (n / 2)

/-- Decode `n` bits from the characters (EVOware rule). -/
def decodeBits (n : Nat) (cs : List Char) : List Bool :=
  match cs with
  | [] => []
  | c :: rest =>
    if n = 0 then [] else natToBits (min 7 n) (c.toNat - 48) ++ decodeBits (n - min 7 n) rest

def hexVal (c : Char) : Option Nat :=
  let n := c.toNat
  if 48 ≤ n ∧ n ≤ 57 then some (n - 48) else if 65 ≤ n ∧ n ≤ 70 then some (n - 55) else none

/-- Decode a selection string: (rows, cols, bits). -/
def decodeSelection (cs : List Char) : Option (Nat × Nat × List Bool) :=
  match cs with
  | c1 :: c0 :: r1 :: r0 :: rest => do
    let cols := (← hexVal c1) * 16 + (← hexVal c0)
    let rows := (← hexVal r1) * 16 + (← hexVal r0)
    pure (rows, cols, decodeBits (rows * cols) rest)
  | _ => none

/-- `evo_make_selection_array` + column-major reading: bit list of the selected wells. -/
def selectionBits (rows cols : Nat) (sel : List (Nat × Nat)) : List Bool :=
  (List.range cols).flatMap fun x => (List.range rows).map fun y => sel.contains (y, x)

/-! ## Aspirate / Dispense commands -/

/-- The `volume` argument: a Python list of numbers, a scalar number, or something else. -/
inductive EvoVol where
  | list (l : List Rat)
  | scalar (v : Rat)
  | other
  deriving Repr, Inhabited

/-- The volume argument flattened as `Labware.remove/add` receive it. -/
def EvoVol.toList : EvoVol → List Rat
  | .list l => l
  | .scalar v => [v]
  | .other => []

/-- The volume argument as an array-like (`numpy.array(volume)`). -/
def EvoVol.toArr : EvoVol → Arr Rat
  | .list vs => .vec vs
  | .scalar v => .scalar v
  | .other => .vec []

structure EvoADArgs where
  wells : Arr String
  wellsBad : Bool := false        -- not str/list/tuple/ndarray
  grid : Int
  gridBad : Bool := false         -- not an int
  site : Int
  siteBad : Bool := false
  tips : List TipSym
  volume : EvoVol
  liquidClass : String
  arm : Int
  deriving Repr, Inhabited

structure EvoADFields where
  isAsp : Bool
  tipSel : Nat
  liquidClass : String
  slots : List (Option Int)       -- 8 slots: volume in hundredths, or none ("0")
  grid : Nat
  site : Nat                      -- zero-based, as emitted
  rows : Nat
  cols : Nat
  bits : List Bool                -- column-major selection
  arm : Nat
  deriving DecidableEq, Repr, Inhabited

/-- repr of `np.round(v, 2)` as a Python float given in hundredths. -/
def hundredthsRepr (h : Int) : List Char := pyFloatRepr ((h : Rat) / 100)

/-- One of the eight per-tip volume fields: `"<volume>",` for a selected tip, `0,` otherwise. -/
def slotText (s : Option Int) : List Char :=
  match s with
  | some h => '"' :: hundredthsRepr h ++ ['"', ',']
  | none => ['0', ',']

def EvoADFields.render (f : EvoADFields) : List Char :=
  let head := if f.isAsp then "B;Aspirate(".toList else "B;Dispense(".toList
  let vols := f.slots.flatMap slotText
  head ++ natDigits f.tipSel ++ ",\"".toList ++ f.liquidClass.toList ++ "\",".toList ++ vols
    ++ "0,0,0,0,".toList ++ natDigits f.grid ++ [','] ++ natDigits f.site ++ ",1,\"".toList
    ++ encodeSelection f.rows f.cols f.bits ++ "\",0,".toList ++ natDigits f.arm ++ ");".toList

/-- Fill the eight volume slots: ascending tip values take the volumes in order. -/
def fillSlots (tipVals : List Nat) (vols : List Int) : List (Option Int) :=
  let rec go (slots : List Nat) (vols : List Int) : List (Option Int) :=
    match slots with
    | [] => []
    | t :: rest =>
      if tipVals.contains t then
        match vols with
        | v :: vs => some v :: go rest vs
        | [] => none :: go rest []     -- (IndexError in Python; excluded by validation)
      else none :: go rest vols
  go Spec.tipSlots vols

def strictlyAscending (ks : List (List Nat)) : Bool :=
  match ks with
  | a :: b :: rest => decide (a < b) && strictlyAscending (b :: rest)
  | _ => true

/-- Range check of one volume (`prepare_evo_aspirate_dispense_parameters`). -/
def evoCheckVol (maxVolume : Rat) (v : Rat) : Except Err Unit :=
  if v < 0 ∨ (Spec.maxRecordVolume : Rat) < v then .error .valueErr
  else if maxVolume < v then .error .invalidOp else .ok ()

/-- The per-tip volume list: a list is checked element-wise and must have one entry per tip; a scalar
    is replicated once per well. -/
def evoVols (a : EvoADArgs) (nWells : Nat) (maxVolume : Rat) : Except Err (List Rat) :=
  match a.volume with
  | .list l => do
    l.forM (evoCheckVol maxVolume)
    if l.length ≠ a.tips.length then throw .reject
    pure l
  | .scalar v => do
    evoCheckVol maxVolume v
    pure (List.replicate nWells v)
  | .other => throw .valueErr

/-- Tip values (`Tip` members as their value, ints through `int_to_tip`). -/
def evoTipVals (tips : List TipSym) : Except Err (List Int) :=
  tips.mapM fun t => match t with
    | .int n => do let v ← intToTip n; pure (v : Int)
    | .member v => pure v
    | .bad => throw .valueErr

/-- `(row, column)` of every well ID in the labware's ID grid. -/
def evoSel (wells : List String) (nRows nCols : Nat) : Except Err (List (Nat × Nat)) :=
  wells.mapM fun w => match (makeWellIndexDict nRows nCols).lookup w with
    | some rc => pure rc
    | none => throw Err.reject

/-- `prepare_evo_aspirate_dispense_parameters` followed by the command construction.
    `rowsIds`, `cols`: `labware.n_rows`, `labware.n_columns`. -/
def evoAD (isAsp : Bool) (a : EvoADArgs) (nRows nCols : Nat) (maxVolume : Rat) :
    Except Err EvoADFields := do
  if a.wellsBad then throw .valueErr
  let wellsList := a.wells.flattenF
  if wellsList.length ≠ a.tips.length then throw .valueErr
  if a.gridBad ∨ a.grid < 1 ∨ (Spec.maxGrid : Int) < a.grid then throw .valueErr
  if a.siteBad ∨ a.site < 1 ∨ (Spec.maxSite : Int) < a.site then throw .valueErr
  let vols ← evoVols a wellsList.length maxVolume
  if a.liquidClass.toList.contains ';' then throw .valueErr
  if a.tips.any (fun t => t == TipSym.bad) then throw .valueErr
  let tipVals ← evoTipVals a.tips
  if ¬(a.arm = 0 ∨ a.arm = 1) then throw .valueErr
  -- distinct concrete tips, wells strictly ascending
  if tipVals.contains (-1) then throw .valueErr
  let tv : List Nat := tipVals.map Int.toNat
  if (dedup tv).length ≠ tv.length then throw .valueErr
  if !strictlyAscending (wellsList.map fun s => s.toList.map Char.toNat) then throw .valueErr
  -- selection
  let sel ← evoSel wellsList nRows nCols
  let usedCols := dedup (sel.map (·.2))
  if 2 ≤ usedCols.length then throw .valueErr
  pure { isAsp := isAsp, tipSel := tv.foldl (· + ·) 0, liquidClass := a.liquidClass,
         slots := fillSlots tv (vols.map round2), grid := a.grid.toNat, site := (a.site - 1).toNat,
         rows := nRows, cols := nCols, bits := selectionBits nRows nCols sel, arm := a.arm.toNat }

/-- EVOware's reading of an Aspirate/Dispense command (independent of how it was built): the selected
    wells, taken in ascending position (column-major) order, are served by the selected tips in
    ascending order; each selected tip carries the volume (hundredths) of its slot. -/
def EvoADFields.decode (f : EvoADFields) : List ((Nat × Nat) × Int) :=
  let wells := (List.range f.cols).flatMap fun x => (List.range f.rows).filterMap fun y =>
    if f.bits.getD (x * f.rows + y) false then some (y, x) else none
  wells.zip (f.slots.filterMap id)

/-! ## Wash command -/

/-- An argument that must be a Python int. -/
structure IntArg where
  v : Int
  bad : Bool := false
  deriving Repr, Inhabited

structure EvoWashArgs where
  tips : List TipSym
  wasteGrid : IntArg
  wasteSite : IntArg
  cleanerGrid : IntArg
  cleanerSite : IntArg
  arm : Int
  wasteVol : Option PyNum       -- none = not a float/int
  wasteDelay : IntArg
  cleanerVol : Option PyNum
  cleanerDelay : IntArg
  airgap : IntArg
  airgapSpeed : IntArg
  retractSpeed : IntArg
  fastwash : IntArg
  lowVolume : IntArg
  deriving Repr, Inhabited

structure EvoWashFields where
  tipSel : Int
  wasteGrid : Nat
  wasteSite : Nat
  cleanerGrid : Nat
  cleanerSite : Nat
  wasteVol : PyNum              -- rounded to one decimal
  wasteDelay : Nat
  cleanerVol : PyNum
  cleanerDelay : Nat
  airgap : Nat
  airgapSpeed : Nat
  retractSpeed : Nat
  fastwash : Nat
  lowVolume : Nat
  arm : Nat
  deriving DecidableEq, Repr, Inhabited

def intIn (a : IntArg) (lo hi : Int) : Except Err Nat :=
  if a.bad ∨ a.v < lo ∨ hi < a.v then .error .valueErr else .ok a.v.toNat

def roundTenth (n : PyNum) : PyNum :=
  if n.isInt then n else { q := (round1 n.q : Rat) / 10, isInt := false }

def volIn (a : Option PyNum) : Except Err PyNum :=
  match a with
  | none => .error .valueErr
  | some n => if n.q < 0 ∨ 100 < n.q then .error .valueErr else .ok (roundTenth n)

/-- Tip values of the `tips` argument of `evo_wash` (a non-`Tip`, non-int element is an AttributeError). -/
def evoWashTipVals (tips : List TipSym) : Except Err (List Int) :=
  tips.mapM fun t => match t with
    | .int n => do let v ← intToTip n; pure (v : Int)
    | .member v => pure v
    | .bad => throw .reject

def evoWash (a : EvoWashArgs) : Except Err EvoWashFields := do
  let tipVals : List Int ← evoWashTipVals a.tips
  -- distinct concrete tips
  if tipVals.contains (-1) then throw .valueErr
  if (dedup (tipVals.map Int.toNat)).length ≠ tipVals.length then throw .valueErr
  let wg ← intIn a.wasteGrid 1 Spec.maxGrid
  let ws ← intIn a.wasteSite 1 Spec.maxSite
  let cg ← intIn a.cleanerGrid 1 Spec.maxGrid
  let cs ← intIn a.cleanerSite 1 Spec.maxSite
  if ¬(a.arm = 0 ∨ a.arm = 1) then throw .valueErr
  let wv ← volIn a.wasteVol
  let wd ← intIn a.wasteDelay 0 1000
  let cv ← volIn a.cleanerVol
  let cd ← intIn a.cleanerDelay 0 1000
  let ag ← intIn a.airgap 0 100
  let ags ← intIn a.airgapSpeed 1 1000
  let rs ← intIn a.retractSpeed 1 100
  let fw ← intIn a.fastwash 0 1
  let lv ← intIn a.lowVolume 0 1
  pure { tipSel := tipVals.foldl (· + ·) 0, wasteGrid := wg, wasteSite := ws - 1, cleanerGrid := cg,
         cleanerSite := cs - 1, wasteVol := wv, wasteDelay := wd, cleanerVol := cv,
         cleanerDelay := cd, airgap := ag, airgapSpeed := ags, retractSpeed := rs, fastwash := fw,
         lowVolume := lv, arm := a.arm.toNat }

def EvoWashFields.render (f : EvoWashFields) : List Char :=
  "B;Wash(".toList ++ intDigits f.tipSel ++ [','] ++ natDigits f.wasteGrid ++ [',']
    ++ natDigits f.wasteSite ++ [','] ++ natDigits f.cleanerGrid ++ [','] ++ natDigits f.cleanerSite
    ++ ",\"".toList ++ f.wasteVol.render ++ "\",".toList ++ natDigits f.wasteDelay
    ++ ",\"".toList ++ f.cleanerVol.render ++ "\",".toList ++ natDigits f.cleanerDelay ++ [',']
    ++ natDigits f.airgap ++ [','] ++ natDigits f.airgapSpeed ++ [','] ++ natDigits f.retractSpeed
    ++ [','] ++ natDigits f.fastwash ++ [','] ++ natDigits f.lowVolume ++ ",1000,".toList
    ++ natDigits f.arm ++ ");".toList

end Robotools
