/-
  Robotools.Model.ReplayInit — the replay interpreter's initial state: the labware's initial
  contents (volumes and absolute component amounts = fraction × volume).
-/
import Robotools.Model.Labware
import Robotools.Model.Replay
namespace Robotools

def RState.ofLabs (labs : List Labware) : RState :=
  { labs := labs.map fun L =>
      { name := L.name, geom := L.geom, minV := L.minV, maxV := L.maxV,
        wells := (List.range L.vols.length).map fun i =>
        { vol := L.vol i, amts := L.comp.map fun (k, arr) => (k, arr.getD i 0 * L.vol i) } },
    tip := [] }

end Robotools
