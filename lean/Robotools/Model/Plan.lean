/-
  Robotools.Model.Plan — pure planning helpers of transfers.
  Mirrors `worklists/utils.py` (`partition_volume`, `partition_by_column`,
  `optimize_partition_by`), `utils.get_trough_wells` and the planning part of the two
  `transfer` implementations (which reads no labware state).
-/
import Robotools.Model.Basic
namespace Robotools

/-- `partition_volume(volume, max_volume=M)`. -/
def partitionVolume (v M : Rat) : List Rat :=
  if v = 0 then []
  else if v < M then [v]
  else
    let n : Nat := (v / M).ceil.toNat
    let s0 : Rat := (((v / (n : Rat)).ceil : Int) : Rat)
    let s : Rat := if M < s0 then v / (n : Rat) else s0
    List.replicate (n - 1) s ++ [v - ((n - 1 : Nat) : Rat) * s]

/-- A (source well, destination well, volume) triple. -/
structure Triple where
  src : String
  dst : String
  vol : Rat
  deriving DecidableEq, Repr, Inhabited

/-- Sort key of a well ID: its code points (numpy / Python compare strings by code point). -/
def strKey (s : String) : List Nat := s.toList.map Char.toNat

def Triple.key (byDest : Bool) (t : Triple) : List Nat := strKey (if byDest then t.dst else t.src)

/-- `s[1:]` as a key. -/
def Triple.group (byDest : Bool) (t : Triple) : List Nat := (t.key byDest).drop 1

def insertSortedDedup (k : List Nat) : List (List Nat) → List (List Nat)
  | [] => [k]
  | x :: xs => if k = x then x :: xs else if k < x then k :: x :: xs else x :: insertSortedDedup k xs

/-- `sorted(column_groups_dd.keys())`. -/
def groupKeys (byDest : Bool) (ts : List Triple) : List (List Nat) :=
  ts.foldl (fun acc t => insertSortedDedup (t.group byDest) acc) []

/-- `partition_by_column` for `partition_by ∈ {"source", "destination"}`. -/
def partitionByColumn (ts : List Triple) (byDest : Bool) : List (List Triple) :=
  (groupKeys byDest ts).map fun g =>
    (ts.filter fun t => t.group byDest = g).mergeSort fun a b => a.key byDest ≤ b.key byDest

/-- `optimize_partition_by`: `some true` = by destination, `none` = invalid mode (ValueError). -/
def optimizePartitionBy (srcTrough dstTrough : Bool) (mode : String) : Option Bool :=
  if mode = "auto" then some (srcTrough && !dstTrough)
  else if mode = "source" then some false
  else if mode = "destination" then some true
  else none

/-- `get_trough_wells(n, wells)` for `n ≥ 0` (an int) after flattening. -/
def getTroughWells {α} (n : Nat) (wells : List α) : Option (List α) :=
  if wells.isEmpty then none
  else some ((List.replicate (n / wells.length + 1) wells).flatten.take n)

/-- `reagent_distribution`: reduce `multi_disp` as far as needed to fit `max_volume`. -/
def adaptMultiDisp (M v : Rat) (md : Int) : Int :=
  if M < (md : Rat) * v then (M / v).floor else md

/-- Steps of a transfer plan. `action` is the requested tip action after a pair. -/
inductive PlanStep where
  | pair (s d : String) (v : Rat)
  | action
  | brk
  deriving DecidableEq, Repr, Inhabited

def volLists (autoSplit : Bool) (M : Rat) (g : List Triple) : List (List Rat) :=
  g.map fun t => if autoSplit then partitionVolume t.vol M else [t.vol]

def maxLen (ls : List (List Rat)) : Nat := ls.foldl (fun m l => max m l.length) 0

/-- The pairs of round `p` of one column group. -/
def roundPairs (g : List Triple) (vls : List (List Rat)) (p : Nat) : List (String × String × Rat) :=
  (g.zip vls).filterMap fun (t, vs) =>
    match vs[p]? with
    | some v => if 0 < v then some (t.src, t.dst, v) else none
    | none => none

def groupPlan (g : List Triple) (vls : List (List Rat)) : List PlanStep :=
  let np := maxLen vls
  ((List.range np).flatMap fun p =>
    let ps := roundPairs g vls p
    (ps.flatMap fun (s, d, v) => [PlanStep.pair s d v, PlanStep.action])
      ++ (if 1 < np ∧ 1 < ps.length ∧ p ≠ np - 1 then [PlanStep.brk] else []))
  ++ (if 1 < np then [PlanStep.brk] else [])

/-- The whole plan of a transfer after broadcasting / partition-mode resolution. -/
def transferPlan (autoSplit : Bool) (M : Rat) (byDest : Bool) (ts : List Triple) : List PlanStep :=
  (partitionByColumn ts byDest).flatMap fun g => groupPlan g (volLists autoSplit M g)

/-- `lvh_extra`: extra pipetting pairs caused by splitting. -/
def lvhExtra (autoSplit : Bool) (M : Rat) (byDest : Bool) (ts : List Triple) : Nat :=
  ((partitionByColumn ts byDest).map fun g =>
    ((volLists autoSplit M g).map fun vs => vs.length - 1).sum).sum

def countPairs (plan : List PlanStep) : Nat :=
  (plan.filter fun s => match s with | .pair _ _ _ => true | _ => false).length

end Robotools
