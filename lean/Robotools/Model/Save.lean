/-
  Robotools.Model.Save — what `BaseWorklist.save` writes: the records joined by CRLF, Latin-1.
-/
import Robotools.Model.Records
namespace Robotools

/-- Latin-1 encoding of a character list (`none` if a character is above U+00FF). -/
def latin1Encode (l : List Char) : Option (List Nat) :=
  l.mapM fun c => if c.toNat < 256 then some c.toNat else none

def latin1Decode (bs : List Nat) : List Char := bs.map Char.ofNat

/-- `"\n".join(records)` written with `newline="\r\n"`: every `\n` becomes `\r\n`. -/
def fileChars (recs : List (List Char)) : List Char :=
  (['\n'].intercalate recs).flatMap fun c => if c = '\n' then ['\r', '\n'] else [c]

def fileBytes (recs : List (List Char)) : Option (List Nat) := latin1Encode (fileChars recs)

/-- Split at CRLF. -/
def splitCRLF : List Char → List (List Char)
  | [] => [[]]
  | '\r' :: '\n' :: rest => [] :: splitCRLF rest
  | c :: rest =>
    match splitCRLF rest with
    | [] => [[c]]
    | l :: ls => (c :: l) :: ls

/-- The `.gwl` extension test (`Path(filepath).suffix.lower() == ".gwl"`), on the file name. -/
def hasGwlSuffix (name : List Char) : Bool :=
  let lower := name.map Char.toLower
  let n := lower.length
  -- suffix = from the last '.', provided it is not the first character of the name
  4 < n && lower.drop (n - 4) == ".gwl".toList

end Robotools
