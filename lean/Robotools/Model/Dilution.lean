/-
  Robotools.Model.Dilution — the part of `DilutionPlan.__init__` after the ideal targets are
  known (the targets come from `numpy.linspace/exp/log` and are an *input* of the model),
  and an executable checker `planOK` of the property's plan-level clauses.
-/
import Robotools.Model.Basic
namespace Robotools

structure Instr where
  col : Nat
  dsteps : Nat
  src : Option Nat          -- `none` = "stock"
  vols : List Rat           -- per row
  deriving Repr, Inhabited, DecidableEq

structure DPlan where
  instr : List Instr
  x : List (List Rat)       -- achieved concentration per prepared column (per row)
  avail : List (List Rat)   -- remaining volume per prepared column (per row)
  deriving Repr, Inhabited

def idealCol (R C : Nat) (ideal : List Rat) (c : Nat) : List Rat :=
  (List.range R).map fun r => ideal.getD (r * C + c) 0

def zipWith3 {α β γ δ} (f : α → β → γ → δ) : List α → List β → List γ → List δ
  | a :: as, b :: bs, c :: cs => f a b c :: zipWith3 f as bs cs
  | _, _, _ => []

/-- Find the leftmost prepared column that can serve column `c` (budgeted). -/
def findSource (minT vm : Rat) (idc : List Rat) (p : DPlan) : Nat → Option (Nat × List Rat)
  | j =>
    if _h : j < p.instr.length then
      let xs := p.x.getD j []
      let av := p.avail.getD j []
      let vt : List Rat := List.zipWith (fun i x => (((vm * i / x).ceil : Int) : Rat)) idc xs
      if vt.all (fun v => minT ≤ v) && vt.all (fun v => v ≤ vm)
          && (List.zipWith (fun v a => decide (v ≤ a)) vt av).all id then some (j, vt)
      else findSource minT vm idc p (j + 1)
    else none
termination_by j => p.instr.length - j

/-- Prepare column `c`; `inStock` = the stock phase has not been left yet. -/
def planCol (R C : Nat) (stock minT : Rat) (vmax ideal : List Rat) (st : DPlan × Bool) (c : Nat) :
    Option (DPlan × Bool) :=
  let (p, inStock) := st
  let vm := vmax.getD c 0
  let idc := idealCol R C ideal c
  let vtS : List Rat := idc.map fun i => ((roundHalfEven (vm * i / stock) : Int) : Rat)
  if inStock && vtS.all (fun v => minT ≤ v) && vtS.all (fun v => v ≤ vm) then
    some ({ instr := p.instr ++ [⟨c, 0, none, vtS⟩],
            x := p.x ++ [vtS.map fun v => v / vm * stock],
            avail := p.avail ++ [List.replicate R vm] }, true)
  else
    match findSource minT vm idc p 0 with
    | none => none
    | some (j, vt) =>
      let xs := p.x.getD j []
      let sd := (p.instr.getD j default).dsteps
      some ({ instr := p.instr ++ [⟨c, sd + 1, some j, vt⟩],
              x := p.x ++ [List.zipWith (fun v x => v * x / vm) vt xs],
              avail := (p.avail.set j (List.zipWith (fun a v => a - v) (p.avail.getD j []) vt))
                        ++ [List.replicate R vm] }, false)

/-- `DilutionPlan.__init__` after argument processing, given the matrix of ideal targets
    (row-major `R × C`). `none` = `ValueError`. -/
def planFrom (R C : Nat) (stock : Rat) (vmax : List Rat) (minT : Rat) (ideal : List Rat) :
    Option DPlan :=
  ((List.range C).foldl (fun st c => st.bind fun s => planCol R C stock minT vmax ideal s c)
    (some (⟨[], [], []⟩, true))).map (·.1)

end Robotools
