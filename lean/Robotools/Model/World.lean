/-
  Robotools.Model.World — labware set + worklist, every public operation compiled to a list of
  micro-operations that is executed with early exit.  The state reached when an operation
  raises is part of the model (robotools mutates before it validates in several places).
  Mirrors `worklists/base.py`, `evotools/worklist.py`, `fluenttools/worklist.py`.
-/
import Robotools.Model.Labware
import Robotools.Model.Records
import Robotools.Model.Plan
import Robotools.Model.EvoCmd
namespace Robotools

/-- Where the composition of an addition comes from. -/
inductive CompSrc where
  | none                       -- `compositions[i] is None`
  | given (c : Comp)           -- supplied by the caller
  | carry                      -- the composition read by the preceding `loadComp`
  deriving Repr, Inhabited

inductive Micro where
  | rm (lab i : Nat) (v : Rat)                 -- one `remove` iteration on real well `i`
  | ad (lab i : Nat) (v : Rat) (c : CompSrc)   -- one `add` iteration
  | loadComp (lab i : Nat)                     -- `get_well_composition` into the carry register
  | log (lab : Nat) (label : Option String)
  | condense (lab n : Nat) (label : Option String)
  | emit (r : Rec)
  | setDiti (i : Int)                          -- dynamic check on the last record
  | fail (e : Err)
  deriving Repr, Inhabited

structure Cfg where
  dev : Device
  maxVolume : Rat
  autoSplit : Bool
  ditiMode : Bool
  deriving Repr, Inhabited

structure World where
  cfg : Cfg
  labs : List Labware
  recs : List Rec
  carry : Comp
  deriving Repr, Inhabited

def World.setLab (w : World) (l : Nat) (L : Labware) : World := { w with labs := w.labs.set l L }

/-- Execute one micro-operation. -/
def World.micro (w : World) (m : Micro) : Except Err World :=
  match m with
  | .rm l i v =>
    match w.labs[l]? with
    | none => .error .reject
    | some L => match L.removeStep i v with
      | .ok L' => .ok (w.setLab l L')
      | .error e => .error e
  | .ad l i v c =>
    match w.labs[l]? with
    | none => .error .reject
    | some L =>
      let comp : Option Comp := match c with
        | .none => none | .given c => some c | .carry => some w.carry
      match L.addStep i v comp with
      | .ok L' => .ok (w.setLab l L')
      | .error e => .error e
  | .loadComp l i =>
    match w.labs[l]? with
    | none => .error .reject
    | some L => .ok { w with carry := L.wellComp i }
  | .log l label =>
    match w.labs[l]? with
    | none => .error .reject
    | some L => .ok (w.setLab l (L.log label))
  | .condense l n label =>
    match w.labs[l]? with
    | none => .error .reject
    | some L => match L.condenseLog n label with
      | .ok L' => .ok (w.setLab l L')
      | .error e => .error e
  | .emit r => .ok { w with recs := w.recs ++ [r] }
  | .setDiti i =>
    let allowed := match w.recs.getLast? with
      | none => true
      | some r => (r.renderChars.head? == some 'B')
    if allowed then .ok { w with recs := w.recs ++ [Rec.setDiti i] } else .error .invalidOp
  | .fail e => .error e

/-- Execute micro-operations until the first error; the state reached is returned in any case. -/
def World.exec (w : World) : List Micro → World × Option Err
  | [] => (w, none)
  | m :: ms =>
    match w.micro m with
    | .ok w' => w'.exec ms
    | .error e => (w, some e)

/-! ## Operations -/

/-- Keyword arguments passed through to `aspirate_well` / `dispense_well`. -/
structure KW where
  liquidClass : String := ""
  tip : TipArg := .single (.member (-1))
  rackId : String := ""
  tubeId : String := ""
  rackType : String := ""
  forcedRackType : String := ""
  deriving Repr, Inhabited

inductive WashArg where
  | scheme (n : Int)
  | flush
  | reuse
  deriving Repr, Inhabited

structure DistArgs where
  src : Nat
  srcCol : Int
  dst : Nat
  dstWells : Arr String
  vol : PyNum
  ditiReuse : Int := 1
  multiDisp : Int := 1
  liquidClass : String := ""
  label : String := ""
  direction : String := "left_to_right"
  srcRackId : String := ""
  srcRackType : String := ""
  dstRackId : String := ""
  dstRackType : String := ""
  deriving Repr, Inhabited

structure RDArgs where
  srcLabel : String
  srcStart : IntArg
  srcEnd : IntArg
  dstLabel : String
  dstStart : IntArg
  dstEnd : IntArg
  vol : PyNum
  ditiReuse : Int := 1
  multiDisp : Int := 1
  exclude : List Int := []
  excludeBad : Bool := false   -- some excluded well is not an integer (never in the destination range set)
  liquidClass : String := ""
  direction : String := "left_to_right"
  srcRackId : String := ""
  srcRackType : String := ""
  dstRackId : String := ""
  dstRackType : String := ""
  deriving Repr, Inhabited

inductive Op where
  | add (lab : Nat) (wells : Arr String) (vols : Arr Rat) (label : Option String)
      (comps : Option (List (Option Comp)))
  | remove (lab : Nat) (wells : Arr String) (vols : Arr Rat) (label : Option String)
  | condenseLog (lab n : Nat) (label : Option String)
  | aspirate (lab : Nat) (wells : Arr String) (vols : Arr Rat) (label : Option String) (kw : KW)
  | dispense (lab : Nat) (wells : Arr String) (vols : Arr Rat) (label : Option String)
      (comps : Option (List (Option Comp))) (kw : KW)
  | transfer (src : Nat) (srcWells : Arr String) (dst : Nat) (dstWells : Arr String)
      (vols : Arr Rat) (label : Option String) (wash : WashArg) (partitionBy : String) (kw : KW)
  | distribute (a : DistArgs)
  | comment (s : Option String)
  | wash (scheme : Int)
  | decontaminate
  | flush
  | commit
  | setDiti (i : Int)
  | aspirateWell (a : ADArgs)
  | dispenseWell (a : ADArgs)
  | reagentDistribution (a : RDArgs)
  | evoAspirate (lab : Nat) (a : EvoADArgs) (label : Option String)
  | evoDispense (lab : Nat) (a : EvoADArgs) (label : Option String)
      (comps : Option (List (Option Comp)))
  | evoWash (a : EvoWashArgs)
  deriving Repr, Inhabited

/-! ## Compilation of operations to micro-operations -/

def exceptMicros {α} (x : Except Err α) (f : α → List Micro) : List Micro :=
  match x with
  | .ok a => f a
  | .error e => [.fail e]

/-- `Labware.remove(wells, volumes, label)`. -/
def compileRemove (L : Labware) (l : Nat) (wells : Arr String) (vols : Arr Rat)
    (label : Option String) : List Micro :=
  let ws := wells.flattenF
  let vs := broadcast1 vols.flattenF ws.length
  if vs.length ≠ ws.length then [.fail .reject]
  else if vs.any (· < 0) then [.fail .reject]
  else
    ((ws.zip vs).map fun (w, v) =>
      match L.geom.resolveFlat w with
      | some i => Micro.rm l i v
      | none => Micro.fail .reject)
    ++ [.log l label]

/-- `Labware.add(wells, volumes, label, compositions)`; `carryAll`: all wells take the carry
    register (`compositions=[src_composition] * n`). -/
def compileAdd (L : Labware) (l : Nat) (wells : Arr String) (vols : Arr Rat)
    (label : Option String) (comps : Option (List (Option Comp))) (carryAll : Bool := false) :
    List Micro :=
  let ws := wells.flattenF
  let vs := broadcast1 vols.flattenF ws.length
  if vs.length ≠ ws.length then [.fail .reject]
  else if vs.any (· < 0) then [.fail .reject]
  else
    let cs : Option (List CompSrc) :=
      if carryAll then some (List.replicate ws.length .carry)
      else match comps with
        | none => some (List.replicate ws.length .none)
        | some l =>
          if l.length ≠ ws.length then none
          else some (l.map fun c => match c with | some c => CompSrc.given c | none => CompSrc.none)
    match cs with
    | none => [.fail .reject]
    | some cs =>
      (((ws.zip vs).zip cs).map fun ((w, v), c) =>
        match L.geom.resolveFlat w with
        | some i => Micro.ad l i v c
        | none => Micro.fail .reject)
      ++ [.log l label]

def commentMicros (c : Option String) : List Micro :=
  exceptMicros (commentRecs c) fun rs => rs.map .emit

/-- The per-well emission loop of `aspirate` / `dispense`. -/
def emitAD (cfg : Cfg) (L : Labware) (isAsp : Bool) (ws : List String) (vs : List Rat) (kw : KW) :
    List Micro :=
  (ws.zip vs).flatMap fun (w, v) =>
    if 0 < v then
      exceptMicros (cfg.dev.pos L.geom w) fun p =>
        exceptMicros (prepareAD { rackLabel := L.name, position := p, vol := v,
                                  liquidClass := kw.liquidClass, tip := kw.tip, rackId := kw.rackId,
                                  tubeId := kw.tubeId, rackType := kw.rackType,
                                  forcedRackType := kw.forcedRackType } (some cfg.maxVolume))
          fun f => [.emit (if isAsp then .asp f else .disp f)]
    else []

def compileAspirate (cfg : Cfg) (L : Labware) (l : Nat) (wells : Arr String) (vols : Arr Rat)
    (label : Option String) (kw : KW) : List Micro :=
  let ws := wells.flattenF
  let vs := broadcast1 vols.flattenF ws.length
  compileRemove L l (.vec ws) (.vec vs) label ++ commentMicros label ++ emitAD cfg L true ws vs kw

def compileDispense (cfg : Cfg) (L : Labware) (l : Nat) (wells : Arr String) (vols : Arr Rat)
    (label : Option String) (comps : Option (List (Option Comp))) (kw : KW)
    (carryAll : Bool := false) : List Micro :=
  let ws := wells.flattenF
  let vs := broadcast1 vols.flattenF ws.length
  compileAdd L l (.vec ws) (.vec vs) label comps carryAll ++ commentMicros label
    ++ emitAD cfg L false ws vs kw

/-- `BaseWorklist.wash(scheme)`. -/
def washMicros (cfg : Cfg) (scheme : Int) : List Micro :=
  if cfg.ditiMode then [.emit .washDiti]
  else if Spec.washSchemes.contains scheme.toNat ∧ 0 ≤ scheme then [.emit (.wash scheme.toNat)]
  else [.fail .valueErr]

def actionMicros (cfg : Cfg) (wash : WashArg) : List Micro :=
  match wash with
  | .flush => [.emit .flush]
  | .reuse => []
  | .scheme n => washMicros cfg n

def lvhLabel (label : Option String) (extra : Nat) : Option String :=
  if extra = 0 then label
  else match label with
    | some s => if s.isEmpty then some (toString extra ++ " LVH steps")
                else some (s ++ " (" ++ toString extra ++ " LVH steps)")
    | none => some (toString extra ++ " LVH steps")

/-- `EvoWorklist.transfer` / `FluentWorklist.transfer`. -/
def compileTransfer (cfg : Cfg) (S : Labware) (src : Nat) (srcWells : Arr String) (D : Labware)
    (dst : Nat) (dstWells : Arr String) (vols : Arr Rat) (label : Option String) (wash : WashArg)
    (partitionBy : String) (kw : KW) : List Micro :=
  if cfg.dev = .base then [.fail .reject]
  else
    let sw := srcWells.flattenF
    let dw := dstWells.flattenF
    let vs := vols.flattenF
    let nmax := max sw.length (max dw.length vs.length)
    let sw := broadcast1 sw nmax
    let dw := broadcast1 dw nmax
    let vs := broadcast1 vs nmax
    if ¬(sw.length = dw.length ∧ dw.length = vs.length) then [.fail .reject]
    else if vs.any (· < 0) then [.fail .valueErr]
    else
      match optimizePartitionBy S.geom.isTrough D.geom.isTrough partitionBy with
      | none => [.fail .valueErr]
      | some byDest =>
        let ts : List Triple := ((sw.zip dw).zip vs).map fun ((s, d), v) => ⟨s, d, v⟩
        let plan := transferPlan cfg.autoSplit cfg.maxVolume byDest ts
        let n := countPairs plan
        let label' := lvhLabel label (lvhExtra cfg.autoSplit cfg.maxVolume byDest ts)
        commentMicros label
        ++ (plan.flatMap fun st => match st with
            | .pair s d v =>
              compileAspirate cfg S src (.scalar s) (.scalar v) none kw
              ++ exceptMicros (match S.geom.resolveFlat s with
                                | some i => Except.ok i | none => Except.error Err.reject)
                   (fun i => [Micro.loadComp src i])
              ++ compileDispense cfg D dst (.scalar d) (.scalar v) none none kw true
            | .action => actionMicros cfg wash
            | .brk => [.emit .brk])
        ++ (if src = dst then [.condense src (2 * n) label']
            else [.condense src n label', .condense dst n label'])

/-- `BaseWorklist.reagent_distribution`. -/
def compileRD (cfg : Cfg) (a : RDArgs) : List Micro :=
  if ¬(a.direction = "left_to_right" ∨ a.direction = "right_to_left") then [.fail .valueErr]
  else
    let dir : Nat := if a.direction = "left_to_right" then 0 else 1
    if a.excludeBad ∨ a.exclude.any (fun x => x < a.dstStart.v ∨ a.dstEnd.v < x) then [.fail .valueErr]
    else
      let sorted := a.exclude.mergeSort (· ≤ ·)
      let anyTip : TipArg := .single (.member (-1))
      exceptMicros (prepareAD { rackLabel := a.srcLabel, position := 1, vol := a.vol.q,
                                liquidClass := a.liquidClass, tip := anyTip, rackId := a.srcRackId,
                                rackType := a.srcRackType } (some cfg.maxVolume)) fun _ =>
      exceptMicros (prepareAD { rackLabel := a.dstLabel, position := 1, vol := a.vol.q,
                                liquidClass := a.liquidClass, tip := anyTip, rackId := a.dstRackId,
                                rackType := a.dstRackType } (some cfg.maxVolume)) fun _ =>
      if a.srcStart.bad ∨ a.srcEnd.bad ∨ a.dstStart.bad ∨ a.dstEnd.bad ∨ a.srcStart.v < 0
          ∨ a.srcEnd.v < 0 ∨ a.dstStart.v < 0 ∨ a.dstEnd.v < 0 then [.fail .valueErr]
      else
        let md : Int := adaptMultiDisp cfg.maxVolume a.vol.q a.multiDisp
        [.emit (.rd { srcLabel := a.srcLabel, srcId := a.srcRackId, srcType := a.srcRackType,
                      srcStart := a.srcStart.v, srcEnd := a.srcEnd.v, dstLabel := a.dstLabel,
                      dstId := a.dstRackId, dstType := a.dstRackType, dstStart := a.dstStart.v,
                      dstEnd := a.dstEnd.v, vol := a.vol, liquidClass := a.liquidClass,
                      ditiReuse := a.ditiReuse, multiDisp := md, direction := dir,
                      excluded := dedupInt sorted })]
where
  dedupInt (l : List Int) : List Int := l

/-- `BaseWorklist.distribute`. -/
def compileDistribute (cfg : Cfg) (S D : Labware) (a : DistArgs) : List Micro :=
  match S.geom.vrows with
  | none => [.fail .valueErr]
  | some _ =>
    if cfg.maxVolume < a.vol.q then [.fail .invalidOp]
    else
      let nRows : Int := S.geom.nRowIds
      let srcStart : Int := 1 + nRows * a.srcCol
      let srcEnd : Int := srcStart + nRows - 1
      let dws := a.dstWells.flattenF
      exceptMicros (dws.mapM fun w => cfg.dev.pos D.geom w) fun ps =>
        -- a destination well listed more than once is refused (the record dispenses once per well)
        if ¬ dws.Nodup then [.fail .valueErr] else
        let sorted := ps.mergeSort (· ≤ ·)
        match sorted.head?, sorted.getLast? with
        | some dstStart, some dstEnd =>
          let excluded : List Int :=
            ((List.range (dstEnd + 1 - dstStart)).map (· + dstStart)).filter (fun p => !sorted.contains p)
              |>.map Int.ofNat
          let n := sorted.length
          -- numpy indexing `source.wells[0, source_column]` (negative indices wrap)
          let colIdx : Option Nat :=
            if 0 ≤ a.srcCol ∧ a.srcCol < S.geom.cols then some a.srcCol.toNat
            else if a.srcCol < 0 ∧ -(S.geom.cols : Int) ≤ a.srcCol then some (a.srcCol + S.geom.cols).toNat
            else none
          match colIdx with
          | none => [.fail .reject]
          | some c =>
            let label : Option String := some a.label
            compileRemove S a.src (.scalar (wellId 0 c)) (.scalar (a.vol.q * n)) label
            ++ exceptMicros (match S.geom.resolveFlat (wellId 0 c) with
                              | some i => Except.ok i | none => Except.error Err.reject)
                 (fun i => [Micro.loadComp a.src i])
            ++ compileAdd D a.dst (.vec dws) (.scalar a.vol.q) label none true
            ++ commentMicros label
            ++ compileRD cfg { srcLabel := S.name, srcStart := ⟨srcStart, false⟩,
                               srcEnd := ⟨srcEnd, false⟩, dstLabel := D.name,
                               dstStart := ⟨dstStart, false⟩, dstEnd := ⟨dstEnd, false⟩,
                               vol := a.vol, ditiReuse := a.ditiReuse, multiDisp := a.multiDisp,
                               exclude := excluded, liquidClass := a.liquidClass,
                               direction := a.direction, srcRackId := a.srcRackId,
                               srcRackType := a.srcRackType, dstRackId := a.dstRackId,
                               dstRackType := a.dstRackType }
        | _, _ => [.fail .reject]

def compileEvoAD (cfg : Cfg) (L : Labware) (l : Nat) (isAsp : Bool) (a : EvoADArgs)
    (label : Option String) (comps : Option (List (Option Comp))) : List Micro :=
  if cfg.dev ≠ .evo then [.fail .reject]
  else
    let vols : Arr Rat := a.volume.toArr
    (if isAsp then compileRemove L l a.wells vols label else compileAdd L l a.wells vols label comps)
    ++ commentMicros label
    ++ exceptMicros (evoAD isAsp a L.geom.nRowIds L.geom.cols cfg.maxVolume) fun f =>
         [.emit (.evo (String.ofList f.render))]

/-- Compile an operation against the current (static parts of the) labware. -/
def compile (w : World) (op : Op) : List Micro :=
  let cfg := w.cfg
  let lab (l : Nat) (f : Labware → List Micro) : List Micro :=
    match w.labs[l]? with
    | some L => f L
    | none => [.fail .reject]
  match op with
  | .add l wells vols label comps => lab l fun L => compileAdd L l wells vols label comps
  | .remove l wells vols label => lab l fun L => compileRemove L l wells vols label
  | .condenseLog l n label => [.condense l n label]
  | .aspirate l wells vols label kw => lab l fun L => compileAspirate cfg L l wells vols label kw
  | .dispense l wells vols label comps kw =>
    lab l fun L => compileDispense cfg L l wells vols label comps kw
  | .transfer s sw d dw vols label wash pb kw =>
    lab s fun S => lab d fun D => compileTransfer cfg S s sw D d dw vols label wash pb kw
  | .distribute a => lab a.src fun S => lab a.dst fun D => compileDistribute cfg S D a
  | .comment s => commentMicros s
  | .wash n => washMicros cfg n
  | .decontaminate => if cfg.ditiMode then [.fail .invalidOp] else [.emit .decon]
  | .flush => [.emit .flush]
  | .commit => [.emit .brk]
  | .setDiti i => [.setDiti i]
  | .aspirateWell a => exceptMicros (prepareAD a (some cfg.maxVolume)) fun f => [.emit (.asp f)]
  | .dispenseWell a => exceptMicros (prepareAD a (some cfg.maxVolume)) fun f => [.emit (.disp f)]
  | .reagentDistribution a => compileRD cfg a
  | .evoAspirate l a label => lab l fun L => compileEvoAD cfg L l true a label none
  | .evoDispense l a label comps => lab l fun L => compileEvoAD cfg L l false a label comps
  | .evoWash a =>
    if cfg.dev ≠ .evo then [.fail .reject]
    else exceptMicros (evoWash a) fun f => [.emit (.evo (String.ofList f.render))]

/-- One public operation: the successor state (also when it raises) and the error class. -/
def World.step (w : World) (op : Op) : World × Option Err := w.exec (compile w op)

/-- Run a program; stops after the first failing operation. -/
def World.run (w : World) : List Op → World × Option Err
  | [] => (w, none)
  | op :: ops =>
    match w.step op with
    | (w', none) => w'.run ops
    | (w', some e) => (w', some e)

end Robotools
