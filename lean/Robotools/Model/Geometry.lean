/-
  Robotools.Model.Geometry — well IDs, index tables, device-specific position numbering.
  Mirrors `Labware.__init__` (ID/indices/positions tables), `transform.make_well_*`,
  `evotools.utils.get_well_position`, `fluenttools.utils.get_well_position`.
-/
import Robotools.Model.Basic
namespace Robotools

def rowLetters : List Char := "ABCDEFGHIJKLMNOPQRSTUVWXYZ".toList

/-- `f"{row}{column:02d}"` for 0-based row `r` (< 26) and 0-based column `c`. -/
def wellIdChars (r c : Nat) : List Char := rowLetters.getD r '?' :: pad2 (c + 1)

def wellId (r c : Nat) : String := String.ofList (wellIdChars r c)

/-- Geometry of a labware: number of real rows of the volume array, columns, virtual rows. -/
structure Geom where
  rows : Nat
  cols : Nat
  vrows : Option Nat
  deriving DecidableEq, Repr, Inhabited

def Geom.isTrough (g : Geom) : Bool := g.vrows.isSome

/-- Number of row letters in use: `"ABC…Z"[: rows if not virtual_rows else virtual_rows]`. -/
def Geom.nRowIds (g : Geom) : Nat := min 26 (match g.vrows with | some v => v | none => g.rows)

/-- Row stride used by the EVO numbering (`virtual_rows` for troughs, `n_rows` otherwise). -/
def Geom.stride (g : Geom) : Nat := match g.vrows with | some v => v | none => g.nRowIds

/-- Number of real wells. -/
def Geom.size (g : Geom) : Nat := g.rows * g.cols

/-- The `indices` dict as an association list, in construction order. -/
def Geom.table (g : Geom) : List (String × (Nat × Nat)) :=
  (List.range g.nRowIds).flatMap fun r =>
    (List.range g.cols).map fun c => (wellId r c, (if g.isTrough then 0 else r, c))

/-- `labware.indices[well]`. -/
def Geom.resolve (g : Geom) (s : String) : Option (Nat × Nat) := g.table.lookup s

/-- Flat (row-major) index of a real well. -/
def Geom.flat (g : Geom) (rc : Nat × Nat) : Nat := rc.1 * g.cols + rc.2

def Geom.resolveFlat (g : Geom) (s : String) : Option Nat := (g.resolve s).map g.flat

/-- The `wells` array (row-major list of IDs, `nRowIds × cols`). -/
def Geom.wells (g : Geom) : List String :=
  (List.range g.nRowIds).flatMap fun r => (List.range g.cols).map fun c => wellId r c

/-- The deprecated `positions` dict. -/
def Geom.positions (g : Geom) : List (String × Nat) :=
  (List.range g.nRowIds).flatMap fun r =>
    (List.range g.cols).map fun c =>
      (wellId r c, 1 + c * (match g.vrows with | some v => v | none => g.rows) + r)

def isAsciiAlpha (c : Char) : Bool := (65 ≤ c.toNat && c.toNat ≤ 90) || (97 ≤ c.toNat && c.toNat ≤ 122)
def isAsciiDigit (c : Char) : Bool := 48 ≤ c.toNat && c.toNat ≤ 57

def digitsToNat (l : List Char) : Nat := l.foldl (fun acc c => acc * 10 + (c.toNat - 48)) 0

/-- `^([a-zA-Z]+?)(\d+?)$` on ASCII input: letters then digits. -/
def parseLoose (s : String) : Option (List Char × Nat) :=
  let cs := s.toList
  let letters := cs.takeWhile isAsciiAlpha
  let digits := cs.dropWhile isAsciiAlpha
  if letters.isEmpty || digits.isEmpty || !digits.all isAsciiDigit then none
  else some (letters, digitsToNat digits)

/-- Index of a one-letter row name among the row IDs in use. -/
def Geom.rowIndex (g : Geom) (row : List Char) : Option Nat :=
  match row with
  | [ch] => match rowLetters.idxOf? ch with
            | some r => if r < g.nRowIds then some r else none
            | none => none
  | _ => none

def Geom.colIndex (g : Geom) (col : Nat) : Option Nat :=
  if 1 ≤ col ∧ col ≤ g.cols then some (col - 1) else none

/-- `evotools.get_well_position`. -/
def Geom.evoPos (g : Geom) (s : String) : Option Nat := do
  let (row, col) ← parseLoose s
  let r ← g.rowIndex row
  let c ← g.colIndex col
  pure (1 + c * g.stride + r)

/-- `fluenttools.get_well_position`. -/
def Geom.fluentPos (g : Geom) (s : String) : Option Nat := do
  let (_, col) ← parseLoose s
  let c ← g.colIndex col
  if g.isTrough then pure (1 + c)
  else
    let r ← g.rowIndex (s.toList.take 1)
    pure (1 + c * g.nRowIds + r)

/-- Inverse numbering used by the independent replay: position → real (row, column). -/
def Geom.evoWellOf (g : Geom) (p : Nat) : Option (Nat × Nat) :=
  if p = 0 ∨ g.stride = 0 then none
  else
    let r := (p - 1) % g.stride
    let c := (p - 1) / g.stride
    if c < g.cols then some (if g.isTrough then 0 else r, c) else none

def Geom.fluentWellOf (g : Geom) (p : Nat) : Option (Nat × Nat) :=
  if g.isTrough then
    if 1 ≤ p ∧ p ≤ g.cols then some (0, p - 1) else none
  else g.evoWellOf p

inductive Device where
  | base | evo | fluent
  deriving DecidableEq, Repr, Inhabited

/-- `worklist._get_well_position(labware, well)`; `base` raises TypeError, bad IDs ValueError. -/
def Device.pos (d : Device) (g : Geom) (s : String) : Except Err Nat :=
  match d with
  | .base => .error .reject
  | .evo => match g.evoPos s with | some p => .ok p | none => .error .valueErr
  | .fluent => match g.fluentPos s with | some p => .ok p | none => .error .valueErr

def Device.wellOf (d : Device) (g : Geom) (p : Nat) : Option (Nat × Nat) :=
  match d with
  | .base => none
  | .evo => g.evoWellOf p
  | .fluent => g.fluentWellOf p

/-- `transform.make_well_array(R, C)` (row-major list) and `make_well_index_dict(R, C)`. -/
def makeWellArray (R C : Nat) : List String :=
  (List.range (min 26 R)).flatMap fun r => (List.range C).map fun c => wellId r c

def makeWellIndexDict (R C : Nat) : List (String × (Nat × Nat)) :=
  (List.range (min 26 R)).flatMap fun r => (List.range C).map fun c => (wellId r c, (r, c))

end Robotools
