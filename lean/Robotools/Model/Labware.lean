/-
  Robotools.Model.Labware — the digital twin of one labware: volumes, composition, history.
  Mirrors `robotools/liquidhandling/labware.py` and `composition.py`.
-/
import Robotools.Model.Geometry
namespace Robotools

/-- A liquid composition `{component: fraction}` as an insertion-ordered association list. -/
abbrev Comp := List (String × Rat)

structure Labware where
  name : String
  geom : Geom
  minV : Rat
  maxV : Rat
  vols : List Rat                       -- row-major, `geom.rows * geom.cols` entries
  comp : List (String × List Rat)       -- component ↦ fraction per real well (dict order)
  hist : List (Option String × List Rat)
  deriving Repr, Inhabited

namespace Labware

def vol (L : Labware) (i : Nat) : Rat := L.vols.getD i 0

def frac (L : Labware) (i : Nat) (k : String) : Rat :=
  match L.comp.lookup k with
  | some arr => arr.getD i 0
  | none => 0

/-- `get_well_composition`: components with a strictly positive fraction in this well. -/
def wellComp (L : Labware) (i : Nat) : Comp :=
  L.comp.filterMap fun (k, arr) => if 0 < arr.getD i 0 then some (k, arr.getD i 0) else none

/-- `d[k] += x`, creating the key with 0 first if absent. -/
def upsertAdd (c : Comp) (k : String) (x : Rat) : Comp :=
  match c with
  | [] => [(k, 0 + x)]
  | (k', y) :: rest => if k' = k then (k', y + x) :: rest else (k', y) :: upsertAdd rest k x

/-- `combine_composition(volume_A, composition_A, volume_B, composition_B)` (both given). -/
def combine (vA : Rat) (cA : Comp) (vB : Rat) (cB : Comp) : Comp :=
  if vA + vB = 0 then cA
  else
    let vf : Comp := cA.map fun (k, f) => (k, f * vA)
    let vf := cB.foldl (fun acc (k, f) => upsertAdd acc k (f * vB)) vf
    vf.map fun (k, x) => (k, x / (vA + vB))

/-- `self._composition[k][idx] = f`, creating a zero array for a new component. -/
def setFrac (comp : List (String × List Rat)) (n : Nat) (k : String) (i : Nat) (f : Rat) :
    List (String × List Rat) :=
  match comp with
  | [] => [(k, (List.replicate n (0 : Rat)).set i f)]
  | (k', arr) :: rest =>
    if k' = k then (k', arr.set i f) :: rest else (k', arr) :: setFrac rest n k i f

/-- One iteration of the loop in `Labware.add` for real well `i`. -/
def addStep (L : Labware) (i : Nat) (v : Rat) (c : Option Comp) : Except Err Labware :=
  let v0 := L.vol i
  if L.maxV < v0 + v then .error .overflow
  else
    let vols' := L.vols.set i (v0 + v)
    match c with
    | none => .ok { L with vols := vols' }
    | some cB =>
      let newc := combine v0 (L.wellComp i) v cB
      .ok { L with vols := vols',
                   comp := newc.foldl (fun acc (k, f) => setFrac acc L.vols.length k i f) L.comp }

/-- One iteration of the loop in `Labware.remove` for real well `i`. -/
def removeStep (L : Labware) (i : Nat) (v : Rat) : Except Err Labware :=
  let v0 := L.vol i
  if v0 - v < L.minV then .error .underflow
  else .ok { L with vols := L.vols.set i (v0 - v) }

/-- `Labware.log(label)`. -/
def log (L : Labware) (label : Option String) : Labware :=
  { L with hist := L.hist ++ [(label, L.vols)] }

/-- `Labware.condense_log(n, label)`; `label` "first"/"last" are keywords.
    `self._labels[len - n]` raises IndexError for `n = 0` and wraps around for `n > len`. -/
def condenseLog (L : Labware) (n : Nat) (label : Option String) : Except Err Labware :=
  let len := L.hist.length
  let firstIdx : Option Nat :=
    if n = 0 then none
    else if n ≤ len then some (len - n)
    else if n ≤ 2 * len then some (2 * len - n)
    else none
  let label1 : Except Err (Option String) :=
    if label = some "first" then
      match firstIdx with
      | some i => .ok ((L.hist.getD i (none, [])).1)
      | none => .error .reject
    else .ok label
  match label1 with
  | .error e => .error e
  | .ok label1 =>
    let label2 : Option String :=
      if label1 = some "last" then ((L.hist.getLast?.getD (none, [])).1) else label1
    let state := (L.hist.getLast?.getD (none, [])).2
    .ok { L with hist := L.hist.take (len - n) ++ [(label2, state)] }

end Labware

/-! ## Constructors (`Labware.__init__`, `Trough.__init__`) -/

/-- A size argument: a Python int or something else (float, str …). -/
inductive SizeArg where
  | int (n : Int)
  | other
  deriving Repr, DecidableEq, Inhabited

/-- Initial volume entries; `none` stands for NaN. -/
abbrev InitVal := Option Rat

structure PlateSpec where
  name : String
  rows : SizeArg
  cols : SizeArg
  minV : Rat
  maxV : Rat
  init : Option (Arr InitVal)                     -- `None` → 0
  vrows : Option SizeArg                          -- `virtual_rows`
  names : List (String × Option String)           -- `component_names` dict
  deriving Repr, Inhabited

structure TroughSpec where
  name : String
  vrows : SizeArg
  cols : SizeArg
  minV : Rat
  maxV : Rat
  init : Arr InitVal                              -- scalar (int/float) or list
  colNames : Option (Arr (Option String))         -- `None`, a single `str` (scalar) or a list
  deriving Repr, Inhabited

/-- `get_initial_composition`. `realWells`: row-major IDs of the real wells (`nrows × cols`). -/
def initialComposition (name : String) (nRealRows : Nat) (realWells : List String)
    (names : List (String × Option String)) (init : List Rat) :
    Except Err (List (String × List Rat)) := do
  -- illegal keys
  if names.any (fun (k, _) => !realWells.contains k) then throw .valueErr
  let isMulti := nRealRows > 1
  let n := realWells.length
  let rec go (ws : List String) (i : Nat) (acc : List (String × List Rat)) :
      Except Err (List (String × List Rat)) :=
    match ws with
    | [] => pure acc
    | w :: rest =>
      let given : Option String := (names.lookup w).join
      if init.getD i 0 = 0 then
        if given.isSome then throw .valueErr else go rest (i + 1) acc
      else
        let cname := match given with
          | some s => s
          | none => if isMulti then name ++ "." ++ w else name
        go rest (i + 1) (Labware.setFrac acc n cname i 1)
  go realWells 0 []

/-- `Labware.__init__`. -/
def Labware.mk? (s : PlateSpec) : Except Err Labware := do
  let rows ← match s.rows with | .int n => (if n < 1 then throw Err.valueErr else pure n.toNat) | .other => throw .valueErr
  let cols ← match s.cols with | .int n => (if n < 1 then throw Err.valueErr else pure n.toNat) | .other => throw .valueErr
  if s.minV < 0 then throw .valueErr
  if s.maxV ≤ s.minV then throw .valueErr
  let vrows : Option Nat ← match s.vrows with
    | none => pure none
    | some v =>
      if rows ≠ 1 then throw .valueErr
      match v with
      | .int n => if n < 1 ∨ 26 < n then throw Err.valueErr else pure (some n.toNat)
      | .other => throw .valueErr
  if 26 < rows then throw .valueErr
  let flat : List InitVal := match s.init with
    | none => List.replicate (rows * cols) (some 0)
    | some (.scalar a) => List.replicate (rows * cols) a
    | some a => a.flattenC
  if flat.length ≠ rows * cols then throw .valueErr
  -- `not all(initial_volumes >= 0)` (rejects NaN), `any(initial_volumes > max_volume)`
  if flat.any (fun x => match x with | none => true | some q => q < 0) then throw .valueErr
  let init : List Rat := flat.map (·.getD 0)
  if init.any (fun q => s.maxV < q) then throw .valueErr
  let g : Geom := { rows := rows, cols := cols, vrows := vrows }
  -- real wells: `wells[[0], :]` for troughs, all wells otherwise
  let realWells : List String :=
    if vrows.isSome then (List.range cols).map (wellId 0) else g.wells
  let comp ← initialComposition s.name rows realWells s.names init
  pure { name := s.name, geom := g, minV := s.minV, maxV := s.maxV, vols := init, comp := comp,
         hist := [(some "initial", init)] }

/-- `get_trough_component_names` + `Trough.__init__`. -/
def Trough.mk? (s : TroughSpec) : Except Err Labware := do
  let cols ← match s.cols with | .int n => (if n < 1 then throw Err.valueErr else pure n.toNat) | .other => throw .valueErr
  let colNames : List (Option String) := match s.colNames with
    | none => List.replicate cols none
    | some (.scalar a) => [a]
    | some a => a.flattenC
  let isMat := match s.colNames with | some (.mat _ _ _) => true | _ => false
  let init : List InitVal := match s.init with
    | .scalar a => List.replicate cols a
    | a => a.flattenC
  let initIsMat := match s.init with | .mat _ _ _ => true | _ => false
  if isMat = true ∨ colNames.length ≠ cols then throw .valueErr
  if initIsMat = true ∨ init.length ≠ cols then throw .valueErr
  -- empty columns must be unnamed (`ivol == 0`; NaN ≠ 0)
  if (colNames.zip init).any (fun (cn, iv) => cn.isSome && iv == some 0) then throw .valueErr
  let names : List (String × Option String) :=
    (List.range cols).map fun c =>
      let cn := colNames.getD c none
      let iv := init.getD c none
      let positive := match iv with | some q => 0 < q | none => false
      (wellId 0 c,
        if positive && cn.isNone then
          some (if cols > 1 then s.name ++ ".column_" ++ String.ofList (pad2 (c + 1)) else s.name)
        else cn)
  Labware.mk? { name := s.name, rows := .int 1, cols := .int cols, minV := s.minV, maxV := s.maxV,
                init := some (.vec init), vrows := some s.vrows, names := names }

end Robotools
