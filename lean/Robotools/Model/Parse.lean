/-
  Robotools.Model.Parse — an independent parser of the Tecan worklist records (C09).
  It knows nothing of how records are rendered: it splits a line at the semicolons and reads
  the fields by position, as a Tecan worklist reader does.  Numbers are read with
  `Nat.ofDigitChars` (core), not with the inverse of the renderer.
-/
import Robotools.Model.Records
namespace Robotools

/-- Decimal digits → natural number; `none` for the empty string or a non-digit. -/
def parseNat (cs : List Char) : Option Nat :=
  if cs ≠ [] ∧ cs.all Char.isDigit = true then some (Nat.ofDigitChars 10 cs 0) else none

/-- Optional minus sign followed by decimal digits. -/
def parseInt (cs : List Char) : Option Int :=
  match cs with
  | '-' :: rest => (parseNat rest).map fun n => -(n : Int)
  | _ => (parseNat cs).map Int.ofNat

/-- A volume field `<digits>.<two digits>` → number of hundredths. -/
def parseFmt2 (cs : List Char) : Option Nat :=
  match cs.splitOn '.' with
  | [ip, [d1, d2]] =>
    match parseNat ip, parseNat [d1, d2] with
    | some i, some f => some (i * 100 + f)
    | _, _ => none
  | _ => none

/-- A decoded aspirate / dispense record. -/
structure PAD where
  isAsp : Bool
  rackLabel : List Char
  rackId : List Char
  rackType : List Char
  position : Nat
  tubeId : List Char
  hundredths : Nat               -- the volume field, in hundredths
  liquidClass : List Char
  tip : Option Nat               -- empty tip-mask field = any tip
  forcedRackType : List Char
  deriving DecidableEq, Repr

/-- A decoded reagent-distribution record. -/
structure PRD where
  srcLabel : List Char
  srcId : List Char
  srcType : List Char
  srcStart : Int
  srcEnd : Int
  dstLabel : List Char
  dstId : List Char
  dstType : List Char
  dstStart : Int
  dstEnd : Int
  vol : List Char                -- the volume field as text (`str(volume)`)
  liquidClass : List Char
  ditiReuse : Int
  multiDisp : Int
  direction : Nat
  excluded : List Int
  deriving DecidableEq, Repr

inductive Parsed where
  | ad (p : PAD)
  | rd (p : PRD)
  | wash (scheme : Nat)
  | washDiti
  | decon
  | flush
  | brk
  | setDiti (i : Int)
  | comment (text : List Char)
  deriving DecidableEq, Repr

def parseAD (isAsp : Bool) (fs : List (List Char)) : Option Parsed :=
  match fs with
  | [rl, rid, rt, pos, tube, vol, lc, tt, tip, frt] =>
    if tt ≠ [] then none
    else
      match parseNat pos, parseFmt2 vol, (if tip = [] then some none else (parseNat tip).map some) with
      | some p, some h, some t =>
        some (.ad { isAsp := isAsp, rackLabel := rl, rackId := rid, rackType := rt, position := p,
                    tubeId := tube, hundredths := h, liquidClass := lc, tip := t,
                    forcedRackType := frt })
      | _, _, _ => none
  | _ => none

def parseRD (fs : List (List Char)) : Option Parsed :=
  match fs with
  | sl :: sid :: st :: ss :: se :: dl :: did :: dt :: ds :: de :: v :: lc :: dr :: md :: dir :: excl =>
    match parseInt ss, parseInt se, parseInt ds, parseInt de, parseInt dr, parseInt md, parseNat dir,
        excl.mapM parseInt with
    | some ss, some se, some ds, some de, some dr, some md, some dir, some ex =>
      some (.rd { srcLabel := sl, srcId := sid, srcType := st, srcStart := ss, srcEnd := se,
                  dstLabel := dl, dstId := did, dstType := dt, dstStart := ds, dstEnd := de,
                  vol := v, liquidClass := lc, ditiReuse := dr, multiDisp := md, direction := dir,
                  excluded := ex })
    | _, _, _, _, _, _, _, _ => none
  | _ => none

/-- Decode the semicolon-separated fields of one line. -/
def parseFields (fs : List (List Char)) : Option Parsed :=
  match fs with
  | ['A'] :: fs => parseAD true fs
  | ['D'] :: fs => parseAD false fs
  | ['R'] :: fs => parseRD fs
  | [['W'], []] => some .washDiti
  | [['W', 'D'], []] => some .decon
  | [['F'], []] => some .flush
  | [['B'], []] => some .brk
  | [['S'], i] => (parseInt i).map .setDiti
  | ['W' :: ds, []] => (parseNat ds).map .wash
  | _ => none

/-- Decode one worklist line (EVOware script commands `B;Aspirate(…` are decoded in C13).
    A comment line carries free text after `C;`. -/
def parseRec (cs : List Char) : Option Parsed :=
  if cs.take 2 = ['C', ';'] then some (.comment (cs.drop 2))
  else parseFields (cs.splitOn ';')

/-- What a record is expected to decode to: exactly its arguments, the volume in hundredths. -/
def Rec.toParsed : Rec → Option Parsed
  | .asp f => some (.ad {
      isAsp := true, rackLabel := f.rackLabel.toList, rackId := f.rackId.toList,
      rackType := f.rackType.toList, position := f.position, tubeId := f.tubeId.toList,
      hundredths := (round2 f.vol).toNat, liquidClass := f.liquidClass.toList, tip := f.tip,
      forcedRackType := f.forcedRackType.toList })
  | .disp f => some (.ad {
      isAsp := false, rackLabel := f.rackLabel.toList, rackId := f.rackId.toList,
      rackType := f.rackType.toList, position := f.position, tubeId := f.tubeId.toList,
      hundredths := (round2 f.vol).toNat, liquidClass := f.liquidClass.toList, tip := f.tip,
      forcedRackType := f.forcedRackType.toList })
  | .rd f => some (.rd {
      srcLabel := f.srcLabel.toList, srcId := f.srcId.toList, srcType := f.srcType.toList,
      srcStart := f.srcStart, srcEnd := f.srcEnd, dstLabel := f.dstLabel.toList, dstId := f.dstId.toList,
      dstType := f.dstType.toList, dstStart := f.dstStart, dstEnd := f.dstEnd, vol := f.vol.render,
      liquidClass := f.liquidClass.toList, ditiReuse := f.ditiReuse, multiDisp := f.multiDisp,
      direction := f.direction, excluded := f.excluded })
  | .wash n => some (.wash n)
  | .washDiti => some .washDiti
  | .decon => some .decon
  | .flush => some .flush
  | .brk => some .brk
  | .setDiti i => some (.setDiti i)
  | .comment s => some (.comment s.toList)
  | .evo _ => none

/-! ## Grammar conformance of a stored record (what validation establishes) -/

def ADFields.TextOK (f : ADFields) : Prop :=
  ';' ∉ f.rackLabel.toList ∧ ';' ∉ f.rackId.toList ∧ ';' ∉ f.rackType.toList ∧ ';' ∉ f.tubeId.toList
    ∧ ';' ∉ f.liquidClass.toList ∧ ';' ∉ f.forcedRackType.toList

def RFields.TextOK (f : RFields) : Prop :=
  ';' ∉ f.srcLabel.toList ∧ ';' ∉ f.srcId.toList ∧ ';' ∉ f.srcType.toList ∧ ';' ∉ f.dstLabel.toList
    ∧ ';' ∉ f.dstId.toList ∧ ';' ∉ f.dstType.toList ∧ ';' ∉ f.liquidClass.toList

/-- An `A;`/`D;` record the grammar admits: no separator in a text field, bounded label / ID / type
    lengths, a volume within the format's range. -/
def ADFields.WF (f : ADFields) : Prop :=
  f.TextOK ∧ f.rackLabel.length ≤ Spec.maxTextLen ∧ f.rackId.length ≤ Spec.maxTextLen
    ∧ f.rackType.length ≤ Spec.maxTextLen ∧ f.tubeId.length ≤ Spec.maxTextLen
    ∧ f.forcedRackType.length ≤ Spec.maxTextLen ∧ 0 ≤ f.vol ∧ f.vol ≤ (Spec.maxRecordVolume : Rat)

/-- An `R;` record the grammar admits. -/
def RFields.WF (f : RFields) : Prop :=
  f.TextOK ∧ f.srcLabel.length ≤ Spec.maxTextLen ∧ f.srcId.length ≤ Spec.maxTextLen
    ∧ f.srcType.length ≤ Spec.maxTextLen ∧ f.dstLabel.length ≤ Spec.maxTextLen
    ∧ f.dstId.length ≤ Spec.maxTextLen ∧ f.dstType.length ≤ Spec.maxTextLen
    ∧ 0 ≤ f.vol.q ∧ 0 ≤ f.srcStart ∧ 0 ≤ f.srcEnd ∧ 0 ≤ f.dstStart ∧ 0 ≤ f.dstEnd ∧ f.direction ≤ 1
    ∧ f.excluded.Pairwise (· ≤ ·) ∧ ∀ x ∈ f.excluded, f.dstStart ≤ x ∧ x ≤ f.dstEnd

def Rec.WF : Rec → Prop
  | .asp f => f.WF
  | .disp f => f.WF
  | .rd f => f.WF
  | .wash n => n ∈ Spec.washSchemes
  | .comment s => ';' ∉ s.toList ∧ '\n' ∉ s.toList ∧ s.toList ≠ []
  | _ => True

def Rec.isEvo : Rec → Bool
  | .evo _ => true
  | _ => false

end Robotools
