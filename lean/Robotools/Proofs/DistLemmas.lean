/-
  Robotools.Proofs.DistLemmas — `distribute` in the replay theorems (C01 volumes, C03 safety).

  `distribute` updates the tracking first (one removal of `n·v` from the source column, then one addition
  of `v` per destination well in ARGUMENT order), then emits one `R;` record.  The independent interpreter
  executes that record as a sequence of (take `v` from the source range, put `v` into the next
  non-excluded destination POSITION in ascending order).  Part 1: volume lists under repeated additions
  (order does not matter, partial sums stay below the final ones).
-/
import Robotools.Proofs.ReplayLemmas
import Robotools.Proofs.AmtLemmas
import Robotools.Proofs.PosInj
import Mathlib.Tactic.Ring
import Mathlib.Tactic.Linarith
import Mathlib.Data.List.Sort
namespace Robotools
namespace Dist
open RP

/-! ### Adding `v` at a list of indices -/

def addAt (vs : List Rat) (j : Nat) (v : Rat) : List Rat := vs.set j (vs.getD j 0 + v)

def addAll (vs : List Rat) (js : List Nat) (v : Rat) : List Rat := js.foldl (fun a j => addAt a j v) vs

@[simp] theorem length_addAt (vs : List Rat) (j : Nat) (v : Rat) : (addAt vs j v).length = vs.length := by
  simp [addAt]

@[simp] theorem length_addAll (vs : List Rat) (js : List Nat) (v : Rat) : (addAll vs js v).length = vs.length := by
  induction js generalizing vs with
  | nil => rfl
  | cons j js ih =>
    show (addAll (addAt vs j v) js v).length = vs.length
    rw [ih, length_addAt]

theorem getD_addAt (vs : List Rat) (j k : Nat) (v : Rat) (hj : j < vs.length) :
    (addAt vs j v).getD k 0 = vs.getD k 0 + (if k = j then v else 0) := by
  unfold addAt
  by_cases h : k = j
  · subst h; rw [getD_set_self _ _ _ _ hj]; simp
  · rw [getD_set_ne _ _ _ _ _ h]; simp [h]

theorem addAll_cons (vs : List Rat) (j : Nat) (js : List Nat) (v : Rat) :
    addAll vs (j :: js) v = addAll (addAt vs j v) js v := rfl

theorem getD_addAll (vs : List Rat) (js : List Nat) (k : Nat) (v : Rat) (hjs : ∀ j ∈ js, j < vs.length) :
    (addAll vs js v).getD k 0 = vs.getD k 0 + v * (js.count k : Rat) := by
  induction js generalizing vs with
  | nil => simp [addAll]
  | cons j js ih =>
    rw [addAll_cons, ih _ (by intro j' hj'; rw [length_addAt]; exact hjs j' (List.mem_cons_of_mem _ hj')),
      getD_addAt _ _ _ _ (hjs j List.mem_cons_self), List.count_cons]
    by_cases h : k = j
    · subst h; simp; ring
    · have : ¬ j = k := fun e => h e.symm
      simp [h, this]

/-- The order of the additions does not matter. -/
theorem addAll_perm (vs : List Rat) {js js' : List Nat} (hp : js.Perm js') (v : Rat)
    (hjs : ∀ j ∈ js, j < vs.length) : addAll vs js v = addAll vs js' v := by
  apply List.ext_getElem?
  intro k
  have hjs' : ∀ j ∈ js', j < vs.length := fun j hj => hjs j (hp.mem_iff.2 hj)
  by_cases hk : k < vs.length
  · have h1 := getD_addAll vs js k v hjs
    have h2 := getD_addAll vs js' k v hjs'
    rw [hp.count_eq] at h1
    have e : (addAll vs js v).getD k 0 = (addAll vs js' v).getD k 0 := by rw [h1, h2]
    rw [List.getD_eq_getElem?_getD, List.getD_eq_getElem?_getD] at e
    have l1 : k < (addAll vs js v).length := by simpa using hk
    have l2 : k < (addAll vs js' v).length := by simpa using hk
    rw [List.getElem?_eq_getElem l1, List.getElem?_eq_getElem l2] at e ⊢
    simpa using e
  · rw [List.getElem?_eq_none (by simpa using Nat.le_of_not_lt hk),
      List.getElem?_eq_none (by simpa using Nat.le_of_not_lt hk)]

/-- With a non-negative `v`, what a prefix of the additions has reached is below what all of them reach. -/
theorem getD_addAll_le (vs : List Rat) (js more : List Nat) (k : Nat) (v : Rat) (hv : 0 ≤ v)
    (hjs : ∀ j ∈ js ++ more, j < vs.length) :
    (addAll vs js v).getD k 0 ≤ (addAll vs (js ++ more) v).getD k 0 := by
  rw [getD_addAll vs js k v (fun j hj => hjs j (List.mem_append_left _ hj)),
    getD_addAll vs (js ++ more) k v hjs, List.count_append]
  have : (0 : Rat) ≤ v * (more.count k : Rat) := mul_nonneg hv (by exact_mod_cast Nat.zero_le _)
  push_cast
  linarith

/-! ### Checked sequential additions (what both the tracking and the replay do, in different orders) -/

def addChecked (maxV : Rat) (vs : List Rat) : List Nat → Rat → Option (List Rat)
  | [], _ => some vs
  | j :: js, v => if maxV < vs.getD j 0 + v then none else addChecked maxV (addAt vs j v) js v

theorem addChecked_some {maxV : Rat} {vs : List Rat} {js : List Nat} {v : Rat} {r : List Rat}
    (hv : 0 ≤ v) (hjs : ∀ j ∈ js, j < vs.length) (h : addChecked maxV vs js v = some r) :
    r = addAll vs js v ∧ ∀ j ∈ js, (addAll vs js v).getD j 0 ≤ maxV := by
  induction js generalizing vs with
  | nil => simp only [addChecked, Option.some.injEq] at h; exact ⟨h.symm, by simp⟩
  | cons j0 rest ih =>
    simp only [addChecked] at h
    split at h
    · cases h
    · rename_i hle
      have hj0 : j0 < vs.length := hjs j0 List.mem_cons_self
      have hrest : ∀ j ∈ rest, j < (addAt vs j0 v).length := by
        intro j hj; rw [length_addAt]; exact hjs j (List.mem_cons_of_mem _ hj)
      obtain ⟨hr, hb⟩ := ih hrest h
      refine ⟨by rw [hr, addAll_cons], ?_⟩
      intro j hj
      rw [addAll_cons]
      by_cases hjr : j ∈ rest
      · exact hb j hjr
      · have hjj : j = j0 := by
          rcases List.mem_cons.1 hj with e | e
          · exact e
          · exact absurd e hjr
        subst hjj
        rw [getD_addAll _ _ _ _ hrest, List.count_eq_zero_of_not_mem hjr, getD_addAt _ _ _ _ hj0]
        simp only [if_true, Nat.cast_zero, mul_zero, add_zero]
        exact not_lt.mp hle

theorem addChecked_of_bound {maxV : Rat} {vs : List Rat} {js : List Nat} {v : Rat} (hv : 0 ≤ v)
    (hjs : ∀ j ∈ js, j < vs.length) (hb : ∀ j ∈ js, (addAll vs js v).getD j 0 ≤ maxV) :
    addChecked maxV vs js v = some (addAll vs js v) := by
  induction js generalizing vs with
  | nil => rfl
  | cons j0 rest ih =>
    have hj0 : j0 < vs.length := hjs j0 List.mem_cons_self
    have hrest : ∀ j ∈ rest, j < (addAt vs j0 v).length := by
      intro j hj; rw [length_addAt]; exact hjs j (List.mem_cons_of_mem _ hj)
    simp only [addChecked]
    have hle : ¬ maxV < vs.getD j0 0 + v := by
      have h1 := getD_addAll_le (addAt vs j0 v) [] rest j0 v hv (by simpa using hrest)
      have h2 := hb j0 List.mem_cons_self
      rw [addAll_cons] at h2
      simp only [List.nil_append] at h1
      have h3 : (addAll (addAt vs j0 v) [] v).getD j0 0 = vs.getD j0 0 + v := by
        show (addAt vs j0 v).getD j0 0 = _
        rw [getD_addAt _ _ _ _ hj0]; simp
      rw [h3] at h1
      exact not_lt.mpr (le_trans h1 h2)
    rw [if_neg hle, addAll_cons]
    apply ih hrest
    intro j hj
    have := hb j (List.mem_cons_of_mem _ hj)
    rwa [addAll_cons] at this

/-- Additions accepted in one order are accepted in every order, with the same result. -/
theorem addChecked_perm {maxV : Rat} {vs : List Rat} {js js' : List Nat} {v : Rat} {r : List Rat}
    (hv : 0 ≤ v) (hjs : ∀ j ∈ js, j < vs.length) (hp : js.Perm js')
    (h : addChecked maxV vs js v = some r) : addChecked maxV vs js' v = some r := by
  obtain ⟨hr, hb⟩ := addChecked_some hv hjs h
  have hjs' : ∀ j ∈ js', j < vs.length := fun j hj => hjs j (hp.mem_iff.2 hj)
  have he := addAll_perm vs hp v hjs
  rw [hr, he]
  apply addChecked_of_bound hv hjs'
  intro j hj
  rw [← he]
  exact hb j (hp.mem_iff.2 hj)

/-! ### The replay labware under `take` / `put` (volumes only) -/

def rvols (R : RLab) : List Rat := R.wells.map (·.vol)

@[simp] theorem length_rvols (R : RLab) : (rvols R).length = R.wells.length := by simp [rvols]

/-- Static data of a replay labware (everything but the wells' contents). -/
structure SameStatic (R R' : RLab) : Prop where
  name : R'.name = R.name
  geom : R'.geom = R.geom
  minV : R'.minV = R.minV
  maxV : R'.maxV = R.maxV
  len : R'.wells.length = R.wells.length

theorem SameStatic.refl (R : RLab) : SameStatic R R := ⟨rfl, rfl, rfl, rfl, rfl⟩

theorem SameStatic.trans {A B C : RLab} (h1 : SameStatic A B) (h2 : SameStatic B C) : SameStatic A C :=
  ⟨by rw [h2.name, h1.name], by rw [h2.geom, h1.geom], by rw [h2.minV, h1.minV], by rw [h2.maxV, h1.maxV],
   by rw [h2.len, h1.len]⟩

theorem wellAt_static {R R' : RLab} (h : SameStatic R R') (dev : Device) (p : Nat) :
    R'.wellAt dev p = R.wellAt dev p := by
  unfold RLab.wellAt
  rw [h.geom, h.len]

theorem rvols_getD (R : RLab) (i : Nat) (hi : i < R.wells.length) :
    (rvols R).getD i 0 = (R.wells[i]).vol := by
  simp [rvols, List.getD_eq_getElem?_getD, hi]

theorem take_vols {R : RLab} {i : Nat} {v : Rat} (hi : i < R.wells.length)
    (hge : ¬ ((rvols R).getD i 0 - v < R.minV)) :
    ∃ R' out, R.take i v = some (R', out) ∧ SameStatic R R'
      ∧ rvols R' = (rvols R).set i ((rvols R).getD i 0 - v) := by
  have hw : R.wells[i]? = some R.wells[i] := List.getElem?_eq_getElem hi
  rw [rvols_getD R i hi] at hge ⊢
  unfold RLab.take
  rw [hw]
  simp only
  rw [if_neg hge]
  refine ⟨_, _, rfl, ⟨rfl, rfl, rfl, rfl, by simp⟩, ?_⟩
  simp only [rvols, List.map_set]

theorem put_vols {R : RLab} {j : Nat} {v : Rat} (a : Amounts) (hj : j < R.wells.length)
    (hle : ¬ (R.maxV < (rvols R).getD j 0 + v)) :
    ∃ R', R.put j v a = some R' ∧ SameStatic R R' ∧ rvols R' = addAt (rvols R) j v := by
  have hw : R.wells[j]? = some R.wells[j] := List.getElem?_eq_getElem hj
  rw [rvols_getD R j hj] at hle
  unfold RLab.put
  rw [hw]
  simp only
  rw [if_neg hle]
  refine ⟨_, rfl, ⟨rfl, rfl, rfl, rfl, by simp⟩, ?_⟩
  simp only [rvols, List.map_set, addAt]
  congr 1
  simp [List.getD_eq_getElem?_getD, hj]

/-! ### The loop of the `R;` record: one take and one put per destination position -/

theorem set_of_getElem? {α} {l : List α} {i : Nat} {a : α} (h : l[i]? = some a) : l.set i a = l := by
  obtain ⟨hlt, he⟩ := List.getElem?_eq_some_iff.1 h
  subst he
  exact List.set_getElem_self hlt

/-- The interpreter's loop, started in a state whose source labware `Rs` (index `sl`) can give `v` once per
    remaining destination and whose destination labware `Rd` (index `dl ≠ sl`) accepts the additions in this
    order: it ends with the source well lowered by `v` per destination and the destination volumes raised
    as `addAll` says. -/
theorem go_spec (dev : Device) (f : RFields) (sl dl nsrc i : Nat) (hne : sl ≠ dl) (g : Nat → Nat)
    (hv : 0 ≤ f.vol.q) :
    ∀ (ds : List Nat) (k : Nat) (st : RState) (Rs Rd : RLab) (r : List Rat),
      st.labs[sl]? = some Rs → st.labs[dl]? = some Rd →
      (∀ k', Rs.wellAt dev (f.srcStart.toNat + k' % nsrc) = some i) →
      (∀ d ∈ ds, Rd.wellAt dev d = some (g d)) →
      i < Rs.wells.length → (∀ d ∈ ds, g d < Rd.wells.length) →
      ¬ ((rvols Rs).getD i 0 - f.vol.q * ds.length < Rs.minV) →
      addChecked Rd.maxV (rvols Rd) (ds.map g) f.vol.q = some r →
      ∃ st' Rs' Rd', RState.interp.go dev f sl dl nsrc st ds k = some st'
        ∧ st'.labs = (st.labs.set sl Rs').set dl Rd' ∧ SameStatic Rs Rs' ∧ SameStatic Rd Rd'
        ∧ rvols Rs' = (rvols Rs).set i ((rvols Rs).getD i 0 - f.vol.q * ds.length)
        ∧ rvols Rd' = r := by
  intro ds
  induction ds with
  | nil =>
    intro k st Rs Rd r hRs hRd _ _ hi _ _ hadd
    simp only [List.map_nil, addChecked, Option.some.injEq] at hadd
    subst hadd
    refine ⟨st, Rs, Rd, by simp [RState.interp.go], ?_, SameStatic.refl _, SameStatic.refl _, ?_, rfl⟩
    · rw [set_of_getElem? hRs, set_of_getElem? hRd]
    · simp only [List.length_nil, Nat.cast_zero, mul_zero, sub_zero]
      exact (set_getD_self _ _ _).symm
  | cons d rest ih =>
    intro k st Rs Rd r hRs hRd hsrc hdst hi hgd hge hadd
    have hvq := hv
    -- the source gives v
    have hge1 : ¬ ((rvols Rs).getD i 0 - f.vol.q < Rs.minV) := by
      intro hlt; apply hge
      have : (0 : Rat) ≤ f.vol.q * (rest.length : Rat) := mul_nonneg hv (by exact_mod_cast Nat.zero_le _)
      simp only [List.length_cons, Nat.cast_add, Nat.cast_one]
      linarith
    obtain ⟨Rs1, out, htake, hss1, hvs1⟩ := take_vols hi hge1
    -- the destination accepts v at g d
    simp only [List.map_cons, addChecked] at hadd
    split at hadd
    · cases hadd
    · rename_i hle
      have hjd : g d < Rd.wells.length := hgd d List.mem_cons_self
      obtain ⟨Rd1, hput, hsd1, hvd1⟩ := put_vols out hjd hle
      -- one iteration
      have hsl : sl < st.labs.length := (List.getElem?_eq_some_iff.1 hRs).1
      have hdl : dl < st.labs.length := (List.getElem?_eq_some_iff.1 hRd).1
      have hRd' : (st.setLab sl Rs1).labs[dl]? = some Rd := by
        simp only [RState.setLab]; rw [List.getElem?_set_ne hne]; exact hRd
      have hone : st.rdOne dev sl (f.srcStart.toNat + k % nsrc) dl d f.vol.q
          = some ((st.setLab sl Rs1).setLab dl Rd1) := by
        simp only [RState.rdOne, hRs, hsrc k, htake, hRd', hdst d List.mem_cons_self, hput,
          Option.bind_eq_bind, Option.bind_some, Option.pure_def]
      let st1 := (st.setLab sl Rs1).setLab dl Rd1
      have hRs1 : st1.labs[sl]? = some Rs1 := by
        simp only [st1, RState.setLab]
        rw [List.getElem?_set_ne (fun e => hne e.symm), List.getElem?_set_self hsl]
      have hRd1 : st1.labs[dl]? = some Rd1 := by
        simp only [st1, RState.setLab]
        rw [List.getElem?_set_self (by rw [List.length_set]; exact hdl)]
      have hge' : ¬ ((rvols Rs1).getD i 0 - f.vol.q * (rest.length : Rat) < Rs1.minV) := by
        rw [hvs1, hss1.minV, getD_set_self _ _ _ _ (by simpa using hi)]
        intro hlt; apply hge
        simp only [List.length_cons, Nat.cast_add, Nat.cast_one]
        linarith
      have hadd' : addChecked Rd1.maxV (rvols Rd1) (rest.map g) f.vol.q = some r := by
        rw [hsd1.maxV, hvd1]; exact hadd
      obtain ⟨st', Rs', Rd', hgo, hlabs, hs2, hd2, hvs2, hvd2⟩ :=
        ih (k + 1) st1 Rs1 Rd1 r hRs1 hRd1
          (fun k' => by rw [wellAt_static hss1]; exact hsrc k')
          (fun d' hd' => by rw [wellAt_static hsd1]; exact hdst d' (List.mem_cons_of_mem _ hd'))
          (by rw [hss1.len]; exact hi)
          (fun d' hd' => by rw [hsd1.len]; exact hgd d' (List.mem_cons_of_mem _ hd'))
          hge' hadd'
      refine ⟨st', Rs', Rd', ?_, ?_, hss1.trans hs2, hsd1.trans hd2, ?_, hvd2⟩
      · rw [RState.interp.go]
        simp only [hone, Option.bind_eq_bind, Option.bind_some]
        exact hgo
      · rw [hlabs]
        simp only [st1, RState.setLab]
        rw [List.set_comm _ _ hne, List.set_set, List.set_comm _ _ (fun e => hne e.symm), List.set_set]
      · rw [hvs2, hvs1, getD_set_self _ _ _ _ (by simpa using hi), List.set_set]
        congr 1
        simp only [List.length_cons, Nat.cast_add, Nat.cast_one]
        ring

/-! ### The destination positions the interpreter visits are the sorted positions of the call -/

theorem filter_mem_eq_of_sorted (r l : List Nat) (hr : r.Pairwise (· < ·)) (hl : l.Pairwise (· < ·))
    (hsub : ∀ x ∈ l, x ∈ r) : r.filter (fun p => decide (p ∈ l)) = l := by
  apply List.Perm.eq_of_pairwise (le := fun a b => a ≤ b)
  · intro a b _ _ h1 h2; omega
  · exact (hr.imp (fun h => Nat.le_of_lt h)).filter _
  · exact hl.imp Nat.le_of_lt
  · have n1 : (r.filter (fun p => decide (p ∈ l))).Nodup := (hr.imp (fun h => Nat.ne_of_lt h)).filter _
    have n2 : l.Nodup := hl.imp (fun h => Nat.ne_of_lt h)
    rw [List.perm_ext_iff_of_nodup n1 n2]
    intro a
    simp only [List.mem_filter, decide_eq_true_eq]
    exact ⟨fun h => h.2, fun h => ⟨hsub a h, h⟩⟩

theorem head_le_of_pairwise {l : List Nat} {s x : Nat} (hp : l.Pairwise (· < ·)) (hs : l.head? = some s)
    (hx : x ∈ l) : s ≤ x := by
  cases l with
  | nil => cases hx
  | cons a rest =>
    simp only [List.head?_cons, Option.some.injEq] at hs
    subst hs
    rcases List.mem_cons.1 hx with h | h
    · omega
    · exact Nat.le_of_lt ((List.pairwise_cons.1 hp).1 x h)

theorem le_last_of_pairwise {l : List Nat} {e x : Nat} (hp : l.Pairwise (· < ·)) (he : l.getLast? = some e)
    (hx : x ∈ l) : x ≤ e := by
  induction l generalizing x with
  | nil => cases hx
  | cons a rest ih =>
    cases rest with
    | nil =>
      simp only [List.getLast?_singleton, Option.some.injEq] at he
      simp only [List.mem_singleton] at hx
      omega
    | cons b rest' =>
      have he' : (b :: rest').getLast? = some e := by simpa [List.getLast?_cons_cons] using he
      have hp' := (List.pairwise_cons.1 hp).2
      rcases List.mem_cons.1 hx with h | h
      · subst h
        have hb : x < b := (List.pairwise_cons.1 hp).1 b List.mem_cons_self
        have := ih hp' he' List.mem_cons_self
        omega
      · exact ih hp' he' h

theorem contains_perm {l l' : List Int} (h : l.Perm l') (x : Int) : l.contains x = l'.contains x := by
  by_cases hx : x ∈ l
  · have hx' : x ∈ l' := h.mem_iff.1 hx
    simp [hx, hx']
  · have hx' : x ∉ l' := fun h' => hx (h.mem_iff.2 h')
    simp [hx, hx']

theorem dsts_eq (sorted : List Nat) (s e : Nat) (hs : sorted.head? = some s)
    (he : sorted.getLast? = some e) (hp : sorted.Pairwise (· < ·)) :
    (((List.range (((e : Int) + 1 - (s : Int)).toNat)).map (· + (s : Int).toNat)).filter
      (fun (p : Nat) => !((((List.range (e + 1 - s)).map (· + s)).filter (fun (p : Nat) => !sorted.contains p)).map
        Int.ofNat |>.mergeSort (· ≤ ·)).contains (p : Int))) = sorted := by
  have hse : s ≤ e := by
    cases sorted with
    | nil => cases hs
    | cons a rest =>
      simp only [List.head?_cons, Option.some.injEq] at hs
      subst hs
      exact le_last_of_pairwise hp he List.mem_cons_self
  have h1 : ((e : Int) + 1 - (s : Int)).toNat = e + 1 - s := by omega
  have h2 : (s : Int).toNat = s := by simp
  rw [h1, h2]
  have hrng : ((List.range (e + 1 - s)).map (· + s)).Pairwise (· < ·) :=
    List.pairwise_lt_range.map _ (fun a b h => by omega)
  have hmem : ∀ x, x ∈ (List.range (e + 1 - s)).map (· + s) ↔ s ≤ x ∧ x ≤ e := by
    intro x
    simp only [List.mem_map, List.mem_range]
    constructor
    · rintro ⟨a, ha, rfl⟩; omega
    · intro h; exact ⟨x - s, by omega, by omega⟩
  conv_rhs => rw [← filter_mem_eq_of_sorted _ sorted hrng hp
    (fun x hx => (hmem x).2 ⟨head_le_of_pairwise hp hs hx, le_last_of_pairwise hp he hx⟩)]
  apply List.filter_congr
  intro p hp'
  rw [contains_perm (List.mergeSort_perm _ _) (p : Int)]
  have : (List.map Int.ofNat (List.filter (fun p => !sorted.contains p) ((List.range (e + 1 - s)).map (· + s)))).contains (p : Int)
      = (List.filter (fun p => !sorted.contains p) ((List.range (e + 1 - s)).map (· + s))).contains p := by
    by_cases hin : p ∈ List.filter (fun p => !sorted.contains p) ((List.range (e + 1 - s)).map (· + s))
    · have : (p : Int) ∈ List.map Int.ofNat (List.filter (fun p => !sorted.contains p) ((List.range (e + 1 - s)).map (· + s))) :=
        List.mem_map.2 ⟨p, hin, rfl⟩
      simp [hin, this]
    · have : (p : Int) ∉ List.map Int.ofNat (List.filter (fun p => !sorted.contains p) ((List.range (e + 1 - s)).map (· + s))) := by
        intro hm
        obtain ⟨q, hq, hqe⟩ := List.mem_map.1 hm
        have : q = p := by
          have h' : ((q : Nat) : Int) = (p : Int) := hqe
          exact_mod_cast h'
        subst this
        exact hin hq
      simp [hin, this]
  rw [this]
  by_cases hps : p ∈ sorted
  · simp [hps, List.mem_filter]
  · simp [hps, List.mem_filter, hp']

/-! ### The tracked side: the additions of `distribute`, run to completion -/

/-- Static data and volumes of a tracked labware after steps that touch volumes only on one labware. -/
structure SameStaticL (L L' : Labware) : Prop where
  name : L'.name = L.name
  geom : L'.geom = L.geom
  minV : L'.minV = L.minV
  maxV : L'.maxV = L.maxV

theorem SameStaticL.refl (L : Labware) : SameStaticL L L := ⟨rfl, rfl, rfl, rfl⟩

theorem SameStaticL.trans {A B C : Labware} (h1 : SameStaticL A B) (h2 : SameStaticL B C) :
    SameStaticL A C :=
  ⟨by rw [h2.name, h1.name], by rw [h2.geom, h1.geom], by rw [h2.minV, h1.minV], by rw [h2.maxV, h1.maxV]⟩

/-- A run of `ad dst j v carry` micro-operations that completes is a run of checked additions on the
    destination's volumes; nothing else changes, no record is emitted. -/
theorem exec_ads (dst : Nat) (v : Rat) :
    ∀ (js : List Nat) (w w1 : World) (D0 : Labware), w.labs[dst]? = some D0 →
      w.exec (js.map fun j => Micro.ad dst j v .carry) = (w1, none) →
      ∃ Dn, w1.labs = w.labs.set dst Dn ∧ addChecked D0.maxV D0.vols js v = some Dn.vols
        ∧ SameStaticL D0 Dn ∧ w1.recs = w.recs ∧ w1.cfg = w.cfg := by
  intro js
  induction js with
  | nil =>
    intro w w1 D0 hD h
    simp only [List.map_nil, World.exec_nil, Prod.mk.injEq, and_true] at h
    subst h
    exact ⟨D0, (set_of_getElem? hD).symm, rfl, SameStaticL.refl _, rfl, rfl⟩
  | cons j rest ih =>
    intro w w1 D0 hD h
    rw [List.map_cons] at h
    cases hm : w.micro (.ad dst j v .carry) with
    | error e => rw [World.exec_cons_error _ hm] at h; cases h
    | ok wa =>
      rw [World.exec_cons_ok _ hm] at h
      obtain ⟨L, L', co, hL, hstep, rfl⟩ := micro_ad_ok hm
      rw [hD] at hL; cases hL
      obtain ⟨hge, hvols, hmin, hmax, hname, hgeom, _⟩ := Labware.addStep_fields hstep
      have hD' : (w.setLab dst L').labs[dst]? = some L' := getElem?_setLab_self hD
      obtain ⟨Dn, hlabs, hadd, hss, hrecs, hcfg⟩ := ih (w.setLab dst L') w1 L' hD' h
      refine ⟨Dn, ?_, ?_, ⟨by rw [hss.name, hname], by rw [hss.geom, hgeom], by rw [hss.minV, hmin],
        by rw [hss.maxV, hmax]⟩, hrecs, hcfg⟩
      · rw [hlabs]; simp only [World.setLab, List.set_set]
      · simp only [addChecked]
        have : ¬ D0.maxV < D0.vols.getD j 0 + v := hge
        rw [if_neg this]
        rw [hmax, hvols] at hadd
        exact hadd

/-! ### Replaying the `R;` record of an accepted `distribute` -/

/-- Position → flat index of the real well it addresses (0 if the position is not on the labware). -/
def wellIdx (dev : Device) (g : Geom) (p : Nat) : Nat :=
  match dev.wellOf g p with
  | some rc => g.flat rc
  | none => 0

theorem mapM_pos_spec {dev : Device} {g : Geom} :
    ∀ {dws : List String} {ps : List Nat}, dws.mapM (dev.pos g) = .ok ps →
      List.Forall₂ (fun w p => dev.pos g w = .ok p) dws ps := by
  intro dws
  induction dws with
  | nil => intro ps h; simp only [List.mapM_nil, pure, Except.pure, Except.ok.injEq] at h; subst h; exact List.Forall₂.nil
  | cons w rest ih =>
    intro ps h
    simp only [List.mapM_cons, bind, Except.bind, pure, Except.pure] at h
    cases hw : dev.pos g w with
    | error e => simp [hw] at h
    | ok p =>
      simp only [hw] at h
      cases hr : rest.mapM (dev.pos g) with
      | error e => simp [hr] at h
      | ok ps' =>
        simp only [hr, Except.ok.injEq] at h
        subst h
        exact List.Forall₂.cons hw (ih hr)

/-- What the tracked additions addressed is what the positions address. -/
theorem js_eq_map_wellIdx {dev : Device} {g : Geom} {len : Nat} (hg : GeomOK g len) :
    ∀ {dws : List String} {ps js : List Nat}, List.Forall₂ (fun w p => dev.pos g w = .ok p) dws ps →
      dws.map g.resolveFlat = js.map some →
      js = ps.map (wellIdx dev g) ∧ (∀ p ∈ ps, ∃ rc, dev.wellOf g p = some rc ∧ g.flat rc < len) := by
  intro dws ps js h
  induction h generalizing js with
  | nil =>
    intro hj
    cases js with
    | nil => exact ⟨rfl, by simp⟩
    | cons _ _ => simp at hj
  | cons hwp _ ih =>
    intro hj
    cases js with
    | nil => simp at hj
    | cons j js' =>
      simp only [List.map_cons, List.cons.injEq] at hj
      obtain ⟨rc, hwo, hflat, hlt⟩ := wellOf_pos hg hwp hj.1
      obtain ⟨hrest, hall⟩ := ih hj.2
      refine ⟨?_, ?_⟩
      · simp only [List.map_cons, wellIdx, hwo, hflat, hrest]
      · intro p hp
        rcases List.mem_cons.1 hp with e | e
        · subst e; exact ⟨rc, hwo, by rw [hflat]; exact hlt⟩
        · exact hall p e

theorem findLab_idx {st : RState} {w : World} {I} (hM : Match st w) (hI : info w = I) (hwf : WFI I)
    {l : Nat} {L : Labware} (hL : w.labs[l]? = some L) {name : String} (hn : name = L.name) :
    ∃ R, st.labs[l]? = some R ∧ LabMatch R L ∧ st.findLab name = some (l, R) := by
  subst hn; exact findLab_of_match hM hI hwf hL

/-- The `R;` record of an accepted `distribute` replays: from a state that mirrors the tracking before the
    call, the interpreter's takes and puts are all accepted and end in the volumes the tracking ended in
    (source well lowered by `n·v`; destination volumes as the checked additions left them). -/
theorem interp_rd {dev : Device} {st : RState} {w : World} {I} (hM : Match st w) (hI : info w = I)
    (hwf : WFI I) {src dst : Nat} (hne : src ≠ dst) {S0 D0 : Labware} (hS : w.labs[src]? = some S0)
    (hD : w.labs[dst]? = some D0) (c i : Nat) (hi : i < S0.vols.length)
    (hsrcdev : ∀ m, m < S0.geom.nRowIds → ∃ rc, dev.wellOf S0.geom (1 + S0.geom.nRowIds * c + m) = some rc
      ∧ S0.geom.flat rc = i)
    (hrows : 0 < S0.geom.nRowIds)
    {dws : List String} {ps js : List Nat} (hps : dws.mapM (dev.pos D0.geom) = .ok ps)
    (hjs : dws.map D0.geom.resolveFlat = js.map some) (hnd : ps.Nodup)
    {s e : Nat} (hs : (ps.mergeSort (· ≤ ·)).head? = some s) (he : (ps.mergeSort (· ≤ ·)).getLast? = some e)
    (v : PyNum) (hv : 0 ≤ v.q) {S1 : Labware} (hrm : S0.removeStep i (v.q * (ps.length : Rat)) = .ok S1)
    {dvols : List Rat} (hadd : addChecked D0.maxV D0.vols js v.q = some dvols)
    (f : RFields) (hsl : f.srcLabel = S0.name) (hdl : f.dstLabel = D0.name)
    (hss : f.srcStart = 1 + (S0.geom.nRowIds : Int) * (c : Int))
    (hse : f.srcEnd = f.srcStart + (S0.geom.nRowIds : Int) - 1)
    (hds : f.dstStart = (s : Int)) (hde : f.dstEnd = (e : Int)) (hvol : f.vol = v)
    (hex : f.excluded = ((((List.range (e + 1 - s)).map (· + s)).filter
        (fun (p : Nat) => !(ps.mergeSort (· ≤ ·)).contains p)).map Int.ofNat).mergeSort (· ≤ ·)) :
    ∃ st' Rs' Rd', st.interp dev (.rd f) = some st' ∧ st'.labs = (st.labs.set src Rs').set dst Rd'
      ∧ LabMatch Rs' S1 ∧ SameStatic ⟨D0.name, D0.geom, D0.minV, D0.maxV, Rd'.wells⟩ Rd' ∧ rvols Rd' = dvols
      ∧ Rd'.wells.length = D0.vols.length := by
  obtain ⟨Rs, hRs, hRsL, hfS⟩ := findLab_idx hM hI hwf hS hsl
  obtain ⟨Rd, hRd, hRdL, hfD⟩ := findLab_idx hM hI hwf hD hdl
  have hgD : GeomOK D0.geom D0.vols.length := geomOK_of_mem hI hwf hD
  have hF := mapM_pos_spec hps
  obtain ⟨hjs', hall⟩ := js_eq_map_wellIdx hgD hF hjs
  -- sorted positions
  have hperm : (ps.mergeSort (· ≤ ·)).Perm ps := List.mergeSort_perm _ _
  have hsortedLE : (ps.mergeSort (· ≤ ·)).Pairwise (fun a b => decide (a ≤ b) = true) :=
    List.pairwise_mergeSort (fun a b c h1 h2 => by simp only [decide_eq_true_eq] at *; omega)
      (fun a b => by simp only [Bool.or_eq_true, decide_eq_true_eq]; omega) ps
  have hsortedND : (ps.mergeSort (· ≤ ·)).Nodup := hperm.nodup_iff.2 hnd
  have hsortedLT : (ps.mergeSort (· ≤ ·)).Pairwise (· < ·) := by
    have := hsortedLE.and hsortedND
    exact this.imp (fun h => by
      obtain ⟨h1, h2⟩ := h
      simp only [decide_eq_true_eq] at h1
      omega)
  have hdsts := dsts_eq _ s e hs he hsortedLT
  -- volumes
  have hlenS : Rs.wells.length = S0.vols.length := hRsL.length
  have hlenD : Rd.wells.length = D0.vols.length := hRdL.length
  obtain ⟨hgeS, hvolsS, hminS, hmaxS, hnameS, hgeomS, _, _⟩ := Labware.removeStep_fields hrm
  have hn : (ps.mergeSort (· ≤ ·)).length = ps.length := hperm.length_eq
  have haddS : addChecked Rd.maxV (rvols Rd) ((ps.mergeSort (· ≤ ·)).map (wellIdx dev D0.geom)) f.vol.q = some dvols := by
    rw [hvol, hRdL.maxV, show rvols Rd = D0.vols from hRdL.vols]
    apply addChecked_perm hv _ _ hadd
    · intro j hj
      rw [hjs'] at hj
      obtain ⟨p, hp, rfl⟩ := List.mem_map.1 hj
      obtain ⟨rc, hwo, hlt⟩ := hall p hp
      simp only [wellIdx, hwo]; exact hlt
    · rw [hjs']; exact (hperm.map _).symm
  have hsrcAt : ∀ k', Rs.wellAt dev (f.srcStart.toNat + k' % (f.srcEnd - f.srcStart + 1).toNat) = some i := by
    intro k'
    have hns : (f.srcEnd - f.srcStart + 1).toNat = S0.geom.nRowIds := by rw [hse]; omega
    have hst : f.srcStart.toNat = 1 + S0.geom.nRowIds * c := by rw [hss]; norm_cast
    rw [hns, hst]
    obtain ⟨rc, hwo, hfl⟩ := hsrcdev (k' % S0.geom.nRowIds) (Nat.mod_lt _ hrows)
    unfold RLab.wellAt
    rw [hRsL.geom, hwo]
    simp only [Option.bind_some, hfl]
    rw [if_pos (by rw [hlenS]; exact hi)]
  have hdstAt : ∀ d ∈ ps.mergeSort (· ≤ ·), Rd.wellAt dev d = some (wellIdx dev D0.geom d) := by
    intro d hd
    obtain ⟨rc, hwo, hlt⟩ := hall d (hperm.mem_iff.1 hd)
    unfold RLab.wellAt
    rw [hRdL.geom, hwo]
    simp only [Option.bind_some, wellIdx, hwo]
    rw [if_pos (by rw [hlenD]; exact hlt)]
  have hgdlt : ∀ d ∈ ps.mergeSort (· ≤ ·), wellIdx dev D0.geom d < Rd.wells.length := by
    intro d hd
    obtain ⟨rc, hwo, hlt⟩ := hall d (hperm.mem_iff.1 hd)
    simp only [wellIdx, hwo]; rw [hlenD]; exact hlt
  have hgeR : ¬ ((rvols Rs).getD i 0 - f.vol.q * ((ps.mergeSort (· ≤ ·)).length : Rat) < Rs.minV) := by
    rw [hvol, hn, hRsL.minV, show rvols Rs = S0.vols from hRsL.vols]
    exact hgeS
  obtain ⟨st', Rs', Rd', hgo, hlabs, hsS, hsD, hvS, hvD⟩ :=
    go_spec dev f src dst (f.srcEnd - f.srcStart + 1).toNat i hne (wellIdx dev D0.geom) (by rw [hvol]; exact hv)
      (ps.mergeSort (· ≤ ·)) 0 st Rs Rd dvols hRs hRd hsrcAt hdstAt (by rw [hlenS]; exact hi) hgdlt hgeR haddS
  refine ⟨st', Rs', Rd', ?_, hlabs, ?_, ?_, hvD, by rw [hsD.len, hlenD]⟩
  · have hcond : ¬ (f.srcStart < 1 ∨ f.srcEnd < f.srcStart ∨ f.dstStart < 0) := by
      rw [hse, hss, hds]
      have : (0 : Int) ≤ (S0.geom.nRowIds : Int) * (c : Int) := by positivity
      omega
    simp only [RState.interp, hfS, hfD, hcond, if_false, Option.bind_eq_bind, Option.bind_some, Option.pure_def]
    rw [hds, hde, hex, hdsts]
    exact hgo
  · refine ⟨by rw [hsS.name, hRsL.name, hnameS], by rw [hsS.geom, hRsL.geom, hgeomS],
      by rw [hsS.minV, hRsL.minV, hminS], by rw [hsS.maxV, hRsL.maxV, hmaxS], ?_⟩
    show rvols Rs' = S1.vols
    rw [hvS, hvolsS, show rvols Rs = S0.vols from hRsL.vols, hvol, hn]
    rfl
  · exact ⟨by rw [hsD.name, hRdL.name], by rw [hsD.geom, hRdL.geom], by rw [hsD.minV, hRdL.minV],
      by rw [hsD.maxV, hRdL.maxV], rfl⟩

/-! ### Executing the micro-operations of `distribute` -/

theorem exec_fail_mem (w : World) (ms : List Micro) (e : Err) (h : Micro.fail e ∈ ms) :
    (w.exec ms).2 ≠ none := by
  induction ms generalizing w with
  | nil => cases h
  | cons m rest ih =>
    cases hm : w.micro m with
    | error e' => rw [World.exec_cons_error _ hm]; simp
    | ok w' =>
      rw [World.exec_cons_ok _ hm]
      rcases List.mem_cons.1 h with h' | h'
      · subst h'; simp [World.micro] at hm
      · exact ih w' h'

/-- The additions of `distribute` (one per destination well ID, each `v` with the carried composition). -/
def adsOf (g : Geom) (dst : Nat) (v : Rat) (dws : List String) : List Micro :=
  dws.map fun w' => match g.resolveFlat w' with
    | some i => Micro.ad dst i v .carry
    | none => Micro.fail .reject

theorem adsOf_resolved (g : Geom) (dst : Nat) (v : Rat) :
    ∀ dws : List String, (∀ e, Micro.fail e ∉ adsOf g dst v dws) →
      ∃ js : List Nat, dws.map g.resolveFlat = js.map some ∧ adsOf g dst v dws = js.map fun j => Micro.ad dst j v .carry := by
  intro dws
  induction dws with
  | nil => intro _; exact ⟨[], rfl, rfl⟩
  | cons d rest ih =>
    intro h
    have hrest : ∀ e, Micro.fail e ∉ adsOf g dst v rest := by
      intro e he
      exact h e (by unfold adsOf at he ⊢; rw [List.map_cons]; exact List.mem_cons_of_mem _ he)
    obtain ⟨js, h1, h2⟩ := ih hrest
    cases hd : g.resolveFlat d with
    | none =>
      exfalso
      apply h .reject
      unfold adsOf
      rw [List.map_cons]
      simp [hd]
    | some j =>
      refine ⟨j :: js, by simp [hd, h1], ?_⟩
      unfold adsOf at h2 ⊢
      rw [List.map_cons, List.map_cons, h2]
      simp [hd]

theorem zip_replicate {α β γ} (l : List α) (b : β) (c : γ) :
    ((l.zip (List.replicate l.length b)).zip (List.replicate l.length c)) = l.map fun a => ((a, b), c) := by
  induction l with
  | nil => rfl
  | cons a rest ih => simp [List.replicate_succ, ih]

theorem compileAdd_carry (D : Labware) (dst : Nat) (dws : List String) (v : Rat) (label : Option String)
    (hv : ¬ v < 0) (hne : dws ≠ []) :
    compileAdd D dst (.vec dws) (.scalar v) label none true = adsOf D.geom dst v dws ++ [.log dst label] := by
  unfold compileAdd adsOf
  simp only [Arr.flattenF, broadcast1, List.length_replicate, ne_eq, not_true_eq_false, if_false, if_true]
  have hany : ¬ ((List.replicate dws.length v).any (· < 0)) = true := by
    simp [hv]
  rw [if_neg hany]
  simp only [zip_replicate, List.map_map]
  rfl

theorem compileRemove_scalar (S : Labware) (src : Nat) (wid : String) (x : Rat) (label : Option String)
    (hx : ¬ x < 0) :
    compileRemove S src (.scalar wid) (.scalar x) label
      = [match S.geom.resolveFlat wid with | some i => Micro.rm src i x | none => Micro.fail .reject,
         .log src label] := by
  unfold compileRemove
  simp [Arr.flattenF, broadcast1, hx]
  cases S.geom.resolveFlat wid <;> rfl

/-! ### `reagent_distribution`: one failing micro-operation, or exactly one `R;` record -/

/-- The `R;` record `reagent_distribution` emits for accepted arguments. -/
def rdFields (cfg : Cfg) (a : RDArgs) : RFields :=
  { srcLabel := a.srcLabel, srcId := a.srcRackId, srcType := a.srcRackType, srcStart := a.srcStart.v,
    srcEnd := a.srcEnd.v, dstLabel := a.dstLabel, dstId := a.dstRackId, dstType := a.dstRackType,
    dstStart := a.dstStart.v, dstEnd := a.dstEnd.v, vol := a.vol, liquidClass := a.liquidClass,
    ditiReuse := a.ditiReuse, multiDisp := adaptMultiDisp cfg.maxVolume a.vol.q a.multiDisp,
    direction := if a.direction = "left_to_right" then 0 else 1,
    excluded := a.exclude.mergeSort (· ≤ ·) }

theorem compileRD_cases (cfg : Cfg) (a : RDArgs) :
    (∃ e, compileRD cfg a = [.fail e]) ∨ compileRD cfg a = [.emit (.rd (rdFields cfg a))] := by
  unfold rdFields
  unfold compileRD
  simp only [exceptMicros]
  repeat' split
  all_goals first
    | exact Or.inl ⟨_, rfl⟩
    | exact Or.inr rfl

/-! ### Micro-operations that add nothing the replay interprets -/

def quiet (m : Micro) : Prop := Micro.noEmit m = true ∨ Micro.neutral m = true

theorem quiet_exec (w : World) (ms : List Micro) (h : ∀ m ∈ ms, quiet m) :
    ∃ nrecs, (∀ r ∈ nrecs, Rec.neutral r = true) ∧ (w.exec ms).1.recs = w.recs ++ nrecs := by
  induction ms generalizing w with
  | nil => exact ⟨[], by simp, by simp⟩
  | cons m rest ih =>
    cases hm : w.micro m with
    | error e => rw [World.exec_cons_error _ hm]; exact ⟨[], by simp, by simp⟩
    | ok w' =>
      rw [World.exec_cons_ok _ hm]
      obtain ⟨n2, hn2, hr2⟩ := ih w' (fun m' hm' => h m' (List.mem_cons_of_mem _ hm'))
      rcases h m List.mem_cons_self with hq | hq
      · exact ⟨n2, hn2, by rw [hr2, recs_micro_noEmit hq hm]⟩
      · obtain ⟨n1, hn1, hr1, _⟩ := neutral_micro hq hm
        refine ⟨n1 ++ n2, ?_, by rw [hr2, hr1, List.append_assoc]⟩
        intro r hr
        rcases List.mem_append.1 hr with h' | h'
        · exact hn1 r h'
        · exact hn2 r h'

/-! ### `distribute` as a safe block -/

theorem compileRemove_neg (S : Labware) (src : Nat) (wid : String) (x : Rat) (label : Option String)
    (hx : x < 0) : compileRemove S src (.scalar wid) (.scalar x) label = [.fail .reject] := by
  unfold compileRemove
  simp [Arr.flattenF, broadcast1, hx]

theorem compileAdd_neg (D : Labware) (dst : Nat) (dws : List String) (v : Rat) (label : Option String)
    (hv : v < 0) (hne : dws ≠ []) :
    compileAdd D dst (.vec dws) (.scalar v) label none true = [.fail .reject] := by
  unfold compileAdd
  simp only [Arr.flattenF, broadcast1, List.length_replicate, ne_eq, not_true_eq_false, if_false]
  have hany : ((List.replicate dws.length v).any (· < 0)) = true := by
    cases dws with
    | nil => exact absurd rfl hne
    | cons d rest => simp [List.replicate_succ, hv]
  rw [if_pos hany]

theorem compileRemove_quiet (S : Labware) (src : Nat) (wells : Arr String) (vols : Arr Rat)
    (label : Option String) : ∀ m ∈ compileRemove S src wells vols label, quiet m := by
  unfold compileRemove
  simp only
  split
  · intro m hm; simp only [List.mem_singleton] at hm; subst hm; exact Or.inl rfl
  · split
    · intro m hm; simp only [List.mem_singleton] at hm; subst hm; exact Or.inl rfl
    · intro m hm
      rcases List.mem_append.1 hm with h | h
      · obtain ⟨p, _, rfl⟩ := List.mem_map.1 h
        split <;> exact Or.inl rfl
      · simp only [List.mem_singleton] at h; subst h; exact Or.inl rfl

theorem compileAdd_quiet (D : Labware) (dst : Nat) (wells : Arr String) (vols : Arr Rat)
    (label : Option String) (comps : Option (List (Option Comp))) (carryAll : Bool) :
    ∀ m ∈ compileAdd D dst wells vols label comps carryAll, quiet m := by
  unfold compileAdd
  simp only
  split
  · intro m hm; simp only [List.mem_singleton] at hm; subst hm; exact Or.inl rfl
  · split
    · intro m hm; simp only [List.mem_singleton] at hm; subst hm; exact Or.inl rfl
    · split
      · intro m hm; simp only [List.mem_singleton] at hm; subst hm; exact Or.inl rfl
      · intro m hm
        rcases List.mem_append.1 hm with h | h
        · obtain ⟨p, _, rfl⟩ := List.mem_map.1 h
          split <;> exact Or.inl rfl
        · simp only [List.mem_singleton] at h; subst h; exact Or.inl rfl

/-- The source range of the `R;` record addresses the real well of the source column on this device. -/
def SrcOK (dev : Device) (g : Geom) : Prop :=
  ∀ c, c < g.cols → ∀ m, m < g.nRowIds →
    ∃ rc, dev.wellOf g (1 + g.nRowIds * c + m) = some rc ∧ g.flat rc = c

/-- Side conditions under which the `R;` record of `distribute` means what the tracking did: source and
    destination are different labware, the device numbers the source range the way the record is read
    (EVO; on a Fluent only troughs with one virtual row — known finding F3), a non-negative column index,
    and destination wells with pairwise distinct positions (the quantifier of C01): either because the device
    numbers the destination labware injectively (`PosInj`: every labware on an EVO, everything but a trough
    with several virtual rows on a Fluent — a well listed twice is refused by `distribute` itself since the
    repair of F13), or because the positions of this particular call are pairwise distinct. -/
structure DistOK (dev : Device) (S D : Labware) (a : DistArgs) : Prop where
  ne : a.src ≠ a.dst
  src : ∀ v, S.geom.vrows = some v → SrcOK dev S.geom   -- (a source that is no trough is refused)
  col : 0 ≤ a.srcCol
  nodup : PosInj dev D.geom ∨ ∀ ps, (a.dstWells.flattenF.mapM fun w => dev.pos D.geom w) = .ok ps → ps.Nodup

theorem resolve_trough_col {g : Geom} {vr : Nat} (hvr : g.vrows = some vr) {c i : Nat}
    (h : g.resolveFlat (wellId 0 c) = some i) : i = c ∧ c < g.cols := by
  unfold Geom.resolveFlat at h
  cases hres : g.resolve (wellId 0 c) with
  | none => rw [hres] at h; cases h
  | some rc =>
    rw [hres] at h
    simp only [Option.map_some, Option.some.injEq] at h
    obtain ⟨r', c', hr', hc', heq, hrc⟩ := resolve_some' hres
    have hr26 : r' < 26 := by
      have : g.nRowIds ≤ 26 := by unfold Geom.nRowIds; exact Nat.min_le_left _ _
      omega
    obtain ⟨_, hcc⟩ := wellId_injective (by omega) hr26 heq
    subst hcc
    simp only [Geom.isTrough, hvr, Option.isSome_some, if_true] at hrc
    rw [hrc] at h
    simp only [Geom.flat] at h
    exact ⟨by omega, hc'⟩

/-- The arguments `distribute` hands to `reagent_distribution`. -/
def distRD (S D : Labware) (a : DistArgs) (ps : List Nat) (s e : Nat) : RDArgs :=
  { srcLabel := S.name, srcStart := { v := 1 + (S.geom.nRowIds : Int) * a.srcCol },
    srcEnd := { v := 1 + (S.geom.nRowIds : Int) * a.srcCol + (S.geom.nRowIds : Int) - 1 },
    dstLabel := D.name, dstStart := { v := (s : Int) }, dstEnd := { v := (e : Int) }, vol := a.vol,
    ditiReuse := a.ditiReuse, multiDisp := a.multiDisp,
    exclude := List.map Int.ofNat
      (List.filter (fun p => !(ps.mergeSort (· ≤ ·)).contains p)
        (List.map (fun x => x + s) (List.range (e + 1 - s)))),
    liquidClass := a.liquidClass, direction := a.direction, srcRackId := a.srcRackId,
    srcRackType := a.srcRackType, dstRackId := a.dstRackId, dstRackType := a.dstRackType }

end Dist
end Robotools
