/-
  Robotools.Proofs.PosInj — well numbers are injective on the wells a labware has.

  `distribute` refuses a destination well that is listed twice (repair F13).  Whether pairwise different
  well IDs also have pairwise different POSITIONS depends on the device: always on an EVO (virtual rows of a
  trough are numbered separately), on a Fluent for every labware that is not a trough with several virtual
  rows (there all rows of a column share one number — known finding F14).
-/
import Robotools.Proofs.ReplayLemmas
namespace Robotools
namespace Dist
open RP

/-- Two wells of the labware with the same number are the same well ID. -/
def PosInj (dev : Device) (g : Geom) : Prop :=
  ∀ s s' p, (g.resolve s).isSome → (g.resolve s').isSome → dev.pos g s = .ok p → dev.pos g s' = .ok p → s = s'

private theorem lin_inj {S r c r' c' : Nat} (hr : r < S) (hr' : r' < S)
    (h : 1 + c * S + r = 1 + c' * S + r') : r = r' ∧ c = c' := by
  have hS : 0 < S := by omega
  have h1 : c * S + r = c' * S + r' := by omega
  have hm : (c * S + r) % S = (c' * S + r') % S := by rw [h1]
  have hd : (c * S + r) / S = (c' * S + r') / S := by rw [h1]
  rw [Nat.mul_comm c S, Nat.mul_comm c' S, Nat.mul_add_mod, Nat.mul_add_mod, Nat.mod_eq_of_lt hr,
    Nat.mod_eq_of_lt hr'] at hm
  rw [Nat.mul_comm c S, Nat.mul_comm c' S, Nat.mul_add_div hS, Nat.mul_add_div hS, Nat.div_eq_of_lt hr,
    Nat.div_eq_of_lt hr'] at hd
  exact ⟨hm, by omega⟩

private theorem resolve_isSome {g : Geom} {s : String} (h : (g.resolve s).isSome) :
    ∃ r c, r < g.nRowIds ∧ c < g.cols ∧ s = wellId r c := by
  cases hres : g.resolve s with
  | none => rw [hres] at h; cases h
  | some rc =>
    obtain ⟨r, c, hr, hc, heq, _⟩ := resolve_some' hres
    exact ⟨r, c, hr, hc, heq⟩

/-- EVO numbering is injective on every labware. -/
theorem posInj_evo (g : Geom) : PosInj .evo g := by
  intro s s' p hs hs' hp hp'
  obtain ⟨r, c, hr, hc, rfl⟩ := resolve_isSome hs
  obtain ⟨r', c', hr', hc', rfl⟩ := resolve_isSome hs'
  simp only [Device.pos, g.evoPos_wellId hr hc, g.evoPos_wellId hr' hc', Except.ok.injEq] at hp hp'
  have hle := nRowIds_le_stride g
  obtain ⟨h1, h2⟩ := lin_inj (S := g.stride) (by omega) (by omega) (hp.trans hp'.symm)
  rw [h1, h2]

/-- Fluent numbering is injective on everything that is not a trough. -/
theorem posInj_fluent_plate (g : Geom) (ht : g.isTrough = false) : PosInj .fluent g := by
  intro s s' p hs hs' hp hp'
  obtain ⟨r, c, hr, hc, rfl⟩ := resolve_isSome hs
  obtain ⟨r', c', hr', hc', rfl⟩ := resolve_isSome hs'
  simp only [Device.pos, g.fluentPos_wellId hr hc, g.fluentPos_wellId hr' hc', ht, Bool.false_eq_true,
    if_false, Except.ok.injEq] at hp hp'
  obtain ⟨h1, h2⟩ := lin_inj (S := g.nRowIds) hr hr' (hp.trans hp'.symm)
  rw [h1, h2]

/-- ... and on troughs with a single row ID. -/
theorem posInj_fluent_trough1 (g : Geom) (h1 : g.nRowIds = 1) : PosInj .fluent g := by
  intro s s' p hs hs' hp hp'
  obtain ⟨r, c, hr, hc, rfl⟩ := resolve_isSome hs
  obtain ⟨r', c', hr', hc', rfl⟩ := resolve_isSome hs'
  have hr0 : r = 0 := by omega
  have hr0' : r' = 0 := by omega
  subst hr0 hr0'
  cases ht : g.isTrough with
  | false => exact posInj_fluent_plate g ht _ _ p hs hs' hp hp'
  | true =>
    simp only [Device.pos, g.fluentPos_wellId hr hc, g.fluentPos_wellId hr' hc', ht, if_true,
      Except.ok.injEq] at hp hp'
    have : c = c' := by omega
    rw [this]

/-- F14 in one line: on a Fluent two virtual rows of one trough column share a number. -/
example : ¬ PosInj .fluent { rows := 1, cols := 2, vrows := some 4 } := by
  intro h
  have := h "A01" "B01" 1 (by decide) (by decide) (by decide) (by decide)
  exact absurd this (by decide)

/-- Positions of pairwise different wells of the labware are pairwise different. -/
theorem nodup_pos {dev : Device} {g : Geom} (hinj : PosInj dev g) :
    ∀ {dws : List String} {ps : List Nat}, List.Forall₂ (fun w p => dev.pos g w = .ok p) dws ps →
      (∀ w ∈ dws, (g.resolve w).isSome) → dws.Nodup → ps.Nodup := by
  intro dws ps h
  induction h with
  | nil => intro _ _; exact List.nodup_nil
  | @cons w p dws' ps' hwp hrest ih =>
    intro hres hnd
    rw [List.nodup_cons] at hnd ⊢
    refine ⟨?_, ih (fun x hx => hres x (List.mem_cons_of_mem _ hx)) hnd.2⟩
    intro hp
    -- some later well has the same number
    have : ∃ w' ∈ dws', dev.pos g w' = .ok p := by
      clear ih hnd hres
      induction hrest with
      | nil => cases hp
      | @cons w₂ p₂ _ _ h₂ _ ih₂ =>
        rcases List.mem_cons.1 hp with rfl | hp'
        · exact ⟨w₂, List.mem_cons_self, h₂⟩
        · obtain ⟨w', hw', hpw'⟩ := ih₂ hp'
          exact ⟨w', List.mem_cons_of_mem _ hw', hpw'⟩
    obtain ⟨w', hw', hpw'⟩ := this
    have := hinj w w' p (hres w List.mem_cons_self) (hres w' (List.mem_cons_of_mem _ hw')) hwp hpw'
    exact hnd.1 (this ▸ hw')

end Dist
end Robotools
