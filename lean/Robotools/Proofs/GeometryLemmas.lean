/-
  Helper lemmas for the geometry model: decimal digits round trip, row letters, well IDs,
  association-list lookup.
-/
import Robotools.Model.Geometry
namespace Robotools

/-! ## Decimal digits -/

theorem natDigits_eq (n : Nat) : natDigits n = Nat.toDigits 10 n := by
  simp [natDigits]

theorem digitsToNat_eq (l : List Char) : digitsToNat l = Nat.ofDigitChars 10 l 0 := by
  unfold digitsToNat Nat.ofDigitChars
  congr 1
  funext acc c
  rw [Nat.mul_comm]
  rfl

theorem digitsToNat_natDigits (n : Nat) : digitsToNat (natDigits n) = n := by
  rw [digitsToNat_eq, natDigits_eq]
  exact Nat.ofDigitChars_ten_toDigits

theorem natDigits_inj {m n : Nat} (h : natDigits m = natDigits n) : m = n := by
  rw [← digitsToNat_natDigits m, ← digitsToNat_natDigits n, h]

theorem isAsciiDigit_of_isDigit {c : Char} (h : c.isDigit = true) : isAsciiDigit c = true := by
  simp only [Char.isDigit, Bool.and_eq_true, decide_eq_true_eq] at h
  simp only [isAsciiDigit, Bool.and_eq_true, decide_eq_true_eq]
  exact h

theorem natDigits_all_digit (n : Nat) : (natDigits n).all isAsciiDigit = true := by
  rw [List.all_eq_true]
  intro c hc
  rw [natDigits_eq] at hc
  exact isAsciiDigit_of_isDigit (Nat.isDigit_of_mem_toDigits (by decide) (by decide) hc)

theorem natDigits_ne_nil (n : Nat) : natDigits n ≠ [] := by
  rw [natDigits_eq]; exact Nat.toDigits_ne_nil

theorem digitsToNat_zero_cons (l : List Char) : digitsToNat ('0' :: l) = digitsToNat l := by
  simp [digitsToNat]

theorem digitsToNat_pad2 (n : Nat) : digitsToNat (pad2 n) = n := by
  unfold pad2
  split
  · rw [digitsToNat_zero_cons, digitsToNat_natDigits]
  · exact digitsToNat_natDigits n

theorem pad2_inj {m n : Nat} (h : pad2 m = pad2 n) : m = n := by
  rw [← digitsToNat_pad2 m, ← digitsToNat_pad2 n, h]

theorem pad2_all_digit (n : Nat) : (pad2 n).all isAsciiDigit = true := by
  unfold pad2
  split
  · rw [List.all_cons, natDigits_all_digit]; rfl
  · exact natDigits_all_digit n

theorem pad2_ne_nil (n : Nat) : pad2 n ≠ [] := by
  unfold pad2
  split
  · simp
  · exact natDigits_ne_nil n

theorem not_alpha_of_digit {c : Char} (h : isAsciiDigit c = true) : isAsciiAlpha c = false := by
  simp only [isAsciiDigit, Bool.and_eq_true, decide_eq_true_eq] at h
  simp only [isAsciiAlpha, Bool.or_eq_false_iff, Bool.and_eq_false_iff, decide_eq_false_iff_not]
  omega

theorem takeWhile_alpha_digits {l : List Char} (hne : l ≠ []) (h : l.all isAsciiDigit = true) :
    l.takeWhile isAsciiAlpha = [] ∧ l.dropWhile isAsciiAlpha = l := by
  cases l with
  | nil => exact absurd rfl hne
  | cons d t =>
    have hd : isAsciiDigit d = true := by
      rw [List.all_cons, Bool.and_eq_true] at h; exact h.1
    have := not_alpha_of_digit hd
    simp [this]

/-! ## Row letters -/

theorem rowLetters_eq : rowLetters =
    ['A','B','C','D','E','F','G','H','I','J','K','L','M','N','O','P','Q','R','S','T','U','V',
     'W','X','Y','Z'] := by rfl

theorem rowLetter_alpha : ∀ r, r < 26 → isAsciiAlpha (rowLetters.getD r '?') = true := by
  rw [rowLetters_eq]; decide

theorem rowLetter_idxOf : ∀ r, r < 26 →
    rowLetters.idxOf? (rowLetters.getD r '?') = some r := by
  rw [rowLetters_eq]; decide

theorem rowLetter_inj {r₁ r₂ : Nat} (h₁ : r₁ < 26) (h₂ : r₂ < 26)
    (h : rowLetters.getD r₁ '?' = rowLetters.getD r₂ '?') : r₁ = r₂ := by
  have a := rowLetter_idxOf r₁ h₁
  have b := rowLetter_idxOf r₂ h₂
  rw [h, b] at a
  exact (Option.some.inj a).symm

/-! ## Well IDs -/

theorem wellId_toList (r c : Nat) : (wellId r c).toList = rowLetters.getD r '?' :: pad2 (c + 1) := by
  simp [wellId, wellIdChars, String.toList_ofList]

theorem wellId_injective {r₁ c₁ r₂ c₂ : Nat} (h₁ : r₁ < 26) (h₂ : r₂ < 26)
    (h : wellId r₁ c₁ = wellId r₂ c₂) : r₁ = r₂ ∧ c₁ = c₂ := by
  have h' := String.ofList_injective h
  simp only [wellIdChars, List.cons.injEq] at h'
  refine ⟨rowLetter_inj h₁ h₂ h'.1, ?_⟩
  have := pad2_inj h'.2
  omega

theorem parseLoose_wellId' (r c : Nat) (h : r < 26) :
    parseLoose (wellId r c) = some ([rowLetters.getD r '?'], c + 1) := by
  have ha := rowLetter_alpha r h
  obtain ⟨ht, hd⟩ := takeWhile_alpha_digits (pad2_ne_nil (c + 1)) (pad2_all_digit (c + 1))
  have hne := pad2_ne_nil (c + 1)
  unfold parseLoose
  simp only [wellId_toList, List.takeWhile_cons, List.dropWhile_cons, ha, if_true, ht, hd,
    pad2_all_digit, digitsToNat_pad2]
  simp [hne]

/-! ## Association lists -/

theorem lookup_eq_some_of_unique {α β} [BEq α] [LawfulBEq α] {l : List (α × β)} {k : α} {b : β}
    (hmem : ∃ p ∈ l, p.1 = k) (huniq : ∀ p ∈ l, p.1 = k → p.2 = b) : l.lookup k = some b := by
  induction l with
  | nil => obtain ⟨p, hp, _⟩ := hmem; cases hp
  | cons q t ih =>
    obtain ⟨k', v⟩ := q
    rw [List.lookup_cons]
    by_cases hk : k = k'
    · subst hk
      have : v = b := huniq (k, v) (List.mem_cons_self) rfl
      simp [this]
    · have hb : (k == k') = false := by simpa using hk
      simp only [hb]
      apply ih
      · obtain ⟨p, hp, hpk⟩ := hmem
        rcases List.mem_cons.1 hp with rfl | hp
        · exact absurd hpk.symm hk
        · exact ⟨p, hp, hpk⟩
      · intro p hp; exact huniq p (List.mem_cons_of_mem _ hp)

theorem mem_of_lookup_eq_some {α β} [BEq α] [LawfulBEq α] {l : List (α × β)} {k : α} {b : β}
    (h : l.lookup k = some b) : (k, b) ∈ l := by
  obtain ⟨l₁, l₂, rfl, _⟩ := List.lookup_eq_some_iff.1 h
  simp

end Robotools

namespace Robotools

/-! ## Positions and index table for an arbitrary geometry -/

theorem Geom.nRowIds_le (g : Geom) : g.nRowIds ≤ 26 := by
  unfold Geom.nRowIds; exact Nat.min_le_left _ _

theorem Geom.rowIndex_letter (g : Geom) {r : Nat} (hr : r < g.nRowIds) :
    g.rowIndex [rowLetters.getD r '?'] = some r := by
  have h26 : r < 26 := Nat.lt_of_lt_of_le hr g.nRowIds_le
  simp [-List.getD_eq_getElem?_getD, Geom.rowIndex, rowLetter_idxOf r h26, hr]

theorem Geom.colIndex_succ (g : Geom) {c : Nat} (hc : c < g.cols) :
    g.colIndex (c + 1) = some c := by
  unfold Geom.colIndex
  rw [if_pos ⟨by omega, by omega⟩]
  simp

theorem Geom.evoPos_wellId (g : Geom) {r c : Nat} (hr : r < g.nRowIds) (hc : c < g.cols) :
    g.evoPos (wellId r c) = some (1 + c * g.stride + r) := by
  have h26 : r < 26 := Nat.lt_of_lt_of_le hr g.nRowIds_le
  simp [-List.getD_eq_getElem?_getD, Geom.evoPos, parseLoose_wellId' r c h26, g.rowIndex_letter hr, g.colIndex_succ hc]

theorem Geom.fluentPos_wellId (g : Geom) {r c : Nat} (hr : r < g.nRowIds) (hc : c < g.cols) :
    g.fluentPos (wellId r c) =
      some (if g.isTrough then 1 + c else 1 + c * g.nRowIds + r) := by
  have h26 : r < 26 := Nat.lt_of_lt_of_le hr g.nRowIds_le
  cases ht : g.isTrough <;>
  simp [-List.getD_eq_getElem?_getD, Geom.fluentPos, parseLoose_wellId' r c h26, g.colIndex_succ hc, ht, wellId_toList,
    g.rowIndex_letter hr]

theorem Geom.mem_table (g : Geom) (p : String × (Nat × Nat)) :
    p ∈ g.table ↔ ∃ r c, r < g.nRowIds ∧ c < g.cols ∧
      p = (wellId r c, (if g.isTrough then 0 else r, c)) := by
  simp only [Geom.table, List.mem_flatMap, List.mem_map, List.mem_range]
  constructor
  · rintro ⟨r, hr, c, hc, rfl⟩; exact ⟨r, c, hr, hc, rfl⟩
  · rintro ⟨r, c, hr, hc, rfl⟩; exact ⟨r, hr, c, hc, rfl⟩

theorem Geom.resolve_wellId (g : Geom) {r c : Nat} (hr : r < g.nRowIds) (hc : c < g.cols) :
    g.resolve (wellId r c) = some (if g.isTrough then 0 else r, c) := by
  unfold Geom.resolve
  apply lookup_eq_some_of_unique
  · exact ⟨_, (g.mem_table _).2 ⟨r, c, hr, hc, rfl⟩, rfl⟩
  · intro p hp hk
    obtain ⟨r', c', hr', hc', rfl⟩ := (g.mem_table p).1 hp
    have h26 : r < 26 := Nat.lt_of_lt_of_le hr g.nRowIds_le
    have h26' : r' < 26 := Nat.lt_of_lt_of_le hr' g.nRowIds_le
    obtain ⟨rfl, rfl⟩ := wellId_injective h26' h26 hk
    rfl

end Robotools
