/-
  Static structure of the compiled micro-operation lists (which micro-operations occur where),
  used by C11 (labware history).  Nothing here mentions the history itself.
-/
import Robotools.Model.World
import Robotools.Proofs.ExecLemmas
namespace Robotools

/-- `rm` / `ad` on labware `l`, or a `fail`. -/
def stepOn (l : Nat) : Micro → Bool
  | .rm l' _ _ => l' = l
  | .ad l' _ _ _ => l' = l
  | .fail _ => true
  | _ => false

/-- Micro-operations that never change `labs`. -/
def quiet : Micro → Bool
  | .emit _ => true
  | .fail _ => true
  | .setDiti _ => true
  | .loadComp _ _ => true
  | _ => false

def isFail : Micro → Bool
  | .fail _ => true
  | _ => false

/-- `[fail]`, or `rm`/`ad` steps on `l` followed by exactly one `log l label`. -/
def OneLog (l : Nat) (label : Option String) (ms : List Micro) : Prop :=
  ms = [.fail .reject] ∨ ∃ steps, (∀ m ∈ steps, stepOn l m = true) ∧ ms = steps ++ [.log l label]

theorem quiet_exceptMicros {α} (x : Except Err α) (f : α → List Micro)
    (hf : ∀ a, ∀ m ∈ f a, quiet m = true) : ∀ m ∈ exceptMicros x f, quiet m = true := by
  intro m hm
  cases x with
  | ok a => exact hf a m hm
  | error e =>
    simp only [exceptMicros, List.mem_singleton] at hm
    subst hm; rfl

theorem quiet_commentMicros (c : Option String) : ∀ m ∈ commentMicros c, quiet m = true := by
  unfold commentMicros
  apply quiet_exceptMicros
  intro rs m hm
  obtain ⟨r, _, rfl⟩ := List.mem_map.1 hm
  rfl

theorem quiet_emitAD (cfg : Cfg) (L : Labware) (isAsp : Bool) (ws : List String) (vs : List Rat)
    (kw : KW) : ∀ m ∈ emitAD cfg L isAsp ws vs kw, quiet m = true := by
  intro m hm
  unfold emitAD at hm
  rw [List.mem_flatMap] at hm
  obtain ⟨⟨w, v⟩, _, hm⟩ := hm
  simp only at hm
  split at hm
  · revert m
    apply quiet_exceptMicros
    intro p
    apply quiet_exceptMicros
    intro f m hm
    simp only [List.mem_singleton] at hm
    subst hm; rfl
  · cases hm

theorem quiet_washMicros (cfg : Cfg) (n : Int) : ∀ m ∈ washMicros cfg n, quiet m = true := by
  intro m hm
  unfold washMicros at hm
  split at hm
  · simp only [List.mem_singleton] at hm; subst hm; rfl
  · split at hm <;> (simp only [List.mem_singleton] at hm; subst hm; rfl)

theorem quiet_actionMicros (cfg : Cfg) (wash : WashArg) :
    ∀ m ∈ actionMicros cfg wash, quiet m = true := by
  intro m hm
  cases wash with
  | scheme n => exact quiet_washMicros cfg n m hm
  | flush => simp only [actionMicros, List.mem_singleton] at hm; subst hm; rfl
  | reuse => cases hm

theorem quiet_compileRD (cfg : Cfg) (a : RDArgs) : ∀ m ∈ compileRD cfg a, quiet m = true := by
  unfold compileRD
  simp only
  split
  · intro m hm; simp only [List.mem_singleton] at hm; subst hm; rfl
  · split
    · intro m hm; simp only [List.mem_singleton] at hm; subst hm; rfl
    · apply quiet_exceptMicros
      intro _
      apply quiet_exceptMicros
      intro _
      split <;> (intro m hm; simp only [List.mem_singleton] at hm; subst hm; rfl)

theorem compileRemove_oneLog (L : Labware) (l : Nat) (wells : Arr String) (vols : Arr Rat)
    (label : Option String) : OneLog l label (compileRemove L l wells vols label) := by
  unfold compileRemove OneLog
  simp only
  split
  · exact Or.inl rfl
  · split
    · exact Or.inl rfl
    · refine Or.inr ⟨_, ?_, rfl⟩
      intro m hm
      obtain ⟨⟨w, v⟩, _, rfl⟩ := List.mem_map.1 hm
      simp only
      split <;> simp [stepOn]

theorem compileAdd_oneLog (L : Labware) (l : Nat) (wells : Arr String) (vols : Arr Rat)
    (label : Option String) (comps : Option (List (Option Comp))) (carryAll : Bool) :
    OneLog l label (compileAdd L l wells vols label comps carryAll) := by
  unfold compileAdd OneLog
  simp only
  split
  · exact Or.inl rfl
  · split
    · exact Or.inl rfl
    · split
      · exact Or.inl rfl
      · refine Or.inr ⟨_, ?_, rfl⟩
        intro m hm
        obtain ⟨⟨⟨w, v⟩, c⟩, _, rfl⟩ := List.mem_map.1 hm
        simp only
        split <;> simp [stepOn]

/-- `aspirate` = one-log part followed by record emission. -/
theorem compileAspirate_shape (cfg : Cfg) (L : Labware) (l : Nat) (wells : Arr String)
    (vols : Arr Rat) (label : Option String) (kw : KW) :
    ∃ A Q, compileAspirate cfg L l wells vols label kw = A ++ Q ∧ OneLog l label A
      ∧ ∀ m ∈ Q, quiet m = true := by
  refine ⟨_, _, List.append_assoc _ _ _, compileRemove_oneLog _ _ _ _ _, ?_⟩
  intro m hm
  rcases List.mem_append.1 hm with h | h
  · exact quiet_commentMicros _ m h
  · exact quiet_emitAD _ _ _ _ _ _ m h

theorem compileDispense_shape (cfg : Cfg) (L : Labware) (l : Nat) (wells : Arr String)
    (vols : Arr Rat) (label : Option String) (comps : Option (List (Option Comp))) (kw : KW)
    (carryAll : Bool) :
    ∃ A Q, compileDispense cfg L l wells vols label comps kw carryAll = A ++ Q ∧ OneLog l label A
      ∧ ∀ m ∈ Q, quiet m = true := by
  refine ⟨_, _, List.append_assoc _ _ _, compileAdd_oneLog _ _ _ _ _ _ _, ?_⟩
  intro m hm
  rcases List.mem_append.1 hm with h | h
  · exact quiet_commentMicros _ m h
  · exact quiet_emitAD _ _ _ _ _ _ m h

/-- The micro-operations of one step of a transfer plan. -/
def transferBlock (cfg : Cfg) (S : Labware) (src : Nat) (D : Labware) (dst : Nat) (wash : WashArg)
    (kw : KW) : PlanStep → List Micro := fun st => match st with
  | .pair s d v =>
    compileAspirate cfg S src (.scalar s) (.scalar v) none kw
    ++ exceptMicros (match S.geom.resolveFlat s with
                      | some i => Except.ok i | none => Except.error Err.reject)
         (fun i => [Micro.loadComp src i])
    ++ compileDispense cfg D dst (.scalar d) (.scalar v) none none kw true
  | .action => actionMicros cfg wash
  | .brk => [.emit .brk]

theorem compileTransfer_shape (cfg : Cfg) (S : Labware) (src : Nat) (sw : Arr String) (D : Labware)
    (dst : Nat) (dw : Arr String) (vols : Arr Rat) (label : Option String) (wash : WashArg)
    (pb : String) (kw : KW) :
    (∃ e, compileTransfer cfg S src sw D dst dw vols label wash pb kw = [.fail e])
    ∨ ∃ (plan : List PlanStep) (extra : Nat),
        compileTransfer cfg S src sw D dst dw vols label wash pb kw
          = commentMicros label ++ plan.flatMap (transferBlock cfg S src D dst wash kw)
            ++ (if src = dst then [.condense src (2 * countPairs plan) (lvhLabel label extra)]
                else [.condense src (countPairs plan) (lvhLabel label extra),
                      .condense dst (countPairs plan) (lvhLabel label extra)]) := by
  unfold compileTransfer
  simp only
  split
  · exact Or.inl ⟨_, rfl⟩
  · split
    · exact Or.inl ⟨_, rfl⟩
    · split
      · exact Or.inl ⟨_, rfl⟩
      · split
        · exact Or.inl ⟨_, rfl⟩
        · exact Or.inr ⟨_, _, rfl⟩

/-- The shape of one pair block. -/
theorem transferBlock_pair_shape (cfg : Cfg) (S : Labware) (src : Nat) (D : Labware) (dst : Nat)
    (wash : WashArg) (kw : KW) (s d : String) (v : Rat) :
    ∃ A Q1 B Q2, transferBlock cfg S src D dst wash kw (.pair s d v) = A ++ Q1 ++ B ++ Q2
      ∧ OneLog src none A ∧ OneLog dst none B ∧ (∀ m ∈ Q1, quiet m = true)
      ∧ (∀ m ∈ Q2, quiet m = true) := by
  obtain ⟨A, Q1, hA, hA1, hQ1⟩ := compileAspirate_shape cfg S src (.scalar s) (.scalar v) none kw
  obtain ⟨B, Q2, hB, hB1, hQ2⟩ :=
    compileDispense_shape cfg D dst (.scalar d) (.scalar v) none none kw true
  refine ⟨A, Q1 ++ exceptMicros (match S.geom.resolveFlat s with
                      | some i => Except.ok i | none => Except.error Err.reject)
         (fun i => [Micro.loadComp src i]), B, Q2, ?_, hA1, hB1, ?_, hQ2⟩
  · show _ ++ _ ++ _ = _
    rw [hA, hB]
    simp only [List.append_assoc]
  · intro m hm
    rcases List.mem_append.1 hm with h | h
    · exact hQ1 m h
    · clear hm
      revert m
      apply quiet_exceptMicros
      intro i m hm
      simp only [List.mem_singleton] at hm
      subst hm; rfl

theorem transferBlock_other_quiet (cfg : Cfg) (S : Labware) (src : Nat) (D : Labware) (dst : Nat)
    (wash : WashArg) (kw : KW) (st : PlanStep) (hst : ∀ s d v, st ≠ .pair s d v) :
    ∀ m ∈ transferBlock cfg S src D dst wash kw st, quiet m = true := by
  cases st with
  | pair s d v => exact absurd rfl (hst s d v)
  | action => exact quiet_actionMicros cfg wash
  | brk => intro m hm; simp only [transferBlock, List.mem_singleton] at hm; subst hm; rfl

/-! ### Static tracking of "the newest history entry of `l` is up to date" -/

def cleanStep (l : Nat) (b : Bool) : Micro → Bool
  | .rm l' _ _ => if l' = l then false else b
  | .ad l' _ _ _ => if l' = l then false else b
  | .log l' _ => if l' = l then true else b
  | _ => b

def clean (l : Nat) (b : Bool) (ms : List Micro) : Bool := ms.foldl (cleanStep l) b

theorem clean_append (l : Nat) (b : Bool) (a c : List Micro) :
    clean l b (a ++ c) = clean l (clean l b a) c := List.foldl_append

theorem clean_cons (l : Nat) (b : Bool) (m : Micro) (ms : List Micro) :
    clean l b (m :: ms) = clean l (cleanStep l b m) ms := rfl

theorem clean_quiet (l : Nat) (b : Bool) (Q : List Micro) (hQ : ∀ m ∈ Q, quiet m = true) :
    clean l b Q = b := by
  induction Q generalizing b with
  | nil => rfl
  | cons m ms ih =>
    rw [clean_cons, ih _ (fun m' h' => hQ m' (List.mem_cons_of_mem _ h'))]
    have := hQ m List.mem_cons_self
    cases m <;> first | rfl | cases this

theorem clean_stepOn_ne (l l' : Nat) (b : Bool) (steps : List Micro) (hne : l' ≠ l)
    (hs : ∀ m ∈ steps, stepOn l' m = true) : clean l b steps = b := by
  induction steps generalizing b with
  | nil => rfl
  | cons m ms ih =>
    rw [clean_cons, ih _ (fun m' h' => hs m' (List.mem_cons_of_mem _ h'))]
    have := hs m List.mem_cons_self
    cases m <;> simp only [stepOn, decide_eq_true_eq] at this <;>
      first | (subst this; simp only [cleanStep, if_neg hne]) | rfl | cases this

theorem clean_oneLog (l l' : Nat) (label : Option String) (A : List Micro)
    (hA : OneLog l' label A) : clean l true A = true := by
  rcases hA with rfl | ⟨steps, hs, rfl⟩
  · rfl
  · rw [clean_append]
    by_cases hl : l' = l
    · subst hl
      simp only [clean, List.foldl_cons, List.foldl_nil, cleanStep, if_true]
    · rw [clean_stepOn_ne l l' true steps hl hs]
      simp only [clean, List.foldl_cons, List.foldl_nil, cleanStep, if_neg hl]

theorem clean_append_true (l : Nat) (a c : List Micro) (ha : clean l true a = true)
    (hc : clean l true c = true) : clean l true (a ++ c) = true := by
  rw [clean_append, ha, hc]

theorem clean_flatMap_true {α} (l : Nat) (f : α → List Micro) (xs : List α)
    (hf : ∀ x, clean l true (f x) = true) : clean l true (xs.flatMap f) = true := by
  induction xs with
  | nil => rfl
  | cons x xs ih => rw [List.flatMap_cons]; exact clean_append_true l _ _ (hf x) ih

theorem clean_transferBlock (l : Nat) (cfg : Cfg) (S : Labware) (src : Nat) (D : Labware)
    (dst : Nat) (wash : WashArg) (kw : KW) (st : PlanStep) :
    clean l true (transferBlock cfg S src D dst wash kw st) = true := by
  by_cases hst : ∃ s d v, st = .pair s d v
  · obtain ⟨s, d, v, rfl⟩ := hst
    obtain ⟨A, Q1, B, Q2, h, hA, hB, hQ1, hQ2⟩ :=
      transferBlock_pair_shape cfg S src D dst wash kw s d v
    rw [h]
    refine clean_append_true l _ _ (clean_append_true l _ _ (clean_append_true l _ _ ?_ ?_) ?_) ?_
    · exact clean_oneLog l src none A hA
    · exact clean_quiet l true Q1 hQ1
    · exact clean_oneLog l dst none B hB
    · exact clean_quiet l true Q2 hQ2
  · exact clean_quiet l true _ (transferBlock_other_quiet cfg S src D dst wash kw st
      (fun s d v h => hst ⟨s, d, v, h⟩))

end Robotools
