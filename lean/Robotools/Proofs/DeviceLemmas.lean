/-
  Device independence (C16): the worklist model run with `dev = evo` and with `dev = fluent`
  differs only in the position fields of records that address a trough.  Technique: erase those
  fields and show that the erased executions are *equal*.
-/
import Robotools.Model.World
import Robotools.Proofs.ExecLemmas
import Robotools.Proofs.GeometryLemmas
import Robotools.Proofs.FlowLemmas
import Robotools.Proofs.PlanLemmas
namespace Robotools
namespace Dev

/-- Erase the position fields of a record if its rack label is one of `T` (the troughs). -/
def eraseRec (T : List String) : Rec → Rec
  | .asp f => if T.contains f.rackLabel then .asp { f with position := 0 } else .asp f
  | .disp f => if T.contains f.rackLabel then .disp { f with position := 0 } else .disp f
  | .rd f =>
    let f1 := if T.contains f.srcLabel then { f with srcStart := 0, srcEnd := 0 } else f
    .rd (if T.contains f.dstLabel then { f1 with dstStart := 0, dstEnd := 0, excluded := [] } else f1)
  | r => r

def eraseM (T : List String) : Micro → Micro
  | .emit r => .emit (eraseRec T r)
  | m => m

/-- A world with the device forgotten and trough positions erased. -/
def eraseW (T : List String) (w : World) : World :=
  { cfg := { w.cfg with dev := .base }, labs := w.labs, recs := w.recs.map (eraseRec T),
    carry := w.carry }

theorem head_render_erase (T : List String) (r : Rec) :
    (eraseRec T r).renderChars.head? = r.renderChars.head? := by
  cases r with
  | asp f =>
    simp only [eraseRec]
    split <;> simp [Rec.renderChars, joinSemi, ADFields.fields, List.intercalate, sc]
  | disp f =>
    simp only [eraseRec]
    split <;> simp [Rec.renderChars, joinSemi, ADFields.fields, List.intercalate, sc]
  | rd f =>
    simp only [eraseRec]
    split <;> split <;> simp [Rec.renderChars, joinSemi, RFields.fields, List.intercalate, sc]
  | _ => rfl

def mapRes (T : List String) : Except Err World → Except Err World
  | .ok w => .ok (eraseW T w)
  | .error e => .error e

theorem micro_erase (T : List String) (w : World) (m : Micro) :
    (eraseW T w).micro (eraseM T m) = mapRes T (w.micro m) := by
  cases m with
  | rm l i v =>
    simp only [eraseM, World.micro, eraseW]
    cases w.labs[l]? with
    | none => rfl
    | some L =>
      simp only
      cases L.removeStep i v <;> rfl
  | ad l i v c =>
    simp only [eraseM, World.micro, eraseW]
    cases w.labs[l]? with
    | none => rfl
    | some L =>
      simp only
      cases L.addStep i v _ <;> rfl
  | loadComp l i =>
    simp only [eraseM, World.micro, eraseW]
    cases w.labs[l]? <;> rfl
  | log l label =>
    simp only [eraseM, World.micro, eraseW]
    cases w.labs[l]? <;> rfl
  | condense l n label =>
    simp only [eraseM, World.micro, eraseW]
    cases w.labs[l]? with
    | none => rfl
    | some L =>
      simp only
      cases L.condenseLog n label <;> rfl
  | emit r =>
    simp [eraseM, World.micro, eraseW, mapRes]
  | setDiti i =>
    simp only [eraseM, World.micro, eraseW]
    have hlast : (w.recs.map (eraseRec T)).getLast? = w.recs.getLast?.map (eraseRec T) := by
      simp [List.getLast?_map]
    simp only [hlast]
    cases hl : w.recs.getLast? with
    | none => simp [mapRes, eraseW, eraseRec]
    | some r =>
      simp only [Option.map_some, head_render_erase]
      split <;> simp [mapRes, eraseW, eraseRec]
  | fail e => rfl

theorem exec_erase (T : List String) (w : World) (ms : List Micro) :
    (eraseW T w).exec (ms.map (eraseM T)) = (eraseW T (w.exec ms).1, (w.exec ms).2) := by
  induction ms generalizing w with
  | nil => rfl
  | cons m ms ih =>
    rw [List.map_cons]
    cases hm : w.micro m with
    | ok w' =>
      have h := micro_erase T w m
      rw [hm] at h
      rw [World.exec_cons_ok _ h, World.exec_cons_ok _ hm]
      exact ih w'
    | error e =>
      have h := micro_erase T w m
      rw [hm] at h
      rw [World.exec_cons_error _ h, World.exec_cons_error _ hm]

/-! ### Positions of valid wells on the two devices -/

theorem pos_valid (g : Geom) (s : String) (h : (g.resolve s).isSome) :
    ∃ pE pF, Device.evo.pos g s = .ok pE ∧ Device.fluent.pos g s = .ok pF
      ∧ (g.isTrough = false → pE = pF) := by
  cases hres : g.resolve s with
  | none => rw [hres] at h; cases h
  | some rc =>
    obtain ⟨r, c, hr, hc, heq⟩ := (g.mem_table _).1 (mem_of_lookup_eq_some hres)
    obtain ⟨rfl, -⟩ := Prod.mk.inj heq
    refine ⟨1 + c * g.stride + r, (if g.isTrough then 1 + c else 1 + c * g.nRowIds + r),
      by simp [Device.pos, g.evoPos_wellId hr hc],
      by simp [Device.pos, g.fluentPos_wellId hr hc], ?_⟩
    intro ht
    simp only [ht, Bool.false_eq_true, if_false]
    have : g.stride = g.nRowIds := by
      unfold Geom.stride
      unfold Geom.isTrough at ht
      cases hv : g.vrows with
      | none => rfl
      | some v => rw [hv] at ht; simp at ht
    rw [this]

/-- `prepareAD` looks at a (non-negative integer) position only to copy it into the record. -/
theorem prepareAD_pos (a : ADArgs) (p : Nat) (M : Option Rat) :
    prepareAD { a with position := p, posBad := false } M
      = match prepareAD { a with position := 0, posBad := false } M with
        | .ok f => .ok { f with position := p }
        | .error e => .error e := by
  have hp : ¬ (false = true ∨ (p : Int) < 0) := by simp
  have h0 : ¬ (false = true ∨ (0 : Int) < 0) := by simp
  simp only [prepareAD, bind, Except.bind, pure, Except.pure, throw, throwThe, MonadExceptOf.throw,
    hp, h0, if_false]
  repeat' split
  all_goals first
    | rfl
    | (rename_i heq; injection heq with heq; subst heq; rfl)
    | (rename_i heq; subst heq; rfl)
    | (simp_all; done)

theorem prepareAD_fields' (a : ADArgs) (M : Option Rat) (f : ADFields) (h : prepareAD a M = .ok f) :
    f.rackLabel = a.rackLabel ∧ f.position = a.position.toNat := by
  simp only [prepareAD, bind, Except.bind, pure, Except.pure, throw, throwThe,
    MonadExceptOf.throw] at h
  repeat' split at h
  all_goals first
    | (injection h with h; subst h; exact ⟨rfl, rfl⟩)
    | (injection h)

/-! ### The emission loop on the two devices -/

def cE (c : Cfg) : Cfg := { c with dev := .evo }
def cF (c : Cfg) : Cfg := { c with dev := .fluent }

def adArgs (L : Labware) (kw : KW) (pos : Int) (v : Rat) : ADArgs :=
  { rackLabel := L.name, position := pos, vol := v, liquidClass := kw.liquidClass, tip := kw.tip,
    rackId := kw.rackId, tubeId := kw.tubeId, rackType := kw.rackType,
    forcedRackType := kw.forcedRackType }

theorem prepareAD_adArgs (L : Labware) (kw : KW) (p : Nat) (v : Rat) (M : Option Rat) :
    prepareAD (adArgs L kw p v) M
      = match prepareAD (adArgs L kw 0 v) M with
        | .ok f => .ok { f with position := p }
        | .error e => .error e :=
  prepareAD_pos (adArgs L kw 0 v) p M

theorem emitAD_erase (T : List String) (c : Cfg) (L : Labware)
    (hT : L.geom.isTrough = true → T.contains L.name = true) (isAsp : Bool) (ws : List String)
    (vs : List Rat) (kw : KW) (hv : ∀ s ∈ ws, (L.geom.resolve s).isSome) :
    (emitAD (cE c) L isAsp ws vs kw).map (eraseM T)
      = (emitAD (cF c) L isAsp ws vs kw).map (eraseM T) := by
  unfold emitAD
  rw [List.map_flatMap, List.map_flatMap]
  apply List.flatMap_congr
  intro p hp
  obtain ⟨s, v⟩ := p
  have hs : s ∈ ws := (List.of_mem_zip hp).1
  obtain ⟨pE, pF, hE, hF, hpl⟩ := pos_valid L.geom s (hv s hs)
  simp only
  split
  · simp only [cE, cF, hE, hF, exceptMicros]
    have e1 := prepareAD_adArgs L kw pE v (some c.maxVolume)
    have e2 := prepareAD_adArgs L kw pF v (some c.maxVolume)
    simp only [adArgs] at e1 e2
    rw [e1, e2]
    cases h0 : prepareAD (adArgs L kw 0 v) (some c.maxVolume) with
    | error e =>
      simp only [adArgs] at h0
      rw [h0]
    | ok f =>
      obtain ⟨hlab, _⟩ := prepareAD_fields' _ _ _ h0
      simp only [adArgs] at hlab h0
      rw [h0]
      simp only [List.map_cons, List.map_nil, eraseM, List.cons.injEq, and_true, Micro.emit.injEq]
      by_cases hc : T.contains L.name = true
      · have hmem : L.name ∈ T := by simpa using hc
        cases isAsp <;> simp [eraseRec, hlab, hmem]
      · have hnt : L.geom.isTrough = false := by
          cases h : L.geom.isTrough with
          | false => rfl
          | true => exact absurd (hT h) hc
        rw [hpl hnt]
  · rfl

theorem compileAspirate_erase (T : List String) (c : Cfg) (L : Labware)
    (hT : L.geom.isTrough = true → T.contains L.name = true) (l : Nat) (wells : Arr String)
    (vols : Arr Rat) (label : Option String) (kw : KW)
    (hv : ∀ s ∈ wells.flattenF, (L.geom.resolve s).isSome) :
    (compileAspirate (cE c) L l wells vols label kw).map (eraseM T)
      = (compileAspirate (cF c) L l wells vols label kw).map (eraseM T) := by
  unfold compileAspirate
  simp only [List.map_append]
  rw [emitAD_erase T c L hT true _ _ kw hv]

theorem compileDispense_erase (T : List String) (c : Cfg) (L : Labware)
    (hT : L.geom.isTrough = true → T.contains L.name = true) (l : Nat) (wells : Arr String)
    (vols : Arr Rat) (label : Option String) (comps : Option (List (Option Comp))) (kw : KW)
    (carryAll : Bool) (hv : ∀ s ∈ wells.flattenF, (L.geom.resolve s).isSome) :
    (compileDispense (cE c) L l wells vols label comps kw carryAll).map (eraseM T)
      = (compileDispense (cF c) L l wells vols label comps kw carryAll).map (eraseM T) := by
  unfold compileDispense
  simp only [List.map_append]
  rw [emitAD_erase T c L hT false _ _ kw hv]

theorem mem_broadcast1 {α} {l : List α} {n : Nat} {x : α} (h : x ∈ broadcast1 l n) : x ∈ l := by
  match l, h with
  | [], h => exact h
  | [a], h =>
    simp only [broadcast1] at h
    have := List.eq_of_mem_replicate h
    subst this
    exact List.mem_singleton.2 rfl
  | _ :: _ :: _, h => exact h

theorem pair_mem_plan {a : Bool} {M : Rat} {byDest : Bool} {ts : List Triple} {s d : String} {v : Rat}
    (h : PlanStep.pair s d v ∈ transferPlan a M byDest ts) : ∃ t ∈ ts, t.src = s ∧ t.dst = d := by
  unfold transferPlan at h
  obtain ⟨g, hg, hin⟩ := List.mem_flatMap.1 h
  obtain ⟨t, vs, hz, _, _, hs, hd⟩ := mem_groupPlan_pair hin
  have htg : t ∈ g := (List.of_mem_zip hz).1
  have : t ∈ (partitionByColumn ts byDest).flatten := List.mem_flatten.2 ⟨g, hg, htg⟩
  exact ⟨t, (partitionByColumn_flatten_perm ts byDest).mem_iff.1 this, hs, hd⟩

theorem compileTransfer_erase (T : List String) (c : Cfg) (S : Labware) (src : Nat)
    (hTS : S.geom.isTrough = true → T.contains S.name = true) (D : Labware) (dst : Nat)
    (hTD : D.geom.isTrough = true → T.contains D.name = true) (srcWells dstWells : Arr String)
    (vols : Arr Rat) (label : Option String) (wash : WashArg) (partitionBy : String) (kw : KW)
    (hvs : ∀ s ∈ srcWells.flattenF, (S.geom.resolve s).isSome)
    (hvd : ∀ s ∈ dstWells.flattenF, (D.geom.resolve s).isSome) :
    (compileTransfer (cE c) S src srcWells D dst dstWells vols label wash partitionBy kw).map (eraseM T)
      = (compileTransfer (cF c) S src srcWells D dst dstWells vols label wash partitionBy kw).map
          (eraseM T) := by
  unfold compileTransfer
  have hE : ¬ ((cE c).dev = Device.base) := by simp [cE]
  have hF : ¬ ((cF c).dev = Device.base) := by simp [cF]
  simp only [hE, hF, if_false]
  split
  · rfl
  · split
    · rfl
    · split
      · rfl
      · rename_i byDest _
        simp only [List.map_append]
        congr 2
        rw [List.map_flatMap, List.map_flatMap]
        apply List.flatMap_congr
        intro stp hstp
        cases stp with
        | pair s d v =>
          obtain ⟨t, ht, hs, hd⟩ := pair_mem_plan hstp
          obtain ⟨⟨⟨s', d'⟩, v'⟩, hz, rfl⟩ := List.mem_map.1 ht
          simp only at hs hd
          subst hs hd
          have hz1 := (List.of_mem_zip hz).1
          have hs' : s' ∈ srcWells.flattenF := mem_broadcast1 (List.of_mem_zip hz1).1
          have hd' : d' ∈ dstWells.flattenF := mem_broadcast1 (List.of_mem_zip hz1).2
          simp only [List.map_append]
          rw [compileAspirate_erase T c S hTS src _ _ none kw (by
                intro x hx; simp only [Arr.flattenF, List.mem_singleton] at hx; subst hx
                exact hvs _ hs'),
              compileDispense_erase T c D hTD dst _ _ none none kw true (by
                intro x hx; simp only [Arr.flattenF, List.mem_singleton] at hx; subst hx
                exact hvd _ hd')]
        | action => rfl
        | brk => rfl

/-! ### `distribute` on the two devices -/

theorem mapM_ok {α β} (f : α → Except Err β) (g : α → β) (l : List α)
    (h : ∀ x ∈ l, f x = .ok (g x)) : l.mapM f = .ok (l.map g) := by
  induction l with
  | nil => rfl
  | cons x xs ih =>
    rw [List.mapM_cons, h x List.mem_cons_self, ih fun y hy => h y (List.mem_cons_of_mem _ hy)]
    rfl

def posOf (d : Device) (g : Geom) (s : String) : Nat :=
  match d.pos g s with
  | .ok p => p
  | .error _ => 0

/-- Everything `compileDistribute` does once the sorted destination positions are known. -/
def distTail (cfg : Cfg) (S D : Labware) (a : DistArgs) (sorted : List Nat) : List Micro :=
  let nRows : Int := S.geom.nRowIds
  let srcStart : Int := 1 + nRows * a.srcCol
  let srcEnd : Int := srcStart + nRows - 1
  let dws := a.dstWells.flattenF
  match sorted.head?, sorted.getLast? with
  | some dstStart, some dstEnd =>
    let excluded : List Int :=
      ((List.range (dstEnd + 1 - dstStart)).map (· + dstStart)).filter (fun p => !sorted.contains p)
        |>.map Int.ofNat
    let n := sorted.length
    let colIdx : Option Nat :=
      if 0 ≤ a.srcCol ∧ a.srcCol < S.geom.cols then some a.srcCol.toNat
      else if a.srcCol < 0 ∧ -(S.geom.cols : Int) ≤ a.srcCol then some (a.srcCol + S.geom.cols).toNat
      else none
    match colIdx with
    | none => [.fail .reject]
    | some c =>
      let label : Option String := some a.label
      compileRemove S a.src (.scalar (wellId 0 c)) (.scalar (a.vol.q * n)) label
      ++ exceptMicros (match S.geom.resolveFlat (wellId 0 c) with
                        | some i => Except.ok i | none => Except.error Err.reject)
           (fun i => [Micro.loadComp a.src i])
      ++ compileAdd D a.dst (.vec dws) (.scalar a.vol.q) label none true
      ++ commentMicros label
      ++ compileRD cfg { srcLabel := S.name, srcStart := ⟨srcStart, false⟩,
                         srcEnd := ⟨srcEnd, false⟩, dstLabel := D.name,
                         dstStart := ⟨dstStart, false⟩, dstEnd := ⟨dstEnd, false⟩,
                         vol := a.vol, ditiReuse := a.ditiReuse, multiDisp := a.multiDisp,
                         exclude := excluded, liquidClass := a.liquidClass,
                         direction := a.direction, srcRackId := a.srcRackId,
                         srcRackType := a.srcRackType, dstRackId := a.dstRackId,
                         dstRackType := a.dstRackType }
  | _, _ => [.fail .reject]

theorem compileDistribute_eq (cfg : Cfg) (S D : Labware) (a : DistArgs) :
    compileDistribute cfg S D a =
      match S.geom.vrows with
      | none => [.fail .valueErr]
      | some _ =>
        if cfg.maxVolume < a.vol.q then [.fail .invalidOp]
        else exceptMicros (a.dstWells.flattenF.mapM fun w => cfg.dev.pos D.geom w) fun ps =>
          if ¬ a.dstWells.flattenF.Nodup then [.fail .valueErr]
          else distTail cfg S D a (ps.mergeSort (· ≤ ·)) := rfl

/-- The exclusion list `distribute` builds lies inside the destination range. -/
theorem excluded_in_range (sorted : List Nat) (dstStart dstEnd : Nat) :
    ((((List.range (dstEnd + 1 - dstStart)).map (· + dstStart)).filter
        (fun p => !sorted.contains p)).map Int.ofNat).any
      (fun x => x < (dstStart : Int) ∨ (dstEnd : Int) < x) = false := by
  rw [List.any_eq_false]
  intro x hx
  obtain ⟨p, hp, rfl⟩ := List.mem_map.1 hx
  obtain ⟨hp', _⟩ := List.mem_filter.1 hp
  obtain ⟨q, hq, rfl⟩ := List.mem_map.1 hp'
  rw [List.mem_range] at hq
  simp only [Int.ofNat_eq_natCast, decide_eq_true_eq, not_or, Int.not_lt]
  omega

theorem compileRD_erase (T : List String) (cfg : Cfg) (aE aF : RDArgs)
    (hT : T.contains aE.dstLabel = true)
    (hsame : aF = { aE with dstStart := aF.dstStart, dstEnd := aF.dstEnd, exclude := aF.exclude })
    (hxE : aE.exclude.any (fun x => x < aE.dstStart.v ∨ aE.dstEnd.v < x) = false)
    (hxF : aF.exclude.any (fun x => x < aF.dstStart.v ∨ aF.dstEnd.v < x) = false)
    (hbE : aE.dstStart.bad = false ∧ aE.dstEnd.bad = false ∧ 0 ≤ aE.dstStart.v ∧ 0 ≤ aE.dstEnd.v)
    (hbF : aF.dstStart.bad = false ∧ aF.dstEnd.bad = false ∧ 0 ≤ aF.dstStart.v ∧ 0 ≤ aF.dstEnd.v) :
    (compileRD cfg aE).map (eraseM T) = (compileRD cfg aF).map (eraseM T) := by
  rw [hsame]
  obtain ⟨b1, b2, b3, b4⟩ := hbE
  obtain ⟨c1, c2, c3, c4⟩ := hbF
  unfold compileRD
  simp only at hxF ⊢
  split
  · rfl
  · simp only [hxE, hxF, Bool.false_eq_true, or_false, exceptMicros]
    split
    · rfl
    split
    · split
      · simp only [b1, b2, c1, c2, Bool.false_eq_true, false_or, or_false,
          Int.not_lt.2 b3, Int.not_lt.2 b4, Int.not_lt.2 c3, Int.not_lt.2 c4]
        split
        · rfl
        · have hmem : aE.dstLabel ∈ T := by simpa using hT
          by_cases hs : aE.srcLabel ∈ T <;> simp [eraseM, eraseRec, hmem, hs]
      · rfl
    · rfl

theorem compileRD_cfg (c : Cfg) (a : RDArgs) : compileRD (cE c) a = compileRD (cF c) a := rfl

theorem head_last_of_ne_nil (l : List Nat) (h : l ≠ []) :
    ∃ a b, l.head? = some a ∧ l.getLast? = some b := by
  cases l with
  | nil => exact absurd rfl h
  | cons x xs => exact ⟨x, (x :: xs).getLast h, rfl, List.getLast?_eq_some_getLast h⟩

theorem distTail_erase (T : List String) (c : Cfg) (S D : Labware) (a : DistArgs) (sE sF : List Nat)
    (hlen : sE.length = sF.length) (hcase : T.contains D.name = true ∨ sE = sF) :
    (distTail (cE c) S D a sE).map (eraseM T) = (distTail (cF c) S D a sF).map (eraseM T) := by
  rcases hcase with hT | rfl
  · by_cases hnil : sE = []
    · subst hnil
      have : sF = [] := List.eq_nil_of_length_eq_zero (by rw [← hlen]; rfl)
      subst this
      rfl
    · have hnilF : sF ≠ [] := by
        intro h; subst h
        exact hnil (List.eq_nil_of_length_eq_zero hlen)
      obtain ⟨a1, b1, h1, h2⟩ := head_last_of_ne_nil sE hnil
      obtain ⟨a2, b2, h3, h4⟩ := head_last_of_ne_nil sF hnilF
      simp only [distTail, h1, h2, h3, h4, hlen]
      split
      · rfl
      · simp only [List.map_append]
        congr 1
        apply compileRD_erase T _ _ _ hT rfl (excluded_in_range sE a1 b1) (excluded_in_range sF a2 b2)
        · exact ⟨rfl, rfl, Int.natCast_nonneg _, Int.natCast_nonneg _⟩
        · exact ⟨rfl, rfl, Int.natCast_nonneg _, Int.natCast_nonneg _⟩
  · simp only [distTail]
    split
    · split
      · rfl
      · simp only [List.map_append]
        rw [compileRD_cfg]
    · rfl

theorem compileDistribute_erase (T : List String) (c : Cfg) (S D : Labware)
    (hTD : D.geom.isTrough = true → T.contains D.name = true) (a : DistArgs)
    (hvd : ∀ s ∈ a.dstWells.flattenF, (D.geom.resolve s).isSome) :
    (compileDistribute (cE c) S D a).map (eraseM T)
      = (compileDistribute (cF c) S D a).map (eraseM T) := by
  rw [compileDistribute_eq, compileDistribute_eq]
  split
  · rfl
  · by_cases hmv : c.maxVolume < a.vol.q
    · rw [if_pos (show (cE c).maxVolume < a.vol.q from hmv),
        if_pos (show (cF c).maxVolume < a.vol.q from hmv)]
    · rw [if_neg (show ¬ (cE c).maxVolume < a.vol.q from hmv),
        if_neg (show ¬ (cF c).maxVolume < a.vol.q from hmv)]
      have hE : a.dstWells.flattenF.mapM (fun w => (cE c).dev.pos D.geom w)
          = .ok (a.dstWells.flattenF.map (posOf .evo D.geom)) := by
        apply mapM_ok
        intro s hs
        obtain ⟨pE, _, hE, _, _⟩ := pos_valid D.geom s (hvd s hs)
        simp [posOf, hE, cE]
      have hF : a.dstWells.flattenF.mapM (fun w => (cF c).dev.pos D.geom w)
          = .ok (a.dstWells.flattenF.map (posOf .fluent D.geom)) := by
        apply mapM_ok
        intro s hs
        obtain ⟨_, pF, _, hF, _⟩ := pos_valid D.geom s (hvd s hs)
        simp [posOf, hF, cF]
      rw [hE, hF]
      simp only [exceptMicros]
      by_cases hnd : a.dstWells.flattenF.Nodup
      swap
      · rw [if_pos hnd, if_pos hnd]
      rw [if_neg (not_not.2 hnd), if_neg (not_not.2 hnd)]
      apply distTail_erase T c S D a
      · simp [List.length_mergeSort]
      · by_cases hc : T.contains D.name = true
        · exact Or.inl hc
        · right
          have hnt : D.geom.isTrough = false := by
            cases h : D.geom.isTrough with
            | false => rfl
            | true => exact absurd (hTD h) hc
          congr 1
          apply List.map_congr_left
          intro s hs
          obtain ⟨pE, pF, hE', hF', hpl⟩ := pos_valid D.geom s (hvd s hs)
          simp [posOf, hE', hF', hpl hnt]

end Dev
end Robotools
