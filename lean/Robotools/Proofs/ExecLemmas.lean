/-
  General-purpose lemmas about `World.exec` (append, decomposition, invariants), about
  `List.set` / `getD`, and about which labware fields the step functions touch.
-/
import Robotools.Model.World
namespace Robotools

/-! ### `List.set` / `getD` -/

theorem getD_set_self {α} (l : List α) (i : Nat) (a d : α) (hi : i < l.length) :
    (l.set i a).getD i d = a := by
  simp [List.getD_eq_getElem?_getD, hi]

theorem getD_set_ne {α} (l : List α) (i j : Nat) (a d : α) (h : j ≠ i) :
    (l.set i a).getD j d = l.getD j d := by
  have h' : ¬ i = j := fun e => h e.symm
  simp [List.getD_eq_getElem?_getD, h']

theorem getD_mem_of_lt {α} (l : List α) (i : Nat) (d : α) (hi : i < l.length) :
    l.getD i d ∈ l := by
  simp [List.getD_eq_getElem?_getD, List.getElem?_eq_getElem hi]

/-- A property of all elements survives `set` when the new element has it too. -/
theorem forall_mem_set {α} {P : α → Prop} (l : List α) (i : Nat) (a : α)
    (hl : ∀ x ∈ l, P x) (ha : i < l.length → P a) : ∀ x ∈ l.set i a, P x := by
  intro x hx
  by_cases hi : i < l.length
  · rcases List.mem_or_eq_of_mem_set hx with h | h
    · exact hl x h
    · exact h ▸ ha hi
  · rw [List.set_eq_of_length_le (Nat.le_of_not_lt hi)] at hx
    exact hl x hx

/-! ### Field effects of the labware steps -/

namespace Labware

theorem addStep_fields {L L' : Labware} {i : Nat} {v : Rat} {c : Option Comp}
    (h : L.addStep i v c = .ok L') :
    ¬ L.maxV < L.vol i + v ∧ L'.vols = L.vols.set i (L.vol i + v) ∧ L'.minV = L.minV
      ∧ L'.maxV = L.maxV ∧ L'.name = L.name ∧ L'.geom = L.geom ∧ L'.hist = L.hist := by
  unfold Labware.addStep at h
  simp only at h
  split at h
  · cases h
  · rename_i hlt
    split at h <;> (cases h; exact ⟨hlt, rfl, rfl, rfl, rfl, rfl, rfl⟩)

theorem addStep_error {L : Labware} {i : Nat} {v : Rat} {c : Option Comp} {e : Err}
    (h : L.addStep i v c = .error e) : e = .overflow ∧ L.maxV < L.vol i + v := by
  unfold Labware.addStep at h
  simp only at h
  split at h
  · rename_i hlt
    cases h
    exact ⟨rfl, hlt⟩
  · split at h <;> cases h

theorem addStep_isOk {L : Labware} {i : Nat} {v : Rat} {c : Option Comp}
    (h : ¬ L.maxV < L.vol i + v) : ∃ L', L.addStep i v c = .ok L' := by
  unfold Labware.addStep
  simp only [if_neg h]
  split <;> exact ⟨_, rfl⟩

theorem removeStep_fields {L L' : Labware} {i : Nat} {v : Rat}
    (h : L.removeStep i v = .ok L') :
    ¬ L.vol i - v < L.minV ∧ L'.vols = L.vols.set i (L.vol i - v) ∧ L'.minV = L.minV
      ∧ L'.maxV = L.maxV ∧ L'.name = L.name ∧ L'.geom = L.geom ∧ L'.hist = L.hist
      ∧ L'.comp = L.comp := by
  unfold Labware.removeStep at h
  simp only at h
  split at h
  · cases h
  · rename_i hlt
    cases h
    exact ⟨hlt, rfl, rfl, rfl, rfl, rfl, rfl, rfl⟩

theorem removeStep_error {L : Labware} {i : Nat} {v : Rat} {e : Err}
    (h : L.removeStep i v = .error e) : e = .underflow ∧ L.vol i - v < L.minV := by
  unfold Labware.removeStep at h
  simp only at h
  split at h
  · rename_i hlt
    cases h
    exact ⟨rfl, hlt⟩
  · cases h

theorem removeStep_isOk {L : Labware} {i : Nat} {v : Rat}
    (h : ¬ L.vol i - v < L.minV) : ∃ L', L.removeStep i v = .ok L' := by
  unfold Labware.removeStep
  simp only [if_neg h]
  exact ⟨_, rfl⟩

theorem log_fields (L : Labware) (label : Option String) :
    (L.log label).vols = L.vols ∧ (L.log label).minV = L.minV ∧ (L.log label).maxV = L.maxV
      ∧ (L.log label).comp = L.comp ∧ (L.log label).geom = L.geom
      ∧ (L.log label).name = L.name :=
  ⟨rfl, rfl, rfl, rfl, rfl, rfl⟩

theorem condenseLog_fields {L L' : Labware} {n : Nat} {label : Option String}
    (h : L.condenseLog n label = .ok L') :
    L'.vols = L.vols ∧ L'.minV = L.minV ∧ L'.maxV = L.maxV ∧ L'.comp = L.comp
      ∧ L'.geom = L.geom ∧ L'.name = L.name := by
  unfold Labware.condenseLog at h
  simp only at h
  split at h
  · cases h
  · cases h
    exact ⟨rfl, rfl, rfl, rfl, rfl, rfl⟩

end Labware

/-! ### Constructors -/

/-- What a successful `Labware.__init__` guarantees about the limits and the initial volumes. -/
theorem Labware.mk?_spec {s : PlateSpec} {L : Labware} (h : Labware.mk? s = .ok L) :
    ¬ s.minV < 0 ∧ ¬ s.maxV ≤ s.minV ∧ L.minV = s.minV ∧ L.maxV = s.maxV ∧
    ∃ flat : List InitVal,
      ¬ (flat.any fun x => match x with | none => true | some q => decide (q < 0)) = true ∧
      ¬ ((flat.map (fun x => Option.getD x 0)).any fun q => decide (s.maxV < q)) = true ∧
      L.vols = flat.map (fun x => Option.getD x 0) := by
  simp only [Labware.mk?, bind, Except.bind, pure, Except.pure, throw, throwThe,
    MonadExceptOf.throw] at h
  repeat' (first | contradiction | split at h)
  all_goals
    cases h
    exact ⟨‹_›, ‹_›, rfl, rfl, _, ‹_›, ‹_›, rfl⟩

/-- `Trough.__init__` ends in `Labware.__init__` with the trough's limits. -/
theorem Trough.mk?_spec {s : TroughSpec} {L : Labware} (h : Trough.mk? s = .ok L) :
    ∃ p : PlateSpec, p.minV = s.minV ∧ p.maxV = s.maxV ∧ Labware.mk? p = .ok L := by
  simp only [Trough.mk?, bind, Except.bind, pure, Except.pure, throw, throwThe,
    MonadExceptOf.throw] at h
  repeat' (first | contradiction | split at h)
  all_goals exact ⟨_, rfl, rfl, h⟩

/-! ### `World.exec` -/

@[simp] theorem World.exec_nil (w : World) : w.exec [] = (w, none) := rfl

theorem World.exec_cons_ok {w w' : World} {m : Micro} (ms : List Micro)
    (h : w.micro m = .ok w') : w.exec (m :: ms) = w'.exec ms := by
  simp [World.exec, h]

theorem World.exec_cons_error {w : World} {m : Micro} {e : Err} (ms : List Micro)
    (h : w.micro m = .error e) : w.exec (m :: ms) = (w, some e) := by
  simp [World.exec, h]

theorem World.exec_append (w : World) (a b : List Micro) :
    w.exec (a ++ b) = match w.exec a with
      | (w', none) => w'.exec b
      | (w', some e) => (w', some e) := by
  induction a generalizing w with
  | nil => rfl
  | cons m ms ih =>
    cases hm : w.micro m with
    | ok w1 =>
      rw [List.cons_append, World.exec_cons_ok _ hm, World.exec_cons_ok _ hm]
      exact ih w1
    | error e =>
      rw [List.cons_append, World.exec_cons_error _ hm, World.exec_cons_error _ hm]

/-- Execution with early exit: either everything ran, or there is a first failing micro-operation
    and the returned state is the one in which it was refused. -/
theorem World.exec_decompose (w : World) (ms : List Micro) :
    (∃ w', w.exec ms = (w', none))
    ∨ (∃ pre m post w' e, ms = pre ++ m :: post ∧ w.exec pre = (w', none) ∧ w'.micro m = .error e
        ∧ w.exec ms = (w', some e)) := by
  induction ms generalizing w with
  | nil => exact Or.inl ⟨w, rfl⟩
  | cons m ms ih =>
    cases hm : w.micro m with
    | ok w1 =>
      rcases ih w1 with ⟨w', h⟩ | ⟨pre, m', post, w', e, h1, h2, h3, h4⟩
      · exact Or.inl ⟨w', by rw [World.exec_cons_ok _ hm, h]⟩
      · refine Or.inr ⟨m :: pre, m', post, w', e, by rw [h1]; rfl, ?_, h3, ?_⟩
        · rw [World.exec_cons_ok _ hm, h2]
        · rw [World.exec_cons_ok _ hm, h4]
    | error e =>
      exact Or.inr ⟨[], m, ms, w, e, rfl, rfl, hm, World.exec_cons_error _ hm⟩

/-- Invariant rule for `exec`: a world predicate preserved by every successful micro-operation of
    the list holds in the returned state (whether or not execution stopped early). -/
theorem World.exec_invariant {P : World → Prop} {Q : Micro → Prop}
    (hstep : ∀ w w' m, Q m → P w → w.micro m = .ok w' → P w')
    (w : World) (ms : List Micro) (hms : ∀ m ∈ ms, Q m) (hw : P w) : P (w.exec ms).1 := by
  induction ms generalizing w with
  | nil => exact hw
  | cons m ms ih =>
    cases hm : w.micro m with
    | ok w1 =>
      rw [World.exec_cons_ok _ hm]
      exact ih w1 (fun m' h' => hms m' (List.mem_cons_of_mem _ h'))
        (hstep w w1 m (hms m List.mem_cons_self) hw hm)
    | error e =>
      rw [World.exec_cons_error _ hm]
      exact hw

/-- What a successful micro-operation does to the labware list: nothing, or it replaces one
    labware by the result of a step / log / condense on it. -/
theorem World.micro_labs {w w' : World} {m : Micro} (h : w.micro m = .ok w') :
    w'.labs = w.labs ∨ ∃ l L L', w.labs[l]? = some L ∧ w'.labs = w.labs.set l L' ∧
      ((∃ i v, m = .rm l i v ∧ L.removeStep i v = .ok L')
        ∨ (∃ i v c co, m = .ad l i v c ∧ L.addStep i v co = .ok L')
        ∨ (∃ label, L' = L.log label)
        ∨ (∃ n label, L.condenseLog n label = .ok L')) := by
  cases m with
  | rm l i v =>
    simp only [World.micro] at h
    split at h
    · cases h
    · rename_i L hL
      split at h
      · rename_i L' hL'
        cases h
        exact Or.inr ⟨l, L, L', hL, rfl, Or.inl ⟨i, v, rfl, hL'⟩⟩
      · cases h
  | ad l i v c =>
    simp only [World.micro] at h
    split at h
    · cases h
    · rename_i L hL
      split at h
      · rename_i L' hL'
        cases h
        exact Or.inr ⟨l, L, L', hL, rfl, Or.inr (Or.inl ⟨i, v, c, _, rfl, hL'⟩)⟩
      · cases h
  | loadComp l i =>
    simp only [World.micro] at h
    split at h
    · cases h
    · cases h; exact Or.inl rfl
  | log l label =>
    simp only [World.micro] at h
    split at h
    · cases h
    · rename_i L hL
      cases h
      exact Or.inr ⟨l, L, _, hL, rfl, Or.inr (Or.inr (Or.inl ⟨label, rfl⟩))⟩
  | condense l n label =>
    simp only [World.micro] at h
    split at h
    · cases h
    · rename_i L hL
      split at h
      · rename_i L' hL'
        cases h
        exact Or.inr ⟨l, L, L', hL, rfl, Or.inr (Or.inr (Or.inr ⟨n, label, hL'⟩))⟩
      · cases h
  | emit r =>
    simp only [World.micro] at h
    cases h; exact Or.inl rfl
  | setDiti i =>
    simp only [World.micro] at h
    split at h <;> split at h <;> first | (cases h; exact Or.inl rfl) | cases h
  | fail e =>
    simp only [World.micro] at h
    cases h

end Robotools
