/-
  Robotools.Proofs.EvoLemmas — what an accepted EVO aspirate/dispense call satisfies (`evoAD_spec`)
  and the combinatorial core of C13: the wells EVOware reads out of the selection bitmap, in ascending
  position order, are exactly the wells of the call in the order given.
-/
import Robotools.Model.EvoCmd
import Robotools.Proofs.TipLemmas
import Robotools.Proofs.GeometryLemmas
import Robotools.Proofs.SelectionLemmas
import Batteries.Data.List.Perm
namespace Robotools
namespace Evo

/-- Everything an accepted EVO aspirate/dispense call satisfies, and the command it builds. -/
theorem evoAD_spec (isAsp : Bool) (a : EvoADArgs) (nRows nCols : Nat) (M : Rat) (f : EvoADFields)
    (h : evoAD isAsp a nRows nCols M = .ok f) :
    ∃ vols tipVals sel,
      a.wellsBad = false ∧ a.wells.flattenF.length = a.tips.length
      ∧ (a.gridBad = false ∧ 1 ≤ a.grid ∧ a.grid ≤ (Spec.maxGrid : Int))
      ∧ (a.siteBad = false ∧ 1 ≤ a.site ∧ a.site ≤ (Spec.maxSite : Int))
      ∧ evoVols a a.wells.flattenF.length M = .ok vols
      ∧ ';' ∉ a.liquidClass.toList
      ∧ evoTipVals a.tips = .ok tipVals
      ∧ (a.arm = 0 ∨ a.arm = 1)
      ∧ (-1 : Int) ∉ tipVals
      ∧ (dedup (tipVals.map Int.toNat)).length = (tipVals.map Int.toNat).length
      ∧ strictlyAscending (a.wells.flattenF.map fun s => s.toList.map Char.toNat) = true
      ∧ evoSel a.wells.flattenF nRows nCols = .ok sel
      ∧ (dedup (sel.map (·.2))).length < 2
      ∧ f = { isAsp := isAsp, tipSel := (tipVals.map Int.toNat).foldl (· + ·) 0, liquidClass := a.liquidClass,
              slots := fillSlots (tipVals.map Int.toNat) (vols.map round2), grid := a.grid.toNat,
              site := (a.site - 1).toNat, rows := nRows, cols := nCols,
              bits := selectionBits nRows nCols sel, arm := a.arm.toNat } := by
  simp only [evoAD, bind, Except.bind, pure, Except.pure, throw, throwThe, MonadExceptOf.throw] at h
  by_cases h1 : a.wellsBad = true
  · rw [if_pos h1] at h; cases h
  rw [if_neg h1] at h
  by_cases h2 : a.wells.flattenF.length ≠ a.tips.length
  · rw [if_pos h2] at h; cases h
  rw [if_neg h2] at h
  by_cases h3 : a.gridBad = true ∨ a.grid < 1 ∨ (Spec.maxGrid : Int) < a.grid
  · rw [if_pos h3] at h; cases h
  rw [if_neg h3] at h
  by_cases h4 : a.siteBad = true ∨ a.site < 1 ∨ (Spec.maxSite : Int) < a.site
  · rw [if_pos h4] at h; cases h
  rw [if_neg h4] at h
  cases hv : evoVols a a.wells.flattenF.length M with
  | error e => rw [hv] at h; cases h
  | ok vols =>
    rw [hv] at h
    simp only at h
    by_cases h5 : a.liquidClass.toList.contains ';' = true
    · rw [if_pos h5] at h; cases h
    rw [if_neg h5] at h
    by_cases h6 : (a.tips.any fun t => t == TipSym.bad) = true
    · rw [if_pos h6] at h; cases h
    rw [if_neg h6] at h
    cases ht : evoTipVals a.tips with
    | error e => rw [ht] at h; cases h
    | ok tipVals =>
      rw [ht] at h
      simp only at h
      by_cases h7 : ¬(a.arm = 0 ∨ a.arm = 1)
      · rw [if_pos h7] at h; cases h
      rw [if_neg h7] at h
      by_cases h8 : tipVals.contains (-1) = true
      · rw [if_pos h8] at h; cases h
      rw [if_neg h8] at h
      by_cases h9 : (dedup (tipVals.map Int.toNat)).length ≠ (tipVals.map Int.toNat).length
      · rw [if_pos h9] at h; cases h
      rw [if_neg h9] at h
      by_cases h10 : (!strictlyAscending (a.wells.flattenF.map fun s => s.toList.map Char.toNat)) = true
      · rw [if_pos h10] at h; cases h
      rw [if_neg h10] at h
      cases hs : evoSel a.wells.flattenF nRows nCols with
      | error e => rw [hs] at h; cases h
      | ok sel =>
        rw [hs] at h
        simp only at h
        by_cases h11 : 2 ≤ (dedup (sel.map (·.2))).length
        · rw [if_pos h11] at h; cases h
        rw [if_neg h11] at h
        injection h with h
        refine ⟨vols, tipVals, sel, by simpa using h1, by simpa using h2, ?_, ?_, rfl, by simpa using h5, rfl,
          Decidable.not_not.1 h7, by simpa using h8, by simpa using h9, by simpa using h10, rfl, by omega, h.symm⟩
        · simp only [not_or, Bool.not_eq_true, Int.not_lt] at h3; exact h3
        · simp only [not_or, Bool.not_eq_true, Int.not_lt] at h4; exact h4

/-! ### Wells -/

theorem mapM_cons_ok {α β ε} (f : α → Except ε β) (x : α) (xs : List α) (ys : List β)
    (h : (x :: xs).mapM f = .ok ys) :
    ∃ y ys', f x = .ok y ∧ xs.mapM f = .ok ys' ∧ ys = y :: ys' := by
  simp only [List.mapM_cons, bind, Except.bind, pure, Except.pure] at h
  cases hx : f x with
  | error e => rw [hx] at h; cases h
  | ok y =>
    rw [hx] at h
    simp only at h
    cases hxs : xs.mapM f with
    | error e => rw [hxs] at h; cases h
    | ok ys' => rw [hxs] at h; cases h; exact ⟨y, ys', rfl, rfl, rfl⟩

/-- `evoSel` succeeds exactly on IDs of the labware's ID grid and returns their (row, column). -/
theorem evoSel_spec (ws : List String) (R C : Nat) (sel : List (Nat × Nat)) (h : evoSel ws R C = .ok sel) :
    ws = sel.map (fun rc => wellId rc.1 rc.2) ∧ ∀ rc ∈ sel, rc.1 < min 26 R ∧ rc.2 < C := by
  induction ws generalizing sel with
  | nil =>
    simp only [evoSel, List.mapM_nil, pure, Except.pure] at h
    cases h; simp
  | cons w ws ih =>
    unfold evoSel at h ih
    obtain ⟨rc, sel', h1, h2, rfl⟩ := mapM_cons_ok _ w ws sel h
    obtain ⟨ih1, ih2⟩ := ih sel' h2
    cases hl : (makeWellIndexDict R C).lookup w with
    | none => rw [hl] at h1; cases h1
    | some rc' =>
      rw [hl] at h1
      cases h1
      have hmem := mem_of_lookup_eq_some hl
      simp only [makeWellIndexDict, List.mem_flatMap, List.mem_range, List.mem_map] at hmem
      obtain ⟨r, hr, c, hc, heq⟩ := hmem
      cases heq
      refine ⟨by simp [ih1], ?_⟩
      intro rc' hrc'
      rcases List.mem_cons.1 hrc' with rfl | h'
      · exact ⟨hr, hc⟩
      · exact ih2 rc' h'

theorem length_lt_two {α} {l : List α} (h : l.length < 2) {x y : α} (hx : x ∈ l) (hy : y ∈ l) : x = y := by
  match l, h with
  | [], _ => cases hx
  | [a], _ =>
    simp only [List.mem_singleton] at hx hy; rw [hx, hy]

theorem same_column (sel : List (Nat × Nat)) (h : (dedup (sel.map (·.2))).length < 2) :
    ∀ p ∈ sel, ∀ q ∈ sel, p.2 = q.2 := by
  intro p hp q hq
  apply length_lt_two h
  · rw [mem_dedup]; exact List.mem_map_of_mem hp
  · rw [mem_dedup]; exact List.mem_map_of_mem hq

theorem rowLetter_code : ∀ r, r < 26 → (rowLetters.getD r '?').toNat = 65 + r := by decide

theorem key_lt (r r' c : Nat) (hr : r < 26) (hr' : r' < 26)
    (h : (wellId r c).toList.map Char.toNat < (wellId r' c).toList.map Char.toNat) : r < r' := by
  rw [wellId_toList, wellId_toList, List.map_cons, List.map_cons, List.cons_lt_cons_iff] at h
  rcases h with h | ⟨_, h⟩
  · rw [rowLetter_code r hr, rowLetter_code r' hr'] at h; omega
  · exact absurd h (List.lt_irrefl _)

theorem strictlyAscending_pairwise (ks : List (List Nat)) (h : strictlyAscending ks = true) :
    ks.Pairwise (· < ·) := by
  induction ks with
  | nil => exact List.Pairwise.nil
  | cons a t ih =>
    cases t with
    | nil => simp
    | cons b t' =>
      simp only [strictlyAscending, Bool.and_eq_true, decide_eq_true_eq] at h
      have ih' := ih h.2
      rw [List.pairwise_cons]
      refine ⟨?_, ih'⟩
      intro x hx
      rcases List.mem_cons.1 hx with rfl | hx'
      · exact h.1
      · exact List.lt_trans h.1 ((List.pairwise_cons.1 ih').1 x hx')

/-- The order in which EVOware enumerates selected wells: by column, then by row. -/
def lt2 (p q : Nat × Nat) : Prop := p.2 < q.2 ∨ (p.2 = q.2 ∧ p.1 < q.1)

theorem sel_sorted (ws : List String) (R C : Nat) (sel : List (Nat × Nat))
    (hsel : evoSel ws R C = .ok sel) (hcol : (dedup (sel.map (·.2))).length < 2)
    (hasc : strictlyAscending (ws.map fun s => s.toList.map Char.toNat) = true) :
    sel.Pairwise lt2 := by
  obtain ⟨hws, hb⟩ := evoSel_spec ws R C sel hsel
  have hp := strictlyAscending_pairwise _ hasc
  rw [hws, List.map_map, List.pairwise_map] at hp
  refine hp.imp_of_mem ?_
  intro p q hp hq hlt
  have hpq := same_column sel hcol p hp q hq
  right
  refine ⟨hpq, ?_⟩
  have h1 := (hb p hp).1
  have h2 := (hb q hq).1
  simp only [Function.comp] at hlt
  rw [hpq] at hlt
  exact key_lt p.1 q.1 q.2 (by omega) (by omega) hlt

/-- The wells EVOware reads out of the bitmap of `sel`, in ascending position order. -/
def enumWells (R C : Nat) (bits : List Bool) : List (Nat × Nat) :=
  (List.range C).flatMap fun x => (List.range R).filterMap fun y =>
    if bits.getD (x * R + y) false then some (y, x) else none

theorem mem_enumWells (R C : Nat) (sel : List (Nat × Nat)) (p : Nat × Nat) :
    p ∈ enumWells R C (selectionBits R C sel) ↔ p.2 < C ∧ p.1 < R ∧ p ∈ sel := by
  unfold enumWells
  simp only [List.mem_flatMap, List.mem_range, List.mem_filterMap]
  constructor
  · rintro ⟨x, hx, y, hy, hite⟩
    have hg := selectionBits_getElem? R C sel x y hx hy
    have : (selectionBits R C sel).getD (x * R + y) false = sel.contains (y, x) := by
      rw [List.getD_eq_getElem?_getD, hg]; rfl
    rw [this] at hite
    split at hite
    · rename_i hc
      cases hite
      exact ⟨hx, hy, by simpa using hc⟩
    · cases hite
  · rintro ⟨hx, hy, hm⟩
    refine ⟨p.2, hx, p.1, hy, ?_⟩
    have hg := selectionBits_getElem? R C sel p.2 p.1 hx hy
    have : (selectionBits R C sel).getD (p.2 * R + p.1) false = sel.contains (p.1, p.2) := by
      rw [List.getD_eq_getElem?_getD, hg]; rfl
    rw [this]
    have : sel.contains (p.1, p.2) = true := by simpa using hm
    rw [this]; rfl

theorem enumWells_sorted (R C : Nat) (bits : List Bool) : (enumWells R C bits).Pairwise lt2 := by
  unfold enumWells
  rw [List.pairwise_flatMap]
  constructor
  · intro x _
    apply List.Pairwise.filterMap _ _ List.pairwise_lt_range
    intro y y' hyy' b hb b' hb'
    split at hb <;> cases hb
    split at hb' <;> cases hb'
    exact Or.inr ⟨rfl, hyy'⟩
  · apply List.pairwise_lt_range.imp
    intro x x' hxx' p hp q hq
    obtain ⟨y, _, hy⟩ := List.mem_filterMap.1 hp
    obtain ⟨y', _, hy'⟩ := List.mem_filterMap.1 hq
    split at hy <;> cases hy
    split at hy' <;> cases hy'
    exact Or.inl hxx'

theorem lt2_irrefl (p : Nat × Nat) : ¬ lt2 p p := by
  intro h; rcases h with h | ⟨_, h⟩ <;> omega

theorem nodup_of_pairwise_lt2 {l : List (Nat × Nat)} (h : l.Pairwise lt2) : l.Nodup := by
  apply h.imp
  intro a b hab heq
  subst heq
  exact lt2_irrefl _ hab

/-- Reading the bitmap back yields exactly the wells of the call, in the order given. -/
theorem enumWells_eq (ws : List String) (R C : Nat) (sel : List (Nat × Nat))
    (hsel : evoSel ws R C = .ok sel) (hcol : (dedup (sel.map (·.2))).length < 2)
    (hasc : strictlyAscending (ws.map fun s => s.toList.map Char.toNat) = true) :
    enumWells R C (selectionBits R C sel) = sel := by
  have hs := sel_sorted ws R C sel hsel hcol hasc
  have he := enumWells_sorted R C (selectionBits R C sel)
  obtain ⟨_, hb⟩ := evoSel_spec ws R C sel hsel
  have hperm : List.Perm (enumWells R C (selectionBits R C sel)) sel := by
    rw [List.perm_ext_iff_of_nodup (nodup_of_pairwise_lt2 he) (nodup_of_pairwise_lt2 hs)]
    intro p
    rw [mem_enumWells]
    constructor
    · exact fun h => h.2.2
    · intro hp
      have := hb p hp
      exact ⟨this.2, by omega, hp⟩
  apply List.Perm.eq_of_pairwise _ he hs hperm
  intro a b _ _ hab hba
  rcases hab with h | ⟨h1, h2⟩ <;> rcases hba with h' | ⟨h1', h2'⟩ <;> omega

/-! ### Tips and volumes -/

theorem evoTipVals_spec (tips : List TipSym) (tv : List Int) (h : evoTipVals tips = .ok tv)
    (hmem : ∀ v, TipSym.member v ∈ tips → v = -1 ∨ v.toNat ∈ Spec.tipSlots ∧ 0 ≤ v) :
    tv.length = tips.length ∧ ∀ v ∈ tv, v = -1 ∨ (v.toNat ∈ Spec.tipSlots ∧ 0 ≤ v) := by
  induction tips generalizing tv with
  | nil =>
    simp only [evoTipVals, List.mapM_nil, pure, Except.pure] at h
    cases h; simp
  | cons t ts ih =>
    unfold evoTipVals at h ih
    obtain ⟨v, vs, h1, h2, rfl⟩ := mapM_cons_ok _ t ts tv h
    obtain ⟨ih1, ih2⟩ := ih vs h2 (fun v hv => hmem v (List.mem_cons_of_mem _ hv))
    refine ⟨by simp [ih1], ?_⟩
    intro x hx
    rcases List.mem_cons.1 hx with rfl | hx'
    · cases t with
      | int n =>
        simp only [intToTip, bind, Except.bind, pure, Except.pure] at h1
        cases hlook : Spec.tipTable.lookup n with
        | none => rw [hlook] at h1; cases h1
        | some val =>
          rw [hlook] at h1
          cases h1
          right
          have := mem_of_lookup_eq_some hlook
          simp only [Spec.tipTable, List.mem_cons, Prod.mk.injEq, List.not_mem_nil, or_false] at this
          rcases this with ⟨_, rfl⟩ | ⟨_, rfl⟩ | ⟨_, rfl⟩ | ⟨_, rfl⟩ | ⟨_, rfl⟩ | ⟨_, rfl⟩ | ⟨_, rfl⟩ | ⟨_, rfl⟩ <;>
            exact ⟨by decide, by decide⟩
      | member v' =>
        cases h1
        exact hmem x (by simp)
      | bad => cases h1
    · exact ih2 x hx'

theorem nodup_of_dedup_length (l : List Nat) (h : (dedup l).length = l.length) : l.Nodup := by
  have hsub : (dedup l).Subperm l :=
    List.subperm_of_subset (dedup_nodup l) (fun x hx => (mem_dedup l x).1 hx)
  have hperm : List.Perm (dedup l) l := hsub.perm_of_length_le (by omega)
  exact (dedup_nodup l).perm hperm

theorem evoCheckVol_ok (M v : Rat) (h : evoCheckVol M v = .ok ()) :
    0 ≤ v ∧ v ≤ (Spec.maxRecordVolume : Rat) ∧ v ≤ M := by
  unfold evoCheckVol at h
  split at h
  · cases h
  · rename_i h1
    split at h
    · cases h
    · rename_i h2
      simp only [not_or, Rat.not_lt] at h1 h2
      exact ⟨h1.1, h1.2, h2⟩

theorem forM_checkVol (M : Rat) (l : List Rat) (h : l.forM (evoCheckVol M) = .ok ()) :
    ∀ v ∈ l, 0 ≤ v ∧ v ≤ (Spec.maxRecordVolume : Rat) ∧ v ≤ M := by
  induction l with
  | nil => intro v hv; cases hv
  | cons x xs ih =>
    have h' : (evoCheckVol M x >>= fun _ => xs.forM (evoCheckVol M)) = Except.ok () := h
    replace h := h'
    simp only [bind, Except.bind] at h
    cases hu : evoCheckVol M x with
    | error e => rw [hu] at h; cases h
    | ok u =>
      rw [hu] at h
      cases u
      intro v hv
      rcases List.mem_cons.1 hv with rfl | hv'
      · exact evoCheckVol_ok M _ hu
      · exact ih h v hv'

/-- The per-tip volumes: all within range, one per well, and equal to what the tracking applies
    (`broadcast1` of the flattened volume argument). -/
theorem evoVols_spec (a : EvoADArgs) (n : Nat) (M : Rat) (vols : List Rat) (h : evoVols a n M = .ok vols)
    (hn : a.tips.length = n) :
    vols.length = n ∧ (∀ v ∈ vols, 0 ≤ v ∧ v ≤ (Spec.maxRecordVolume : Rat) ∧ v ≤ M)
      ∧ broadcast1 a.volume.toList n = vols := by
  unfold evoVols at h
  cases hvol : a.volume with
  | list l =>
    rw [hvol] at h
    simp only [bind, Except.bind, pure, Except.pure, throw, throwThe, MonadExceptOf.throw] at h
    cases hu : l.forM (evoCheckVol M) with
    | error e => rw [hu] at h; cases h
    | ok u =>
      rw [hu] at h
      cases u
      simp only at h
      by_cases hlen : l.length ≠ a.tips.length
      · rw [if_pos hlen] at h; cases h
      rw [if_neg hlen] at h
      cases h
      have hlen' : vols.length = a.tips.length := by simpa using hlen
      refine ⟨by omega, forM_checkVol M vols hu, ?_⟩
      show broadcast1 vols n = vols
      unfold broadcast1
      split
      · rename_i x
        simp only [List.length_singleton] at hlen'
        rw [← hn, ← hlen']; rfl
      · rfl
  | scalar v =>
    rw [hvol] at h
    simp only [bind, Except.bind, pure, Except.pure] at h
    cases hu : evoCheckVol M v with
    | error e => rw [hu] at h; cases h
    | ok u =>
      rw [hu] at h
      cases u
      cases h
      refine ⟨by simp, ?_, by simp [broadcast1, EvoVol.toList]⟩
      intro x hx
      have := List.eq_of_mem_replicate hx
      subst this
      exact evoCheckVol_ok M _ hu
  | other =>
    rw [hvol] at h
    cases h

end Evo
end Robotools
