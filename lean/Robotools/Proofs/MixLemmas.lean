/-
  Association-list algebra for compositions (`upsertAdd`, `combine`, `setFrac`, `wellComp`):
  helper lemmas for C05.
-/
import Robotools.Proofs.ExecLemmas
import Mathlib.Tactic.Linarith
import Mathlib.Tactic.FieldSimp
import Mathlib.Tactic.Ring
import Mathlib.Tactic.Tauto
import Mathlib.Algebra.Order.Field.Rat
import Mathlib.Algebra.BigOperators.Group.List.Basic
import Mathlib.Algebra.Order.BigOperators.Group.List

namespace Robotools
namespace Mix

/-- Sum of all entries with key `k`. -/
def csum (c : Comp) (k : String) : Rat := ((c.filter (fun p => p.1 = k)).map (·.2)).sum

/-- Sum of all entries. -/
def total (c : Comp) : Rat := (c.map (·.2)).sum

/-! ### `csum`, `total` -/

@[simp] theorem csum_nil (k : String) : csum [] k = 0 := rfl

theorem csum_cons (a : String) (x : Rat) (c : Comp) (k : String) :
    csum ((a, x) :: c) k = (if a = k then x else 0) + csum c k := by
  unfold csum
  by_cases h : a = k <;> simp [h]

theorem csum_eq_zero (c : Comp) (k : String) (h : k ∉ c.map (·.1)) : csum c k = 0 := by
  induction c with
  | nil => rfl
  | cons p rest ih =>
    obtain ⟨a, x⟩ := p
    simp only [List.map_cons, List.mem_cons, not_or] at h
    rw [csum_cons, ih h.2, if_neg (fun e => h.1 e.symm)]
    simp

@[simp] theorem total_nil : total [] = 0 := rfl

theorem total_cons (a : String) (x : Rat) (c : Comp) : total ((a, x) :: c) = x + total c := by
  simp [total]

/-! ### `upsertAdd` -/

theorem csum_upsertAdd (c : Comp) (k : String) (x : Rat) (k' : String) :
    csum (Labware.upsertAdd c k x) k' = csum c k' + (if k = k' then x else 0) := by
  induction c with
  | nil => simp [Labware.upsertAdd, csum_cons]
  | cons p rest ih =>
    obtain ⟨a, y⟩ := p
    simp only [Labware.upsertAdd]
    by_cases h : a = k
    · rw [if_pos h]
      subst h
      simp only [csum_cons]
      split <;> ring
    · simp only [if_neg h, csum_cons, ih]
      ring

theorem total_upsertAdd (c : Comp) (k : String) (x : Rat) :
    total (Labware.upsertAdd c k x) = total c + x := by
  induction c with
  | nil => simp [Labware.upsertAdd, total_cons]
  | cons p rest ih =>
    obtain ⟨a, y⟩ := p
    simp only [Labware.upsertAdd]
    by_cases h : a = k
    · simp only [if_pos h, total_cons]; ring
    · simp only [if_neg h, total_cons, ih]; ring

theorem mem_keys_upsertAdd (c : Comp) (k : String) (x : Rat) (k' : String) :
    k' ∈ (Labware.upsertAdd c k x).map (·.1) ↔ k' ∈ c.map (·.1) ∨ k' = k := by
  induction c with
  | nil => simp [Labware.upsertAdd]
  | cons p rest ih =>
    obtain ⟨a, y⟩ := p
    simp only [Labware.upsertAdd]
    by_cases h : a = k
    · rw [if_pos h]
      subst h
      simp only [List.map_cons, List.mem_cons]
      tauto
    · simp only [if_neg h, List.map_cons, List.mem_cons, ih]
      tauto

theorem nodup_keys_upsertAdd (c : Comp) (k : String) (x : Rat) (h : (c.map (·.1)).Nodup) :
    ((Labware.upsertAdd c k x).map (·.1)).Nodup := by
  induction c with
  | nil => simp [Labware.upsertAdd]
  | cons p rest ih =>
    obtain ⟨a, y⟩ := p
    simp only [Labware.upsertAdd]
    simp only [List.map_cons, List.nodup_cons] at h
    by_cases hk : a = k
    · simp only [if_pos hk, List.map_cons, List.nodup_cons]
      exact h
    · simp only [if_neg hk, List.map_cons, List.nodup_cons]
      refine ⟨?_, ih h.2⟩
      rw [mem_keys_upsertAdd]
      intro hh
      rcases hh with hh | hh
      · exact h.1 hh
      · exact hk hh

theorem nonneg_upsertAdd (c : Comp) (k : String) (x : Rat) (hc : ∀ p ∈ c, 0 ≤ p.2) (hx : 0 ≤ x) :
    ∀ p ∈ Labware.upsertAdd c k x, 0 ≤ p.2 := by
  induction c with
  | nil =>
    intro p hp
    simp only [Labware.upsertAdd, List.mem_singleton] at hp
    subst hp
    simpa using hx
  | cons q rest ih =>
    obtain ⟨a, y⟩ := q
    intro p hp
    simp only [Labware.upsertAdd] at hp
    have hy : 0 ≤ y := hc (a, y) List.mem_cons_self
    have hrest : ∀ p ∈ rest, 0 ≤ p.2 := fun p hp => hc p (List.mem_cons_of_mem _ hp)
    by_cases hk : a = k
    · simp only [if_pos hk, List.mem_cons] at hp
      rcases hp with hp | hp
      · subst hp; exact add_nonneg hy hx
      · exact hrest p hp
    · simp only [if_neg hk, List.mem_cons] at hp
      rcases hp with hp | hp
      · subst hp; exact hy
      · exact ih hrest p hp

/-! ### The two loops of `combine` -/

/-- `for k, f in cB.items(): vf[k] += f * vB`. -/
def addAll (vf cB : Comp) (vB : Rat) : Comp :=
  cB.foldl (fun acc p => Labware.upsertAdd acc p.1 (p.2 * vB)) vf

/-- Apply `g` to every value. -/
def scale (c : Comp) (g : Rat → Rat) : Comp := c.map fun p => (p.1, g p.2)

theorem combine_eq (vA vB : Rat) (cA cB : Comp) :
    Labware.combine vA cA vB cB =
      if vA + vB = 0 then cA
      else scale (addAll (scale cA (· * vA)) cB vB) (· / (vA + vB)) := rfl

theorem csum_addAll (vf cB : Comp) (vB : Rat) (k : String) :
    csum (addAll vf cB vB) k = csum vf k + csum cB k * vB := by
  induction cB generalizing vf with
  | nil => simp [addAll]
  | cons p rest ih =>
    obtain ⟨a, y⟩ := p
    have : addAll vf ((a, y) :: rest) vB = addAll (Labware.upsertAdd vf a (y * vB)) rest vB := rfl
    rw [this, ih, csum_upsertAdd, csum_cons]
    split <;> ring

theorem total_addAll (vf cB : Comp) (vB : Rat) :
    total (addAll vf cB vB) = total vf + total cB * vB := by
  induction cB generalizing vf with
  | nil => simp [addAll]
  | cons p rest ih =>
    obtain ⟨a, y⟩ := p
    have : addAll vf ((a, y) :: rest) vB = addAll (Labware.upsertAdd vf a (y * vB)) rest vB := rfl
    rw [this, ih, total_upsertAdd, total_cons]
    ring

theorem mem_keys_addAll (vf cB : Comp) (vB : Rat) (k : String) :
    k ∈ (addAll vf cB vB).map (·.1) ↔ k ∈ vf.map (·.1) ∨ k ∈ cB.map (·.1) := by
  induction cB generalizing vf with
  | nil => simp [addAll]
  | cons p rest ih =>
    obtain ⟨a, y⟩ := p
    have : addAll vf ((a, y) :: rest) vB = addAll (Labware.upsertAdd vf a (y * vB)) rest vB := rfl
    rw [this, ih, mem_keys_upsertAdd]
    simp only [List.map_cons, List.mem_cons]
    tauto

theorem nodup_keys_addAll (vf cB : Comp) (vB : Rat) (h : (vf.map (·.1)).Nodup) :
    ((addAll vf cB vB).map (·.1)).Nodup := by
  induction cB generalizing vf with
  | nil => simpa [addAll] using h
  | cons p rest ih =>
    obtain ⟨a, y⟩ := p
    have : addAll vf ((a, y) :: rest) vB = addAll (Labware.upsertAdd vf a (y * vB)) rest vB := rfl
    rw [this]
    exact ih _ (nodup_keys_upsertAdd _ _ _ h)

theorem nonneg_addAll (vf cB : Comp) (vB : Rat) (hvf : ∀ p ∈ vf, 0 ≤ p.2)
    (hB : ∀ p ∈ cB, 0 ≤ p.2) (hv : 0 ≤ vB) : ∀ p ∈ addAll vf cB vB, 0 ≤ p.2 := by
  induction cB generalizing vf with
  | nil => simpa [addAll] using hvf
  | cons q rest ih =>
    obtain ⟨a, y⟩ := q
    have : addAll vf ((a, y) :: rest) vB = addAll (Labware.upsertAdd vf a (y * vB)) rest vB := rfl
    rw [this]
    have hy : 0 ≤ y := hB (a, y) List.mem_cons_self
    exact ih _ (nonneg_upsertAdd _ _ _ hvf (mul_nonneg hy hv))
      (fun p hp => hB p (List.mem_cons_of_mem _ hp))

@[simp] theorem keys_scale (c : Comp) (g : Rat → Rat) : (scale c g).map (·.1) = c.map (·.1) := by
  simp [scale, List.map_map, Function.comp_def]

theorem csum_scale_mul (c : Comp) (a : Rat) (k : String) :
    csum (scale c (· * a)) k = csum c k * a := by
  induction c with
  | nil => simp [scale]
  | cons p rest ih =>
    obtain ⟨b, y⟩ := p
    have : scale ((b, y) :: rest) (· * a) = (b, y * a) :: scale rest (· * a) := rfl
    rw [this, csum_cons, csum_cons, ih]
    split <;> ring

theorem csum_scale_div (c : Comp) (a : Rat) (k : String) :
    csum (scale c (· / a)) k = csum c k / a := by
  induction c with
  | nil => simp [scale]
  | cons p rest ih =>
    obtain ⟨b, y⟩ := p
    have : scale ((b, y) :: rest) (· / a) = (b, y / a) :: scale rest (· / a) := rfl
    rw [this, csum_cons, csum_cons, ih]
    split <;> ring

theorem total_scale_mul (c : Comp) (a : Rat) : total (scale c (· * a)) = total c * a := by
  induction c with
  | nil => simp [scale]
  | cons p rest ih =>
    obtain ⟨b, y⟩ := p
    have : scale ((b, y) :: rest) (· * a) = (b, y * a) :: scale rest (· * a) := rfl
    rw [this, total_cons, total_cons, ih]
    ring

theorem total_scale_div (c : Comp) (a : Rat) : total (scale c (· / a)) = total c / a := by
  induction c with
  | nil => simp [scale]
  | cons p rest ih =>
    obtain ⟨b, y⟩ := p
    have : scale ((b, y) :: rest) (· / a) = (b, y / a) :: scale rest (· / a) := rfl
    rw [this, total_cons, total_cons, ih]
    ring

theorem nonneg_scale (c : Comp) (g : Rat → Rat) (hc : ∀ p ∈ c, 0 ≤ p.2) (hg : ∀ x, 0 ≤ x → 0 ≤ g x) :
    ∀ p ∈ scale c g, 0 ≤ p.2 := by
  intro p hp
  simp only [scale, List.mem_map] at hp
  obtain ⟨q, hq, rfl⟩ := hp
  exact hg _ (hc q hq)

/-! ### `combine` -/

theorem csum_combine (vA vB : Rat) (cA cB : Comp) (h : vA + vB ≠ 0) (k : String) :
    csum (Labware.combine vA cA vB cB) k = (csum cA k * vA + csum cB k * vB) / (vA + vB) := by
  rw [combine_eq, if_neg h, csum_scale_div, csum_addAll, csum_scale_mul]

theorem total_combine (vA vB : Rat) (cA cB : Comp) (h : vA + vB ≠ 0) :
    total (Labware.combine vA cA vB cB) = (total cA * vA + total cB * vB) / (vA + vB) := by
  rw [combine_eq, if_neg h, total_scale_div, total_addAll, total_scale_mul]

theorem mem_keys_combine (vA vB : Rat) (cA cB : Comp) (h : vA + vB ≠ 0) (k : String) :
    k ∈ (Labware.combine vA cA vB cB).map (·.1) ↔ k ∈ cA.map (·.1) ∨ k ∈ cB.map (·.1) := by
  rw [combine_eq, if_neg h, keys_scale, mem_keys_addAll, keys_scale]

theorem nodup_keys_combine (vA vB : Rat) (cA cB : Comp) (hA : (cA.map (·.1)).Nodup) :
    ((Labware.combine vA cA vB cB).map (·.1)).Nodup := by
  rw [combine_eq]
  split
  · exact hA
  · rw [keys_scale]
    apply nodup_keys_addAll
    rw [keys_scale]
    exact hA

theorem keys_subset_combine (vA vB : Rat) (cA cB : Comp) (k : String) (hk : k ∈ cA.map (·.1)) :
    k ∈ (Labware.combine vA cA vB cB).map (·.1) := by
  rw [combine_eq]
  split
  · exact hk
  · rw [keys_scale, mem_keys_addAll, keys_scale]
    exact Or.inl hk

theorem nonneg_combine (vA vB : Rat) (cA cB : Comp) (hA : ∀ p ∈ cA, 0 ≤ p.2)
    (hB : ∀ p ∈ cB, 0 ≤ p.2) (hvA : 0 ≤ vA) (hvB : 0 ≤ vB) :
    ∀ p ∈ Labware.combine vA cA vB cB, 0 ≤ p.2 := by
  rw [combine_eq]
  split
  · exact hA
  · apply nonneg_scale
    · apply nonneg_addAll _ _ _ _ hB hvB
      exact nonneg_scale _ _ hA (fun x hx => mul_nonneg hx hvA)
    · intro x hx
      exact div_nonneg hx (add_nonneg hvA hvB)

/-! ### Sums over a duplicate-free key list -/

theorem sum_ite_nodup (K : List String) (a : String) (x : Rat) (hK : K.Nodup) (ha : a ∈ K) :
    (K.map (fun k => if a = k then x else 0)).sum = x := by
  induction K with
  | nil => cases ha
  | cons b rest ih =>
    simp only [List.nodup_cons] at hK
    simp only [List.map_cons, List.sum_cons]
    by_cases hab : a = b
    · subst hab
      have : (rest.map (fun k => if a = k then x else 0)).sum = 0 := by
        apply List.sum_eq_zero
        intro y hy
        simp only [List.mem_map] at hy
        obtain ⟨k, hk, rfl⟩ := hy
        have : a ≠ k := fun e => hK.1 (e ▸ hk)
        simp [this]
      simp [this]
    · have ha' : a ∈ rest := by
        rcases List.mem_cons.1 ha with h | h
        · exact absurd h hab
        · exact h
      rw [if_neg hab, ih hK.2 ha']
      simp

/-- Summing `csum c` over a duplicate-free list that contains all keys of `c` gives the total. -/
theorem sum_csum_keys (c : Comp) (K : List String) (hK : K.Nodup) (hsub : ∀ k ∈ c.map (·.1), k ∈ K) :
    (K.map (csum c)).sum = total c := by
  induction c with
  | nil =>
    apply List.sum_eq_zero
    intro y hy
    simp only [List.mem_map] at hy
    obtain ⟨k, _, rfl⟩ := hy
    rfl
  | cons p rest ih =>
    obtain ⟨a, x⟩ := p
    have h1 : (K.map (csum ((a, x) :: rest))) =
        K.map (fun k => (if a = k then x else 0) + csum rest k) := by
      apply List.map_congr_left
      intro k _
      exact csum_cons a x rest k
    rw [h1, List.sum_map_add, sum_ite_nodup K a x hK (hsub a (by simp)), total_cons]
    have := ih (fun k hk => hsub k (by simp only [List.map_cons, List.mem_cons]; exact Or.inr hk))
    rw [← this]

/-! ### Composition tables: `frac`, column sums, `setFrac` -/

/-- `Labware.frac` on the bare table. -/
def fracC (comp : List (String × List Rat)) (i : Nat) (k : String) : Rat :=
  match comp.lookup k with
  | some arr => arr.getD i 0
  | none => 0

theorem frac_eq (L : Labware) (i : Nat) (k : String) : L.frac i k = fracC L.comp i k := rfl

/-- Sum of column `i` of the table. -/
def colSum (comp : List (String × List Rat)) (i : Nat) : Rat :=
  (comp.map (fun p => p.2.getD i 0)).sum

@[simp] theorem fracC_nil (i : Nat) (k : String) : fracC [] i k = 0 := rfl

theorem fracC_cons (a : String) (arr : List Rat) (rest : List (String × List Rat)) (i : Nat)
    (k : String) : fracC ((a, arr) :: rest) i k = if a = k then arr.getD i 0 else fracC rest i k := by
  unfold fracC
  by_cases h : a = k
  · subst h; simp
  · have h' : (k == a) = false := by simpa using fun e => h e.symm
    simp [List.lookup_cons, h', h]

theorem fracC_eq_zero (comp : List (String × List Rat)) (i : Nat) (k : String)
    (h : k ∉ comp.map (·.1)) : fracC comp i k = 0 := by
  induction comp with
  | nil => rfl
  | cons p rest ih =>
    obtain ⟨a, arr⟩ := p
    simp only [List.map_cons, List.mem_cons, not_or] at h
    rw [fracC_cons, if_neg (fun e => h.1 e.symm), ih h.2]

@[simp] theorem colSum_nil (i : Nat) : colSum [] i = 0 := rfl

theorem colSum_cons (a : String) (arr : List Rat) (rest : List (String × List Rat)) (i : Nat) :
    colSum ((a, arr) :: rest) i = arr.getD i 0 + colSum rest i := by
  simp [colSum]

theorem getD_replicate_zero (n j : Nat) : (List.replicate n (0 : Rat)).getD j 0 = 0 := by
  by_cases h : j < n <;> simp [List.getD_eq_getElem?_getD, h]

theorem getD_set_ite (arr : List Rat) (i j : Nat) (f : Rat) (hi : i < arr.length) :
    (arr.set i f).getD j 0 = if j = i then f else arr.getD j 0 := by
  by_cases h : j = i
  · subst h; rw [if_pos rfl, getD_set_self _ _ _ _ hi]
  · rw [if_neg h, getD_set_ne _ _ _ _ _ h]

theorem fracC_setFrac (comp : List (String × List Rat)) (n : Nat) (k : String) (i : Nat) (f : Rat)
    (hlen : ∀ p ∈ comp, p.2.length = n) (hi : i < n) (j : Nat) (k' : String) :
    fracC (Labware.setFrac comp n k i f) j k' = if j = i ∧ k' = k then f else fracC comp j k' := by
  induction comp with
  | nil =>
    simp only [Labware.setFrac, fracC_cons, fracC_nil]
    rw [getD_set_ite _ _ _ _ (by simpa using hi), getD_replicate_zero]
    by_cases h1 : k = k' <;> by_cases h2 : j = i <;> simp [h1, h2, eq_comm]
  | cons p rest ih =>
    obtain ⟨a, arr⟩ := p
    have ha : arr.length = n := hlen (a, arr) List.mem_cons_self
    have hrest : ∀ p ∈ rest, p.2.length = n := fun p hp => hlen p (List.mem_cons_of_mem _ hp)
    simp only [Labware.setFrac]
    by_cases hk : a = k
    · rw [if_pos hk]
      subst hk
      rw [fracC_cons, fracC_cons, getD_set_ite _ _ _ _ (by omega)]
      by_cases h1 : a = k' <;> by_cases h2 : j = i <;> simp [h1, h2, eq_comm]
      intro h; exact absurd h.symm h1
    · rw [if_neg hk, fracC_cons, fracC_cons, ih hrest]
      by_cases h1 : a = k'
      · subst h1
        simp [hk]
      · simp [h1]

theorem colSum_setFrac (comp : List (String × List Rat)) (n : Nat) (k : String) (i : Nat) (f : Rat)
    (hlen : ∀ p ∈ comp, p.2.length = n) (hi : i < n) :
    colSum (Labware.setFrac comp n k i f) i = colSum comp i - fracC comp i k + f := by
  induction comp with
  | nil =>
    simp only [Labware.setFrac, colSum_cons, colSum_nil, fracC_nil]
    rw [getD_set_ite _ _ _ _ (by simpa using hi), if_pos rfl]
    ring
  | cons p rest ih =>
    obtain ⟨a, arr⟩ := p
    have ha : arr.length = n := hlen (a, arr) List.mem_cons_self
    have hrest : ∀ p ∈ rest, p.2.length = n := fun p hp => hlen p (List.mem_cons_of_mem _ hp)
    simp only [Labware.setFrac]
    by_cases hk : a = k
    · rw [if_pos hk, colSum_cons, colSum_cons, fracC_cons, if_pos hk,
        getD_set_ite _ _ _ _ (by omega), if_pos rfl]
      ring
    · rw [if_neg hk, colSum_cons, colSum_cons, fracC_cons, if_neg hk, ih hrest]
      ring

theorem lens_setFrac (comp : List (String × List Rat)) (n : Nat) (k : String) (i : Nat) (f : Rat)
    (hlen : ∀ p ∈ comp, p.2.length = n) : ∀ p ∈ Labware.setFrac comp n k i f, p.2.length = n := by
  induction comp with
  | nil =>
    intro p hp
    simp only [Labware.setFrac, List.mem_singleton] at hp
    subst hp
    simp
  | cons q rest ih =>
    obtain ⟨a, arr⟩ := q
    have ha : arr.length = n := hlen (a, arr) List.mem_cons_self
    have hrest : ∀ p ∈ rest, p.2.length = n := fun p hp => hlen p (List.mem_cons_of_mem _ hp)
    intro p hp
    simp only [Labware.setFrac] at hp
    by_cases hk : a = k
    · rw [if_pos hk, List.mem_cons] at hp
      rcases hp with hp | hp
      · subst hp; simpa using ha
      · exact hrest p hp
    · rw [if_neg hk, List.mem_cons] at hp
      rcases hp with hp | hp
      · subst hp; exact ha
      · exact ih hrest p hp

theorem nonneg_setFrac (comp : List (String × List Rat)) (n : Nat) (k : String) (i : Nat) (f : Rat)
    (hf : 0 ≤ f) (hnn : ∀ p ∈ comp, ∀ x ∈ p.2, 0 ≤ x) :
    ∀ p ∈ Labware.setFrac comp n k i f, ∀ x ∈ p.2, 0 ≤ x := by
  induction comp with
  | nil =>
    intro p hp
    simp only [Labware.setFrac, List.mem_singleton] at hp
    subst hp
    apply forall_mem_set
    · intro x hx
      rw [List.eq_of_mem_replicate hx]
    · intro _; exact hf
  | cons q rest ih =>
    obtain ⟨a, arr⟩ := q
    have ha : ∀ x ∈ arr, 0 ≤ x := hnn (a, arr) List.mem_cons_self
    have hrest : ∀ p ∈ rest, ∀ x ∈ p.2, 0 ≤ x := fun p hp => hnn p (List.mem_cons_of_mem _ hp)
    intro p hp
    simp only [Labware.setFrac] at hp
    by_cases hk : a = k
    · rw [if_pos hk, List.mem_cons] at hp
      rcases hp with hp | hp
      · subst hp
        exact forall_mem_set _ _ _ ha (fun _ => hf)
      · exact hrest p hp
    · rw [if_neg hk, List.mem_cons] at hp
      rcases hp with hp | hp
      · subst hp; exact ha
      · exact ih hrest p hp

theorem mem_keys_setFrac (comp : List (String × List Rat)) (n : Nat) (k : String) (i : Nat) (f : Rat)
    (k' : String) :
    k' ∈ (Labware.setFrac comp n k i f).map (·.1) ↔ k' ∈ comp.map (·.1) ∨ k' = k := by
  induction comp with
  | nil => simp [Labware.setFrac]
  | cons p rest ih =>
    obtain ⟨a, arr⟩ := p
    simp only [Labware.setFrac]
    by_cases h : a = k
    · rw [if_pos h]
      subst h
      simp only [List.map_cons, List.mem_cons]
      tauto
    · simp only [if_neg h, List.map_cons, List.mem_cons, ih]
      tauto

theorem nodup_keys_setFrac (comp : List (String × List Rat)) (n : Nat) (k : String) (i : Nat)
    (f : Rat) (h : (comp.map (·.1)).Nodup) : ((Labware.setFrac comp n k i f).map (·.1)).Nodup := by
  induction comp with
  | nil => simp [Labware.setFrac]
  | cons p rest ih =>
    obtain ⟨a, arr⟩ := p
    simp only [Labware.setFrac]
    simp only [List.map_cons, List.nodup_cons] at h
    by_cases hk : a = k
    · simp only [if_pos hk, List.map_cons, List.nodup_cons]
      exact h
    · simp only [if_neg hk, List.map_cons, List.nodup_cons]
      refine ⟨?_, ih h.2⟩
      rw [mem_keys_setFrac]
      intro hh
      rcases hh with hh | hh
      · exact h.1 hh
      · exact hk hh

/-! ### The loop of `addStep`: write a whole composition into column `i` -/

def setAll (comp : List (String × List Rat)) (n i : Nat) (newc : Comp) : List (String × List Rat) :=
  newc.foldl (fun acc p => Labware.setFrac acc n p.1 i p.2) comp

theorem setAll_cons (comp : List (String × List Rat)) (n i : Nat) (a : String) (x : Rat)
    (rest : Comp) :
    setAll comp n i ((a, x) :: rest) = setAll (Labware.setFrac comp n a i x) n i rest := rfl

theorem lens_setAll (comp : List (String × List Rat)) (n i : Nat) (newc : Comp)
    (hlen : ∀ p ∈ comp, p.2.length = n) : ∀ p ∈ setAll comp n i newc, p.2.length = n := by
  induction newc generalizing comp with
  | nil => exact hlen
  | cons q rest ih =>
    obtain ⟨a, x⟩ := q
    rw [setAll_cons]
    exact ih _ (lens_setFrac _ _ _ _ _ hlen)

theorem nonneg_setAll (comp : List (String × List Rat)) (n i : Nat) (newc : Comp)
    (hnew : ∀ p ∈ newc, 0 ≤ p.2) (hnn : ∀ p ∈ comp, ∀ x ∈ p.2, 0 ≤ x) :
    ∀ p ∈ setAll comp n i newc, ∀ x ∈ p.2, 0 ≤ x := by
  induction newc generalizing comp with
  | nil => exact hnn
  | cons q rest ih =>
    obtain ⟨a, x⟩ := q
    rw [setAll_cons]
    exact ih _ (fun p hp => hnew p (List.mem_cons_of_mem _ hp))
      (nonneg_setFrac _ _ _ _ _ (hnew (a, x) List.mem_cons_self) hnn)

theorem nodup_keys_setAll (comp : List (String × List Rat)) (n i : Nat) (newc : Comp)
    (h : (comp.map (·.1)).Nodup) : ((setAll comp n i newc).map (·.1)).Nodup := by
  induction newc generalizing comp with
  | nil => exact h
  | cons q rest ih =>
    obtain ⟨a, x⟩ := q
    rw [setAll_cons]
    exact ih _ (nodup_keys_setFrac _ _ _ _ _ h)

theorem fracC_setAll (comp : List (String × List Rat)) (n i : Nat) (newc : Comp)
    (hlen : ∀ p ∈ comp, p.2.length = n) (hi : i < n) (hnd : (newc.map (·.1)).Nodup)
    (j : Nat) (k : String) :
    fracC (setAll comp n i newc) j k =
      if j = i ∧ k ∈ newc.map (·.1) then csum newc k else fracC comp j k := by
  induction newc generalizing comp with
  | nil => simp [setAll]
  | cons q rest ih =>
    obtain ⟨a, x⟩ := q
    simp only [List.map_cons, List.nodup_cons] at hnd
    rw [setAll_cons, ih _ (lens_setFrac _ _ _ _ _ hlen) hnd.2, fracC_setFrac _ _ _ _ _ hlen hi,
      csum_cons]
    simp only [List.map_cons, List.mem_cons]
    by_cases hj : j = i
    · by_cases hk : k ∈ rest.map (·.1)
      · have hne : a ≠ k := fun e => hnd.1 (e ▸ hk)
        simp [hj, hk, hne]
      · by_cases hka : k = a
        · subst hka
          simp [hj, hk, csum_eq_zero _ _ hk]
        · have hne : a ≠ k := fun e => hka e.symm
          simp [hj, hk, hka]
    · simp [hj]

theorem colSum_setAll (comp : List (String × List Rat)) (n i : Nat) (newc : Comp)
    (hlen : ∀ p ∈ comp, p.2.length = n) (hi : i < n) (hnd : (newc.map (·.1)).Nodup) :
    colSum (setAll comp n i newc) i =
      colSum comp i - ((newc.map (·.1)).map (fracC comp i)).sum + total newc := by
  induction newc generalizing comp with
  | nil => simp [setAll]
  | cons q rest ih =>
    obtain ⟨a, x⟩ := q
    simp only [List.map_cons, List.nodup_cons] at hnd
    rw [setAll_cons, ih _ (lens_setFrac _ _ _ _ _ hlen) hnd.2, colSum_setFrac _ _ _ _ _ hlen hi,
      total_cons]
    have : (rest.map (·.1)).map (fracC (Labware.setFrac comp n a i x) i)
        = (rest.map (·.1)).map (fracC comp i) := by
      apply List.map_congr_left
      intro k hk
      rw [fracC_setFrac _ _ _ _ _ hlen hi]
      have hne : k ≠ a := fun e => hnd.1 (e ▸ hk)
      simp [hne]
    rw [this]
    simp only [List.map_cons, List.sum_cons]
    ring

/-! ### `wellComp` on the bare table -/

def wc (comp : List (String × List Rat)) (i : Nat) : Comp :=
  comp.filterMap fun p => if 0 < p.2.getD i 0 then some (p.1, p.2.getD i 0) else none

theorem wellComp_eq (L : Labware) (i : Nat) : L.wellComp i = wc L.comp i := rfl

theorem wc_cons (a : String) (arr : List Rat) (rest : List (String × List Rat)) (i : Nat) :
    wc ((a, arr) :: rest) i =
      if 0 < arr.getD i 0 then (a, arr.getD i 0) :: wc rest i else wc rest i := by
  unfold wc
  rw [List.filterMap_cons]
  by_cases h : 0 < arr.getD i 0
  · simp only [if_pos h]
  · simp only [if_neg h]

theorem wc_keys_sublist (comp : List (String × List Rat)) (i : Nat) :
    ((wc comp i).map (·.1)).Sublist (comp.map (·.1)) := by
  induction comp with
  | nil => simp [wc]
  | cons p rest ih =>
    obtain ⟨a, arr⟩ := p
    rw [wc_cons]
    split
    · simpa using ih
    · exact ih.cons _

theorem wc_keys_nodup (comp : List (String × List Rat)) (i : Nat) (h : (comp.map (·.1)).Nodup) :
    ((wc comp i).map (·.1)).Nodup := h.sublist (wc_keys_sublist comp i)

theorem wc_pos (comp : List (String × List Rat)) (i : Nat) : ∀ p ∈ wc comp i, 0 < p.2 := by
  intro p hp
  simp only [wc, List.mem_filterMap] at hp
  obtain ⟨q, _, hq⟩ := hp
  split at hq
  · cases hq; assumption
  · cases hq

theorem getD_nonneg (arr : List Rat) (i : Nat) (h : ∀ x ∈ arr, 0 ≤ x) : 0 ≤ arr.getD i 0 := by
  by_cases hi : i < arr.length
  · exact h _ (getD_mem_of_lt arr i 0 hi)
  · simp [List.getD_eq_getElem?_getD, hi]

theorem csum_wc (comp : List (String × List Rat)) (i : Nat) (hnd : (comp.map (·.1)).Nodup)
    (hnn : ∀ p ∈ comp, ∀ x ∈ p.2, 0 ≤ x) (k : String) : csum (wc comp i) k = fracC comp i k := by
  induction comp with
  | nil => rfl
  | cons p rest ih =>
    obtain ⟨a, arr⟩ := p
    simp only [List.map_cons, List.nodup_cons] at hnd
    have h0 : 0 ≤ arr.getD i 0 := getD_nonneg _ _ (hnn (a, arr) List.mem_cons_self)
    have hrest : ∀ p ∈ rest, ∀ x ∈ p.2, 0 ≤ x := fun p hp => hnn p (List.mem_cons_of_mem _ hp)
    have ih' := ih hnd.2 hrest
    rw [wc_cons, fracC_cons]
    by_cases hk : a = k
    · subst hk
      have hz : csum (wc rest i) a = 0 :=
        csum_eq_zero _ _ (fun hm => hnd.1 ((wc_keys_sublist rest i).subset hm))
      rw [if_pos rfl]
      split
      · rw [csum_cons, if_pos rfl, hz]; ring
      · rw [hz]; linarith
    · rw [if_neg hk]
      split
      · rw [csum_cons, if_neg hk, ih']; ring
      · exact ih'

theorem total_wc (comp : List (String × List Rat)) (i : Nat)
    (hnn : ∀ p ∈ comp, ∀ x ∈ p.2, 0 ≤ x) : total (wc comp i) = colSum comp i := by
  induction comp with
  | nil => rfl
  | cons p rest ih =>
    obtain ⟨a, arr⟩ := p
    have h0 : 0 ≤ arr.getD i 0 := getD_nonneg _ _ (hnn (a, arr) List.mem_cons_self)
    have hrest : ∀ p ∈ rest, ∀ x ∈ p.2, 0 ≤ x := fun p hp => hnn p (List.mem_cons_of_mem _ hp)
    rw [wc_cons, colSum_cons]
    split
    · rw [total_cons, ih hrest]
    · rw [ih hrest]; linarith

/-! ### `addStep` in terms of `setAll` -/

theorem addStep_some {L L' : Labware} {i : Nat} {v : Rat} {cB : Comp}
    (h : L.addStep i v (some cB) = .ok L') :
    L'.vols = L.vols.set i (L.vol i + v) ∧
    L'.comp = setAll L.comp L.vols.length i (Labware.combine (L.vol i) (L.wellComp i) v cB) := by
  unfold Labware.addStep at h
  simp only at h
  split at h
  · cases h
  · cases h
    exact ⟨rfl, rfl⟩

theorem addStep_none {L L' : Labware} {i : Nat} {v : Rat}
    (h : L.addStep i v none = .ok L') :
    L'.vols = L.vols.set i (L.vol i + v) ∧ L'.comp = L.comp := by
  unfold Labware.addStep at h
  simp only at h
  split at h
  · cases h
  · cases h
    exact ⟨rfl, rfl⟩

/-! ### Range of a single fraction -/

theorem colSum_nonneg (comp : List (String × List Rat)) (i : Nat)
    (hnn : ∀ p ∈ comp, ∀ x ∈ p.2, 0 ≤ x) : 0 ≤ colSum comp i := by
  induction comp with
  | nil => exact le_refl _
  | cons p rest ih =>
    obtain ⟨a, arr⟩ := p
    rw [colSum_cons]
    exact add_nonneg (getD_nonneg _ _ (hnn (a, arr) List.mem_cons_self))
      (ih (fun p hp => hnn p (List.mem_cons_of_mem _ hp)))

theorem fracC_nonneg (comp : List (String × List Rat)) (i : Nat) (k : String)
    (hnn : ∀ p ∈ comp, ∀ x ∈ p.2, 0 ≤ x) : 0 ≤ fracC comp i k := by
  induction comp with
  | nil => exact le_refl _
  | cons p rest ih =>
    obtain ⟨a, arr⟩ := p
    rw [fracC_cons]
    split
    · exact getD_nonneg _ _ (hnn (a, arr) List.mem_cons_self)
    · exact ih (fun p hp => hnn p (List.mem_cons_of_mem _ hp))

theorem fracC_le_colSum (comp : List (String × List Rat)) (i : Nat) (k : String)
    (hnn : ∀ p ∈ comp, ∀ x ∈ p.2, 0 ≤ x) : fracC comp i k ≤ colSum comp i := by
  induction comp with
  | nil => exact le_refl _
  | cons p rest ih =>
    obtain ⟨a, arr⟩ := p
    have hrest : ∀ p ∈ rest, ∀ x ∈ p.2, 0 ≤ x := fun p hp => hnn p (List.mem_cons_of_mem _ hp)
    have h0 : 0 ≤ arr.getD i 0 := getD_nonneg _ _ (hnn (a, arr) List.mem_cons_self)
    have h1 := colSum_nonneg rest i hrest
    have h2 := ih hrest
    rw [fracC_cons, colSum_cons]
    split <;> linarith

end Mix
end Robotools
