/-
  Helper lemmas for C10 (tip masks): sum of distinct tip values = bitwise OR, `dedup` facts,
  `orMask` characterised by `testBit`, and structural facts about `fillSlots.go`.
-/
import Robotools.Model.Records
import Robotools.Model.EvoCmd
namespace Robotools

/-- The eight tip values. -/
def pows : List Nat := [1, 2, 4, 8, 16, 32, 64, 128]

theorem pows_and_ne : ∀ x ∈ pows, ∀ y ∈ pows, x ≠ y → x &&& y = 0 := by decide

theorem pows_lt : ∀ x ∈ pows, x < 2 ^ 8 := by decide

theorem add_eq_or_small : ∀ a < 256, ∀ b ∈ pows, a &&& b = 0 → a + b = a ||| b := by
  decide +kernel

/-! ## sum = OR for distinct tip values -/

theorem foldl_add_eq_foldl_or (l : List Nat) (acc : Nat) (hacc : acc < 2 ^ 8)
    (hl : ∀ x ∈ l, x ∈ pows) (hnd : l.Nodup) (hdisj : ∀ x ∈ l, acc &&& x = 0) :
    l.foldl (· + ·) acc = l.foldl (· ||| ·) acc := by
  induction l generalizing acc with
  | nil => rfl
  | cons x rest ih =>
    have hx : x ∈ pows := hl x (by simp)
    have hstep : acc + x = acc ||| x := add_eq_or_small acc hacc x hx (hdisj x (by simp))
    rw [List.nodup_cons] at hnd
    simp only [List.foldl_cons, hstep]
    apply ih
    · exact Nat.or_lt_two_pow hacc (pows_lt x hx)
    · intro y hy; exact hl y (by simp [hy])
    · exact hnd.2
    · intro y hy
      have hy' : y ∈ pows := hl y (by simp [hy])
      have hne : x ≠ y := by
        intro h; subst h; exact hnd.1 hy
      rw [Nat.and_or_distrib_right, hdisj y (by simp [hy]), pows_and_ne x hx y hy' hne]
      rfl

theorem sum_eq_orMask (l : List Nat) (hl : ∀ x ∈ l, x ∈ pows) (hnd : l.Nodup) :
    l.foldl (· + ·) 0 = orMask l := by
  unfold orMask
  exact foldl_add_eq_foldl_or l 0 (by decide) hl hnd (by intro x _; simp)

/-! ## `orMask` by bits -/

theorem foldl_or_testBit (l : List Nat) (acc k : Nat) :
    (l.foldl (· ||| ·) acc).testBit k = (acc.testBit k || l.any (·.testBit k)) := by
  induction l generalizing acc with
  | nil => simp
  | cons x rest ih => simp [ih, Bool.or_assoc]

theorem orMask_testBit (l : List Nat) (k : Nat) :
    (orMask l).testBit k = l.any (·.testBit k) := by
  simp [orMask, foldl_or_testBit]

theorem orMask_congr (l₁ l₂ : List Nat) (h : ∀ x, x ∈ l₁ ↔ x ∈ l₂) : orMask l₁ = orMask l₂ := by
  apply Nat.eq_of_testBit_eq
  intro k
  rw [orMask_testBit, orMask_testBit, Bool.eq_iff_iff]
  simp only [List.any_eq_true]
  constructor
  · rintro ⟨x, hx, hb⟩; exact ⟨x, (h x).1 hx, hb⟩
  · rintro ⟨x, hx, hb⟩; exact ⟨x, (h x).2 hx, hb⟩

/-! ## `dedup` -/

theorem dedup_go_mem (l acc : List Nat) (x : Nat) :
    x ∈ l.foldl (fun acc x => if acc.contains x then acc else acc ++ [x]) acc ↔ x ∈ acc ∨ x ∈ l := by
  induction l generalizing acc with
  | nil => simp
  | cons y rest ih =>
    simp only [List.foldl_cons, ih]
    by_cases hy : y ∈ acc
    · simp only [List.contains_iff_mem, hy, if_true, List.mem_cons]
      constructor
      · rintro (h | h)
        · exact .inl h
        · exact .inr (.inr h)
      · rintro (h | h | h)
        · exact .inl h
        · exact .inl (h ▸ hy)
        · exact .inr h
    · simp only [List.contains_iff_mem, hy, if_false, List.mem_append, List.mem_cons,
        List.not_mem_nil, or_false]
      constructor
      · rintro ((h | h) | h)
        · exact .inl h
        · exact .inr (.inl h)
        · exact .inr (.inr h)
      · rintro (h | h | h)
        · exact .inl (.inl h)
        · exact .inl (.inr h)
        · exact .inr h

theorem dedup_go_nodup (l acc : List Nat) (hacc : acc.Nodup) :
    (l.foldl (fun acc x => if acc.contains x then acc else acc ++ [x]) acc).Nodup := by
  induction l generalizing acc with
  | nil => simpa using hacc
  | cons y rest ih =>
    simp only [List.foldl_cons]
    apply ih
    by_cases hy' : y ∈ acc
    · simpa [hy'] using hacc
    · simp only [List.contains_iff_mem, hy', if_false]
      rw [List.nodup_append]
      refine ⟨hacc, by simp, ?_⟩
      intro a ha b hb
      simp at hb
      subst hb
      intro h; subst h; exact hy' ha

theorem mem_dedup (l : List Nat) (x : Nat) : x ∈ dedup l ↔ x ∈ l := by
  unfold dedup
  rw [dedup_go_mem]
  simp

theorem dedup_nodup (l : List Nat) : (dedup l).Nodup := by
  unfold dedup
  exact dedup_go_nodup l [] (by simp)

theorem sumSet_eq_orMask (vs : List Nat) (h : ∀ x ∈ vs, x ∈ pows) : sumSet vs = orMask vs := by
  unfold sumSet
  rw [sum_eq_orMask (dedup vs) (fun x hx => h x ((mem_dedup vs x).1 hx)) (dedup_nodup vs)]
  exact orMask_congr _ _ (mem_dedup vs)

/-! ## `fillSlots.go` -/

theorem fillSlots_go_length (tv slots : List Nat) (vols : List Int) :
    (fillSlots.go tv slots vols).length = slots.length := by
  induction slots generalizing vols with
  | nil => simp [fillSlots.go]
  | cons t rest ih =>
    unfold fillSlots.go
    split
    · split <;> simp [ih]
    · simp [ih]

theorem fillSlots_go_some (tv slots : List Nat) (vols : List Int) (i : Nat) :
    ((fillSlots.go tv slots vols)[i]?.join).isSome → ∃ t, slots[i]? = some t ∧ t ∈ tv := by
  induction slots generalizing vols i with
  | nil => simp [fillSlots.go]
  | cons t rest ih =>
    unfold fillSlots.go
    split
    · rename_i ht
      have ht' : t ∈ tv := by simpa using ht
      split
      · cases i with
        | zero => intro _; exact ⟨t, by simp, ht'⟩
        | succ j => simpa using ih _ j
      · cases i with
        | zero => simp
        | succ j => simpa using ih _ j
    · cases i with
      | zero => simp
      | succ j => simpa using ih _ j

theorem fillSlots_go_filterMap (tv slots : List Nat) (vols : List Int) :
    (fillSlots.go tv slots vols).filterMap id
      = vols.take (slots.filter (fun t => tv.contains t)).length := by
  induction slots generalizing vols with
  | nil => simp [fillSlots.go]
  | cons t rest ih =>
    unfold fillSlots.go
    split
    · rename_i ht
      have ht' : t ∈ tv := by simpa using ht
      split
      · simp [ih, ht']
      · simp [ih]
    · rename_i ht
      have ht' : t ∉ tv := by simpa using ht
      simp [ih, ht']

theorem filter_contains_length (tv slots : List Nat) (hs : slots.Nodup) (hnd : tv.Nodup)
    (hsub : ∀ x ∈ tv, x ∈ slots) :
    (slots.filter (fun t => tv.contains t)).length = tv.length := by
  apply List.Perm.length_eq
  rw [List.perm_ext_iff_of_nodup (hs.filter _) hnd]
  intro a
  simp only [List.mem_filter, List.contains_iff_mem]
  constructor
  · exact fun h => h.2
  · exact fun h => ⟨hsub a h, h⟩

end Robotools
