/-
  Robotools.Proofs.DistBlock — `compileDistribute` is a safe block (C03) that re-establishes the replay/tracking
  match on success (C01), under the side conditions `Dist.DistOK`.
-/
import Robotools.Proofs.DistLemmas
namespace Robotools
namespace Dist
open RP

theorem safe_compileDistribute {dev : Device} {labs₀ : List Labware} {I} (hwf : WFI I) (cfg : Cfg)
    (hdev : cfg.dev = dev) (S D : Labware) (a : DistArgs)
    (hIs : ∃ n, I[a.src]? = some (S.name, S.geom, n)) (hId : ∃ n, I[a.dst]? = some (D.name, D.geom, n))
    (hok : DistOK dev S D a) : SafeBlock dev labs₀ I (compileDistribute cfg S D a) := by
  obtain ⟨hne, hsrcok, hc0, hnodup⟩ := hok
  cases hvr : S.geom.vrows with
  | none => unfold compileDistribute; simp only [hvr]; exact single_neutral _ rfl
  | some vr =>
  by_cases hvolM : cfg.maxVolume < a.vol.q
  · unfold compileDistribute; simp only [hvr, hvolM, if_true]; exact single_neutral _ rfl
  cases hps : (a.dstWells.flattenF.mapM fun w => cfg.dev.pos D.geom w) with
  | error e =>
    unfold compileDistribute; simp only [hvr, hvolM, if_false, hps, exceptMicros]; exact single_neutral _ rfl
  | ok ps =>
  by_cases hndw : a.dstWells.flattenF.Nodup
  swap
  · unfold compileDistribute
    simp only [hvr, hvolM, if_false, hps, exceptMicros, hndw, not_false_eq_true, if_true]
    exact single_neutral _ rfl
  cases hhead : (ps.mergeSort (· ≤ ·)).head? with
  | none =>
    unfold compileDistribute; simp only [hvr, hvolM, if_false, hps, exceptMicros, hndw, not_true_eq_false, hhead]; exact single_neutral _ rfl
  | some s =>
  cases hlast : (ps.mergeSort (· ≤ ·)).getLast? with
  | none =>
    unfold compileDistribute; simp only [hvr, hvolM, if_false, hps, exceptMicros, hndw, not_true_eq_false, hhead, hlast]
    exact single_neutral _ rfl
  | some e =>
  by_cases hc1 : a.srcCol < S.geom.cols
  swap
  · have hneg : ¬ a.srcCol < 0 := by omega
    unfold compileDistribute
    simp only [hvr, hvolM, if_false, hps, exceptMicros, hndw, not_true_eq_false, hhead, hlast, hc0, hc1, hneg, and_false, false_and]
    exact single_neutral _ rfl
  -- the main branch
  have heq : compileDistribute cfg S D a =
      compileRemove S a.src (Arr.scalar (wellId 0 a.srcCol.toNat))
          (Arr.scalar (a.vol.q * ((ps.mergeSort (· ≤ ·)).length : Rat))) (some a.label)
        ++ (match (match S.geom.resolveFlat (wellId 0 a.srcCol.toNat) with
                   | some i => Except.ok i | none => Except.error Err.reject : Except Err Nat) with
            | Except.ok i => [Micro.loadComp a.src i]
            | Except.error e => [Micro.fail e])
        ++ compileAdd D a.dst (Arr.vec a.dstWells.flattenF) (Arr.scalar a.vol.q) (some a.label) none true
        ++ commentMicros (some a.label)
        ++ compileRD cfg (distRD S D a ps s e) := by
    unfold compileDistribute distRD
    simp only [hvr, hvolM, if_false, hps, exceptMicros, hndw, not_true_eq_false, hhead, hlast, hc0, hc1, and_self, if_true]
    congr 1; congr 1; congr 1; congr 1
    cases S.geom.resolveFlat (wellId 0 a.srcCol.toNat) <;> rfl
  rw [heq]
  clear heq
  set rdargs := distRD S D a ps s e with hrdargs
  set c := a.srcCol.toNat with hc
  have hcc : (c : Int) = a.srcCol := by rw [hc]; omega
  set dws := a.dstWells.flattenF with hdws
  set n := (ps.mergeSort (· ≤ ·)).length with hn
  have hperm : (ps.mergeSort (· ≤ ·)).Perm ps := List.mergeSort_perm _ _
  have hnps : n = ps.length := hperm.length_eq
  have hF := mapM_pos_spec (dev := cfg.dev) (g := D.geom) hps
  have hdne : dws ≠ [] := by
    intro h0
    rw [h0] at hF
    cases hF
    simp at hhead
  intro w hI hinv
  obtain ⟨st, hrun, hM⟩ := hinv
  -- everything before the record is quiet
  set A := compileRemove S a.src (Arr.scalar (wellId 0 c)) (Arr.scalar (a.vol.q * (n : Rat))) (some a.label) with hA
  set B := (match (match S.geom.resolveFlat (wellId 0 c) with
                   | some i => Except.ok i | none => Except.error Err.reject : Except Err Nat) with
            | Except.ok i => [Micro.loadComp a.src i]
            | Except.error e => [Micro.fail e]) with hB
  set C := compileAdd D a.dst (Arr.vec dws) (Arr.scalar a.vol.q) (some a.label) none true with hC
  set Cm := commentMicros (some a.label) with hCm
  have hquiet : ∀ m ∈ A ++ B ++ C ++ Cm, quiet m := by
    intro m hm
    simp only [List.mem_append] at hm
    rcases hm with ((hm | hm) | hm) | hm
    · exact compileRemove_quiet _ _ _ _ _ m hm
    · rw [hB] at hm
      split at hm <;> (simp only [List.mem_singleton] at hm; subst hm; exact Or.inl rfl)
    · exact compileAdd_quiet _ _ _ _ _ _ _ m hm
    · exact Or.inr (commentMicros_neutral _ m hm)
  rw [World.exec_append]
  obtain ⟨nrecs, hnr, hrecs⟩ := quiet_exec w (A ++ B ++ C ++ Cm) hquiet
  cases hx : w.exec (A ++ B ++ C ++ Cm) with
  | mk w1 e1 =>
  rw [hx] at hrecs
  simp only at hrecs
  have hrun1 : (RState.ofLabs labs₀).run dev w1.recs = some st := by
    rw [hrecs, run_append, hrun, Option.bind_some]; exact run_neutral dev st nrecs hnr
  cases e1 with
  | some err => exact ⟨⟨st, hrun1⟩, fun h => by cases h⟩
  | none =>
  simp only
  rcases compileRD_cases cfg rdargs with ⟨err, hrd⟩ | hrd
  · rw [hrd, World.exec_cons_error (e := err) _ (by simp [World.micro])]
    exact ⟨⟨st, hrun1⟩, fun h => by cases h⟩
  rw [hrd]
  set f : RFields := rdFields cfg rdargs with hfdef
  have hexec : w1.exec [Micro.emit (Rec.rd f)] = ({ w1 with recs := w1.recs ++ [Rec.rd f] }, none) := by
    rw [World.exec_cons_ok (w' := { w1 with recs := w1.recs ++ [Rec.rd f] }) _ rfl, World.exec_nil]
  rw [hexec]
  simp only
  -- the successful run of the quiet part, step by step
  have hxA := Amt.exec_append_ok (a := A ++ B ++ C) (b := Cm) (by rw [hx])
  have hxB := Amt.exec_append_ok (a := A ++ B) (b := C) hxA.1
  have hxC := Amt.exec_append_ok (a := A) (b := B) hxB.1
  obtain ⟨S0, hS0, hnS, hgS⟩ := lab_of_info hI hIs
  obtain ⟨D0, hD0, hnD, hgD⟩ := lab_of_info hI hId
  -- A: one removal
  have hx0 : ¬ a.vol.q * (n : Rat) < 0 := by
    intro hlt
    have h := hxC.1
    rw [hA, compileRemove_neg _ _ _ _ _ hlt] at h
    simp [World.exec, World.micro] at h
  cases hres : S.geom.resolveFlat (wellId 0 c) with
  | none =>
    exfalso
    have h := hxC.1
    rw [hA, compileRemove_scalar _ _ _ _ _ hx0, hres] at h
    simp [World.exec, World.micro] at h
  | some i =>
  have hAeq : A = [Micro.rm a.src i (a.vol.q * (n : Rat)), Micro.log a.src (some a.label)] := by
    rw [hA, compileRemove_scalar _ _ _ _ _ hx0, hres]
  have hBeq : B = [Micro.loadComp a.src i] := by rw [hB, hres]
  cases hm1 : w.micro (Micro.rm a.src i (a.vol.q * (n : Rat))) with
  | error err =>
    exfalso
    have h := hxC.1
    rw [hAeq, World.exec_cons_error _ hm1] at h
    cases h
  | ok wa =>
  obtain ⟨S0', S1, hS0', hstep, rfl⟩ := micro_rm_ok hm1
  rw [hS0] at hS0'; cases hS0'
  have hS1at : (w.setLab a.src S1).labs[a.src]? = some S1 := getElem?_setLab_self hS0
  have hm2 : (w.setLab a.src S1).micro (Micro.log a.src (some a.label))
      = .ok ((w.setLab a.src S1).setLab a.src (S1.log (some a.label))) := by
    simp [World.micro, hS1at]
  have hexA : w.exec A = ((w.setLab a.src S1).setLab a.src (S1.log (some a.label)), none) := by
    rw [hAeq, World.exec_cons_ok _ hm1, World.exec_cons_ok _ hm2, World.exec_nil]
  have hwAsrc : ((w.setLab a.src S1).setLab a.src (S1.log (some a.label))).labs[a.src]?
      = some (S1.log (some a.label)) := getElem?_setLab_self hS1at
  have hexB : ((w.setLab a.src S1).setLab a.src (S1.log (some a.label))).exec B
      = ({ ((w.setLab a.src S1).setLab a.src (S1.log (some a.label))) with
            carry := (S1.log (some a.label)).wellComp i }, none) := by
    rw [hBeq, World.exec_cons_ok (w' := { ((w.setLab a.src S1).setLab a.src (S1.log (some a.label))) with
      carry := (S1.log (some a.label)).wellComp i }) _ (by simp [World.micro, hwAsrc]), World.exec_nil]
  generalize hwBdef : ({ ((w.setLab a.src S1).setLab a.src (S1.log (some a.label))) with
      carry := (S1.log (some a.label)).wellComp i } : World) = wB at hexB
  have hwBlabs : wB.labs = w.labs.set a.src (S1.log (some a.label)) := by
    rw [← hwBdef]; simp only [World.setLab, List.set_set]
  have hwBrecs : wB.recs = w.recs := by rw [← hwBdef]; rfl
  have hAB : w.exec (A ++ B) = (wB, none) := by rw [World.exec_append, hexA]; exact hexB
  -- C: the additions
  have hxCadd : (wB.exec C).2 = none := by
    have h := hxB.2
    rw [hAB] at h
    simp only at h
    rw [h]; exact hxA.1
  have hv0 : ¬ a.vol.q < 0 := by
    intro hlt
    rw [hC, compileAdd_neg _ _ _ _ _ hlt hdne] at hxCadd
    simp [World.exec, World.micro] at hxCadd
  have hCeq : C = adsOf D.geom a.dst a.vol.q dws ++ [Micro.log a.dst (some a.label)] := by
    rw [hC, compileAdd_carry _ _ _ _ _ hv0 hdne]
  rw [hCeq] at hxCadd
  obtain ⟨hads, hlogpart⟩ := Amt.exec_append_ok hxCadd
  have hnofail : ∀ e', Micro.fail e' ∉ adsOf D.geom a.dst a.vol.q dws :=
    fun e' he => exec_fail_mem wB _ e' he hads
  obtain ⟨js, hjs, hadsEq⟩ := adsOf_resolved D.geom a.dst a.vol.q dws hnofail
  have hD0B : wB.labs[a.dst]? = some D0 := by
    rw [hwBlabs, List.getElem?_set_ne hne]; exact hD0
  cases hxads : wB.exec (adsOf D.geom a.dst a.vol.q dws) with
  | mk wC0 e0 =>
  rw [hxads] at hads
  simp only at hads
  subst hads
  obtain ⟨Dn, hlabsC0, haddC, hssD, hrecsC0, _⟩ :=
    exec_ads a.dst a.vol.q js wB wC0 D0 hD0B (by rw [← hadsEq]; exact hxads)
  have hDnat : wC0.labs[a.dst]? = some Dn := by
    rw [hlabsC0]
    exact List.getElem?_set_self (List.getElem?_eq_some_iff.1 hD0B).1
  have hexLog : wC0.exec [Micro.log a.dst (some a.label)] = (wC0.setLab a.dst (Dn.log (some a.label)), none) := by
    rw [World.exec_cons_ok (w' := wC0.setLab a.dst (Dn.log (some a.label))) _ (by simp [World.micro, hDnat]),
      World.exec_nil]
  have hexC : w.exec (A ++ B ++ C) = (wC0.setLab a.dst (Dn.log (some a.label)), none) := by
    rw [World.exec_append, hAB, hCeq]
    simp only
    rw [World.exec_append, hxads]
    exact hexLog
  -- comments change no labware
  obtain ⟨ncm, _, _, hMcm⟩ := neutral_exec (wC0.setLab a.dst (Dn.log (some a.label))) Cm
    (commentMicros_neutral (some a.label))
  have hw1 : w1 = ((wC0.setLab a.dst (Dn.log (some a.label))).exec Cm).1 := by
    have h := hxA.2
    rw [hexC] at h
    simp only at h
    rw [hx] at h
    rw [h]
  -- the replay of the record
  obtain ⟨hic, hccols⟩ := resolve_trough_col hvr hres
  have hgS0 : GeomOK S0.geom S0.vols.length := geomOK_of_mem hI hwf hS0
  have hvr0 : S0.geom.vrows = some vr := by rw [hgS]; exact hvr
  have hi : i < S0.vols.length := by
    rw [hgS0.len, (hgS0.trough vr hvr0).1, hgS, hic, Nat.one_mul]; exact hccols
  have hrows : 0 < S0.geom.nRowIds := by
    have := (hgS0.trough vr hvr0).2
    simp only [Geom.nRowIds, hvr0]; omega
  have hnd : ps.Nodup := by
    rcases hnodup with hinj | hnd
    · refine nodup_pos (dev := dev) (g := D.geom) hinj (by rw [← hdev]; exact hF) ?_ hndw
      intro w' hw'
      have hmem : D.geom.resolveFlat w' ∈ dws.map D.geom.resolveFlat := List.mem_map_of_mem hw'
      rw [hjs] at hmem
      obtain ⟨j, _, hj⟩ := List.mem_map.1 hmem
      unfold Geom.resolveFlat at hj
      cases hr : D.geom.resolve w' with
      | none => rw [hr] at hj; cases hj
      | some _ => rfl
    · exact hnd ps (by rw [← hdev]; exact hps)
  have hv : 0 ≤ a.vol.q := not_lt.mp hv0
  have hps' : (dws.mapM fun w' => dev.pos D0.geom w') = .ok ps := by rw [hgD, ← hdev]; exact hps
  have hjs' : dws.map D0.geom.resolveFlat = js.map some := by rw [hgD]; exact hjs
  have hrm' : S0.removeStep i (a.vol.q * (ps.length : Rat)) = .ok S1 := by rw [← hnps]; exact hstep
  obtain ⟨st', Rs', Rd', hint, hstlabs, hRsM, hRdS, hRdV, hRdLen⟩ :=
    interp_rd (dev := dev) hM hI hwf hne hS0 hD0 c i hi
      (by intro m hm; rw [hgS, hic]; exact hsrcok vr hvr c hccols m (by rw [← hgS]; exact hm))
      hrows hps' hjs' hnd hhead hlast a.vol hv hrm' haddC f
      (by rw [hfdef, hrdargs]; simp only [rdFields, distRD]; exact hnS.symm)
      (by rw [hfdef, hrdargs]; simp only [rdFields, distRD]; exact hnD.symm)
      (by rw [hfdef, hrdargs]; simp only [rdFields, distRD]; rw [hgS, ← hcc])
      (by rw [hfdef, hrdargs]; simp only [rdFields, distRD]; rw [hgS])
      (by rw [hfdef, hrdargs]; simp only [rdFields, distRD])
      (by rw [hfdef, hrdargs]; simp only [rdFields, distRD])
      (by rw [hfdef, hrdargs]; simp only [rdFields, distRD])
      (by rw [hfdef, hrdargs]; simp only [rdFields, distRD])
  have hrunF : (RState.ofLabs labs₀).run dev (w1.recs ++ [Rec.rd f]) = some st' := by
    rw [run_append, hrun1, Option.bind_some]
    simp only [RState.run, hint, Option.bind_some]
  refine ⟨⟨st', hrunF⟩, fun _ => ⟨st', hrunF, ?_⟩⟩
  -- the replay mirrors the tracking again
  have hMC : Match st' (wC0.setLab a.dst (Dn.log (some a.label))) := by
    show List.Forall₂ LabMatch st'.labs ((wC0.setLab a.dst (Dn.log (some a.label))).labs)
    rw [hstlabs]
    simp only [World.setLab, hlabsC0, hwBlabs, List.set_set]
    apply forall₂_set (forall₂_set hM a.src ((Amt.sameLiquid_log S1 (some a.label)).labMatch hRsM)) a.dst
    refine ⟨?_, ?_, ?_, ?_, ?_⟩
    · rw [hRdS.name]; exact hssD.name.symm
    · rw [hRdS.geom]; exact hssD.geom.symm
    · rw [hRdS.minV]; exact hssD.minV.symm
    · rw [hRdS.maxV]; exact hssD.maxV.symm
    · exact hRdV
  show Match st' { w1 with recs := w1.recs ++ [Rec.rd f] }
  have : Match st' w1 := by rw [hw1]; exact hMcm st' hMC
  exact this

end Dist
end Robotools
