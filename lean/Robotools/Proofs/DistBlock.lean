/-
  Robotools.Proofs.DistBlock — `compileDistribute` is a safe block (C03) that re-establishes the replay/tracking
  match on success (C01), under the side conditions `Dist.DistOK`.
-/
import Robotools.Proofs.DistAmt
namespace Robotools
namespace Dist
open RP Amt C05

/-- What `dist_core` proves of the micro-operation list of one `distribute`: from a state whose records replay to
    `st` mirroring the tracked volumes, the records present after the run — wherever it stops — replay; when it
    runs to the end the replay mirrors the tracked volumes again, and (from a good state in which the replay also
    mirrors the component amounts) the component amounts too — also for volume 0. -/
def DistP (dev : Device) (labs₀ : List Labware) (I : List (String × Geom × Nat)) (a : DistArgs)
    (ms : List Micro) : Prop :=
  ∀ w, info w = I → ∀ st, (RState.ofLabs labs₀).run dev w.recs = some st → Match st w →
    Replayable dev labs₀ (w.exec ms).1 ∧ ((w.exec ms).2 = none →
      ∃ st', (RState.ofLabs labs₀).run dev (w.exec ms).1.recs = some st' ∧ Match st' (w.exec ms).1
        ∧ (Good w → AmtOK st w → AmtOK st' (w.exec ms).1 ∧ Good (w.exec ms).1))

theorem distP_fail {dev labs₀ I a} (e : Err) : DistP dev labs₀ I a [.fail e] := by
  intro w _ st hrun _
  rw [World.exec_cons_error (e := e) _ (by simp [World.micro])]
  exact ⟨⟨st, hrun⟩, fun h => by cases h⟩

theorem exec_emits_labs (w : World) (rs : List Rec) : (w.exec (rs.map Micro.emit)).1.labs = w.labs := by
  induction rs generalizing w with
  | nil => rfl
  | cons r rest ih =>
    rw [List.map_cons, World.exec_cons_ok (w' := { w with recs := w.recs ++ [r] }) _ (by simp [World.micro])]
    exact ih _

theorem exec_comment_labs (w : World) (c : Option String) : (w.exec (commentMicros c)).1.labs = w.labs := by
  unfold commentMicros exceptMicros
  cases commentRecs c with
  | error e => simp only; rw [World.exec_cons_error (e := e) _ (by simp [World.micro])]
  | ok rs => simp only; exact exec_emits_labs w rs

theorem dist_core {dev : Device} {labs₀ : List Labware} {I} (hwf : WFI I) (cfg : Cfg)
    (hdev : cfg.dev = dev) (S D : Labware) (a : DistArgs)
    (hIs : ∃ n, I[a.src]? = some (S.name, S.geom, n)) (hId : ∃ n, I[a.dst]? = some (D.name, D.geom, n))
    (hok : DistOK dev S D a) : DistP dev labs₀ I a (compileDistribute cfg S D a) := by
  obtain ⟨hne, hsrcok, hc0, hnodup⟩ := hok
  cases hvr : S.geom.vrows with
  | none => unfold compileDistribute; simp only [hvr]; exact distP_fail _
  | some vr =>
  by_cases hvolM : cfg.maxVolume < a.vol.q
  · unfold compileDistribute; simp only [hvr, hvolM, if_true]; exact distP_fail _
  cases hps : (a.dstWells.flattenF.mapM fun w => cfg.dev.pos D.geom w) with
  | error e =>
    unfold compileDistribute; simp only [hvr, hvolM, if_false, hps, exceptMicros]; exact distP_fail _
  | ok ps =>
  by_cases hndw : a.dstWells.flattenF.Nodup
  swap
  · unfold compileDistribute
    simp only [hvr, hvolM, if_false, hps, exceptMicros, hndw, not_false_eq_true, if_true]
    exact distP_fail _
  cases hhead : (ps.mergeSort (· ≤ ·)).head? with
  | none =>
    unfold compileDistribute; simp only [hvr, hvolM, if_false, hps, exceptMicros, hndw, not_true_eq_false, hhead]; exact distP_fail _
  | some s =>
  cases hlast : (ps.mergeSort (· ≤ ·)).getLast? with
  | none =>
    unfold compileDistribute; simp only [hvr, hvolM, if_false, hps, exceptMicros, hndw, not_true_eq_false, hhead, hlast]
    exact distP_fail _
  | some e =>
  by_cases hc1 : a.srcCol < S.geom.cols
  swap
  · have hneg : ¬ a.srcCol < 0 := by omega
    unfold compileDistribute
    simp only [hvr, hvolM, if_false, hps, exceptMicros, hndw, not_true_eq_false, hhead, hlast, hc0, hc1, hneg, and_false, false_and]
    exact distP_fail _
  -- the main branch
  have heq : compileDistribute cfg S D a =
      compileRemove S a.src (Arr.scalar (wellId 0 a.srcCol.toNat))
          (Arr.scalar (a.vol.q * ((ps.mergeSort (· ≤ ·)).length : Rat))) (some a.label)
        ++ (match (match S.geom.resolveFlat (wellId 0 a.srcCol.toNat) with
                   | some i => Except.ok i | none => Except.error Err.reject : Except Err Nat) with
            | Except.ok i => [Micro.loadComp a.src i]
            | Except.error e => [Micro.fail e])
        ++ compileAdd D a.dst (Arr.vec a.dstWells.flattenF) (Arr.scalar a.vol.q) (some a.label) none true
        ++ commentMicros (some a.label)
        ++ compileRD cfg (distRD S D a ps s e) := by
    unfold compileDistribute distRD
    simp only [hvr, hvolM, if_false, hps, exceptMicros, hndw, not_true_eq_false, hhead, hlast, hc0, hc1, and_self, if_true]
    congr 1; congr 1; congr 1; congr 1
    cases S.geom.resolveFlat (wellId 0 a.srcCol.toNat) <;> rfl
  rw [heq]
  clear heq
  set rdargs := distRD S D a ps s e with hrdargs
  set c := a.srcCol.toNat with hc
  have hcc : (c : Int) = a.srcCol := by rw [hc]; omega
  set dws := a.dstWells.flattenF with hdws
  set n := (ps.mergeSort (· ≤ ·)).length with hn
  have hperm : (ps.mergeSort (· ≤ ·)).Perm ps := List.mergeSort_perm _ _
  have hnps : n = ps.length := hperm.length_eq
  have hF := mapM_pos_spec (dev := cfg.dev) (g := D.geom) hps
  have hdne : dws ≠ [] := by
    intro h0
    rw [h0] at hF
    cases hF
    simp at hhead
  intro w hI st hrun hM
  -- everything before the record is quiet
  set A := compileRemove S a.src (Arr.scalar (wellId 0 c)) (Arr.scalar (a.vol.q * (n : Rat))) (some a.label) with hA
  set B := (match (match S.geom.resolveFlat (wellId 0 c) with
                   | some i => Except.ok i | none => Except.error Err.reject : Except Err Nat) with
            | Except.ok i => [Micro.loadComp a.src i]
            | Except.error e => [Micro.fail e]) with hB
  set C := compileAdd D a.dst (Arr.vec dws) (Arr.scalar a.vol.q) (some a.label) none true with hC
  set Cm := commentMicros (some a.label) with hCm
  have hquiet : ∀ m ∈ A ++ B ++ C ++ Cm, quiet m := by
    intro m hm
    simp only [List.mem_append] at hm
    rcases hm with ((hm | hm) | hm) | hm
    · exact compileRemove_quiet _ _ _ _ _ m hm
    · rw [hB] at hm
      split at hm <;> (simp only [List.mem_singleton] at hm; subst hm; exact Or.inl rfl)
    · exact compileAdd_quiet _ _ _ _ _ _ _ m hm
    · exact Or.inr (commentMicros_neutral _ m hm)
  rw [World.exec_append]
  obtain ⟨nrecs, hnr, hrecs⟩ := quiet_exec w (A ++ B ++ C ++ Cm) hquiet
  cases hx : w.exec (A ++ B ++ C ++ Cm) with
  | mk w1 e1 =>
  rw [hx] at hrecs
  simp only at hrecs
  have hrun1 : (RState.ofLabs labs₀).run dev w1.recs = some st := by
    rw [hrecs, run_append, hrun, Option.bind_some]; exact run_neutral dev st nrecs hnr
  cases e1 with
  | some err => exact ⟨⟨st, hrun1⟩, fun h => by cases h⟩
  | none =>
  simp only
  rcases compileRD_cases cfg rdargs with ⟨err, hrd⟩ | hrd
  · rw [hrd, World.exec_cons_error (e := err) _ (by simp [World.micro])]
    exact ⟨⟨st, hrun1⟩, fun h => by cases h⟩
  rw [hrd]
  set f : RFields := rdFields cfg rdargs with hfdef
  have hexec : w1.exec [Micro.emit (Rec.rd f)] = ({ w1 with recs := w1.recs ++ [Rec.rd f] }, none) := by
    rw [World.exec_cons_ok (w' := { w1 with recs := w1.recs ++ [Rec.rd f] }) _ rfl, World.exec_nil]
  rw [hexec]
  simp only
  -- the successful run of the quiet part, step by step
  have hxA := Amt.exec_append_ok (a := A ++ B ++ C) (b := Cm) (by rw [hx])
  have hxB := Amt.exec_append_ok (a := A ++ B) (b := C) hxA.1
  have hxC := Amt.exec_append_ok (a := A) (b := B) hxB.1
  obtain ⟨S0, hS0, hnS, hgS⟩ := lab_of_info hI hIs
  obtain ⟨D0, hD0, hnD, hgD⟩ := lab_of_info hI hId
  -- A: one removal
  have hx0 : ¬ a.vol.q * (n : Rat) < 0 := by
    intro hlt
    have h := hxC.1
    rw [hA, compileRemove_neg _ _ _ _ _ hlt] at h
    simp [World.exec, World.micro] at h
  cases hres : S.geom.resolveFlat (wellId 0 c) with
  | none =>
    exfalso
    have h := hxC.1
    rw [hA, compileRemove_scalar _ _ _ _ _ hx0, hres] at h
    simp [World.exec, World.micro] at h
  | some i =>
  have hAeq : A = [Micro.rm a.src i (a.vol.q * (n : Rat)), Micro.log a.src (some a.label)] := by
    rw [hA, compileRemove_scalar _ _ _ _ _ hx0, hres]
  have hBeq : B = [Micro.loadComp a.src i] := by rw [hB, hres]
  cases hm1 : w.micro (Micro.rm a.src i (a.vol.q * (n : Rat))) with
  | error err =>
    exfalso
    have h := hxC.1
    rw [hAeq, World.exec_cons_error _ hm1] at h
    cases h
  | ok wa =>
  obtain ⟨S0', S1, hS0', hstep, rfl⟩ := micro_rm_ok hm1
  rw [hS0] at hS0'; cases hS0'
  have hS1at : (w.setLab a.src S1).labs[a.src]? = some S1 := getElem?_setLab_self hS0
  have hm2 : (w.setLab a.src S1).micro (Micro.log a.src (some a.label))
      = .ok ((w.setLab a.src S1).setLab a.src (S1.log (some a.label))) := by
    simp [World.micro, hS1at]
  have hexA : w.exec A = ((w.setLab a.src S1).setLab a.src (S1.log (some a.label)), none) := by
    rw [hAeq, World.exec_cons_ok _ hm1, World.exec_cons_ok _ hm2, World.exec_nil]
  have hwAsrc : ((w.setLab a.src S1).setLab a.src (S1.log (some a.label))).labs[a.src]?
      = some (S1.log (some a.label)) := getElem?_setLab_self hS1at
  have hexB : ((w.setLab a.src S1).setLab a.src (S1.log (some a.label))).exec B
      = ({ ((w.setLab a.src S1).setLab a.src (S1.log (some a.label))) with
            carry := (S1.log (some a.label)).wellComp i }, none) := by
    rw [hBeq, World.exec_cons_ok (w' := { ((w.setLab a.src S1).setLab a.src (S1.log (some a.label))) with
      carry := (S1.log (some a.label)).wellComp i }) _ (by simp [World.micro, hwAsrc]), World.exec_nil]
  generalize hwBdef : ({ ((w.setLab a.src S1).setLab a.src (S1.log (some a.label))) with
      carry := (S1.log (some a.label)).wellComp i } : World) = wB at hexB
  have hwBlabs : wB.labs = w.labs.set a.src (S1.log (some a.label)) := by
    rw [← hwBdef]; simp only [World.setLab, List.set_set]
  have hwBrecs : wB.recs = w.recs := by rw [← hwBdef]; rfl
  have hAB : w.exec (A ++ B) = (wB, none) := by rw [World.exec_append, hexA]; exact hexB
  -- C: the additions
  have hxCadd : (wB.exec C).2 = none := by
    have h := hxB.2
    rw [hAB] at h
    simp only at h
    rw [h]; exact hxA.1
  have hv0 : ¬ a.vol.q < 0 := by
    intro hlt
    rw [hC, compileAdd_neg _ _ _ _ _ hlt hdne] at hxCadd
    simp [World.exec, World.micro] at hxCadd
  have hCeq : C = adsOf D.geom a.dst a.vol.q dws ++ [Micro.log a.dst (some a.label)] := by
    rw [hC, compileAdd_carry _ _ _ _ _ hv0 hdne]
  rw [hCeq] at hxCadd
  obtain ⟨hads, hlogpart⟩ := Amt.exec_append_ok hxCadd
  have hnofail : ∀ e', Micro.fail e' ∉ adsOf D.geom a.dst a.vol.q dws :=
    fun e' he => exec_fail_mem wB _ e' he hads
  obtain ⟨js, hjs, hadsEq⟩ := adsOf_resolved D.geom a.dst a.vol.q dws hnofail
  have hD0B : wB.labs[a.dst]? = some D0 := by
    rw [hwBlabs, List.getElem?_set_ne hne]; exact hD0
  cases hxads : wB.exec (adsOf D.geom a.dst a.vol.q dws) with
  | mk wC0 e0 =>
  rw [hxads] at hads
  simp only at hads
  subst hads
  obtain ⟨Dn, hlabsC0, haddC, hssD, hrecsC0, _⟩ :=
    exec_ads a.dst a.vol.q js wB wC0 D0 hD0B (by rw [← hadsEq]; exact hxads)
  have hDnat : wC0.labs[a.dst]? = some Dn := by
    rw [hlabsC0]
    exact List.getElem?_set_self (List.getElem?_eq_some_iff.1 hD0B).1
  have hexLog : wC0.exec [Micro.log a.dst (some a.label)] = (wC0.setLab a.dst (Dn.log (some a.label)), none) := by
    rw [World.exec_cons_ok (w' := wC0.setLab a.dst (Dn.log (some a.label))) _ (by simp [World.micro, hDnat]),
      World.exec_nil]
  have hexC : w.exec (A ++ B ++ C) = (wC0.setLab a.dst (Dn.log (some a.label)), none) := by
    rw [World.exec_append, hAB, hCeq]
    simp only
    rw [World.exec_append, hxads]
    exact hexLog
  -- comments change no labware
  obtain ⟨ncm, _, _, hMcm⟩ := neutral_exec (wC0.setLab a.dst (Dn.log (some a.label))) Cm
    (commentMicros_neutral (some a.label))
  have hw1 : w1 = ((wC0.setLab a.dst (Dn.log (some a.label))).exec Cm).1 := by
    have h := hxA.2
    rw [hexC] at h
    simp only at h
    rw [hx] at h
    rw [h]
  -- the replay of the record
  obtain ⟨hic, hccols⟩ := resolve_trough_col hvr hres
  have hgS0 : GeomOK S0.geom S0.vols.length := geomOK_of_mem hI hwf hS0
  have hvr0 : S0.geom.vrows = some vr := by rw [hgS]; exact hvr
  have hi : i < S0.vols.length := by
    rw [hgS0.len, (hgS0.trough vr hvr0).1, hgS, hic, Nat.one_mul]; exact hccols
  have hrows : 0 < S0.geom.nRowIds := by
    have := (hgS0.trough vr hvr0).2
    simp only [Geom.nRowIds, hvr0]; omega
  have hnd : ps.Nodup := by
    rcases hnodup with hinj | hnd
    · refine nodup_pos (dev := dev) (g := D.geom) hinj (by rw [← hdev]; exact hF) ?_ hndw
      intro w' hw'
      have hmem : D.geom.resolveFlat w' ∈ dws.map D.geom.resolveFlat := List.mem_map_of_mem hw'
      rw [hjs] at hmem
      obtain ⟨j, _, hj⟩ := List.mem_map.1 hmem
      unfold Geom.resolveFlat at hj
      cases hr : D.geom.resolve w' with
      | none => rw [hr] at hj; cases hj
      | some _ => rfl
    · exact hnd ps (by rw [← hdev]; exact hps)
  have hv : 0 ≤ a.vol.q := not_lt.mp hv0
  have hps' : (dws.mapM fun w' => dev.pos D0.geom w') = .ok ps := by rw [hgD, ← hdev]; exact hps
  have hjs' : dws.map D0.geom.resolveFlat = js.map some := by rw [hgD]; exact hjs
  have hrm' : S0.removeStep i (a.vol.q * (ps.length : Rat)) = .ok S1 := by rw [← hnps]; exact hstep
  obtain ⟨st', Rs', Rd', hint, hstlabs, hRsM, hRdS, hRdV, hRdLen⟩ :=
    interp_rd (dev := dev) hM hI hwf hne hS0 hD0 c i hi
      (by intro m hm; rw [hgS, hic]; exact hsrcok vr hvr c hccols m (by rw [← hgS]; exact hm))
      hrows hps' hjs' hnd hhead hlast a.vol hv hrm' haddC f
      (by rw [hfdef, hrdargs]; simp only [rdFields, distRD]; exact hnS.symm)
      (by rw [hfdef, hrdargs]; simp only [rdFields, distRD]; exact hnD.symm)
      (by rw [hfdef, hrdargs]; simp only [rdFields, distRD]; rw [hgS, ← hcc])
      (by rw [hfdef, hrdargs]; simp only [rdFields, distRD]; rw [hgS])
      (by rw [hfdef, hrdargs]; simp only [rdFields, distRD])
      (by rw [hfdef, hrdargs]; simp only [rdFields, distRD])
      (by rw [hfdef, hrdargs]; simp only [rdFields, distRD])
      (by rw [hfdef, hrdargs]; simp only [rdFields, distRD])
  have hrunF : (RState.ofLabs labs₀).run dev (w1.recs ++ [Rec.rd f]) = some st' := by
    rw [run_append, hrun1, Option.bind_some]
    simp only [RState.run, hint, Option.bind_some]
  -- the replay mirrors the tracking again
  have hMC : Match st' (wC0.setLab a.dst (Dn.log (some a.label))) := by
    show List.Forall₂ LabMatch st'.labs ((wC0.setLab a.dst (Dn.log (some a.label))).labs)
    rw [hstlabs]
    simp only [World.setLab, hlabsC0, hwBlabs, List.set_set]
    apply forall₂_set (forall₂_set hM a.src ((Amt.sameLiquid_log S1 (some a.label)).labMatch hRsM)) a.dst
    refine ⟨?_, ?_, ?_, ?_, ?_⟩
    · rw [hRdS.name]; exact hssD.name.symm
    · rw [hRdS.geom]; exact hssD.geom.symm
    · rw [hRdS.minV]; exact hssD.minV.symm
    · rw [hRdS.maxV]; exact hssD.maxV.symm
    · exact hRdV
  have hMatchF : Match st' { w1 with recs := w1.recs ++ [Rec.rd f] } := by
    show Match st' { w1 with recs := w1.recs ++ [Rec.rd f] }
    have : Match st' w1 := by rw [hw1]; exact hMcm st' hMC
    exact this
  refine ⟨⟨st', hrunF⟩, fun _ => ⟨st', hrunF, hMatchF, ?_⟩⟩
  -- the component amounts
  intro hG hA
  obtain ⟨hS0v, hS0c, hS0m⟩ := good_get hG hS0
  obtain ⟨hD0v, hD0c, hD0m⟩ := good_get hG hD0
  have hnpos : 0 < n := by
    rw [hn]
    cases hl : ps.mergeSort (· ≤ ·) with
    | nil => rw [hl] at hhead; cases hhead
    | cons _ _ => simp
  have hnv : 0 ≤ a.vol.q * (n : Rat) := mul_nonneg hv (by exact_mod_cast Nat.zero_le _)
  obtain ⟨hgeS, hvolsS, _, _, _, _, _, hcompS⟩ := Labware.removeStep_fields hstep
  obtain ⟨hS1c, _, hvolne⟩ := compValid_removeStep S0 S1 i _ hS0c hstep
  have hS1good : C02.LabValid S1 ∧ CompValid S1 ∧ Mixed S1 :=
    ⟨C02.removeStep_valid S0 S1 i _ hnv hS0v hstep, hS1c, mixed_removeStep hS0m hnv hS0v.min_nonneg hstep⟩
  have hS1Lgood := (sameLiquid_log S1 (some a.label)).good hS1good
  have hcarry : wB.carry = S1.wellComp i := by rw [← hwBdef]; rfl
  have htot : 0 < a.vol.q → Mix.total (S1.wellComp i) = 1 := by
    intro hpos
    rw [Mix.wellComp_eq, Mix.total_wc _ _ hS1c.nonneg, hcompS, ← fracSum_eq]
    rcases hS0m i hi with h1 | ⟨_, h0⟩
    · exact h1
    · exfalso
      have hge := hgeS
      rw [h0] at hge
      have hmn := hS0v.min_nonneg
      have hpp : 0 < a.vol.q * (n : Rat) := mul_pos hpos (by exact_mod_cast hnpos)
      apply hge; linarith
  have hfrac : ∀ k, compOf (S1.wellComp i) k = S0.frac i k := fun k => by
    rw [(wellComp_spec S1 i hS1c k).1, (removeStep_frac S0 S1 i _ hstep).2 i k]
  -- the additions
  have hgD0 : GeomOK D0.geom D0.vols.length := geomOK_of_mem hI hwf hD0
  have hjslt : ∀ j ∈ js, j < D0.vols.length := by
    obtain ⟨hjseq, hall⟩ := js_eq_map_wellIdx hgD0 (mapM_pos_spec hps') hjs'
    intro j hj
    rw [hjseq] at hj
    obtain ⟨p, hp, rfl⟩ := List.mem_map.1 hj
    obtain ⟨rc, hwo, hlt⟩ := hall p hp
    simp only [wellIdx, hwo]; exact hlt
  obtain ⟨Dn2, hlabs2, hDnGood, _, hDnamt⟩ :=
    exec_ads_amt a.dst a.vol.q hv js wB wC0 D0 hD0B ⟨hD0v, hD0c, hD0m⟩ hjslt
      (by rw [hcarry]; exact fun p hp => le_of_lt (Mix.wc_pos _ _ p hp)) (by rw [hcarry]; exact htot)
      (by rw [← hadsEq]; exact hxads)
  have hDn2 : Dn2 = Dn := by
    have h1 : wC0.labs[a.dst]? = some Dn2 := by
      rw [hlabs2]; exact List.getElem?_set_self (List.getElem?_eq_some_iff.1 hD0B).1
    rw [hDnat] at h1; exact (Option.some.inj h1).symm
  subst hDn2
  have hDnLgood := (sameLiquid_log Dn2 (some a.label)).good hDnGood
  -- the labware of the final world
  have hFlabs : w1.labs = (w.labs.set a.src (S1.log (some a.label))).set a.dst (Dn2.log (some a.label)) := by
    rw [hw1, hCm, exec_comment_labs]
    simp only [World.setLab, hlabsC0, hwBlabs, List.set_set]
  -- the replay, with amounts
  obtain ⟨st2, Rs2, Rd2, hint2, hlabsA, hSw, hDw⟩ :=
    interp_rd_amt (dev := dev) hM hA hI hwf hne hS0 hD0 c i hi
      (by intro m hm; rw [hgS, hic]; exact hsrcok vr hvr c hccols m (by rw [← hgS]; exact hm))
      hrows hps' hjs' hnd hhead hlast a.vol hv hrm' haddC f
      (by rw [hfdef, hrdargs]; simp only [rdFields, distRD]; exact hnS.symm)
      (by rw [hfdef, hrdargs]; simp only [rdFields, distRD]; exact hnD.symm)
      (by rw [hfdef, hrdargs]; simp only [rdFields, distRD]; rw [hgS, ← hcc])
      (by rw [hfdef, hrdargs]; simp only [rdFields, distRD]; rw [hgS])
      (by rw [hfdef, hrdargs]; simp only [rdFields, distRD])
      (by rw [hfdef, hrdargs]; simp only [rdFields, distRD])
      (by rw [hfdef, hrdargs]; simp only [rdFields, distRD])
      (by rw [hfdef, hrdargs]; simp only [rdFields, distRD])
      hS0v.min_nonneg
  have hst : st2 = st' := Option.some.inj (hint2.symm.trans hint)
  subst hst
  have hlenM : st.labs.length = w.labs.length := List.Forall₂.length_eq hM
  have hsrcW : a.src < w.labs.length := (List.getElem?_eq_some_iff.1 hS0).1
  have hdstW : a.dst < w.labs.length := (List.getElem?_eq_some_iff.1 hD0).1
  have hRs2at : st2.labs[a.src]? = some Rs2 := by
    rw [hlabsA, List.getElem?_set_ne (fun e => hne e.symm), List.getElem?_set_self (by rw [hlenM]; exact hsrcW)]
  have hS1Lat : ({ w1 with recs := w1.recs ++ [Rec.rd f] } : World).labs[a.src]? = some (S1.log (some a.label)) := by
    show w1.labs[a.src]? = _
    rw [hFlabs, List.getElem?_set_ne (fun e => hne e.symm), List.getElem?_set_self hsrcW]
  obtain ⟨Rx, hRx, hRxM⟩ := forall₂_getElem? hMatchF hS1Lat
  rw [hRs2at] at hRx; cases hRx
  have hRsAmt : LabAmt Rs2 (S1.log (some a.label)) := by
    intro j wl hj
    obtain ⟨hndw, haw⟩ := hSw j wl hj
    refine ⟨hndw, fun k => ?_⟩
    rw [haw k]
    have hvw : wl.vol = S1.vol j := hRxM.vol_eq hj
    have hamL : amount (S1.log (some a.label)) j k = S1.frac j k * S1.vol j := rfl
    rw [hamL, (removeStep_frac S0 S1 i _ hstep).2 j k]
    by_cases hji : j = i
    · subst hji; rw [if_pos rfl, hvw]
    · rw [if_neg hji, hvolne j hji]; rfl
  have hRdAmt : LabAmt Rd2 (Dn2.log (some a.label)) := by
    intro j wl hj
    obtain ⟨hndw, haw⟩ := hDw j wl hj
    refine ⟨hndw, fun k => ?_⟩
    rw [haw k]
    have hamL : amount (Dn2.log (some a.label)) j k = amount Dn2 j k := rfl
    rw [hamL, hDnamt j k, hcarry, hfrac k]
  refine ⟨?_, ?_⟩
  · show List.Forall₂ LabAmt st2.labs w1.labs
    rw [hlabsA, hFlabs]
    exact forall₂_set (forall₂_set hA a.src hRsAmt) a.dst hRdAmt
  · intro L hL
    have hL' : L ∈ w1.labs := hL
    rw [hFlabs] at hL'
    exact good_set (good_set hG a.src hS1Lgood) a.dst hDnLgood L hL'

/-- `compileDistribute` is a safe block (C03) that re-establishes the replay/tracking match on success (C01). -/
theorem safe_compileDistribute {dev : Device} {labs₀ : List Labware} {I} (hwf : WFI I) (cfg : Cfg)
    (hdev : cfg.dev = dev) (S D : Labware) (a : DistArgs)
    (hIs : ∃ n, I[a.src]? = some (S.name, S.geom, n)) (hId : ∃ n, I[a.dst]? = some (D.name, D.geom, n))
    (hok : DistOK dev S D a) : SafeBlock dev labs₀ I (compileDistribute cfg S D a) := by
  intro w hI hinv
  obtain ⟨st, hrun, hM⟩ := hinv
  obtain ⟨h1, h2⟩ := dist_core (labs₀ := labs₀) hwf cfg hdev S D a hIs hId hok w hI st hrun hM
  exact ⟨h1, fun hs => by obtain ⟨st', ha, hb, _⟩ := h2 hs; exact ⟨st', ha, hb⟩⟩

/-- ... and an amount-preserving block (C01, composition clause). -/
theorem ablock_compileDistribute {dev : Device} {labs₀ : List Labware} {I} (hwf : WFI I) (cfg : Cfg)
    (hdev : cfg.dev = dev) (S D : Labware) (a : DistArgs)
    (hIs : ∃ n, I[a.src]? = some (S.name, S.geom, n)) (hId : ∃ n, I[a.dst]? = some (D.name, D.geom, n))
    (hok : DistOK dev S D a) : ABlock dev labs₀ I (compileDistribute cfg S D a) := by
  intro w hI hG hinv hs
  obtain ⟨st, hrun, hM, hA⟩ := hinv
  obtain ⟨_, h2⟩ := dist_core (labs₀ := labs₀) hwf cfg hdev S D a hIs hId hok w hI st hrun hM
  obtain ⟨st', ha, hb, hc⟩ := h2 hs
  obtain ⟨hA', hG'⟩ := hc hG hA
  exact ⟨⟨st', ha, hb, hA'⟩, hG'⟩

end Dist
end Robotools
