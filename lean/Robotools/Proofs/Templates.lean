/-
  Robotools.Proofs.Templates — the model's renderers are instances of the record templates in
  `Spec/Consts.lean`.  Together with `GenOK` (`Generated.templateX = Spec.templateX`, regenerated from
  /repo's f-strings on every run) this makes the field ORDER of every record a checked fact about the
  source: a reordered, dropped or added field in an f-string breaks a `GenOK` obligation, and a model
  renderer that does not follow the template breaks a theorem here.
-/
import Robotools.Model.Records
import Robotools.Model.EvoCmd
import Robotools.Spec.Consts
namespace Robotools
namespace Tpl

/-- Fill a template: a piece that the environment knows (a `{placeholder}`) is replaced by its value,
    every other piece is literal text. -/
def instantiate (tpl : List String) (env : String → Option (List Char)) : List Char :=
  tpl.flatMap fun piece => match env piece with
    | some v => v
    | none => piece.toList

def envOf (l : List (String × List Char)) : String → Option (List Char) := fun k => l.lookup k

/-- `A;` record: placeholders of the f-string in `BaseWorklist.aspirate_well`. -/
def envA (f : ADFields) : String → Option (List Char) := envOf
  [("{rack_label}", f.rackLabel.toList), ("{rack_id}", f.rackId.toList), ("{rack_type}", f.rackType.toList),
   ("{position}", natDigits f.position), ("{tube_id}", f.tubeId.toList),
   ("{volume_s}", fmt2 (round2 f.vol).toNat), ("{liquid_class}", f.liquidClass.toList), ("{tip_type}", []),
   ("{tip}", tipField f.tip), ("{tipv}", tipField f.tip), ("{forced_rack_type}", f.forcedRackType.toList)]

theorem render_asp (f : ADFields) : (Rec.asp f).renderChars = instantiate Spec.templateA (envA f) := by
  simp [Rec.renderChars, instantiate, Spec.templateA, envA, envOf, joinSemi, sc, ADFields.fields,
    List.intercalate, List.lookup]

theorem render_disp (f : ADFields) : (Rec.disp f).renderChars = instantiate Spec.templateD (envA f) := by
  simp [Rec.renderChars, instantiate, Spec.templateD, envA, envOf, joinSemi, sc, ADFields.fields,
    List.intercalate, List.lookup]

def envRparts (f : RFields) : String → Option (List Char) := envOf
  [("{src_rack_label}", f.srcLabel.toList), ("{src_rack_id}", f.srcId.toList), ("{src_rack_type}", f.srcType.toList),
   ("{src_start}", intDigits f.srcStart), ("{src_end}", intDigits f.srcEnd),
   ("{dst_rack_label}", f.dstLabel.toList), ("{dst_rack_id}", f.dstId.toList), ("{dst_rack_type}", f.dstType.toList),
   ("{dst_start}", intDigits f.dstStart), ("{dst_end}", intDigits f.dstEnd)]

/-- `R;` record: the two parameter groups are themselves templates; the exclusion list is
    `"".join(";" + str(w) …)`. -/
def envR (f : RFields) : String → Option (List Char) := envOf
  [("{src_parameters}", instantiate Spec.templateRsrc (envRparts f)),
   ("{dst_parameters}", instantiate Spec.templateRdst (envRparts f)),
   ("{volume}", f.vol.render), ("{liquid_class}", f.liquidClass.toList),
   ("{diti_reuse}", intDigits f.ditiReuse), ("{multi_disp}", intDigits f.multiDisp),
   ("{direction_i}", natDigits f.direction),
   ("{exclude_str}", f.excluded.flatMap fun w => ';' :: intDigits w)]

theorem intercalate_map_cons (l : List (List Char)) (pre : List Char) :
    sc.intercalate (pre :: l) = pre ++ l.flatMap (fun w => ';' :: w) := by
  induction l generalizing pre with
  | nil => simp [List.intercalate]
  | cons a t ih =>
    rw [List.intercalate_cons_cons, ih]
    simp [sc]

theorem intercalate_append (l₁ l₂ : List (List Char)) (h : l₁ ≠ []) :
    sc.intercalate (l₁ ++ l₂) = sc.intercalate l₁ ++ l₂.flatMap (fun w => ';' :: w) := by
  cases l₁ with
  | nil => exact absurd rfl h
  | cons a t =>
    rw [List.cons_append, intercalate_map_cons, intercalate_map_cons, List.flatMap_append, List.append_assoc]

theorem render_rd (f : RFields) : (Rec.rd f).renderChars = instantiate Spec.templateR (envR f) := by
  simp only [Rec.renderChars, joinSemi, RFields.fields]
  rw [intercalate_append _ _ (by simp)]
  simp [List.intercalate, sc, instantiate, Spec.templateR, Spec.templateRsrc, Spec.templateRdst, envR, envRparts, envOf, List.lookup,
    List.flatMap_map]

theorem render_comment (s : String) :
    (Rec.comment s).renderChars = instantiate Spec.templateComment (envOf [("{cline}", s.toList)]) := by
  simp [Rec.renderChars, instantiate, Spec.templateComment, envOf, List.lookup]

theorem render_wash (n : Nat) :
    (Rec.wash n).renderChars = instantiate Spec.templateWash (envOf [("{scheme}", natDigits n)]) := by
  simp [Rec.renderChars, instantiate, Spec.templateWash, envOf, List.lookup]

theorem render_fixed :
    Rec.washDiti.renderChars = instantiate Spec.templateWashDiti (envOf [])
    ∧ Rec.decon.renderChars = instantiate Spec.templateDecon (envOf [])
    ∧ Rec.flush.renderChars = instantiate Spec.templateFlush (envOf [])
    ∧ Rec.brk.renderChars = instantiate Spec.templateCommit (envOf []) := by
  decide

theorem render_setDiti (i : Int) :
    (Rec.setDiti i).renderChars = instantiate Spec.templateSetDiti (envOf [("{diti_index}", intDigits i)]) := by
  simp [Rec.renderChars, instantiate, Spec.templateSetDiti, envOf, List.lookup]

/-- EVOware `Aspirate`/`Dispense`: placeholders of the f-strings in `evotools/commands.py`. -/
def envEvoAD (f : EvoADFields) : String → Option (List Char) := envOf
  [("{tip_selection}", natDigits f.tipSel), ("{liquid_class}", f.liquidClass.toList),
   ("{tip_volumes}", f.slots.flatMap slotText),
   ("{labware_position[0]}", natDigits f.grid), ("{labware_position[1]}", natDigits f.site),
   ("{code_string}", encodeSelection f.rows f.cols f.bits), ("{arm}", natDigits f.arm)]

theorem render_evoAD (f : EvoADFields) :
    f.render = instantiate (if f.isAsp then Spec.templateEvoAspirate else Spec.templateEvoDispense) (envEvoAD f) := by
  cases h : f.isAsp <;>
    simp [EvoADFields.render, h, instantiate, Spec.templateEvoAspirate, Spec.templateEvoDispense, envEvoAD, envOf,
      List.lookup]

def envEvoWash (f : EvoWashFields) : String → Option (List Char) := envOf
  [("{tip_selection}", intDigits f.tipSel), ("{waste_location[0]}", natDigits f.wasteGrid),
   ("{waste_location[1]}", natDigits f.wasteSite), ("{cleaner_location[0]}", natDigits f.cleanerGrid),
   ("{cleaner_location[1]}", natDigits f.cleanerSite), ("{waste_vol}", f.wasteVol.render),
   ("{waste_delay}", natDigits f.wasteDelay), ("{cleaner_vol}", f.cleanerVol.render),
   ("{cleaner_delay}", natDigits f.cleanerDelay), ("{airgap}", natDigits f.airgap),
   ("{airgap_speed}", natDigits f.airgapSpeed), ("{retract_speed}", natDigits f.retractSpeed),
   ("{fastwash}", natDigits f.fastwash), ("{low_volume}", natDigits f.lowVolume), ("{arm}", natDigits f.arm)]

theorem instantiate_append (a b : List String) (env : String → Option (List Char)) :
    instantiate (a ++ b) env = instantiate a env ++ instantiate b env := by
  simp [instantiate]

def washA : List String := ["B;Wash(", "{tip_selection}", ",", "{waste_location[0]}", ",", "{waste_location[1]}", ",", "{cleaner_location[0]}", ","]
def washB : List String := ["{cleaner_location[1]}", ",\"", "{waste_vol}", "\",", "{waste_delay}", ",\"", "{cleaner_vol}", "\",", "{cleaner_delay}"]
def washC : List String := [",", "{airgap}", ",", "{airgap_speed}", ",", "{retract_speed}", ",", "{fastwash}", ",", "{low_volume}", ",1000,", "{arm}", ");"]

theorem wash_split : Spec.templateEvoWash = washA ++ washB ++ washC := by decide

theorem washA_eq (f : EvoWashFields) : instantiate washA (envEvoWash f) =
    "B;Wash(".toList ++ intDigits f.tipSel ++ [','] ++ natDigits f.wasteGrid ++ [',']
    ++ natDigits f.wasteSite ++ [','] ++ natDigits f.cleanerGrid ++ [','] := by
  simp [instantiate, washA, envEvoWash, envOf, List.lookup]

theorem washB_eq (f : EvoWashFields) : instantiate washB (envEvoWash f) =
    natDigits f.cleanerSite ++ ",\"".toList ++ f.wasteVol.render ++ "\",".toList ++ natDigits f.wasteDelay
    ++ ",\"".toList ++ f.cleanerVol.render ++ "\",".toList ++ natDigits f.cleanerDelay := by
  simp [instantiate, washB, envEvoWash, envOf, List.lookup]

theorem washC_eq (f : EvoWashFields) : instantiate washC (envEvoWash f) =
    [','] ++ natDigits f.airgap ++ [','] ++ natDigits f.airgapSpeed ++ [','] ++ natDigits f.retractSpeed
    ++ [','] ++ natDigits f.fastwash ++ [','] ++ natDigits f.lowVolume ++ ",1000,".toList
    ++ natDigits f.arm ++ ");".toList := by
  simp [instantiate, washC, envEvoWash, envOf, List.lookup]

/-- `evo_wash` emits its parameters in the order of the template. -/
theorem render_evoWash (f : EvoWashFields) : f.render = instantiate Spec.templateEvoWash (envEvoWash f) := by
  rw [wash_split, instantiate_append, instantiate_append, washA_eq, washB_eq, washC_eq]
  unfold EvoWashFields.render
  simp only [List.append_assoc, String.toList]

end Tpl
end Robotools
