/-
  List lemmas used by the ledger property C04: `filterMap` with an everywhere-defined function,
  `flatMap` over `List.range` with pieces of equal length (column-major flattening), and the
  element-wise pairing produced by `compileAdd` / `compileRemove`.
-/
import Robotools.Model.World
namespace Robotools

/-! ### `filterMap` when the function is defined on every element -/

theorem filterMap_length_of_isSome {α β} (f : α → Option β) (xs : List α)
    (h : ∀ x ∈ xs, (f x).isSome = true) : (xs.filterMap f).length = xs.length := by
  induction xs with
  | nil => rfl
  | cons x xs ih =>
    have hx := h x List.mem_cons_self
    cases hfx : f x with
    | none => rw [hfx] at hx; cases hx
    | some b =>
      rw [List.filterMap_cons_some hfx, List.length_cons, List.length_cons,
        ih (fun y hy => h y (List.mem_cons_of_mem _ hy))]

theorem filterMap_getElem?_of_isSome {α β} (f : α → Option β) (xs : List α)
    (h : ∀ x ∈ xs, (f x).isSome = true) (i : Nat) : (xs.filterMap f)[i]? = xs[i]?.bind f := by
  induction xs generalizing i with
  | nil => rfl
  | cons x xs ih =>
    have hx := h x List.mem_cons_self
    cases hfx : f x with
    | none => rw [hfx] at hx; cases hx
    | some b =>
      rw [List.filterMap_cons_some hfx]
      cases i with
      | zero => simp [hfx]
      | succ i =>
        simp only [List.getElem?_cons_succ]
        exact ih (fun y hy => h y (List.mem_cons_of_mem _ hy)) i

/-! ### `flatMap` over `range` with pieces of equal length -/

theorem flatMap_range_length {α} (r : Nat) (g : Nat → List α) (c : Nat)
    (hg : ∀ j, j < c → (g j).length = r) : ((List.range c).flatMap g).length = c * r := by
  induction c with
  | zero => simp
  | succ c ih =>
    rw [List.range_succ, List.flatMap_append, List.length_append,
      ih (fun j hj => hg j (Nat.lt_succ_of_lt hj))]
    simp only [List.flatMap_cons, List.flatMap_nil, List.append_nil]
    rw [hg c (Nat.lt_succ_self c), Nat.succ_mul]

theorem flatMap_range_getElem? {α} (r : Nat) (g : Nat → List α) (c : Nat)
    (hg : ∀ j, j < c → (g j).length = r) (j i : Nat) (hj : j < c) (hi : i < r) :
    ((List.range c).flatMap g)[j * r + i]? = (g j)[i]? := by
  induction c with
  | zero => cases hj
  | succ c ih =>
    have hg' : ∀ j, j < c → (g j).length = r := fun j hj => hg j (Nat.lt_succ_of_lt hj)
    have hlen := flatMap_range_length r g c hg'
    rw [List.range_succ, List.flatMap_append]
    by_cases hjc : j < c
    · have hlt : j * r + i < ((List.range c).flatMap g).length := by
        rw [hlen]
        calc j * r + i < j * r + r := Nat.add_lt_add_left hi _
          _ = (j + 1) * r := (Nat.succ_mul j r).symm
          _ ≤ c * r := Nat.mul_le_mul_right r hjc
      rw [List.getElem?_append_left hlt]
      exact ih hg' hjc
    · have hjeq : j = c := by omega
      subst hjeq
      have hge : ((List.range j).flatMap g).length ≤ j * r + i := by rw [hlen]; omega
      rw [List.getElem?_append_right hge, hlen]
      simp only [List.flatMap_cons, List.flatMap_nil, List.append_nil]
      congr 1
      omega

/-! ### Element-wise pairing of resolved wells with volumes -/

theorem map_zip_resolve {β γ : Type} (f : String → Option Nat) (h : String × β → γ)
    (g : Nat × β → γ) (hh : ∀ w v i, f w = some i → h (w, v) = g (i, v)) :
    ∀ (ws : List String) (idx : List Nat) (vs : List β), ws.map f = idx.map some →
      (ws.zip vs).map h = (idx.zip vs).map g := by
  intro ws
  induction ws with
  | nil =>
    intro idx vs hres
    cases idx with
    | nil => rfl
    | cons a idx => cases hres
  | cons w ws ih =>
    intro idx vs hres
    cases idx with
    | nil => cases hres
    | cons a idx =>
      simp only [List.map_cons, List.cons.injEq] at hres
      cases vs with
      | nil => rfl
      | cons v vs =>
        simp only [List.zip_cons_cons, List.map_cons]
        rw [hh w v a hres.1, ih idx vs hres.2]

theorem map_zip3_resolve {β γ δ : Type} (f : String → Option Nat) (c : δ)
    (h : (String × β) × δ → γ)
    (g : Nat × β → γ) (hh : ∀ w v i, f w = some i → h ((w, v), c) = g (i, v)) :
    ∀ (ws : List String) (idx : List Nat) (vs : List β), ws.map f = idx.map some →
      ((ws.zip vs).zip (List.replicate ws.length c)).map h = (idx.zip vs).map g := by
  intro ws
  induction ws with
  | nil =>
    intro idx vs hres
    cases idx with
    | nil => rfl
    | cons a idx => cases hres
  | cons w ws ih =>
    intro idx vs hres
    cases idx with
    | nil => cases hres
    | cons a idx =>
      simp only [List.map_cons, List.cons.injEq] at hres
      cases vs with
      | nil => rfl
      | cons v vs =>
        simp only [List.zip_cons_cons, List.map_cons, List.length_cons, List.replicate_succ]
        rw [hh w v a hres.1, ih idx vs hres.2]

end Robotools
