/-
  Robotools.Proofs.OrderOK — the model's compile functions concatenate their blocks in the order in which the source
  calls them.

  `Spec.order*` are lists of the calls (and `raise` statements) of the method bodies in source order; the translator
  re-extracts them from /repo on every run (`Generated.order*`, obligations `gen_order*_ok`).  Here each name is given
  the block of micro-operations that models it, and the compile function is shown to be the concatenation of those
  blocks IN THE ORDER OF THE LIST: swapping two calls in the source changes `Generated.order*` (an obligation breaks),
  swapping two blocks in the model breaks these theorems.  This is the C03 discipline "update the tracking — which may
  refuse — before anything is appended" as a checked fact about source and model.
-/
import Robotools.Model.World
import Robotools.Spec.Consts
namespace Robotools
namespace OrderOK

/-- `BaseWorklist.aspirate`: the block behind each call name (`_get_well_position` is evaluated inside the emission loop
    and has no micro-operation of its own). -/
def aspStage (cfg : Cfg) (L : Labware) (l : Nat) (ws : List String) (vs : List Rat) (label : Option String) (kw : KW) :
    String → List Micro
  | "labware.remove" => compileRemove L l (.vec ws) (.vec vs) label
  | "self.comment" => commentMicros label
  | "self.aspirate_well" => emitAD cfg L true ws vs kw
  | _ => []

theorem compileAspirate_order (cfg : Cfg) (L : Labware) (l : Nat) (wells : Arr String) (vols : Arr Rat)
    (label : Option String) (kw : KW) :
    compileAspirate cfg L l wells vols label kw
      = (Spec.orderAspirate.map (aspStage cfg L l wells.flattenF
          (broadcast1 vols.flattenF wells.flattenF.length) label kw)).flatten := by
  simp [compileAspirate, Spec.orderAspirate, aspStage]

def dispStage (cfg : Cfg) (L : Labware) (l : Nat) (ws : List String) (vs : List Rat) (label : Option String)
    (comps : Option (List (Option Comp))) (kw : KW) (carryAll : Bool) : String → List Micro
  | "labware.add" => compileAdd L l (.vec ws) (.vec vs) label comps carryAll
  | "self.comment" => commentMicros label
  | "self.dispense_well" => emitAD cfg L false ws vs kw
  | _ => []

theorem compileDispense_order (cfg : Cfg) (L : Labware) (l : Nat) (wells : Arr String) (vols : Arr Rat)
    (label : Option String) (comps : Option (List (Option Comp))) (kw : KW) (carryAll : Bool) :
    compileDispense cfg L l wells vols label comps kw carryAll
      = (Spec.orderDispense.map (dispStage cfg L l wells.flattenF
          (broadcast1 vols.flattenF wells.flattenF.length) label comps kw carryAll)).flatten := by
  simp [compileDispense, Spec.orderDispense, dispStage]

/-- EVO script commands: tracking, comment, then the command (built by `commands.evo_*`, appended last). -/
def evoStage (cfg : Cfg) (L : Labware) (l : Nat) (isAsp : Bool) (a : EvoADArgs) (label : Option String)
    (comps : Option (List (Option Comp))) : String → List Micro
  | "labware.remove" => compileRemove L l a.wells a.volume.toArr label
  | "labware.add" => compileAdd L l a.wells a.volume.toArr label comps
  | "self.comment" => commentMicros label
  | "self.append" =>
      exceptMicros (evoAD isAsp a L.geom.nRowIds L.geom.cols cfg.maxVolume) fun f => [.emit (.evo (String.ofList f.render))]
  | _ => []

theorem compileEvoAspirate_order (cfg : Cfg) (hdev : cfg.dev = .evo) (L : Labware) (l : Nat) (a : EvoADArgs)
    (label : Option String) (comps : Option (List (Option Comp))) :
    compileEvoAD cfg L l true a label comps
      = (Spec.orderEvoAspirate.map (evoStage cfg L l true a label comps)).flatten := by
  simp [compileEvoAD, hdev, Spec.orderEvoAspirate, evoStage]

theorem compileEvoDispense_order (cfg : Cfg) (hdev : cfg.dev = .evo) (L : Labware) (l : Nat) (a : EvoADArgs)
    (label : Option String) (comps : Option (List (Option Comp))) :
    compileEvoAD cfg L l false a label comps
      = (Spec.orderEvoDispense.map (evoStage cfg L l false a label comps)).flatten := by
  simp [compileEvoAD, hdev, Spec.orderEvoDispense, evoStage]

/-- The arguments `distribute` hands to `reagent_distribution` (sorted positions `sorted`, first `s`, last `e`). -/
def distRDArgs (S D : Labware) (a : DistArgs) (sorted : List Nat) (s e : Nat) : RDArgs :=
  { srcLabel := S.name, srcStart := ⟨1 + (S.geom.nRowIds : Int) * a.srcCol, false⟩,
    srcEnd := ⟨1 + (S.geom.nRowIds : Int) * a.srcCol + (S.geom.nRowIds : Int) - 1, false⟩, dstLabel := D.name,
    dstStart := ⟨s, false⟩, dstEnd := ⟨e, false⟩, vol := a.vol, ditiReuse := a.ditiReuse, multiDisp := a.multiDisp,
    exclude := (((List.range (e + 1 - s)).map (· + s)).filter (fun p => !sorted.contains p)).map Int.ofNat,
    liquidClass := a.liquidClass, direction := a.direction, srcRackId := a.srcRackId,
    srcRackType := a.srcRackType, dstRackId := a.dstRackId, dstRackType := a.dstRackType }

/-- `BaseWorklist.distribute`, accepted branch: the block behind each call name.  The three `raise` statements and the
    position computation come first in the source and in the model's guards; they contribute no micro-operation once
    they have let the call pass. -/
def distStage (cfg : Cfg) (S D : Labware) (a : DistArgs) (sorted : List Nat) (s e : Nat) : String → List Micro
  | "source.remove" =>
      compileRemove S a.src (.scalar (wellId 0 a.srcCol.toNat)) (.scalar (a.vol.q * sorted.length)) (some a.label)
  | "source.get_well_composition" =>
      exceptMicros (match S.geom.resolveFlat (wellId 0 a.srcCol.toNat) with
                    | some i => Except.ok i | none => Except.error Err.reject) (fun i => [Micro.loadComp a.src i])
  | "destination.add" => compileAdd D a.dst (.vec a.dstWells.flattenF) (.scalar a.vol.q) (some a.label) none true
  | "self.comment" => commentMicros (some a.label)
  | "self.reagent_distribution" => compileRD cfg (distRDArgs S D a sorted s e)
  | _ => []

theorem compileDistribute_order (cfg : Cfg) (S D : Labware) (a : DistArgs) {vr : Nat} (hvr : S.geom.vrows = some vr)
    (hvol : ¬ cfg.maxVolume < a.vol.q) {ps : List Nat}
    (hps : (a.dstWells.flattenF.mapM fun w => cfg.dev.pos D.geom w) = .ok ps) (hnd : a.dstWells.flattenF.Nodup)
    {s e : Nat} (hs : (ps.mergeSort (· ≤ ·)).head? = some s) (he : (ps.mergeSort (· ≤ ·)).getLast? = some e)
    (hc0 : 0 ≤ a.srcCol) (hc1 : a.srcCol < S.geom.cols) :
    compileDistribute cfg S D a
      = (Spec.orderDistribute.map (distStage cfg S D a (ps.mergeSort (· ≤ ·)) s e)).flatten := by
  unfold compileDistribute
  simp only [hvr, hvol, if_false, hps, exceptMicros, hnd, not_true_eq_false, hs, he, hc0, hc1, and_self, if_true]
  simp [Spec.orderDistribute, distStage, distRDArgs]
  rfl

end OrderOK
end Robotools
