/-
  Robotools.Proofs.ParseLemmas — the independent parser (`Model/Parse.lean`) inverts the renderer
  on every record whose text fields contain no separator (C09).
-/
import Robotools.Model.Parse
import Robotools.Proofs.GeometryLemmas
namespace Robotools


theorem natDigits_isDigit (n : Nat) : ∀ c ∈ natDigits n, c.isDigit = true := by
  intro c hc
  rw [natDigits_eq] at hc
  exact Nat.isDigit_of_mem_toDigits (by decide) (by decide) hc

theorem parseNat_natDigits (n : Nat) : parseNat (natDigits n) = some n := by
  unfold parseNat
  have h1 := natDigits_ne_nil n
  have h2 : (natDigits n).all Char.isDigit = true := by
    rw [List.all_eq_true]; exact natDigits_isDigit n
  rw [if_pos ⟨h1, h2⟩, natDigits_eq, Nat.ofDigitChars_ten_toDigits]

theorem not_mem_of_isDigit {l : List Char} (h : ∀ c ∈ l, c.isDigit = true) (x : Char) (hx : x.isDigit = false) : x ∉ l := by
  intro hm; have := h x hm; rw [hx] at this; cases this

theorem semi_not_mem_natDigits (n : Nat) : ';' ∉ natDigits n :=
  not_mem_of_isDigit (natDigits_isDigit n) _ (by decide)

theorem parseInt_intDigits (i : Int) : parseInt (intDigits i) = some i := by
  cases i with
  | ofNat n =>
    simp only [intDigits]
    have hne := natDigits_ne_nil n
    have hd := natDigits_isDigit n
    cases h : natDigits n with
    | nil => exact absurd h hne
    | cons c cs =>
      have hc : c.isDigit = true := hd c (by rw [h]; simp)
      have hcm : c ≠ '-' := by intro e; rw [e] at hc; revert hc; decide
      unfold parseInt
      split
      · rename_i heq; cases heq; exact absurd rfl hcm
      · rw [← h, parseNat_natDigits]; rfl
  | negSucc n =>
    simp only [intDigits, parseInt, parseNat_natDigits, Option.map_some]
    congr 1

theorem pad2_facts : ∀ k, k < 100 → parseNat (pad2 k) = some k ∧ (pad2 k).length = 2 ∧ (pad2 k).all Char.isDigit = true := by
  decide +kernel
theorem length_two {α} (l : List α) (h : l.length = 2) : ∃ a b, l = [a, b] := by
  match l, h with
  | [a, b], _ => exact ⟨a, b, rfl⟩

theorem parseFmt2_fmt2 (h : Nat) : parseFmt2 (fmt2 h) = some h := by
  have hk : h % 100 < 100 := Nat.mod_lt _ (by decide)
  obtain ⟨hp, hl, hd⟩ := pad2_facts (h % 100) hk
  obtain ⟨d1, d2, hd12⟩ := length_two _ hl
  have hdot1 : '.' ∉ natDigits (h / 100) := not_mem_of_isDigit (natDigits_isDigit _) _ (by decide)
  have hdot2 : '.' ∉ pad2 (h % 100) := by
    apply not_mem_of_isDigit _ _ (by decide)
    intro c hc; exact (List.all_eq_true.1 hd) c hc
  have hsplit : (fmt2 h).splitOn '.' = [natDigits (h / 100), pad2 (h % 100)] := by
    have := List.splitOn_intercalate (ls := [natDigits (h / 100), pad2 (h % 100)]) '.'
      (by intro l hl; simp at hl; rcases hl with rfl | rfl <;> assumption) (by simp)
    simpa [fmt2, List.intercalate] using this
  unfold parseFmt2
  rw [hsplit, hd12]
  simp only
  rw [← hd12, hp, parseNat_natDigits]
  simp only [Option.some.injEq]
  omega

theorem semi_not_mem_intDigits (i : Int) : ';' ∉ intDigits i := by
  cases i with
  | ofNat n => exact semi_not_mem_natDigits n
  | negSucc n =>
    simp only [intDigits, List.mem_cons, not_or]
    exact ⟨by decide, semi_not_mem_natDigits _⟩

theorem digit_ofNat : ∀ k, k < 10 → (Char.ofNat (48 + k)).isDigit = true := by decide

theorem fracDigits_isDigit (d : Nat) (fuel r : Nat) (h : r < d) : ∀ c ∈ fracDigits d fuel r, c.isDigit = true := by
  induction fuel generalizing r with
  | zero => intro c hc; simp [fracDigits] at hc
  | succ n ih =>
    intro c hc
    cases r with
    | zero => simp [fracDigits] at hc
    | succ r' =>
      simp only [fracDigits, List.mem_cons] at hc
      rcases hc with rfl | hc
      · apply digit_ofNat
        have hd : 0 < d := by omega
        rw [Nat.div_lt_iff_lt_mul hd]; omega
      · exact ih _ (Nat.mod_lt _ (by omega)) c hc

theorem semi_not_mem_pyFloatRepr (q : Rat) : ';' ∉ pyFloatRepr q := by
  unfold pyFloatRepr
  intro hm
  simp only [List.mem_append, List.mem_cons] at hm
  generalize (if q < 0 then -q else q) = a at hm
  have hfd : ∀ c ∈ fracDigits a.den 20 (a.num.toNat % a.den), c.isDigit = true :=
    fracDigits_isDigit _ _ _ (Nat.mod_lt _ (Rat.den_pos _))
  rcases hm with (hm | hm) | hm | hm
  · split at hm <;> simp at hm
  · exact semi_not_mem_natDigits _ hm
  · revert hm; decide
  · by_cases he : (fracDigits a.den 20 (a.num.toNat % a.den)).isEmpty = true
    · simp [he] at hm
    · simp only [he] at hm; exact not_mem_of_isDigit hfd _ (by decide) hm

theorem semi_not_mem_pyNum (v : PyNum) : ';' ∉ v.render := by
  unfold PyNum.render
  split
  · exact semi_not_mem_intDigits _
  · exact semi_not_mem_pyFloatRepr _

theorem parseRec_nc (cs : List Char) (h : cs.take 2 ≠ ['C', ';']) :
    parseRec cs = parseFields (cs.splitOn ';') := by
  unfold parseRec; rw [if_neg h]


theorem semi_not_mem_fmt2 (h : Nat) : ';' ∉ fmt2 h := by
  have hk : h % 100 < 100 := Nat.mod_lt _ (by decide)
  obtain ⟨_, _, hd⟩ := pad2_facts (h % 100) hk
  simp only [fmt2, List.mem_append, List.mem_cons, not_or]
  refine ⟨semi_not_mem_natDigits _, by decide, ?_⟩
  apply not_mem_of_isDigit _ _ (by decide)
  intro c hc; exact (List.all_eq_true.1 hd) c hc

theorem semi_not_mem_tipField (t : Option Nat) : ';' ∉ tipField t := by
  cases t with
  | none => simp [tipField]
  | some m => exact semi_not_mem_natDigits m

theorem splitOn_AD (tag : Char) (htag : tag ≠ ';') (f : ADFields) (h : f.TextOK) :
    (joinSemi (f.fields tag)).splitOn ';' = f.fields tag := by
  obtain ⟨h1, h2, h3, h4, h5, h6⟩ := h
  unfold joinSemi sc
  apply List.splitOn_intercalate
  · intro l hl
    simp only [ADFields.fields, List.mem_cons, List.not_mem_nil, or_false] at hl
    rcases hl with rfl | rfl | rfl | rfl | rfl | rfl | rfl | rfl | rfl | rfl | rfl
    · simpa using htag.symm
    · exact h1
    · exact h2
    · exact h3
    · exact semi_not_mem_natDigits _
    · exact h4
    · exact semi_not_mem_fmt2 _
    · exact h5
    · simp
    · exact semi_not_mem_tipField _
    · exact h6
  · simp [ADFields.fields]

theorem parseTip_tipField (t : Option Nat) :
    (if tipField t = [] then some none else (parseNat (tipField t)).map some) = some t := by
  cases t with
  | none => simp [tipField]
  | some m => simp [tipField, natDigits_ne_nil, parseNat_natDigits]

theorem parse_render_ad (isAsp : Bool) (f : ADFields) (h : f.TextOK) :
    parseRec (joinSemi (f.fields (if isAsp then 'A' else 'D')))
      = some (.ad {
          isAsp := isAsp, rackLabel := f.rackLabel.toList, rackId := f.rackId.toList,
          rackType := f.rackType.toList, position := f.position, tubeId := f.tubeId.toList,
          hundredths := (round2 f.vol).toNat, liquidClass := f.liquidClass.toList, tip := f.tip,
          forcedRackType := f.forcedRackType.toList }) := by
  have hs := splitOn_AD (if isAsp then 'A' else 'D') (by cases isAsp <;> decide) f h
  have h0 : (joinSemi (f.fields (if isAsp then 'A' else 'D'))).take 2 ≠ ['C', ';'] := by
    cases isAsp <;> simp [ADFields.fields, joinSemi, sc, List.intercalate]
  rw [parseRec_nc _ h0, hs]
  cases isAsp <;>
    simp [ADFields.fields, parseFields, parseAD, parseNat_natDigits, parseFmt2_fmt2, parseTip_tipField]

theorem parse_render_asp (f : ADFields) (h : f.TextOK) :
    parseRec (Rec.asp f).renderChars = (Rec.asp f).toParsed := parse_render_ad true f h

theorem parse_render_disp (f : ADFields) (h : f.TextOK) :
    parseRec (Rec.disp f).renderChars = (Rec.disp f).toParsed := parse_render_ad false f h

theorem parse_render_wash (n : Nat) : parseRec (Rec.wash n).renderChars = some (.wash n) := by
  have hne := natDigits_ne_nil n
  have hd := natDigits_isDigit n
  have hs : ('W' :: natDigits n ++ [';']).splitOn ';' = ['W' :: natDigits n, []] := by
    have := List.splitOn_intercalate (ls := ['W' :: natDigits n, []]) ';'
      (by intro l hl; simp at hl; rcases hl with rfl | rfl
          · simp only [List.mem_cons, not_or]; exact ⟨by decide, semi_not_mem_natDigits n⟩
          · simp) (by simp)
    simpa [List.intercalate] using this
  change parseRec ('W' :: natDigits n ++ [';']) = _
  rw [parseRec_nc _ (by cases h : natDigits n <;> simp), hs]
  cases h : natDigits n with
  | nil => exact absurd h hne
  | cons c cs =>
    have hc : c.isDigit = true := hd c (by rw [h]; simp)
    have hcD : c ≠ 'D' := by intro e; rw [e] at hc; revert hc; decide
    unfold parseFields
    split <;> simp_all
    rw [← h, parseNat_natDigits]

theorem parse_render_simple :
    parseRec (Rec.washDiti).renderChars = some .washDiti ∧ parseRec (Rec.decon).renderChars = some .decon
    ∧ parseRec (Rec.flush).renderChars = some .flush ∧ parseRec (Rec.brk).renderChars = some .brk := by
  decide +kernel

theorem parse_render_setDiti (i : Int) : parseRec (Rec.setDiti i).renderChars = some (.setDiti i) := by
  have hs : ('S' :: ';' :: intDigits i).splitOn ';' = [['S'], intDigits i] := by
    have := List.splitOn_intercalate (ls := [['S'], intDigits i]) ';'
      (by intro l hl; simp at hl; rcases hl with rfl | rfl
          · decide
          · exact semi_not_mem_intDigits i) (by simp)
    simpa [List.intercalate] using this
  change parseRec ('S' :: ';' :: intDigits i) = _
  rw [parseRec_nc _ (by simp), hs]
  simp [parseFields, parseInt_intDigits]

theorem parse_render_comment (s : String) : parseRec (Rec.comment s).renderChars = some (.comment s.toList) := by
  change parseRec ('C' :: ';' :: s.toList) = _
  unfold parseRec
  simp

theorem mapM_parseInt (l : List Int) : l.mapM (parseInt ∘ intDigits) = some l := by
  induction l with
  | nil => rfl
  | cons a t ih => simp [List.mapM_cons, parseInt_intDigits, ih]

theorem splitOn_R (f : RFields) (h : f.TextOK) : (joinSemi f.fields).splitOn ';' = f.fields := by
  obtain ⟨h1, h2, h3, h4, h5, h6, h7⟩ := h
  unfold joinSemi sc
  apply List.splitOn_intercalate
  · intro l hl
    simp only [RFields.fields, List.mem_append, List.mem_cons, List.not_mem_nil, or_false, List.mem_map] at hl
    rcases hl with (rfl | rfl | rfl | rfl | rfl | rfl | rfl | rfl | rfl | rfl | rfl | rfl | rfl | rfl | rfl | rfl) | ⟨x, _, rfl⟩
    · decide
    · exact h1
    · exact h2
    · exact h3
    · exact semi_not_mem_intDigits _
    · exact semi_not_mem_intDigits _
    · exact h4
    · exact h5
    · exact h6
    · exact semi_not_mem_intDigits _
    · exact semi_not_mem_intDigits _
    · exact semi_not_mem_pyNum _
    · exact h7
    · exact semi_not_mem_intDigits _
    · exact semi_not_mem_intDigits _
    · exact semi_not_mem_natDigits _
    · exact semi_not_mem_intDigits _
  · simp [RFields.fields]

theorem parse_render_rd (f : RFields) (h : f.TextOK) :
    parseRec (Rec.rd f).renderChars = (Rec.rd f).toParsed := by
  have hs := splitOn_R f h
  have h0 : (joinSemi f.fields).take 2 ≠ ['C', ';'] := by
    simp [RFields.fields, joinSemi, sc, List.intercalate]
  change parseRec (joinSemi f.fields) = _
  rw [parseRec_nc _ h0, hs]
  simp [RFields.fields, parseFields, parseRD, parseInt_intDigits, parseNat_natDigits, mapM_parseInt, Rec.toParsed]


end Robotools
