/-
  Helper lemmas for C12 (well-selection bitmap round trip).
-/
import Robotools.Model.EvoCmd
namespace Robotools

theorem char_toNat_ofNat (n : Nat) (h : n < 0xd800) : (Char.ofNat n).toNat = n := by
  have hv : n.isValidChar := Or.inl h
  unfold Char.ofNat
  rw [dif_pos hv]
  simp only [Char.ofNatAux, Char.toNat]
  simp [UInt32.toNat_ofNatLT]

theorem bitsToNat_lt (bs : List Bool) : bitsToNat bs < 2 ^ bs.length := by
  induction bs with
  | nil => simp [bitsToNat]
  | cons b bs ih =>
    simp only [bitsToNat, List.length_cons, Nat.pow_succ]
    split <;> omega

theorem natToBits_bitsToNat (bs : List Bool) : natToBits bs.length (bitsToNat bs) = bs := by
  induction bs with
  | nil => simp [natToBits]
  | cons b bs ih =>
    simp only [bitsToNat, List.length_cons, natToBits]
    have h1 : ((if b = true then 1 else 0) + 2 * bitsToNat bs) / 2 = bitsToNat bs := by
      split <;> omega
    have h2 : (((if b = true then 1 else 0) + 2 * bitsToNat bs) % 2 == 1) = b := by
      cases b <;> simp <;> omega
    rw [h1, h2, ih]

theorem natToBits_length (k n : Nat) : (natToBits k n).length = k := by
  induction k generalizing n with
  | zero => simp [natToBits]
  | succ k ih => simp [natToBits, ih]


theorem bitsToNat_take7_lt (bs : List Bool) : bitsToNat (bs.take 7) < 128 := by
  have h := bitsToNat_lt (bs.take 7)
  have h2 : (bs.take 7).length ≤ 7 := by simp [List.length_take]; omega
  have : 2 ^ (bs.take 7).length ≤ 2 ^ 7 := Nat.pow_le_pow_right (by omega) h2
  omega

theorem chunk_toNat (bs : List Bool) :
    (Char.ofNat (bitsToNat (bs.take 7) + 48)).toNat = bitsToNat (bs.take 7) + 48 := by
  have := bitsToNat_take7_lt bs
  exact char_toNat_ofNat _ (by omega)

theorem encodeBits_nil : encodeBits [] = [] := by
  rw [encodeBits]; simp

theorem encodeBits_ne_nil (bs : List Bool) (h : bs ≠ []) :
    encodeBits bs = Char.ofNat (bitsToNat (bs.take 7) + 48) :: encodeBits (bs.drop 7) := by
  rw [encodeBits]; simp [h]

theorem decodeBits_encodeBits (bits : List Bool) :
    decodeBits bits.length (encodeBits bits) = bits := by
  induction h : bits.length using Nat.strongRecOn generalizing bits with
  | _ n ih =>
    by_cases hb : bits = []
    · subst hb; simp [encodeBits_nil, decodeBits]
    · rw [encodeBits_ne_nil bits hb]
      have hpos : 0 < bits.length := List.length_pos_iff.mpr hb
      simp only [decodeBits]
      rw [if_neg (by omega), chunk_toNat]
      have hlt : (bits.take 7).length = min 7 n := by simp [List.length_take, h]
      have hld : (bits.drop 7).length = n - min 7 n := by simp [List.length_drop, h]; omega
      rw [Nat.add_sub_cancel, ← hlt, natToBits_bitsToNat, hlt, ← hld,
        ih (bits.drop 7).length (by rw [hld]; omega) (bits.drop 7) rfl, List.take_append_drop]

theorem encodeBits_length (bits : List Bool) :
    (encodeBits bits).length = (bits.length + 6) / 7 := by
  induction h : bits.length using Nat.strongRecOn generalizing bits with
  | _ n ih =>
    by_cases hb : bits = []
    · subst hb; simp at h; subst h; simp [encodeBits_nil]
    · rw [encodeBits_ne_nil bits hb]
      have hpos : 0 < bits.length := List.length_pos_iff.mpr hb
      have hld : (bits.drop 7).length = n - 7 := by simp [List.length_drop, h]
      rw [List.length_cons, ih (bits.drop 7).length (by rw [hld]; omega) (bits.drop 7) rfl, hld]
      omega

theorem encodeBits_getElem? (bits : List Bool) (i : Nat) (c : Char)
    (h : (encodeBits bits)[i]? = some c) :
    7 * i < bits.length ∧ c = Char.ofNat (bitsToNat ((bits.drop (7 * i)).take 7) + 48) := by
  induction i generalizing bits with
  | zero =>
    by_cases hb : bits = []
    · subst hb; simp [encodeBits_nil] at h
    · rw [encodeBits_ne_nil bits hb] at h
      have hpos : 0 < bits.length := List.length_pos_iff.mpr hb
      simp at h
      exact ⟨by omega, by simp [h]⟩
  | succ i ih =>
    by_cases hb : bits = []
    · subst hb; simp [encodeBits_nil] at h
    · rw [encodeBits_ne_nil bits hb] at h
      simp only [List.getElem?_cons_succ] at h
      obtain ⟨h1, h2⟩ := ih (bits.drop 7) h
      rw [List.length_drop] at h1
      refine ⟨by omega, ?_⟩
      rw [h2, List.drop_drop]
      have e : 7 + 7 * i = 7 * (i + 1) := by omega
      rw [e]

theorem hexVal_hexDigit (d : Nat) (h : d < 16) : hexVal (hexDigit d) = some d := by
  unfold hexDigit hexVal
  by_cases h10 : d < 10
  · rw [if_pos h10]
    simp only [char_toNat_ofNat (48 + d) (by omega)]
    rw [if_pos (by omega)]
    congr 1; omega
  · rw [if_neg h10]
    simp only [char_toNat_ofNat (55 + d) (by omega)]
    rw [if_neg (by omega), if_pos (by omega)]
    congr 1; omega

theorem toHex_lt16 (n : Nat) (h : n < 16) : toHex n = [hexDigit n] := by
  rw [toHex]; simp [h]

theorem padLeft2_toHex (n : Nat) (h : n ≤ 255) :
    ∃ c1 c0, padLeft2 (toHex n) = [c1, c0] ∧ hexVal c1 = some (n / 16) ∧ hexVal c0 = some (n % 16) := by
  by_cases h16 : n < 16
  · refine ⟨'0', hexDigit n, ?_, ?_, ?_⟩
    · rw [toHex_lt16 n h16]; simp [padLeft2]
    · have : n / 16 = 0 := by omega
      rw [this]; decide
    · have : n % 16 = n := by omega
      rw [this]; exact hexVal_hexDigit n h16
  · refine ⟨hexDigit (n / 16), hexDigit (n % 16), ?_, ?_, ?_⟩
    · rw [toHex, dif_neg h16, toHex_lt16 (n / 16) (by omega)]; simp [padLeft2]
    · exact hexVal_hexDigit _ (by omega)
    · exact hexVal_hexDigit _ (by omega)

theorem decodeSelection_encodeSelection (rows cols : Nat) (bits : List Bool)
    (hr : rows ≤ 255) (hc : cols ≤ 255) (hlen : bits.length = rows * cols) :
    decodeSelection (encodeSelection rows cols bits) = some (rows, cols, bits) := by
  obtain ⟨c1, c0, hce, hc1, hc0⟩ := padLeft2_toHex cols hc
  obtain ⟨r1, r0, hre, hr1, hr0⟩ := padLeft2_toHex rows hr
  unfold encodeSelection
  rw [hce, hre]
  simp only [List.cons_append, List.nil_append, decodeSelection, hc1, hc0, hr1, hr0]
  have e1 : cols / 16 * 16 + cols % 16 = cols := by omega
  have e2 : rows / 16 * 16 + rows % 16 = rows := by omega
  simp only [bind, Option.bind, pure, e1, e2]
  rw [← hlen, decodeBits_encodeBits]

theorem encodeSelection_length (rows cols : Nat) (bits : List Bool)
    (hr : rows ≤ 255) (hc : cols ≤ 255) :
    (encodeSelection rows cols bits).length = 4 + (bits.length + 6) / 7 := by
  obtain ⟨c1, c0, hce, -, -⟩ := padLeft2_toHex cols hc
  obtain ⟨r1, r0, hre, -, -⟩ := padLeft2_toHex rows hr
  unfold encodeSelection
  rw [hce, hre]
  simp [encodeBits_length]; omega

theorem selectionBits_length' (rows cols : Nat) (sel : List (Nat × Nat)) :
    (selectionBits rows cols sel).length = rows * cols := by
  unfold selectionBits
  induction cols with
  | zero => simp
  | succ c ih =>
    rw [List.range_succ, List.flatMap_append, List.length_append, ih]
    simp [Nat.mul_succ]

theorem selectionBits_getElem? (rows cols : Nat) (sel : List (Nat × Nat)) (x y : Nat)
    (hx : x < cols) (hy : y < rows) :
    (selectionBits rows cols sel)[x * rows + y]? = some (sel.contains (y, x)) := by
  induction cols with
  | zero => omega
  | succ c ih =>
    have hl := selectionBits_length' rows c sel
    unfold selectionBits at hl ih ⊢
    rw [List.range_succ, List.flatMap_append]
    by_cases hxc : x < c
    · have : x * rows + y < rows * c := by
        have : (x + 1) * rows ≤ c * rows := Nat.mul_le_mul_right _ (by omega)
        rw [Nat.mul_comm rows c]; rw [Nat.succ_mul] at this; omega
      rw [List.getElem?_append_left (by rw [hl]; exact this)]
      exact ih hxc
    · have hxe : x = c := by omega
      subst hxe
      rw [List.getElem?_append_right (by rw [hl, Nat.mul_comm]; omega), hl]
      have : x * rows + y - rows * x = y := by rw [Nat.mul_comm]; omega
      rw [this]
      simp [hy]

end Robotools
