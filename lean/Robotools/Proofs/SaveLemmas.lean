/-
  Helper lemmas for C17 (saving): CRLF expansion, CRLF splitting, Latin-1, splitOn pieces, strip.
-/
import Robotools.Model.Save
namespace Robotools

/-- The newline expansion used by `fileChars`. -/
def nlExpand (c : Char) : List Char := if c = '\n' then ['\r', '\n'] else [c]

theorem fileChars_eq (recs : List (List Char)) :
    fileChars recs = (['\n'].intercalate recs).flatMap nlExpand := rfl

theorem flatMap_nlExpand_of_not_mem (l : List Char) (h : '\n' ∉ l) : l.flatMap nlExpand = l := by
  induction l with
  | nil => rfl
  | cons a t ih =>
    have ha : a ≠ '\n' := fun e => h (by simp [e])
    have ht : '\n' ∉ t := fun m => h (List.mem_cons_of_mem _ m)
    simp [List.flatMap_cons, nlExpand, ha, ih ht]

theorem fileChars_nil : fileChars [] = [] := rfl

theorem fileChars_singleton (r : List Char) (h : '\n' ∉ r) : fileChars [r] = r := by
  rw [fileChars_eq, List.intercalate_singleton, flatMap_nlExpand_of_not_mem r h]

theorem fileChars_cons_cons (r r' : List Char) (rest : List (List Char)) (h : '\n' ∉ r) :
    fileChars (r :: r' :: rest) = r ++ '\r' :: '\n' :: fileChars (r' :: rest) := by
  rw [fileChars_eq, fileChars_eq, List.intercalate_cons_cons, List.flatMap_append,
    List.flatMap_append, flatMap_nlExpand_of_not_mem r h]
  simp [nlExpand]

theorem splitCRLF_ne_nil (l : List Char) : splitCRLF l ≠ [] := by
  fun_induction splitCRLF l <;> simp_all

theorem splitCRLF_cons_of_ne (c : Char) (rest : List Char) (hc : c ≠ '\r') :
    splitCRLF (c :: rest) =
      match splitCRLF rest with
      | [] => [[c]]
      | l :: ls => (c :: l) :: ls := by
  exact splitCRLF.eq_3 c rest (fun _ h _ => hc h)

theorem splitCRLF_of_not_mem (r : List Char) (h : '\r' ∉ r) : splitCRLF r = [r] := by
  induction r with
  | nil => simp [splitCRLF]
  | cons a t ih =>
    have ha : a ≠ '\r' := fun e => h (by simp [e])
    have ht : '\r' ∉ t := fun m => h (List.mem_cons_of_mem _ m)
    rw [splitCRLF_cons_of_ne a t ha, ih ht]

theorem splitCRLF_append_crlf (r rest : List Char) (h : '\r' ∉ r) :
    splitCRLF (r ++ '\r' :: '\n' :: rest) = r :: splitCRLF rest := by
  induction r with
  | nil => simp [splitCRLF]
  | cons a t ih =>
    have ha : a ≠ '\r' := fun e => h (by simp [e])
    have ht : '\r' ∉ t := fun m => h (List.mem_cons_of_mem _ m)
    rw [List.cons_append, splitCRLF_cons_of_ne a _ ha, ih ht]

theorem intercalate_crlf_cons_cons (r r' : List Char) (rest : List (List Char)) :
    ['\r', '\n'].intercalate (r :: r' :: rest) = r ++ '\r' :: '\n' :: ['\r', '\n'].intercalate (r' :: rest) := by
  simp

/-! ## Latin-1 -/

theorem latin1Encode_nil : latin1Encode [] = some [] := rfl

theorem latin1Encode_cons (c : Char) (l : List Char) :
    latin1Encode (c :: l) =
      (if c.toNat < 256 then some c.toNat else none).bind fun b =>
        (latin1Encode l).bind fun bs => some (b :: bs) := by
  simp [latin1Encode, List.mapM_cons]

/-! ## splitOn pieces, strip -/

theorem mem_splitOn_piece (a : Char) (l : List Char) :
    ∀ p ∈ l.splitOn a, ∀ c ∈ p, c ∈ l ∧ c ≠ a := by
  induction l with
  | nil => simp
  | cons x xs ih =>
    rw [List.splitOn_cons_eq_if_modifyHead]
    split
    · intro p hp c hc
      rcases List.mem_cons.1 hp with rfl | hp
      · simp at hc
      · have := ih p hp c hc
        exact ⟨List.mem_cons_of_mem _ this.1, this.2⟩
    · rename_i hx
      have hx' : x ≠ a := by simpa using hx
      cases hs : xs.splitOn a with
      | nil => simp
      | cons q qs =>
        rw [hs] at ih
        intro p hp c hc
        simp only [List.modifyHead_cons, List.mem_cons] at hp
        rcases hp with rfl | hp
        · rcases List.mem_cons.1 hc with rfl | hc
          · exact ⟨by simp, hx'⟩
          · have := ih q (by simp) c hc
            exact ⟨List.mem_cons_of_mem _ this.1, this.2⟩
        · have := ih p (List.mem_cons_of_mem _ hp) c hc
          exact ⟨List.mem_cons_of_mem _ this.1, this.2⟩

theorem mem_of_mem_stripChars (l : List Char) (c : Char) (h : c ∈ stripChars l) : c ∈ l := by
  unfold stripChars at h
  rw [List.mem_reverse] at h
  have h1 := (List.dropWhile_sublist _).mem h
  rw [List.mem_reverse] at h1
  exact (List.dropWhile_sublist _).mem h1

end Robotools
