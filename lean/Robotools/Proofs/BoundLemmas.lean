/-
  Every `A;`/`D;` record that any operation can append was accepted by `prepareAD` against the
  worklist's `max_volume` (used by Props/C03: no oversized step is ever present).
-/
import Robotools.Proofs.ReplayLemmas
namespace Robotools
namespace RP

/-- The record respects the per-step volume bound `M` (only `A;`/`D;` records carry a step). -/
def Rec.within (M : Rat) : Rec → Prop
  | .asp f => f.vol ≤ M
  | .disp f => f.vol ≤ M
  | _ => True

def Micro.within (M : Rat) : Micro → Prop
  | .emit r => Rec.within M r
  | _ => True

theorem within_of_neutral {M : Rat} {m : Micro} (h : Micro.neutral m = true) : Micro.within M m := by
  cases m with
  | emit r => cases r <;> simp_all [Micro.neutral, Rec.neutral, Micro.within, Rec.within]
  | _ => trivial

theorem within_of_noEmit {M : Rat} {m : Micro} (h : Micro.noEmit m = true) : Micro.within M m := by
  cases m with
  | emit r => simp [Micro.noEmit] at h
  | _ => trivial

theorem within_exceptMicros {α} {M : Rat} (x : Except Err α) (f : α → List Micro)
    (h : ∀ a, x = .ok a → ∀ m ∈ f a, Micro.within M m) : ∀ m ∈ exceptMicros x f, Micro.within M m := by
  intro m hm
  unfold exceptMicros at hm
  split at hm
  · exact h _ rfl m hm
  · simp only [List.mem_singleton] at hm; subst hm; trivial

theorem within_compileRemove (M : Rat) (L : Labware) (l : Nat) (wells : Arr String) (vols : Arr Rat)
    (label : Option String) : ∀ m ∈ compileRemove L l wells vols label, Micro.within M m := by
  intro m hm
  apply within_of_noEmit
  unfold compileRemove at hm
  simp only at hm
  split at hm
  · simp only [List.mem_singleton] at hm; subst hm; rfl
  · split at hm
    · simp only [List.mem_singleton] at hm; subst hm; rfl
    · rcases List.mem_append.1 hm with h | h
      · obtain ⟨p, _, rfl⟩ := List.mem_map.1 h
        exact rmMicro_noEmit L l p
      · simp only [List.mem_singleton] at h; subst h; rfl

theorem within_compileAdd (M : Rat) (L : Labware) (l : Nat) (wells : Arr String) (vols : Arr Rat)
    (label : Option String) (comps : Option (List (Option Comp))) (carryAll : Bool) :
    ∀ m ∈ compileAdd L l wells vols label comps carryAll, Micro.within M m := by
  intro m hm
  apply within_of_noEmit
  unfold compileAdd at hm
  simp only at hm
  split at hm
  · simp only [List.mem_singleton] at hm; subst hm; rfl
  · split at hm
    · simp only [List.mem_singleton] at hm; subst hm; rfl
    · split at hm
      · simp only [List.mem_singleton] at hm; subst hm; rfl
      · rcases List.mem_append.1 hm with h | h
        · obtain ⟨p, _, rfl⟩ := List.mem_map.1 h
          exact adMicro_noEmit L l p
        · simp only [List.mem_singleton] at h; subst h; rfl

theorem within_emitAD (cfg : Cfg) (L : Labware) (isAsp : Bool) (ws : List String) (vs : List Rat)
    (kw : KW) : ∀ m ∈ emitAD cfg L isAsp ws vs kw, Micro.within cfg.maxVolume m := by
  rw [emitAD_eq]
  intro m hm
  obtain ⟨p, _, hm⟩ := List.mem_flatMap.1 hm
  refine within_exceptMicros _ _ ?_ m hm
  intro rs hrs m' hm'
  obtain ⟨r, hr, rfl⟩ := List.mem_map.1 hm'
  unfold adOut at hrs
  split at hrs
  · cases hp : cfg.dev.pos L.geom p.1 with
    | error e => simp [hp] at hrs
    | ok pos =>
      simp only [hp] at hrs
      split at hrs
      · cases hrs
      · rename_i f hprep
        simp only [Except.ok.injEq] at hrs
        subst hrs
        simp only [List.mem_singleton] at hr
        subst hr
        obtain ⟨hfv, _, _, hmax⟩ := prepareAD_fields _ _ _ hprep
        have : f.vol ≤ cfg.maxVolume := by rw [hfv]; exact hmax _ rfl
        cases isAsp <;> exact this
  · simp only [Except.ok.injEq] at hrs
    subst hrs
    cases hr

theorem within_append {M : Rat} {a b : List Micro} (ha : ∀ m ∈ a, Micro.within M m)
    (hb : ∀ m ∈ b, Micro.within M m) : ∀ m ∈ a ++ b, Micro.within M m := by
  intro m hm
  rcases List.mem_append.1 hm with h | h
  · exact ha m h
  · exact hb m h

theorem within_neutral_list {M : Rat} {ms : List Micro} (h : ∀ m ∈ ms, Micro.neutral m = true) :
    ∀ m ∈ ms, Micro.within M m := fun m hm => within_of_neutral (h m hm)

theorem within_compileAspirate (cfg : Cfg) (L : Labware) (l : Nat) (wells : Arr String)
    (vols : Arr Rat) (label : Option String) (kw : KW) :
    ∀ m ∈ compileAspirate cfg L l wells vols label kw, Micro.within cfg.maxVolume m := by
  unfold compileAspirate
  exact within_append (within_append (within_compileRemove _ _ _ _ _ _)
    (within_neutral_list (commentMicros_neutral label))) (within_emitAD _ _ _ _ _ _)

theorem within_compileDispense (cfg : Cfg) (L : Labware) (l : Nat) (wells : Arr String)
    (vols : Arr Rat) (label : Option String) (comps : Option (List (Option Comp))) (kw : KW)
    (carryAll : Bool) :
    ∀ m ∈ compileDispense cfg L l wells vols label comps kw carryAll,
      Micro.within cfg.maxVolume m := by
  unfold compileDispense
  exact within_append (within_append (within_compileAdd _ _ _ _ _ _ _ _)
    (within_neutral_list (commentMicros_neutral label))) (within_emitAD _ _ _ _ _ _)

theorem within_single {M : Rat} {m : Micro} (h : Micro.within M m) : ∀ m' ∈ [m], Micro.within M m' := by
  intro m' hm'; simp only [List.mem_singleton] at hm'; subst hm'; exact h

theorem within_compileTransfer (cfg : Cfg) (S : Labware) (src : Nat) (srcWells : Arr String)
    (D : Labware) (dst : Nat) (dstWells : Arr String) (vols : Arr Rat) (label : Option String)
    (wash : WashArg) (partitionBy : String) (kw : KW) :
    ∀ m ∈ compileTransfer cfg S src srcWells D dst dstWells vols label wash partitionBy kw,
      Micro.within cfg.maxVolume m := by
  unfold compileTransfer
  split
  · exact within_single trivial
  · simp only
    split
    · exact within_single trivial
    · split
      · exact within_single trivial
      · split
        · exact within_single trivial
        · apply within_append
          · apply within_append (within_neutral_list (commentMicros_neutral label))
            intro m hm
            obtain ⟨stp, _, hm⟩ := List.mem_flatMap.1 hm
            cases stp with
            | pair s d v =>
              simp only at hm
              refine within_append (within_append (within_compileAspirate _ _ _ _ _ _ _) ?_)
                (within_compileDispense _ _ _ _ _ _ _ _ _) m hm
              exact within_exceptMicros _ _ (fun i _ => within_single (m := Micro.loadComp src i) trivial)
            | action => exact within_neutral_list (actionMicros_neutral cfg wash) m hm
            | brk => exact within_single (m := Micro.emit Rec.brk) trivial m hm
          · intro m hm
            split at hm
            · simp only [List.mem_singleton] at hm; subst hm; trivial
            · simp only [List.mem_cons, List.not_mem_nil, or_false] at hm
              rcases hm with rfl | rfl <;> trivial

theorem within_compileRD (cfg : Cfg) (a : RDArgs) :
    ∀ m ∈ compileRD cfg a, Micro.within cfg.maxVolume m := by
  intro m hm
  unfold compileRD at hm
  split at hm
  · simp only [List.mem_singleton] at hm; subst hm; trivial
  · simp only at hm
    split at hm
    · simp only [List.mem_singleton] at hm; subst hm; trivial
    · refine within_exceptMicros _ _ ?_ m hm
      intro _ _
      refine within_exceptMicros _ _ ?_
      intro _ _ m' hm'
      split at hm'
      · simp only [List.mem_singleton] at hm'; subst hm'; trivial
      · simp only [List.mem_singleton] at hm'; subst hm'; trivial

theorem within_compileDistribute (cfg : Cfg) (S D : Labware) (a : DistArgs) :
    ∀ m ∈ compileDistribute cfg S D a, Micro.within cfg.maxVolume m := by
  unfold compileDistribute
  split
  · exact within_single trivial
  · split
    · exact within_single trivial
    · simp only
      apply within_exceptMicros
      intro ps _
      split
      · exact within_single trivial
      · split
        · split
          · exact within_single trivial
          · exact within_append (within_append (within_append (within_append
              (within_compileRemove _ _ _ _ _ _)
              (within_exceptMicros _ _ (fun i _ => within_single trivial)))
              (within_compileAdd _ _ _ _ _ _ _ _))
              (within_neutral_list (commentMicros_neutral _))) (within_compileRD _ _)
        · exact within_single trivial

theorem within_compileEvoAD (cfg : Cfg) (L : Labware) (l : Nat) (isAsp : Bool) (a : EvoADArgs)
    (label : Option String) (comps : Option (List (Option Comp))) :
    ∀ m ∈ compileEvoAD cfg L l isAsp a label comps, Micro.within cfg.maxVolume m := by
  unfold compileEvoAD
  split
  · exact within_single trivial
  · simp only
    refine within_append (within_append ?_ (within_neutral_list (commentMicros_neutral label)))
      (within_exceptMicros _ _ (fun f _ => within_single trivial))
    split
    · exact within_compileRemove _ _ _ _ _ _
    · exact within_compileAdd _ _ _ _ _ _ _ _

/-- Every micro-operation any public operation compiles to respects the per-step bound. -/
theorem within_compile (w : World) (op : Op) : ∀ m ∈ compile w op, Micro.within w.cfg.maxVolume m := by
  cases op with
  | add l wells vols label comps =>
    simp only [compile]
    split
    · exact within_compileAdd _ _ _ _ _ _ _ _
    · exact within_single trivial
  | remove l wells vols label =>
    simp only [compile]
    split
    · exact within_compileRemove _ _ _ _ _ _
    · exact within_single trivial
  | condenseLog l n label => exact within_single trivial
  | aspirate l wells vols label kw =>
    simp only [compile]
    split
    · exact within_compileAspirate _ _ _ _ _ _ _
    · exact within_single trivial
  | dispense l wells vols label comps kw =>
    simp only [compile]
    split
    · exact within_compileDispense _ _ _ _ _ _ _ _ _
    · exact within_single trivial
  | transfer s sw d dw vols label wash pb kw =>
    simp only [compile]
    split
    · split
      · exact within_compileTransfer _ _ _ _ _ _ _ _ _ _ _ _
      · exact within_single trivial
    · exact within_single trivial
  | distribute a =>
    simp only [compile]
    split
    · split
      · exact within_compileDistribute _ _ _ _
      · exact within_single trivial
    · exact within_single trivial
  | comment c => exact within_neutral_list (commentMicros_neutral c)
  | wash n => exact within_neutral_list (washMicros_neutral w.cfg n)
  | decontaminate =>
    simp only [compile]
    split <;> exact within_single trivial
  | flush => exact within_single trivial
  | commit => exact within_single trivial
  | setDiti i => exact within_single trivial
  | aspirateWell a =>
    simp only [compile]
    apply within_exceptMicros
    intro f hf
    obtain ⟨hfv, _, _, hmax⟩ := prepareAD_fields _ _ _ hf
    exact within_single (by show f.vol ≤ _; rw [hfv]; exact hmax _ rfl)
  | dispenseWell a =>
    simp only [compile]
    apply within_exceptMicros
    intro f hf
    obtain ⟨hfv, _, _, hmax⟩ := prepareAD_fields _ _ _ hf
    exact within_single (by show f.vol ≤ _; rw [hfv]; exact hmax _ rfl)
  | reagentDistribution a => exact within_compileRD _ _
  | evoAspirate l a label =>
    simp only [compile]
    split
    · exact within_compileEvoAD _ _ _ _ _ _ _
    · exact within_single trivial
  | evoDispense l a label comps =>
    simp only [compile]
    split
    · exact within_compileEvoAD _ _ _ _ _ _ _
    · exact within_single trivial
  | evoWash a =>
    simp only [compile]
    split
    · exact within_single trivial
    · exact within_exceptMicros _ _ (fun f _ => within_single trivial)

/-- Records only enter the worklist through `emit` / `setDiti` micro-operations. -/
theorem recs_within_micro {M : Rat} {w w' : World} {m : Micro} (hm : Micro.within M m)
    (hw : ∀ r ∈ w.recs, Rec.within M r) (h : w.micro m = .ok w') : ∀ r ∈ w'.recs, Rec.within M r := by
  cases m with
  | emit r0 =>
    simp only [World.micro] at h
    cases h
    intro r hr
    rcases List.mem_append.1 hr with h' | h'
    · exact hw r h'
    · simp only [List.mem_singleton] at h'; subst h'; exact hm
  | setDiti i =>
    simp only [World.micro] at h
    repeat' split at h
    all_goals first
      | (injection h with h; subst h
         intro r hr
         rcases List.mem_append.1 hr with h' | h'
         · exact hw r h'
         · simp only [List.mem_singleton] at h'; subst h'; trivial)
      | (injection h)
  | rm l i v => rw [recs_micro_noEmit rfl h]; exact hw
  | ad l i v c => rw [recs_micro_noEmit rfl h]; exact hw
  | loadComp l i => rw [recs_micro_noEmit rfl h]; exact hw
  | log l label => rw [recs_micro_noEmit rfl h]; exact hw
  | condense l n label => rw [recs_micro_noEmit rfl h]; exact hw
  | fail e => simp [World.micro] at h

theorem recs_within_exec {M : Rat} (w : World) (ms : List Micro) (hms : ∀ m ∈ ms, Micro.within M m)
    (hw : ∀ r ∈ w.recs, Rec.within M r) : ∀ r ∈ (w.exec ms).1.recs, Rec.within M r :=
  World.exec_invariant (P := fun w' => ∀ r ∈ w'.recs, Rec.within M r) (Q := Micro.within M)
    (fun _ _ _ hq hp hm => recs_within_micro hq hp hm) w ms hms hw

end RP
end Robotools
