/-
  Lemmas relating the worklist model (`World.exec`) to the independent record interpreter
  (`RState.run`): the replay of the records emitted so far mirrors the tracked volumes.
  Used by Props/C01 and Props/C03.
-/
import Robotools.Model.World
import Robotools.Model.Replay
import Robotools.Model.ReplayInit
import Robotools.Proofs.ExecLemmas
import Robotools.Proofs.GeometryLemmas
import Mathlib.Tactic.Ring
import Mathlib.Tactic.Linarith
import Mathlib.Algebra.Order.Field.Rat

namespace Robotools
namespace RP

/-! ### The replay interpreter: append -/

theorem run_append (dev : Device) (st : RState) (a b : List Rec) :
    st.run dev (a ++ b) = (st.run dev a).bind fun st' => st'.run dev b := by
  induction a generalizing st with
  | nil => simp [RState.run]
  | cons r rs ih =>
    simp only [List.cons_append, RState.run]
    cases h : st.interp dev r with
    | none => simp
    | some st1 => simp [ih]

theorem run_singleton (dev : Device) (st : RState) (r : Rec) :
    st.run dev [r] = st.interp dev r := by
  simp only [RState.run]
  cases st.interp dev r <;> simp [RState.run]

/-! ### Matching states -/

/-- Replay labware `R` mirrors tracked labware `L`: same static data, same volumes. -/
structure LabMatch (R : RLab) (L : Labware) : Prop where
  name : R.name = L.name
  geom : R.geom = L.geom
  minV : R.minV = L.minV
  maxV : R.maxV = L.maxV
  vols : R.wells.map (·.vol) = L.vols

def Match (st : RState) (w : World) : Prop := List.Forall₂ LabMatch st.labs w.labs

theorem LabMatch.length {R : RLab} {L : Labware} (h : LabMatch R L) :
    R.wells.length = L.vols.length := by
  rw [← h.vols, List.length_map]

theorem LabMatch.vol_eq {R : RLab} {L : Labware} (h : LabMatch R L) {i : Nat} {wl : RWell}
    (hw : R.wells[i]? = some wl) : wl.vol = L.vol i := by
  unfold Labware.vol
  rw [← h.vols]
  simp [List.getD_eq_getElem?_getD, hw]

theorem set_getD_self {α} (l : List α) (i : Nat) (d : α) : l.set i (l.getD i d) = l := by
  by_cases hi : i < l.length
  · apply List.ext_getElem?
    intro j
    by_cases hj : j = i
    · subst hj
      simp [List.getD_eq_getElem?_getD, hi]
    · rw [List.getElem?_set_ne (fun e => hj e.symm)]
  · exact List.set_eq_of_length_le (Nat.le_of_not_lt hi)

/-- An accepted `removeStep` is an accepted `take` on the matching replay labware. -/
theorem take_of_removeStep {R : RLab} {L L' : Labware} {i : Nat} {v : Rat} (hm : LabMatch R L)
    (hi : i < L.vols.length) (h : L.removeStep i v = .ok L') :
    ∃ R' out, R.take i v = some (R', out) ∧ LabMatch R' L' := by
  obtain ⟨hge, hvols, hmin, hmax, hname, hgeom, _⟩ := Labware.removeStep_fields h
  have hlen := hm.length
  have hiR : i < R.wells.length := by omega
  have hw : R.wells[i]? = some R.wells[i] := List.getElem?_eq_getElem hiR
  have hv := hm.vol_eq hw
  unfold RLab.take
  rw [hw]
  simp only
  rw [hm.minV, hv, if_neg hge]
  refine ⟨_, _, rfl, ?_⟩
  refine ⟨by simp [hm.name, hname], by simp [hm.geom, hgeom], by simp [hm.minV, hmin],
    by simp [hm.maxV, hmax], ?_⟩
  simp only
  rw [hvols, ← hm.vols, List.map_set]

/-- An accepted `addStep` is an accepted `put` on the matching replay labware. -/
theorem put_of_addStep {R : RLab} {L L' : Labware} {i : Nat} {v : Rat} {c : Option Comp}
    (a : Amounts) (hm : LabMatch R L) (hi : i < L.vols.length) (h : L.addStep i v c = .ok L') :
    ∃ R', R.put i v a = some R' ∧ LabMatch R' L' := by
  obtain ⟨hge, hvols, hmin, hmax, hname, hgeom, _⟩ := Labware.addStep_fields h
  have hlen := hm.length
  have hiR : i < R.wells.length := by omega
  have hw : R.wells[i]? = some R.wells[i] := List.getElem?_eq_getElem hiR
  have hv := hm.vol_eq hw
  unfold RLab.put
  rw [hw]
  simp only
  rw [hm.maxV, hv, if_neg hge]
  refine ⟨_, rfl, ?_⟩
  refine ⟨by simp [hm.name, hname], by simp [hm.geom, hgeom], by simp [hm.minV, hmin],
    by simp [hm.maxV, hmax], ?_⟩
  simp only
  rw [hvols, ← hm.vols, List.map_set]

/-! ### Static data, well-formedness -/

/-- What never changes about a labware: name, geometry, limits, number of real wells. -/
def sinfo (L : Labware) : String × Geom × Nat := (L.name, L.geom, L.vols.length)

def info (w : World) : List (String × Geom × Nat) := w.labs.map sinfo

/-- Geometry side conditions established by the constructors (C20). -/
structure GeomOK (g : Geom) (len : Nat) : Prop where
  trough : ∀ v, g.vrows = some v → g.rows = 1 ∧ 0 < v
  plate : g.vrows = none → 0 < g.rows ∧ g.rows ≤ 26
  len : len = g.rows * g.cols

def WFI (I : List (String × Geom × Nat)) : Prop :=
  (I.map (·.1)).Nodup ∧ ∀ x ∈ I, GeomOK x.2.1 x.2.2

theorem resolve_some' {g : Geom} {s : String} {rc : Nat × Nat} (h : g.resolve s = some rc) :
    ∃ r c, r < g.nRowIds ∧ c < g.cols ∧ s = wellId r c ∧ rc = (if g.isTrough then 0 else r, c) := by
  obtain ⟨r, c, hr, hc, heq⟩ := (g.mem_table _).1 (mem_of_lookup_eq_some h)
  exact ⟨r, c, hr, hc, (Prod.mk.inj heq).1, (Prod.mk.inj heq).2⟩

theorem nRowIds_le_stride (g : Geom) : g.nRowIds ≤ g.stride := by
  unfold Geom.stride Geom.nRowIds
  cases g.vrows with
  | none => exact Nat.le_refl _
  | some v => exact Nat.min_le_right _ _

theorem evoWellOf_lin (g : Geom) {r c : Nat} (hr : r < g.stride) (hc : c < g.cols) :
    g.evoWellOf (1 + c * g.stride + r) = some (if g.isTrough then 0 else r, c) := by
  have hS : 0 < g.stride := by omega
  have e1 : (1 + c * g.stride + r - 1) % g.stride = r := by
    rw [show 1 + c * g.stride + r - 1 = r + c * g.stride by omega, Nat.add_mul_mod_self_right,
      Nat.mod_eq_of_lt hr]
  have e2 : (1 + c * g.stride + r - 1) / g.stride = c := by
    rw [show 1 + c * g.stride + r - 1 = r + c * g.stride by omega, Nat.add_mul_div_right _ _ hS,
      Nat.div_eq_of_lt hr, Nat.zero_add]
  unfold Geom.evoWellOf
  rw [if_neg (by omega)]
  simp only [e1, e2, hc, if_true]

/-- The device numbering used for a record is inverted by the replay's `wellOf`, and lands on
    the real well that the tracking charged. -/
theorem wellOf_pos {dev : Device} {g : Geom} {len : Nat} {s : String} {p i : Nat}
    (hg : GeomOK g len) (hp : dev.pos g s = .ok p) (hr : g.resolveFlat s = some i) :
    ∃ rc, dev.wellOf g p = some rc ∧ g.flat rc = i ∧ i < len := by
  unfold Geom.resolveFlat at hr
  cases hres : g.resolve s with
  | none => rw [hres] at hr; cases hr
  | some rc =>
    rw [hres] at hr
    simp only [Option.map_some, Option.some.injEq] at hr
    obtain ⟨r, c, hr', hc, rfl, hrc⟩ := resolve_some' hres
    have hrS : r < g.stride := Nat.lt_of_lt_of_le hr' (nRowIds_le_stride g)
    have hlen : i < len := by
      rw [hg.len, ← hr, hrc]
      unfold Geom.flat
      cases hv : g.vrows with
      | some v =>
        have := (hg.trough v hv).1
        simp only [Geom.isTrough, hv, Option.isSome_some, if_true, this]
        omega
      | none =>
        have hrr : r < g.rows := by
          have : g.nRowIds ≤ g.rows := by
            unfold Geom.nRowIds; rw [hv]; exact Nat.min_le_right _ _
          omega
        simp only [Geom.isTrough, hv, Option.isSome_none, Bool.false_eq_true, if_false]
        calc r * g.cols + c < r * g.cols + g.cols := by omega
          _ = (r + 1) * g.cols := by rw [Nat.add_mul, Nat.one_mul]
          _ ≤ g.rows * g.cols := Nat.mul_le_mul_right _ hrr
    refine ⟨rc, ?_, hr, hlen⟩
    cases dev with
    | base => simp [Device.pos] at hp
    | evo =>
      simp only [Device.pos, g.evoPos_wellId hr' hc] at hp
      cases hp
      simp only [Device.wellOf]
      rw [evoWellOf_lin g hrS hc, hrc]
    | fluent =>
      simp only [Device.pos, g.fluentPos_wellId hr' hc] at hp
      cases hp
      simp only [Device.wellOf, Geom.fluentWellOf]
      cases hv : g.vrows with
      | some v =>
        simp only [Geom.isTrough, hv, Option.isSome_some, if_true] at hrc ⊢
        rw [if_pos ⟨by omega, by omega⟩, hrc]
        simp
      | none =>
        have hst : g.stride = g.nRowIds := by unfold Geom.stride; rw [hv]
        simp only [Geom.isTrough, hv, Option.isSome_none, Bool.false_eq_true, if_false] at hrc ⊢
        have := evoWellOf_lin g hrS hc
        rw [hst] at this
        rw [this, hrc]
        simp [Geom.isTrough, hv]

/-! ### Looking up a labware by name; interpreting `A;` and `D;` records -/

theorem find_zipIdx_unique {α β} [DecidableEq β] (f : α → β) (xs : List α) (n l : Nat) (x : α)
    (hnd : (xs.map f).Nodup) (hx : xs[l]? = some x) :
    (xs.zipIdx n).find? (fun p => decide (f p.1 = f x)) = some (x, n + l) := by
  induction xs generalizing n l with
  | nil => simp at hx
  | cons y ys ih =>
    rw [List.zipIdx_cons]
    cases l with
    | zero =>
      simp only [List.getElem?_cons_zero, Option.some.injEq] at hx
      subst hx
      simp
    | succ l' =>
      simp only [List.getElem?_cons_succ] at hx
      rw [List.map_cons, List.nodup_cons] at hnd
      have hne : f y ≠ f x := by
        intro e
        apply hnd.1
        rw [e]
        exact List.mem_map.2 ⟨x, List.mem_of_getElem? hx, rfl⟩
      rw [List.find?_cons_of_neg (by simpa using hne)]
      rw [ih (n + 1) l' hnd.2 hx]
      congr 2
      omega

theorem forall₂_set {α β} {R : α → β → Prop} {xs : List α} {ys : List β} (h : List.Forall₂ R xs ys)
    (l : Nat) {a : α} {b : β} (hab : R a b) : List.Forall₂ R (xs.set l a) (ys.set l b) := by
  induction h generalizing l with
  | nil => exact List.Forall₂.nil
  | cons hxy _ ih =>
    cases l with
    | zero => exact List.Forall₂.cons hab (by assumption)
    | succ l' => exact List.Forall₂.cons hxy (ih l')

theorem forall₂_getElem? {α β} {R : α → β → Prop} {xs : List α} {ys : List β}
    (h : List.Forall₂ R xs ys) {l : Nat} {b : β} (hb : ys[l]? = some b) :
    ∃ a, xs[l]? = some a ∧ R a b := by
  induction h generalizing l with
  | nil => simp at hb
  | cons hxy _ ih =>
    cases l with
    | zero =>
      simp only [List.getElem?_cons_zero, Option.some.injEq] at hb
      subst hb
      exact ⟨_, rfl, hxy⟩
    | succ l' => exact ih hb

theorem forall₂_names {xs : List RLab} {ys : List Labware} (hM : List.Forall₂ LabMatch xs ys) :
    xs.map (·.name) = ys.map (·.name) := by
  induction hM with
  | nil => rfl
  | cons h _ ih => simp [h.name, ih]

theorem match_names {st : RState} {w : World} (hM : Match st w) :
    st.labs.map (·.name) = w.labs.map (·.name) := forall₂_names hM

theorem match_set {st : RState} {w : World} (hM : Match st w) (l : Nat) {R : RLab} {L : Labware}
    (h : LabMatch R L) : Match (st.setLab l R) (w.setLab l L) := by
  unfold Match RState.setLab World.setLab
  exact forall₂_set hM l h

theorem match_tip {st : RState} {w : World} (hM : Match st w) (t : Amounts) :
    Match { st with tip := t } w := hM

theorem names_nodup {w : World} {I} (hI : info w = I) (hwf : WFI I) :
    (w.labs.map (·.name)).Nodup := by
  have := hwf.1
  rw [← hI] at this
  simpa [info, sinfo, List.map_map, Function.comp_def] using this

theorem geomOK_of_mem {w : World} {I} (hI : info w = I) (hwf : WFI I) {l : Nat} {L : Labware}
    (hL : w.labs[l]? = some L) : GeomOK L.geom L.vols.length := by
  have hmem : sinfo L ∈ I := by
    rw [← hI]
    exact List.mem_map.2 ⟨L, List.mem_of_getElem? hL, rfl⟩
  exact hwf.2 _ hmem

theorem findLab_of_match {st : RState} {w : World} {I} (hM : Match st w) (hI : info w = I)
    (hwf : WFI I) {l : Nat} {L : Labware} (hL : w.labs[l]? = some L) :
    ∃ R, st.labs[l]? = some R ∧ LabMatch R L ∧ st.findLab L.name = some (l, R) := by
  obtain ⟨R, hR, hRL⟩ := forall₂_getElem? hM hL
  refine ⟨R, hR, hRL, ?_⟩
  have hnd : (st.labs.map (·.name)).Nodup := by
    rw [match_names hM]; exact names_nodup hI hwf
  have := find_zipIdx_unique (fun (R : RLab) => R.name) st.labs 0 l R hnd hR
  unfold RState.findLab
  rw [← hRL.name]
  simp only [Nat.zero_add] at this
  simp only [this, Option.map_some]

/-- Replaying an `A;` record that the worklist model emitted for an accepted removal. -/
theorem interp_asp {dev : Device} {st : RState} {w : World} {I} (hM : Match st w)
    (hI : info w = I) (hwf : WFI I) {l : Nat} {L : Labware} (hL : w.labs[l]? = some L)
    {s : String} {p i : Nat} (hp : dev.pos L.geom s = .ok p) (hr : L.geom.resolveFlat s = some i)
    {f : ADFields} (hlab : f.rackLabel = L.name) (hpos : f.position = p) {L' : Labware}
    (hstep : L.removeStep i f.vol = .ok L') :
    ∃ st', st.interp dev (.asp f) = some st' ∧ Match st' (w.setLab l L') := by
  obtain ⟨R, _, hRL, hfind⟩ := findLab_of_match hM hI hwf hL
  obtain ⟨rc, hwo, hflat, hlen⟩ := wellOf_pos (geomOK_of_mem hI hwf hL) hp hr
  obtain ⟨R', out, htake, hRL'⟩ := take_of_removeStep hRL hlen hstep
  have hwa : R.wellAt dev f.position = some i := by
    unfold RLab.wellAt
    rw [hRL.geom, hpos, hwo]
    simp only [Option.bind_some, hflat]
    rw [if_pos (by rw [hRL.length]; exact hlen)]
  refine ⟨{ (st.setLab l R') with tip := out }, ?_, match_tip (match_set hM l hRL') out⟩
  simp only [RState.interp, hlab, hfind, hwa, htake, Option.bind_eq_bind, Option.bind_some,
    Option.pure_def]

/-- Replaying a `D;` record that the worklist model emitted for an accepted addition. -/
theorem interp_disp {dev : Device} {st : RState} {w : World} {I} (hM : Match st w)
    (hI : info w = I) (hwf : WFI I) {l : Nat} {L : Labware} (hL : w.labs[l]? = some L)
    {s : String} {p i : Nat} (hp : dev.pos L.geom s = .ok p) (hr : L.geom.resolveFlat s = some i)
    {f : ADFields} (hlab : f.rackLabel = L.name) (hpos : f.position = p) {L' : Labware}
    {c : Option Comp} (hstep : L.addStep i f.vol c = .ok L') :
    ∃ st', st.interp dev (.disp f) = some st' ∧ Match st' (w.setLab l L') := by
  obtain ⟨R, _, hRL, hfind⟩ := findLab_of_match hM hI hwf hL
  obtain ⟨rc, hwo, hflat, hlen⟩ := wellOf_pos (geomOK_of_mem hI hwf hL) hp hr
  obtain ⟨R', hput, hRL'⟩ := put_of_addStep st.tip hRL hlen hstep
  have hwa : R.wellAt dev f.position = some i := by
    unfold RLab.wellAt
    rw [hRL.geom, hpos, hwo]
    simp only [Option.bind_some, hflat]
    rw [if_pos (by rw [hRL.length]; exact hlen)]
  refine ⟨st.setLab l R', ?_, match_set hM l hRL'⟩
  simp only [RState.interp, hlab, hfind, hwa, hput, Option.bind_eq_bind, Option.bind_some,
    Option.pure_def]

/-! ### `prepareAD`: what an accepted record carries -/

theorem prepareAD_fields (a : ADArgs) (M : Option Rat) (f : ADFields) (h : prepareAD a M = .ok f) :
    f.vol = a.vol ∧ f.rackLabel = a.rackLabel ∧ f.position = a.position.toNat
      ∧ (∀ m, M = some m → a.vol ≤ m) := by
  simp only [prepareAD, bind, Except.bind, pure, Except.pure, throw, throwThe,
    MonadExceptOf.throw] at h
  repeat' split at h
  all_goals first
    | (injection h with h; subst h; refine ⟨rfl, rfl, rfl, ?_⟩
       intro m hm; cases hm; exact Rat.not_lt.mp (by assumption))
    | (injection h with h; subst h; refine ⟨rfl, rfl, rfl, ?_⟩
       intro m hm; cases hm)
    | (injection h)

/-! ### The invariant and safe blocks -/

/-- The records emitted so far can be replayed from the initial contents. -/
def Replayable (dev : Device) (labs₀ : List Labware) (w : World) : Prop :=
  ∃ st, (RState.ofLabs labs₀).run dev w.recs = some st

/-- … and the replay reproduces the tracked volumes of every well. -/
def Inv (dev : Device) (labs₀ : List Labware) (w : World) : Prop :=
  ∃ st, (RState.ofLabs labs₀).run dev w.recs = some st ∧ Match st w

theorem Inv.replayable {dev labs₀ w} (h : Inv dev labs₀ w) : Replayable dev labs₀ w :=
  let ⟨st, h1, _⟩ := h; ⟨st, h1⟩

theorem sinfo_set {labs : List Labware} {l : Nat} {L L' : Labware} (hL : labs[l]? = some L)
    (h : sinfo L' = sinfo L) : (labs.set l L').map sinfo = labs.map sinfo := by
  rw [List.map_set, h]
  have : (labs.map sinfo)[l]? = some (sinfo L) := by simp [hL]
  apply List.ext_getElem?
  intro j
  by_cases hj : l = j
  · subst hj
    rw [List.getElem?_set_self' ]
    simp [hL]
  · rw [List.getElem?_set_ne hj]

theorem info_micro {w w' : World} {m : Micro} (h : w.micro m = .ok w') : info w' = info w := by
  rcases World.micro_labs h with h' | ⟨l, L, L', hL, hset, hcase⟩
  · unfold info; rw [h']
  · unfold info
    rw [hset]
    apply sinfo_set hL
    rcases hcase with ⟨i, v, _, hs⟩ | ⟨i, v, c, co, _, hs⟩ | ⟨label, rfl⟩ | ⟨n, label, hs⟩
    · obtain ⟨_, hv, _, _, hn, hg, _⟩ := Labware.removeStep_fields hs
      simp [sinfo, hv, hn, hg]
    · obtain ⟨_, hv, _, _, hn, hg, _⟩ := Labware.addStep_fields hs
      simp [sinfo, hv, hn, hg]
    · simp [sinfo, Labware.log]
    · obtain ⟨hv, _, _, _, hg, hn⟩ := Labware.condenseLog_fields hs
      simp [sinfo, hv, hn, hg]

theorem info_exec (w : World) (ms : List Micro) : info (w.exec ms).1 = info w := by
  have := World.exec_invariant (P := fun w' => info w' = info w) (Q := fun _ => True)
    (fun w1 w2 m _ hP hm => by rw [info_micro hm]; exact hP) w ms (fun _ _ => trivial) rfl
  exact this

/-- A list of micro-operations which, run from any state in which the replay mirrors the
    tracking, leaves the records replayable (also when it stops early) and, when it runs to the
    end, leaves the replay mirroring the tracking again. -/
def SafeBlock (dev : Device) (labs₀ : List Labware) (I : List (String × Geom × Nat))
    (ms : List Micro) : Prop :=
  ∀ w, info w = I → Inv dev labs₀ w →
    Replayable dev labs₀ (w.exec ms).1 ∧ ((w.exec ms).2 = none → Inv dev labs₀ (w.exec ms).1)

theorem safe_nil {dev labs₀ I} : SafeBlock dev labs₀ I [] :=
  fun _ _ hinv => ⟨hinv.replayable, fun _ => hinv⟩

theorem safe_append {dev labs₀ I a b} (ha : SafeBlock dev labs₀ I a) (hb : SafeBlock dev labs₀ I b) :
    SafeBlock dev labs₀ I (a ++ b) := by
  intro w hI hinv
  rw [World.exec_append]
  obtain ⟨hr, hi⟩ := ha w hI hinv
  have hinfo := info_exec w a
  cases hx : w.exec a with
  | mk w1 e1 =>
    rw [hx] at hr hi hinfo
    cases e1 with
    | none => exact hb w1 (by rw [hinfo, hI]) (hi rfl)
    | some e => exact ⟨hr, fun h => by cases h⟩

theorem safe_flatMap {α} {dev labs₀ I} (xs : List α) (f : α → List Micro)
    (h : ∀ x ∈ xs, SafeBlock dev labs₀ I (f x)) : SafeBlock dev labs₀ I (xs.flatMap f) := by
  induction xs with
  | nil => exact safe_nil
  | cons x xs ih =>
    rw [List.flatMap_cons]
    exact safe_append (h x List.mem_cons_self) (ih fun y hy => h y (List.mem_cons_of_mem _ hy))

/-- Records the replay ignores. -/
def Rec.neutral : Rec → Bool
  | .asp _ | .disp _ | .rd _ => false
  | _ => true

theorem interp_neutral (dev : Device) (st : RState) {r : Rec} (h : Rec.neutral r = true) :
    st.interp dev r = some st := by
  cases r <;> simp_all [Rec.neutral, RState.interp]

/-- Micro-operations that change no volume and emit nothing the replay interprets. -/
def Micro.neutral : Micro → Bool
  | .rm _ _ _ | .ad _ _ _ _ => false
  | .emit r => Rec.neutral r
  | _ => true

theorem labMatch_of_vols {R : RLab} {L L' : Labware} (h : LabMatch R L) (hv : L'.vols = L.vols)
    (hn : L'.name = L.name) (hg : L'.geom = L.geom) (hmin : L'.minV = L.minV)
    (hmax : L'.maxV = L.maxV) : LabMatch R L' :=
  ⟨by rw [h.name, hn], by rw [h.geom, hg], by rw [h.minV, hmin], by rw [h.maxV, hmax],
   by rw [h.vols, hv]⟩

theorem forall₂_set_right {α β} {R : α → β → Prop} {xs : List α} {ys : List β}
    (h : List.Forall₂ R xs ys) (l : Nat) {a : α} {b : β} (ha : xs[l]? = some a) (hab : R a b) :
    List.Forall₂ R xs (ys.set l b) := by
  induction h generalizing l with
  | nil => exact List.Forall₂.nil
  | cons hxy hrest ih =>
    cases l with
    | zero =>
      simp only [List.getElem?_cons_zero, Option.some.injEq] at ha
      subst ha
      exact List.Forall₂.cons hab hrest
    | succ l' => exact List.Forall₂.cons hxy (ih l' ha)

theorem match_set_right {st : RState} {w : World} (hM : Match st w) (l : Nat) {R : RLab}
    {L' : Labware} (hR : st.labs[l]? = some R) (h : LabMatch R L') : Match st (w.setLab l L') := by
  unfold Match World.setLab
  exact forall₂_set_right hM l hR h

theorem safe_neutral {dev labs₀ I} (m : Micro) (hm : Micro.neutral m = true) :
    SafeBlock dev labs₀ I [m] := by
  intro w _ hinv
  obtain ⟨st, hrun, hM⟩ := hinv
  cases hx : w.micro m with
  | error e =>
    rw [World.exec_cons_error _ hx]
    exact ⟨⟨st, hrun⟩, fun h => by cases h⟩
  | ok w' =>
    rw [World.exec_cons_ok _ hx, World.exec_nil]
    suffices h : Inv dev labs₀ w' from ⟨h.replayable, fun _ => h⟩
    cases m with
    | rm _ _ _ => simp [Micro.neutral] at hm
    | ad _ _ _ _ => simp [Micro.neutral] at hm
    | loadComp l i =>
      simp only [World.micro] at hx
      split at hx
      · cases hx
      · cases hx; exact ⟨st, hrun, hM⟩
    | log l label =>
      simp only [World.micro] at hx
      split at hx
      · cases hx
      · rename_i L hL
        cases hx
        obtain ⟨R, hR, hRL⟩ := forall₂_getElem? hM hL
        exact ⟨st, hrun, match_set_right hM l hR (labMatch_of_vols hRL rfl rfl rfl rfl rfl)⟩
    | condense l n label =>
      simp only [World.micro] at hx
      split at hx
      · cases hx
      · rename_i L hL
        split at hx
        · rename_i L' hL'
          cases hx
          obtain ⟨hv, hmin, hmax, _, hg, hn⟩ := Labware.condenseLog_fields hL'
          obtain ⟨R, hR, hRL⟩ := forall₂_getElem? hM hL
          exact ⟨st, hrun, match_set_right hM l hR (labMatch_of_vols hRL hv hn hg hmin hmax)⟩
        · cases hx
    | emit r =>
      simp only [World.micro] at hx
      cases hx
      refine ⟨st, ?_, hM⟩
      simp only
      rw [run_append, hrun, Option.bind_some, run_singleton]
      exact interp_neutral dev st hm
    | setDiti i =>
      simp only [World.micro] at hx
      repeat' split at hx
      all_goals first
        | (injection hx with hx; subst hx
           refine ⟨st, ?_, hM⟩
           simp only
           rw [run_append, hrun, Option.bind_some, run_singleton]
           rfl)
        | (injection hx)
    | fail e => simp [World.micro] at hx

theorem safe_all_neutral {dev labs₀ I} (ms : List Micro) (h : ∀ m ∈ ms, Micro.neutral m = true) :
    SafeBlock dev labs₀ I ms := by
  induction ms with
  | nil => exact safe_nil
  | cons m ms ih =>
    exact safe_append (a := [m]) (safe_neutral m (h m List.mem_cons_self))
      (ih fun m' hm' => h m' (List.mem_cons_of_mem _ hm'))

/-! ### Neutral stretches -/

theorem run_neutral (dev : Device) (st : RState) (rs : List Rec) (h : ∀ r ∈ rs, Rec.neutral r = true) :
    st.run dev rs = some st := by
  induction rs with
  | nil => rfl
  | cons r rs ih =>
    simp only [RState.run, interp_neutral dev st (h r List.mem_cons_self), Option.bind_some]
    exact ih fun r' hr' => h r' (List.mem_cons_of_mem _ hr')

theorem neutral_micro {w w' : World} {m : Micro} (hm : Micro.neutral m = true)
    (hx : w.micro m = .ok w') :
    ∃ nrecs, (∀ r ∈ nrecs, Rec.neutral r = true) ∧ w'.recs = w.recs ++ nrecs
      ∧ ∀ st, Match st w → Match st w' := by
  cases m with
  | rm _ _ _ => simp [Micro.neutral] at hm
  | ad _ _ _ _ => simp [Micro.neutral] at hm
  | loadComp l i =>
    simp only [World.micro] at hx
    split at hx
    · cases hx
    · cases hx; exact ⟨[], by simp, by simp, fun st h => h⟩
  | log l label =>
    simp only [World.micro] at hx
    split at hx
    · cases hx
    · rename_i L hL
      cases hx
      refine ⟨[], by simp, by simp [World.setLab], fun st hM => ?_⟩
      obtain ⟨R, hR, hRL⟩ := forall₂_getElem? hM hL
      exact match_set_right hM l hR (labMatch_of_vols hRL rfl rfl rfl rfl rfl)
  | condense l n label =>
    simp only [World.micro] at hx
    split at hx
    · cases hx
    · rename_i L hL
      split at hx
      · rename_i L' hL'
        cases hx
        obtain ⟨hv, hmin, hmax, _, hg, hn⟩ := Labware.condenseLog_fields hL'
        refine ⟨[], by simp, by simp [World.setLab], fun st hM => ?_⟩
        obtain ⟨R, hR, hRL⟩ := forall₂_getElem? hM hL
        exact match_set_right hM l hR (labMatch_of_vols hRL hv hn hg hmin hmax)
      · cases hx
  | emit r =>
    simp only [World.micro] at hx
    cases hx
    exact ⟨[r], by simpa [Micro.neutral] using hm, rfl, fun st h => h⟩
  | setDiti i =>
    simp only [World.micro] at hx
    repeat' split at hx
    all_goals first
      | (injection hx with hx; subst hx
         exact ⟨[Rec.setDiti i], by simp [Rec.neutral], rfl, fun st h => h⟩)
      | (injection hx)
  | fail e => simp [World.micro] at hx

theorem neutral_exec (w : World) (ms : List Micro) (h : ∀ m ∈ ms, Micro.neutral m = true) :
    ∃ nrecs, (∀ r ∈ nrecs, Rec.neutral r = true) ∧ (w.exec ms).1.recs = w.recs ++ nrecs
      ∧ ∀ st, Match st w → Match st (w.exec ms).1 := by
  induction ms generalizing w with
  | nil => exact ⟨[], by simp, by simp, fun st h => h⟩
  | cons m ms ih =>
    cases hx : w.micro m with
    | error e =>
      rw [World.exec_cons_error _ hx]
      exact ⟨[], by simp, by simp, fun st h => h⟩
    | ok w' =>
      rw [World.exec_cons_ok _ hx]
      obtain ⟨n1, hn1, hr1, hM1⟩ := neutral_micro (h m List.mem_cons_self) hx
      obtain ⟨n2, hn2, hr2, hM2⟩ := ih w' fun m' hm' => h m' (List.mem_cons_of_mem _ hm')
      refine ⟨n1 ++ n2, ?_, by rw [hr2, hr1, List.append_assoc], fun st hM => hM2 st (hM1 st hM)⟩
      intro r hr
      rcases List.mem_append.1 hr with h' | h'
      · exact hn1 r h'
      · exact hn2 r h'

/-! ### Emission loops -/

/-- Sequential evaluation of an emission loop: all records, or the first error. -/
def emitAll {α} (f : α → Except Err (List Rec)) : List α → Except Err (List Rec)
  | [] => .ok []
  | p :: ps =>
    match f p with
    | .error e => .error e
    | .ok rs =>
      match emitAll f ps with
      | .error e => .error e
      | .ok rs' => .ok (rs ++ rs')

theorem exec_emit_list (w : World) (rs : List Rec) :
    w.exec (rs.map Micro.emit) = ({ w with recs := w.recs ++ rs }, none) := by
  induction rs generalizing w with
  | nil => simp
  | cons r rs ih =>
    rw [List.map_cons, World.exec_cons_ok (w' := { w with recs := w.recs ++ [r] }) _ rfl, ih]
    simp

/-- An emission loop run under `exec` appends exactly the records of a prefix of its iterations
    (all of them when it runs to the end) and touches nothing else. -/
theorem exec_emits {α} (f : α → Except Err (List Rec)) (ps : List α) (w : World) :
    ∃ j recs, j ≤ ps.length ∧ emitAll f (ps.take j) = .ok recs
      ∧ (w.exec (ps.flatMap fun p => exceptMicros (f p) fun rs => rs.map Micro.emit)).1
          = { w with recs := w.recs ++ recs }
      ∧ ((w.exec (ps.flatMap fun p => exceptMicros (f p) fun rs => rs.map Micro.emit)).2 = none
          → j = ps.length) := by
  induction ps generalizing w with
  | nil => exact ⟨0, [], Nat.le_refl _, rfl, by simp, fun _ => rfl⟩
  | cons p ps ih =>
    rw [List.flatMap_cons, World.exec_append]
    cases hf : f p with
    | error e =>
      refine ⟨0, [], Nat.zero_le _, rfl, ?_, ?_⟩
      · simp [exceptMicros, World.exec, World.micro]
      · simp [exceptMicros, World.exec, World.micro]
    | ok rs =>
      have hhead : (exceptMicros (Except.ok rs : Except Err (List Rec)) fun rs => rs.map Micro.emit)
          = rs.map Micro.emit := rfl
      rw [hhead, exec_emit_list]
      simp only
      obtain ⟨j, recs, hj, he, h1, h2⟩ := ih { w with recs := w.recs ++ rs }
      refine ⟨j + 1, rs ++ recs, by simp; omega, ?_, ?_, ?_⟩
      · simp only [List.take_succ_cons, emitAll, hf, he]
      · rw [h1]; simp
      · intro h; rw [h2 h]; simp

/-! ### The aspirate / dispense loops -/

def rmMicro (L : Labware) (l : Nat) (p : String × Rat) : Micro :=
  match L.geom.resolveFlat p.1 with
  | some i => Micro.rm l i p.2
  | none => Micro.fail .reject

def adMicro (L : Labware) (l : Nat) (p : (String × Rat) × CompSrc) : Micro :=
  match L.geom.resolveFlat p.1.1 with
  | some i => Micro.ad l i p.1.2 p.2
  | none => Micro.fail .reject

/-- One iteration of the emission loop of `aspirate` / `dispense`. -/
def adOut (cfg : Cfg) (L : Labware) (isAsp : Bool) (kw : KW) (p : String × Rat) :
    Except Err (List Rec) :=
  if 0 < p.2 then
    match cfg.dev.pos L.geom p.1 with
    | .error e => .error e
    | .ok pos =>
      match prepareAD { rackLabel := L.name, position := pos, vol := p.2,
                        liquidClass := kw.liquidClass, tip := kw.tip, rackId := kw.rackId,
                        tubeId := kw.tubeId, rackType := kw.rackType,
                        forcedRackType := kw.forcedRackType } (some cfg.maxVolume) with
      | .error e => .error e
      | .ok f => .ok [if isAsp then Rec.asp f else Rec.disp f]
  else .ok []

theorem emitAD_eq (cfg : Cfg) (L : Labware) (isAsp : Bool) (ws : List String) (vs : List Rat)
    (kw : KW) :
    emitAD cfg L isAsp ws vs kw
      = (ws.zip vs).flatMap fun p => exceptMicros (adOut cfg L isAsp kw p) fun rs => rs.map Micro.emit := by
  unfold emitAD
  congr 1
  funext p
  obtain ⟨s, v⟩ := p
  simp only [adOut]
  split
  · cases cfg.dev.pos L.geom s with
    | error e => simp [exceptMicros]
    | ok pos =>
      simp only [exceptMicros]
      split <;> simp_all
  · simp [exceptMicros]

theorem sub_zero' (x : Rat) : x - 0 = x := by ring
theorem add_zero' (x : Rat) : x + 0 = x := by ring

theorem micro_rm_ok {w w' : World} {l i : Nat} {v : Rat} (h : w.micro (.rm l i v) = .ok w') :
    ∃ L L', w.labs[l]? = some L ∧ L.removeStep i v = .ok L' ∧ w' = w.setLab l L' := by
  simp only [World.micro] at h
  split at h
  · cases h
  · rename_i L hL
    split at h
    · rename_i L' hL'
      cases h
      exact ⟨L, L', hL, hL', rfl⟩
    · cases h

theorem micro_ad_ok {w w' : World} {l i : Nat} {v : Rat} {c : CompSrc}
    (h : w.micro (.ad l i v c) = .ok w') :
    ∃ L L' co, w.labs[l]? = some L ∧ L.addStep i v co = .ok L' ∧ w' = w.setLab l L' := by
  simp only [World.micro] at h
  split at h
  · cases h
  · rename_i L hL
    split at h
    · rename_i L' hL'
      cases h
      exact ⟨L, L', _, hL, hL', rfl⟩
    · cases h

theorem getElem?_setLab_self {w : World} {l : Nat} {L L' : Labware} (h : w.labs[l]? = some L) :
    (w.setLab l L').labs[l]? = some L' := by
  have hl : l < w.labs.length := by
    rcases Nat.lt_or_ge l w.labs.length with h' | h'
    · exact h'
    · rw [List.getElem?_eq_none h'] at h; cases h
  simp [World.setLab, hl]

/-- The removals of an `aspirate` followed by the `A;` records it emits: replaying the records
    performs the same accepted removals (zero volumes are neither emitted nor change anything). -/
theorem asp_core {dev : Device} (cfg : Cfg) (hdev : cfg.dev = dev) (L : Labware) (l : Nat)
    (kw : KW) {I} (hwf : WFI I) :
    ∀ (ps : List (String × Rat)), (∀ p ∈ ps, 0 ≤ p.2) →
      ∀ (w w1 : World) (st : RState) (recs : List Rec), info w = I → Match st w →
      (∃ L0, w.labs[l]? = some L0 ∧ L0.name = L.name ∧ L0.geom = L.geom) →
      w.exec (ps.map (rmMicro L l)) = (w1, none) →
      emitAll (adOut cfg L true kw) ps = .ok recs →
      ∃ st', st.run dev recs = some st' ∧ Match st' w1 := by
  intro ps
  induction ps with
  | nil =>
    intro _ w w1 st recs _ hM _ hx he
    simp only [emitAll, Except.ok.injEq] at he
    subst he
    simp only [List.map_nil, World.exec_nil, Prod.mk.injEq, and_true] at hx
    subst hx
    exact ⟨st, rfl, hM⟩
  | cons p ps ih =>
    intro hnn w w1 st recs hI hM hL hx he
    obtain ⟨s, v⟩ := p
    obtain ⟨L0, hL0, hn0, hg0⟩ := hL
    have hv0 : 0 ≤ v := hnn (s, v) List.mem_cons_self
    rw [List.map_cons] at hx
    cases hm : w.micro (rmMicro L l (s, v)) with
    | error e => rw [World.exec_cons_error _ hm] at hx; cases hx
    | ok wa =>
      rw [World.exec_cons_ok _ hm] at hx
      have hIa : info wa = I := by rw [info_micro hm, hI]
      unfold rmMicro at hm
      cases hres : L.geom.resolveFlat s with
      | none => simp [hres, World.micro] at hm
      | some i =>
        simp only [hres] at hm
        obtain ⟨La0, La, hLa0, hstep, rfl⟩ := micro_rm_ok hm
        rw [hL0] at hLa0
        cases hLa0
        obtain ⟨_, _, _, _, hnA, hgA, _⟩ := Labware.removeStep_fields hstep
        have hLa : ∃ L1, (w.setLab l La).labs[l]? = some L1 ∧ L1.name = L.name ∧ L1.geom = L.geom :=
          ⟨La, getElem?_setLab_self hL0, by rw [hnA, hn0], by rw [hgA, hg0]⟩
        cases hf : adOut cfg L true kw (s, v) with
        | error e => simp [emitAll, hf] at he
        | ok rs =>
          cases hrest : emitAll (adOut cfg L true kw) ps with
          | error e => simp [emitAll, hf, hrest] at he
          | ok rs' =>
            simp only [emitAll, hf, hrest, Except.ok.injEq] at he
            subst he
            have hnn' : ∀ p ∈ ps, 0 ≤ p.2 := fun p hp => hnn p (List.mem_cons_of_mem _ hp)
            unfold adOut at hf
            by_cases hv : 0 < v
            · simp only [hv, if_true] at hf
              cases hpos : cfg.dev.pos L.geom s with
              | error e => simp [hpos] at hf
              | ok pos =>
                simp only [hpos] at hf
                split at hf
                · cases hf
                · rename_i f hprep
                  simp only [if_true, Except.ok.injEq] at hf
                  subst hf
                  obtain ⟨hfv, hfl, hfp, _⟩ := prepareAD_fields _ _ _ hprep
                  simp only at hfv hfl hfp
                  have hp' : dev.pos L0.geom s = .ok pos := by rw [← hdev, hg0]; exact hpos
                  have hr' : L0.geom.resolveFlat s = some i := by rw [hg0]; exact hres
                  have hstep' : L0.removeStep i f.vol = .ok La := by rw [hfv]; exact hstep
                  obtain ⟨sta, hint, hMa⟩ := interp_asp hM hI hwf hL0 hp' hr'
                    (by rw [hfl, hn0]) (by rw [hfp]; simp) hstep'
                  obtain ⟨st', hrun', hM'⟩ := ih hnn' _ w1 sta rs' hIa hMa hLa hx hrest
                  refine ⟨st', ?_, hM'⟩
                  simp only [List.singleton_append, RState.run, hint, Option.bind_some]
                  exact hrun'
            · simp only [hv, if_false, Except.ok.injEq] at hf
              subst hf
              have hv' : v = 0 := le_antisymm (not_lt.mp hv) hv0
              subst hv'
              obtain ⟨R, hR, hRL⟩ := forall₂_getElem? hM hL0
              obtain ⟨_, hvols, hmin, hmax, _, _, _⟩ := Labware.removeStep_fields hstep
              have hMa : Match st (w.setLab l La) := by
                apply match_set_right hM l hR
                refine labMatch_of_vols hRL ?_ hnA hgA hmin hmax
                rw [hvols, sub_zero']
                exact set_getD_self _ _ _
              obtain ⟨st', hrun', hM'⟩ := ih hnn' _ w1 st rs' hIa hMa hLa hx hrest
              exact ⟨st', by simpa using hrun', hM'⟩

/-- The additions of a `dispense` followed by the `D;` records it emits. -/
theorem disp_core {dev : Device} (cfg : Cfg) (hdev : cfg.dev = dev) (L : Labware) (l : Nat)
    (kw : KW) {I} (hwf : WFI I) :
    ∀ (ps : List ((String × Rat) × CompSrc)), (∀ p ∈ ps, 0 ≤ p.1.2) →
      ∀ (w w1 : World) (st : RState) (recs : List Rec), info w = I → Match st w →
      (∃ L0, w.labs[l]? = some L0 ∧ L0.name = L.name ∧ L0.geom = L.geom) →
      w.exec (ps.map (adMicro L l)) = (w1, none) →
      emitAll (adOut cfg L false kw) (ps.map (·.1)) = .ok recs →
      ∃ st', st.run dev recs = some st' ∧ Match st' w1 := by
  intro ps
  induction ps with
  | nil =>
    intro _ w w1 st recs _ hM _ hx he
    simp only [List.map_nil, emitAll, Except.ok.injEq] at he
    subst he
    simp only [List.map_nil, World.exec_nil, Prod.mk.injEq, and_true] at hx
    subst hx
    exact ⟨st, rfl, hM⟩
  | cons p ps ih =>
    intro hnn w w1 st recs hI hM hL hx he
    obtain ⟨⟨s, v⟩, c⟩ := p
    obtain ⟨L0, hL0, hn0, hg0⟩ := hL
    have hv0 : 0 ≤ v := hnn ((s, v), c) List.mem_cons_self
    rw [List.map_cons] at hx he
    cases hm : w.micro (adMicro L l ((s, v), c)) with
    | error e => rw [World.exec_cons_error _ hm] at hx; cases hx
    | ok wa =>
      rw [World.exec_cons_ok _ hm] at hx
      have hIa : info wa = I := by rw [info_micro hm, hI]
      unfold adMicro at hm
      cases hres : L.geom.resolveFlat s with
      | none => simp [hres, World.micro] at hm
      | some i =>
        simp only [hres] at hm
        obtain ⟨La0, La, co, hLa0, hstep, rfl⟩ := micro_ad_ok hm
        rw [hL0] at hLa0
        cases hLa0
        obtain ⟨_, _, _, _, hnA, hgA, _⟩ := Labware.addStep_fields hstep
        have hLa : ∃ L1, (w.setLab l La).labs[l]? = some L1 ∧ L1.name = L.name ∧ L1.geom = L.geom :=
          ⟨La, getElem?_setLab_self hL0, by rw [hnA, hn0], by rw [hgA, hg0]⟩
        cases hf : adOut cfg L false kw (s, v) with
        | error e => simp [emitAll, hf] at he
        | ok rs =>
          cases hrest : emitAll (adOut cfg L false kw) (ps.map (·.1)) with
          | error e => simp [emitAll, hf, hrest] at he
          | ok rs' =>
            simp only [emitAll, hf, hrest, Except.ok.injEq] at he
            subst he
            have hnn' : ∀ p ∈ ps, 0 ≤ p.1.2 := fun p hp => hnn p (List.mem_cons_of_mem _ hp)
            unfold adOut at hf
            by_cases hv : 0 < v
            · simp only [hv, if_true] at hf
              cases hpos : cfg.dev.pos L.geom s with
              | error e => simp [hpos] at hf
              | ok pos =>
                simp only [hpos] at hf
                split at hf
                · cases hf
                · rename_i f hprep
                  simp only [Bool.false_eq_true, if_false, Except.ok.injEq] at hf
                  subst hf
                  obtain ⟨hfv, hfl, hfp, _⟩ := prepareAD_fields _ _ _ hprep
                  simp only at hfv hfl hfp
                  have hp' : dev.pos L0.geom s = .ok pos := by rw [← hdev, hg0]; exact hpos
                  have hr' : L0.geom.resolveFlat s = some i := by rw [hg0]; exact hres
                  have hstep' : L0.addStep i f.vol co = .ok La := by rw [hfv]; exact hstep
                  obtain ⟨sta, hint, hMa⟩ := interp_disp hM hI hwf hL0 hp' hr'
                    (by rw [hfl, hn0]) (by rw [hfp]; simp) hstep'
                  obtain ⟨st', hrun', hM'⟩ := ih hnn' _ w1 sta rs' hIa hMa hLa hx hrest
                  refine ⟨st', ?_, hM'⟩
                  simp only [List.singleton_append, RState.run, hint, Option.bind_some]
                  exact hrun'
            · simp only [hv, if_false, Except.ok.injEq] at hf
              subst hf
              have hv' : v = 0 := le_antisymm (not_lt.mp hv) hv0
              subst hv'
              obtain ⟨R, hR, hRL⟩ := forall₂_getElem? hM hL0
              obtain ⟨_, hvols, hmin, hmax, _, _, _⟩ := Labware.addStep_fields hstep
              have hMa : Match st (w.setLab l La) := by
                apply match_set_right hM l hR
                refine labMatch_of_vols hRL ?_ hnA hgA hmin hmax
                rw [hvols, add_zero']
                exact set_getD_self _ _ _
              obtain ⟨st', hrun', hM'⟩ := ih hnn' _ w1 st rs' hIa hMa hLa hx hrest
              exact ⟨st', by simpa using hrun', hM'⟩

/-! ### Blocks: removals/additions, a neutral stretch, then the emission loop -/

theorem exec_prefix_ok {w w1 : World} {a b : List Micro} (h : w.exec (a ++ b) = (w1, none)) :
    ∃ wa, w.exec a = (wa, none) := by
  rw [World.exec_append] at h
  cases hx : w.exec a with
  | mk wa e =>
    rw [hx] at h
    cases e with
    | none => exact ⟨wa, rfl⟩
    | some e => cases h

def Micro.noEmit : Micro → Bool
  | .emit _ | .setDiti _ => false
  | _ => true

theorem recs_micro_noEmit {w w' : World} {m : Micro} (hm : Micro.noEmit m = true)
    (h : w.micro m = .ok w') : w'.recs = w.recs := by
  cases m with
  | emit _ => simp [Micro.noEmit] at hm
  | setDiti _ => simp [Micro.noEmit] at hm
  | fail e => simp [World.micro] at h
  | rm l i v => obtain ⟨_, _, _, _, rfl⟩ := micro_rm_ok h; rfl
  | ad l i v c => obtain ⟨_, _, _, _, _, rfl⟩ := micro_ad_ok h; rfl
  | loadComp l i =>
    simp only [World.micro] at h
    split at h
    · cases h
    · cases h; rfl
  | log l label =>
    simp only [World.micro] at h
    split at h
    · cases h
    · cases h; rfl
  | condense l n label =>
    simp only [World.micro] at h
    split at h
    · cases h
    · split at h
      · cases h; rfl
      · cases h

theorem recs_exec_noEmit (w : World) (ms : List Micro) (h : ∀ m ∈ ms, Micro.noEmit m = true) :
    (w.exec ms).1.recs = w.recs :=
  World.exec_invariant (P := fun w' => w'.recs = w.recs) (Q := fun m => Micro.noEmit m = true)
    (fun _ _ _ hq hp hm => by rw [recs_micro_noEmit hq hm]; exact hp) w ms h rfl

theorem rmMicro_noEmit (L : Labware) (l : Nat) (p : String × Rat) :
    Micro.noEmit (rmMicro L l p) = true := by
  unfold rmMicro; split <;> rfl

theorem adMicro_noEmit (L : Labware) (l : Nat) (p : (String × Rat) × CompSrc) :
    Micro.noEmit (adMicro L l p) = true := by
  unfold adMicro; split <;> rfl

theorem lab_of_info {w : World} {I} (hI : info w = I) {l : Nat} {L : Labware}
    (hIl : ∃ n, I[l]? = some (L.name, L.geom, n)) :
    ∃ L0, w.labs[l]? = some L0 ∧ L0.name = L.name ∧ L0.geom = L.geom := by
  obtain ⟨n, hn⟩ := hIl
  rw [← hI] at hn
  unfold info at hn
  rw [List.getElem?_map] at hn
  cases hL : w.labs[l]? with
  | none => rw [hL] at hn; cases hn
  | some L0 =>
    rw [hL] at hn
    simp only [Option.map_some, Option.some.injEq, sinfo, Prod.mk.injEq] at hn
    exact ⟨L0, rfl, hn.1, hn.2.1⟩

/-- `remove` on the labware, anything neutral, then one `A;` per non-zero well. -/
theorem safe_rm_emit {dev : Device} {labs₀ : List Labware} {I} (hwf : WFI I) (cfg : Cfg)
    (hdev : cfg.dev = dev) (L : Labware) (l : Nat) (kw : KW)
    (hIl : ∃ n, I[l]? = some (L.name, L.geom, n))
    (ps : List (String × Rat)) (hnn : ∀ p ∈ ps, 0 ≤ p.2) (mid : List Micro)
    (hmid : ∀ m ∈ mid, Micro.neutral m = true) :
    SafeBlock dev labs₀ I (ps.map (rmMicro L l) ++ (mid ++
      ps.flatMap fun p => exceptMicros (adOut cfg L true kw p) fun rs => rs.map Micro.emit)) := by
  intro w hI ⟨st, hrun, hM⟩
  rw [World.exec_append]
  have hA := recs_exec_noEmit w (ps.map (rmMicro L l)) (by
    intro m hm; obtain ⟨p, _, rfl⟩ := List.mem_map.1 hm; exact rmMicro_noEmit L l p)
  cases hx1 : w.exec (ps.map (rmMicro L l)) with
  | mk w1 e1 =>
    rw [hx1] at hA
    simp only at hA
    cases e1 with
    | some e => exact ⟨⟨st, by rw [hA]; exact hrun⟩, fun h => by cases h⟩
    | none =>
      simp only
      rw [World.exec_append]
      obtain ⟨nrecs, hnr, hr2, hM2⟩ := neutral_exec w1 mid hmid
      cases hx2 : w1.exec mid with
      | mk w2 e2 =>
        rw [hx2] at hr2 hM2
        simp only at hr2 hM2
        have hrun2 : (RState.ofLabs labs₀).run dev w2.recs = some st := by
          rw [hr2, hA, run_append, hrun, Option.bind_some]
          exact run_neutral dev st nrecs hnr
        cases e2 with
        | some e => exact ⟨⟨st, hrun2⟩, fun h => by cases h⟩
        | none =>
          simp only
          obtain ⟨j, recs, hj, he, h1, h2⟩ := exec_emits (adOut cfg L true kw) ps w2
          have hsplit : ps.map (rmMicro L l)
              = (ps.take j).map (rmMicro L l) ++ (ps.drop j).map (rmMicro L l) := by
            rw [← List.map_append, List.take_append_drop]
          obtain ⟨w1j, hx1j⟩ := exec_prefix_ok (by rw [← hsplit]; exact hx1)
          obtain ⟨st', hrun', hM'⟩ := asp_core cfg hdev L l kw hwf (ps.take j)
            (fun p hp => hnn p (List.mem_of_mem_take hp)) w w1j st recs hI hM
            (lab_of_info hI hIl) hx1j he
          have hfin : (RState.ofLabs labs₀).run dev
              (w2.exec (ps.flatMap fun p => exceptMicros (adOut cfg L true kw p)
                fun rs => rs.map Micro.emit)).1.recs = some st' := by
            rw [h1]
            simp only
            rw [run_append, hrun2, Option.bind_some]
            exact hrun'
          refine ⟨⟨st', hfin⟩, fun hnone => ⟨st', hfin, ?_⟩⟩
          have hjl := h2 hnone
          subst hjl
          rw [List.take_length] at hx1j
          rw [hx1] at hx1j
          cases hx1j
          rw [h1]
          exact hM2 st' hM'

/-- `add` on the labware, anything neutral, then one `D;` per non-zero well. -/
theorem safe_ad_emit {dev : Device} {labs₀ : List Labware} {I} (hwf : WFI I) (cfg : Cfg)
    (hdev : cfg.dev = dev) (L : Labware) (l : Nat) (kw : KW)
    (hIl : ∃ n, I[l]? = some (L.name, L.geom, n))
    (ps : List ((String × Rat) × CompSrc)) (hnn : ∀ p ∈ ps, 0 ≤ p.1.2) (mid : List Micro)
    (hmid : ∀ m ∈ mid, Micro.neutral m = true) :
    SafeBlock dev labs₀ I (ps.map (adMicro L l) ++ (mid ++
      (ps.map (·.1)).flatMap fun p =>
        exceptMicros (adOut cfg L false kw p) fun rs => rs.map Micro.emit)) := by
  intro w hI ⟨st, hrun, hM⟩
  rw [World.exec_append]
  have hA := recs_exec_noEmit w (ps.map (adMicro L l)) (by
    intro m hm; obtain ⟨p, _, rfl⟩ := List.mem_map.1 hm; exact adMicro_noEmit L l p)
  cases hx1 : w.exec (ps.map (adMicro L l)) with
  | mk w1 e1 =>
    rw [hx1] at hA
    simp only at hA
    cases e1 with
    | some e => exact ⟨⟨st, by rw [hA]; exact hrun⟩, fun h => by cases h⟩
    | none =>
      simp only
      rw [World.exec_append]
      obtain ⟨nrecs, hnr, hr2, hM2⟩ := neutral_exec w1 mid hmid
      cases hx2 : w1.exec mid with
      | mk w2 e2 =>
        rw [hx2] at hr2 hM2
        simp only at hr2 hM2
        have hrun2 : (RState.ofLabs labs₀).run dev w2.recs = some st := by
          rw [hr2, hA, run_append, hrun, Option.bind_some]
          exact run_neutral dev st nrecs hnr
        cases e2 with
        | some e => exact ⟨⟨st, hrun2⟩, fun h => by cases h⟩
        | none =>
          simp only
          obtain ⟨j, recs, hj, he, h1, h2⟩ := exec_emits (adOut cfg L false kw) (ps.map (·.1)) w2
          have hsplit : ps.map (adMicro L l)
              = (ps.take j).map (adMicro L l) ++ (ps.drop j).map (adMicro L l) := by
            rw [← List.map_append, List.take_append_drop]
          obtain ⟨w1j, hx1j⟩ := exec_prefix_ok (by rw [← hsplit]; exact hx1)
          rw [← List.map_take] at he
          obtain ⟨st', hrun', hM'⟩ := disp_core cfg hdev L l kw hwf (ps.take j)
            (fun p hp => hnn p (List.mem_of_mem_take hp)) w w1j st recs hI hM
            (lab_of_info hI hIl) hx1j he
          have hfin : (RState.ofLabs labs₀).run dev
              (w2.exec ((ps.map (·.1)).flatMap fun p => exceptMicros (adOut cfg L false kw p)
                fun rs => rs.map Micro.emit)).1.recs = some st' := by
            rw [h1]
            simp only
            rw [run_append, hrun2, Option.bind_some]
            exact hrun'
          refine ⟨⟨st', hfin⟩, fun hnone => ⟨st', hfin, ?_⟩⟩
          have hjl := h2 hnone
          rw [List.length_map] at hjl
          subst hjl
          rw [List.take_length] at hx1j
          rw [hx1] at hx1j
          cases hx1j
          rw [h1]
          exact hM2 st' hM'

/-! ### The compiled operations are safe blocks -/

theorem broadcast1_idem {α} (l : List α) (n : Nat) : broadcast1 (broadcast1 l n) n = broadcast1 l n := by
  match l with
  | [] => rfl
  | [a] =>
    match n with
    | 0 => rfl
    | 1 => rfl
    | n + 2 => rfl
  | _ :: _ :: _ => rfl

theorem flattenF_vec {α} (l : List α) : (Arr.vec l).flattenF = l := rfl

theorem safe_fail_append {dev labs₀ I} (e : Err) (rest : List Micro) :
    SafeBlock dev labs₀ I ([Micro.fail e] ++ rest) := by
  intro w _ hinv
  have : w.exec ([Micro.fail e] ++ rest) = (w, some e) := by
    simp [World.exec, World.micro]
  rw [this]
  exact ⟨hinv.replayable, fun h => by cases h⟩

theorem commentMicros_neutral (c : Option String) : ∀ m ∈ commentMicros c, Micro.neutral m = true := by
  intro m hm
  unfold commentMicros exceptMicros at hm
  split at hm
  · rename_i rs hrs
    obtain ⟨r, hr, rfl⟩ := List.mem_map.1 hm
    unfold commentRecs at hrs
    split at hrs
    · cases hrs; cases hr
    · split at hrs
      · cases hrs; cases hr
      · split at hrs
        · cases hrs
        · cases hrs
          obtain ⟨l, _, hl⟩ := List.mem_filterMap.1 hr
          simp only at hl
          split at hl
          · cases hl
          · cases hl; rfl
  · simp only [List.mem_singleton] at hm
    subst hm; rfl

theorem nonneg_of_not_any_neg {ws : List String} {vs : List Rat} (h : ¬ (vs.any (· < 0)) = true) :
    ∀ p ∈ ws.zip vs, 0 ≤ p.2 := by
  intro p hp
  have hmem : p.2 ∈ vs := (List.of_mem_zip hp).2
  rw [List.any_eq_true] at h
  by_contra hneg
  exact h ⟨p.2, hmem, by simpa using not_le.mp hneg⟩

theorem safe_compileAspirate {dev : Device} {labs₀ : List Labware} {I} (hwf : WFI I) (cfg : Cfg)
    (hdev : cfg.dev = dev) (L : Labware) (l : Nat) (hIl : ∃ n, I[l]? = some (L.name, L.geom, n))
    (wells : Arr String) (vols : Arr Rat) (label : Option String) (kw : KW) :
    SafeBlock dev labs₀ I (compileAspirate cfg L l wells vols label kw) := by
  unfold compileAspirate compileRemove
  simp only [flattenF_vec, broadcast1_idem]
  generalize wells.flattenF = ws
  generalize vols.flattenF = vs0
  split
  · rw [List.append_assoc]; exact safe_fail_append _ _
  · split
    · rw [List.append_assoc]; exact safe_fail_append _ _
    · rename_i _ hneg
      rw [emitAD_eq]
      have := safe_rm_emit (labs₀ := labs₀) hwf cfg hdev L l kw hIl
        (ws.zip (broadcast1 vs0 ws.length))
        (nonneg_of_not_any_neg hneg) ([Micro.log l label] ++ commentMicros label) (by
          intro m hm
          rcases List.mem_append.1 hm with h | h
          · simp only [List.mem_singleton] at h; subst h; rfl
          · exact commentMicros_neutral label m h)
      simp only [List.append_assoc, List.singleton_append, List.cons_append, List.nil_append] at this ⊢
      exact this

theorem safe_compileDispense {dev : Device} {labs₀ : List Labware} {I} (hwf : WFI I) (cfg : Cfg)
    (hdev : cfg.dev = dev) (L : Labware) (l : Nat) (hIl : ∃ n, I[l]? = some (L.name, L.geom, n))
    (wells : Arr String) (vols : Arr Rat) (label : Option String)
    (comps : Option (List (Option Comp))) (kw : KW) (carryAll : Bool) :
    SafeBlock dev labs₀ I (compileDispense cfg L l wells vols label comps kw carryAll) := by
  unfold compileDispense compileAdd
  simp only [flattenF_vec, broadcast1_idem]
  generalize wells.flattenF = ws
  generalize vols.flattenF = vs0
  split
  · rw [List.append_assoc]; exact safe_fail_append _ _
  · rename_i hlen
    split
    · rw [List.append_assoc]; exact safe_fail_append _ _
    · rename_i hneg
      split
      · rw [List.append_assoc]; exact safe_fail_append _ _
      · rename_i cs hcs
        rw [emitAD_eq]
        have hlen' : (broadcast1 vs0 ws.length).length = ws.length := by
          simpa using hlen
        have hcslen : cs.length = ws.length := by
          split at hcs
          · cases hcs; simp
          · split at hcs
            · cases hcs; simp
            · rename_i lst
              by_cases hl : lst.length = ws.length
              · simp only [hl, ne_eq, not_true_eq_false, if_false, Option.some.injEq] at hcs
                subst hcs
                simp [hl]
              · simp [hl] at hcs
        have hfst : ((ws.zip (broadcast1 vs0 ws.length)).zip cs).map (·.1)
            = ws.zip (broadcast1 vs0 ws.length) := by
          apply List.map_fst_zip
          rw [List.length_zip, hlen', hcslen]
          simp
        have := safe_ad_emit (labs₀ := labs₀) hwf cfg hdev L l kw hIl
          ((ws.zip (broadcast1 vs0 ws.length)).zip cs)
          (by
            intro p hp
            have h1 : p.1 ∈ ws.zip (broadcast1 vs0 ws.length) :=
              (List.of_mem_zip hp).1
            exact nonneg_of_not_any_neg hneg p.1 h1)
          ([Micro.log l label] ++ commentMicros label) (by
            intro m hm
            rcases List.mem_append.1 hm with h | h
            · simp only [List.mem_singleton] at h; subst h; rfl
            · exact commentMicros_neutral label m h)
        rw [hfst] at this
        simp only [List.append_assoc, List.singleton_append, List.cons_append, List.nil_append] at this ⊢
        exact this

theorem safe_exceptMicros_neutral {α} {dev labs₀ I} (x : Except Err α) (f : α → List Micro)
    (h : ∀ a, ∀ m ∈ f a, Micro.neutral m = true) : SafeBlock dev labs₀ I (exceptMicros x f) := by
  apply safe_all_neutral
  intro m hm
  unfold exceptMicros at hm
  split at hm
  · exact h _ m hm
  · simp only [List.mem_singleton] at hm; subst hm; rfl

theorem washMicros_neutral (cfg : Cfg) (n : Int) : ∀ m ∈ washMicros cfg n, Micro.neutral m = true := by
  intro m hm
  unfold washMicros at hm
  split at hm
  · simp only [List.mem_singleton] at hm; subst hm; rfl
  · split at hm <;> (simp only [List.mem_singleton] at hm; subst hm; rfl)

theorem actionMicros_neutral (cfg : Cfg) (wa : WashArg) :
    ∀ m ∈ actionMicros cfg wa, Micro.neutral m = true := by
  intro m hm
  unfold actionMicros at hm
  split at hm
  · simp only [List.mem_singleton] at hm; subst hm; rfl
  · cases hm
  · exact washMicros_neutral cfg _ m hm

theorem safe_compileTransfer {dev : Device} {labs₀ : List Labware} {I} (hwf : WFI I) (cfg : Cfg)
    (hdev : cfg.dev = dev) (S : Labware) (src : Nat) (hIs : ∃ n, I[src]? = some (S.name, S.geom, n))
    (D : Labware) (dst : Nat) (hId : ∃ n, I[dst]? = some (D.name, D.geom, n))
    (srcWells dstWells : Arr String) (vols : Arr Rat) (label : Option String) (wash : WashArg)
    (partitionBy : String) (kw : KW) :
    SafeBlock dev labs₀ I
      (compileTransfer cfg S src srcWells D dst dstWells vols label wash partitionBy kw) := by
  unfold compileTransfer
  split
  · exact safe_all_neutral _ (by intro m hm; simp only [List.mem_singleton] at hm; subst hm; rfl)
  · simp only
    split
    · exact safe_all_neutral _ (by intro m hm; simp only [List.mem_singleton] at hm; subst hm; rfl)
    · split
      · exact safe_all_neutral _ (by intro m hm; simp only [List.mem_singleton] at hm; subst hm; rfl)
      · split
        · exact safe_all_neutral _ (by intro m hm; simp only [List.mem_singleton] at hm; subst hm; rfl)
        · rw [List.append_assoc]
          apply safe_append (safe_all_neutral _ (commentMicros_neutral label))
          apply safe_append
          · apply safe_flatMap
            intro stp _
            cases stp with
            | pair s d v =>
              simp only
              rw [List.append_assoc]
              apply safe_append (safe_compileAspirate hwf cfg hdev S src hIs _ _ _ _)
              apply safe_append
              · apply safe_exceptMicros_neutral
                intro i m hm
                simp only [List.mem_singleton] at hm; subst hm; rfl
              · exact safe_compileDispense hwf cfg hdev D dst hId _ _ _ _ _ _
            | action => exact safe_all_neutral _ (actionMicros_neutral cfg wash)
            | brk =>
              exact safe_all_neutral _ (by
                intro m hm; simp only [List.mem_singleton] at hm; subst hm; rfl)
          · apply safe_all_neutral
            intro m hm
            split at hm
            · simp only [List.mem_singleton] at hm; subst hm; rfl
            · simp only [List.mem_cons, List.not_mem_nil, or_false] at hm
              rcases hm with rfl | rfl <;> rfl

/-! ### Every tracked worklist operation compiles to a safe block -/

/-- Operations whose liquid movements are tracked *and* written as `A;`/`D;` records.
    Not included: `distribute` (one `R;` record, see `safe_compileDistribute`), direct
    `Labware.add/remove` (no worklist involved), `aspirate_well`/`dispense_well`/
    `reagent_distribution` (records without tracking), `evo_aspirate`/`evo_dispense` (tracking
    with an EVOware script command that a `.gwl` record interpreter does not execute; C13). -/
def tracked : Op → Bool
  | .aspirate .. | .dispense .. | .transfer .. => true
  | .comment _ | .wash _ | .decontaminate | .flush | .commit | .setDiti _ | .condenseLog .. => true
  | .evoWash _ => true
  | _ => false

theorem info_getElem {w : World} {l : Nat} {L : Labware} (h : w.labs[l]? = some L) :
    ∃ n, (info w)[l]? = some (L.name, L.geom, n) :=
  ⟨L.vols.length, by unfold info; rw [List.getElem?_map, h]; rfl⟩

theorem single_neutral {dev labs₀ I} (m : Micro) (h : Micro.neutral m = true) :
    SafeBlock dev labs₀ I [m] := safe_neutral m h

theorem compile_safe {labs₀ : List Labware} (w : World) (hwf : WFI (info w)) (op : Op)
    (hop : tracked op = true) : SafeBlock w.cfg.dev labs₀ (info w) (compile w op) := by
  cases op with
  | aspirate l wells vols label kw =>
    simp only [compile]
    cases hL : w.labs[l]? with
    | none => exact single_neutral _ rfl
    | some L => exact safe_compileAspirate hwf w.cfg rfl L l (info_getElem hL) _ _ _ _
  | dispense l wells vols label comps kw =>
    simp only [compile]
    cases hL : w.labs[l]? with
    | none => exact single_neutral _ rfl
    | some L => exact safe_compileDispense hwf w.cfg rfl L l (info_getElem hL) _ _ _ _ _ _
  | transfer s sw d dw vols label wash pb kw =>
    simp only [compile]
    cases hS : w.labs[s]? with
    | none => exact single_neutral _ rfl
    | some S =>
      cases hD : w.labs[d]? with
      | none => exact single_neutral _ rfl
      | some D =>
        exact safe_compileTransfer hwf w.cfg rfl S s (info_getElem hS) D d (info_getElem hD)
          _ _ _ _ _ _ _
  | comment c => exact safe_all_neutral _ (commentMicros_neutral c)
  | wash n => exact safe_all_neutral _ (washMicros_neutral w.cfg n)
  | decontaminate =>
    simp only [compile]
    split <;> exact single_neutral _ rfl
  | flush => exact single_neutral _ rfl
  | commit => exact single_neutral _ rfl
  | setDiti i => exact single_neutral _ rfl
  | condenseLog l n label => exact single_neutral _ rfl
  | evoWash a =>
    simp only [compile]
    split
    · exact single_neutral _ rfl
    · apply safe_exceptMicros_neutral
      intro f m hm
      simp only [List.mem_singleton] at hm; subst hm; rfl
  | add _ _ _ _ _ => cases hop
  | remove _ _ _ _ => cases hop
  | distribute _ => cases hop
  | aspirateWell _ => cases hop
  | dispenseWell _ => cases hop
  | reagentDistribution _ => cases hop
  | evoAspirate _ _ _ => cases hop
  | evoDispense _ _ _ _ => cases hop

theorem match_ofLabs (w : World) : Match (RState.ofLabs w.labs) w := by
  unfold Match RState.ofLabs
  simp only
  generalize w.labs = labs
  induction labs with
  | nil => exact List.Forall₂.nil
  | cons L Ls ih =>
    refine List.Forall₂.cons ⟨rfl, rfl, rfl, rfl, ?_⟩ ih
    simp only [List.map_map]
    apply List.ext_getElem?
    intro i
    simp only [List.getElem?_map, List.getElem?_range, Function.comp_def]
    by_cases hi : i < L.vols.length
    · simp [hi, Labware.vol, List.getD_eq_getElem?_getD]
    · simp [hi, List.getElem?_eq_none (Nat.le_of_not_lt hi)]

end RP
end Robotools
