/-
  Lemmas relating the worklist model (`World.exec`) to the independent record interpreter
  (`RState.run`): the replay of the records emitted so far mirrors the tracked volumes.
  Used by Props/C01 and Props/C03.
-/
import Robotools.Model.World
import Robotools.Model.Replay
import Robotools.Model.ReplayInit
import Robotools.Proofs.ExecLemmas
import Robotools.Proofs.GeometryLemmas
import Mathlib.Tactic.Ring
import Mathlib.Tactic.Linarith
import Mathlib.Algebra.Order.Field.Rat

namespace Robotools
namespace RP

/-! ### The replay interpreter: append -/

theorem run_append (dev : Device) (st : RState) (a b : List Rec) :
    st.run dev (a ++ b) = (st.run dev a).bind fun st' => st'.run dev b := by
  induction a generalizing st with
  | nil => simp [RState.run]
  | cons r rs ih =>
    simp only [List.cons_append, RState.run]
    cases h : st.interp dev r with
    | none => simp
    | some st1 => simp [ih]

theorem run_singleton (dev : Device) (st : RState) (r : Rec) :
    st.run dev [r] = st.interp dev r := by
  simp only [RState.run]
  cases st.interp dev r <;> simp [RState.run]

/-! ### Matching states -/

/-- Replay labware `R` mirrors tracked labware `L`: same static data, same volumes. -/
structure LabMatch (R : RLab) (L : Labware) : Prop where
  name : R.name = L.name
  geom : R.geom = L.geom
  minV : R.minV = L.minV
  maxV : R.maxV = L.maxV
  vols : R.wells.map (·.vol) = L.vols

def Match (st : RState) (w : World) : Prop := List.Forall₂ LabMatch st.labs w.labs

theorem LabMatch.length {R : RLab} {L : Labware} (h : LabMatch R L) :
    R.wells.length = L.vols.length := by
  rw [← h.vols, List.length_map]

theorem LabMatch.vol_eq {R : RLab} {L : Labware} (h : LabMatch R L) {i : Nat} {wl : RWell}
    (hw : R.wells[i]? = some wl) : wl.vol = L.vol i := by
  unfold Labware.vol
  rw [← h.vols]
  simp [List.getD_eq_getElem?_getD, hw]

theorem set_getD_self {α} (l : List α) (i : Nat) (d : α) : l.set i (l.getD i d) = l := by
  by_cases hi : i < l.length
  · apply List.ext_getElem?
    intro j
    by_cases hj : j = i
    · subst hj
      simp [List.getD_eq_getElem?_getD, hi]
    · rw [List.getElem?_set_ne (fun e => hj e.symm)]
  · exact List.set_eq_of_length_le (Nat.le_of_not_lt hi)

/-- An accepted `removeStep` is an accepted `take` on the matching replay labware. -/
theorem take_of_removeStep {R : RLab} {L L' : Labware} {i : Nat} {v : Rat} (hm : LabMatch R L)
    (hi : i < L.vols.length) (h : L.removeStep i v = .ok L') :
    ∃ R' out, R.take i v = some (R', out) ∧ LabMatch R' L' := by
  obtain ⟨hge, hvols, hmin, hmax, hname, hgeom, _⟩ := Labware.removeStep_fields h
  have hlen := hm.length
  have hiR : i < R.wells.length := by omega
  have hw : R.wells[i]? = some R.wells[i] := List.getElem?_eq_getElem hiR
  have hv := hm.vol_eq hw
  unfold RLab.take
  rw [hw]
  simp only
  rw [hm.minV, hv, if_neg hge]
  refine ⟨_, _, rfl, ?_⟩
  refine ⟨by simp [hm.name, hname], by simp [hm.geom, hgeom], by simp [hm.minV, hmin],
    by simp [hm.maxV, hmax], ?_⟩
  simp only
  rw [hvols, ← hm.vols, List.map_set]

/-- An accepted `addStep` is an accepted `put` on the matching replay labware. -/
theorem put_of_addStep {R : RLab} {L L' : Labware} {i : Nat} {v : Rat} {c : Option Comp}
    (a : Amounts) (hm : LabMatch R L) (hi : i < L.vols.length) (h : L.addStep i v c = .ok L') :
    ∃ R', R.put i v a = some R' ∧ LabMatch R' L' := by
  obtain ⟨hge, hvols, hmin, hmax, hname, hgeom, _⟩ := Labware.addStep_fields h
  have hlen := hm.length
  have hiR : i < R.wells.length := by omega
  have hw : R.wells[i]? = some R.wells[i] := List.getElem?_eq_getElem hiR
  have hv := hm.vol_eq hw
  unfold RLab.put
  rw [hw]
  simp only
  rw [hm.maxV, hv, if_neg hge]
  refine ⟨_, rfl, ?_⟩
  refine ⟨by simp [hm.name, hname], by simp [hm.geom, hgeom], by simp [hm.minV, hmin],
    by simp [hm.maxV, hmax], ?_⟩
  simp only
  rw [hvols, ← hm.vols, List.map_set]

/-! ### Static data, well-formedness -/

/-- What never changes about a labware: name, geometry, limits, number of real wells. -/
def sinfo (L : Labware) : String × Geom × Nat := (L.name, L.geom, L.vols.length)

def info (w : World) : List (String × Geom × Nat) := w.labs.map sinfo

/-- Geometry side conditions established by the constructors (C20). -/
structure GeomOK (g : Geom) (len : Nat) : Prop where
  trough : ∀ v, g.vrows = some v → g.rows = 1 ∧ 0 < v
  plate : g.vrows = none → 0 < g.rows ∧ g.rows ≤ 26
  len : len = g.rows * g.cols

def WFI (I : List (String × Geom × Nat)) : Prop :=
  (I.map (·.1)).Nodup ∧ ∀ x ∈ I, GeomOK x.2.1 x.2.2

theorem resolve_some' {g : Geom} {s : String} {rc : Nat × Nat} (h : g.resolve s = some rc) :
    ∃ r c, r < g.nRowIds ∧ c < g.cols ∧ s = wellId r c ∧ rc = (if g.isTrough then 0 else r, c) := by
  obtain ⟨r, c, hr, hc, heq⟩ := (g.mem_table _).1 (mem_of_lookup_eq_some h)
  exact ⟨r, c, hr, hc, (Prod.mk.inj heq).1, (Prod.mk.inj heq).2⟩

theorem nRowIds_le_stride (g : Geom) : g.nRowIds ≤ g.stride := by
  unfold Geom.stride Geom.nRowIds
  cases g.vrows with
  | none => exact Nat.le_refl _
  | some v => exact Nat.min_le_right _ _

theorem evoWellOf_lin (g : Geom) {r c : Nat} (hr : r < g.stride) (hc : c < g.cols) :
    g.evoWellOf (1 + c * g.stride + r) = some (if g.isTrough then 0 else r, c) := by
  have hS : 0 < g.stride := by omega
  have e1 : (1 + c * g.stride + r - 1) % g.stride = r := by
    rw [show 1 + c * g.stride + r - 1 = r + c * g.stride by omega, Nat.add_mul_mod_self_right,
      Nat.mod_eq_of_lt hr]
  have e2 : (1 + c * g.stride + r - 1) / g.stride = c := by
    rw [show 1 + c * g.stride + r - 1 = r + c * g.stride by omega, Nat.add_mul_div_right _ _ hS,
      Nat.div_eq_of_lt hr, Nat.zero_add]
  unfold Geom.evoWellOf
  rw [if_neg (by omega)]
  simp only [e1, e2, hc, if_true]

/-- The device numbering used for a record is inverted by the replay's `wellOf`, and lands on
    the real well that the tracking charged. -/
theorem wellOf_pos {dev : Device} {g : Geom} {len : Nat} {s : String} {p i : Nat}
    (hg : GeomOK g len) (hp : dev.pos g s = .ok p) (hr : g.resolveFlat s = some i) :
    ∃ rc, dev.wellOf g p = some rc ∧ g.flat rc = i ∧ i < len := by
  unfold Geom.resolveFlat at hr
  cases hres : g.resolve s with
  | none => rw [hres] at hr; cases hr
  | some rc =>
    rw [hres] at hr
    simp only [Option.map_some, Option.some.injEq] at hr
    obtain ⟨r, c, hr', hc, rfl, hrc⟩ := resolve_some' hres
    have hrS : r < g.stride := Nat.lt_of_lt_of_le hr' (nRowIds_le_stride g)
    have hlen : i < len := by
      rw [hg.len, ← hr, hrc]
      unfold Geom.flat
      cases hv : g.vrows with
      | some v =>
        have := (hg.trough v hv).1
        simp only [Geom.isTrough, hv, Option.isSome_some, if_true, this]
        omega
      | none =>
        have hrr : r < g.rows := by
          have : g.nRowIds ≤ g.rows := by
            unfold Geom.nRowIds; rw [hv]; exact Nat.min_le_right _ _
          omega
        simp only [Geom.isTrough, hv, Option.isSome_none, Bool.false_eq_true, if_false]
        calc r * g.cols + c < r * g.cols + g.cols := by omega
          _ = (r + 1) * g.cols := by rw [Nat.add_mul, Nat.one_mul]
          _ ≤ g.rows * g.cols := Nat.mul_le_mul_right _ hrr
    refine ⟨rc, ?_, hr, hlen⟩
    cases dev with
    | base => simp [Device.pos] at hp
    | evo =>
      simp only [Device.pos, g.evoPos_wellId hr' hc] at hp
      cases hp
      simp only [Device.wellOf]
      rw [evoWellOf_lin g hrS hc, hrc]
    | fluent =>
      simp only [Device.pos, g.fluentPos_wellId hr' hc] at hp
      cases hp
      simp only [Device.wellOf, Geom.fluentWellOf]
      cases hv : g.vrows with
      | some v =>
        simp only [Geom.isTrough, hv, Option.isSome_some, if_true] at hrc ⊢
        rw [if_pos ⟨by omega, by omega⟩, hrc]
        simp
      | none =>
        have hst : g.stride = g.nRowIds := by unfold Geom.stride; rw [hv]
        simp only [Geom.isTrough, hv, Option.isSome_none, Bool.false_eq_true, if_false] at hrc ⊢
        have := evoWellOf_lin g hrS hc
        rw [hst] at this
        rw [this, hrc]
        simp [Geom.isTrough, hv]

/-! ### Looking up a labware by name; interpreting `A;` and `D;` records -/

theorem find_zipIdx_unique {α β} [DecidableEq β] (f : α → β) (xs : List α) (n l : Nat) (x : α)
    (hnd : (xs.map f).Nodup) (hx : xs[l]? = some x) :
    (xs.zipIdx n).find? (fun p => decide (f p.1 = f x)) = some (x, n + l) := by
  induction xs generalizing n l with
  | nil => simp at hx
  | cons y ys ih =>
    rw [List.zipIdx_cons]
    cases l with
    | zero =>
      simp only [List.getElem?_cons_zero, Option.some.injEq] at hx
      subst hx
      simp
    | succ l' =>
      simp only [List.getElem?_cons_succ] at hx
      rw [List.map_cons, List.nodup_cons] at hnd
      have hne : f y ≠ f x := by
        intro e
        apply hnd.1
        rw [e]
        exact List.mem_map.2 ⟨x, List.mem_of_getElem? hx, rfl⟩
      rw [List.find?_cons_of_neg (by simpa using hne)]
      rw [ih (n + 1) l' hnd.2 hx]
      congr 2
      omega

theorem forall₂_set {α β} {R : α → β → Prop} {xs : List α} {ys : List β} (h : List.Forall₂ R xs ys)
    (l : Nat) {a : α} {b : β} (hab : R a b) : List.Forall₂ R (xs.set l a) (ys.set l b) := by
  induction h generalizing l with
  | nil => exact List.Forall₂.nil
  | cons hxy _ ih =>
    cases l with
    | zero => exact List.Forall₂.cons hab (by assumption)
    | succ l' => exact List.Forall₂.cons hxy (ih l')

theorem forall₂_getElem? {α β} {R : α → β → Prop} {xs : List α} {ys : List β}
    (h : List.Forall₂ R xs ys) {l : Nat} {b : β} (hb : ys[l]? = some b) :
    ∃ a, xs[l]? = some a ∧ R a b := by
  induction h generalizing l with
  | nil => simp at hb
  | cons hxy _ ih =>
    cases l with
    | zero =>
      simp only [List.getElem?_cons_zero, Option.some.injEq] at hb
      subst hb
      exact ⟨_, rfl, hxy⟩
    | succ l' => exact ih hb

theorem forall₂_names {xs : List RLab} {ys : List Labware} (hM : List.Forall₂ LabMatch xs ys) :
    xs.map (·.name) = ys.map (·.name) := by
  induction hM with
  | nil => rfl
  | cons h _ ih => simp [h.name, ih]

theorem match_names {st : RState} {w : World} (hM : Match st w) :
    st.labs.map (·.name) = w.labs.map (·.name) := forall₂_names hM

theorem match_set {st : RState} {w : World} (hM : Match st w) (l : Nat) {R : RLab} {L : Labware}
    (h : LabMatch R L) : Match (st.setLab l R) (w.setLab l L) := by
  unfold Match RState.setLab World.setLab
  exact forall₂_set hM l h

theorem match_tip {st : RState} {w : World} (hM : Match st w) (t : Amounts) :
    Match { st with tip := t } w := hM

theorem names_nodup {w : World} {I} (hI : info w = I) (hwf : WFI I) :
    (w.labs.map (·.name)).Nodup := by
  have := hwf.1
  rw [← hI] at this
  simpa [info, sinfo, List.map_map, Function.comp_def] using this

theorem geomOK_of_mem {w : World} {I} (hI : info w = I) (hwf : WFI I) {l : Nat} {L : Labware}
    (hL : w.labs[l]? = some L) : GeomOK L.geom L.vols.length := by
  have hmem : sinfo L ∈ I := by
    rw [← hI]
    exact List.mem_map.2 ⟨L, List.mem_of_getElem? hL, rfl⟩
  exact hwf.2 _ hmem

theorem findLab_of_match {st : RState} {w : World} {I} (hM : Match st w) (hI : info w = I)
    (hwf : WFI I) {l : Nat} {L : Labware} (hL : w.labs[l]? = some L) :
    ∃ R, st.labs[l]? = some R ∧ LabMatch R L ∧ st.findLab L.name = some (l, R) := by
  obtain ⟨R, hR, hRL⟩ := forall₂_getElem? hM hL
  refine ⟨R, hR, hRL, ?_⟩
  have hnd : (st.labs.map (·.name)).Nodup := by
    rw [match_names hM]; exact names_nodup hI hwf
  have := find_zipIdx_unique (fun (R : RLab) => R.name) st.labs 0 l R hnd hR
  unfold RState.findLab
  rw [← hRL.name]
  simp only [Nat.zero_add] at this
  simp only [this, Option.map_some]

/-- Replaying an `A;` record that the worklist model emitted for an accepted removal. -/
theorem interp_asp {dev : Device} {st : RState} {w : World} {I} (hM : Match st w)
    (hI : info w = I) (hwf : WFI I) {l : Nat} {L : Labware} (hL : w.labs[l]? = some L)
    {s : String} {p i : Nat} (hp : dev.pos L.geom s = .ok p) (hr : L.geom.resolveFlat s = some i)
    {f : ADFields} (hlab : f.rackLabel = L.name) (hpos : f.position = p) {L' : Labware}
    (hstep : L.removeStep i f.vol = .ok L') :
    ∃ st', st.interp dev (.asp f) = some st' ∧ Match st' (w.setLab l L') := by
  obtain ⟨R, _, hRL, hfind⟩ := findLab_of_match hM hI hwf hL
  obtain ⟨rc, hwo, hflat, hlen⟩ := wellOf_pos (geomOK_of_mem hI hwf hL) hp hr
  obtain ⟨R', out, htake, hRL'⟩ := take_of_removeStep hRL hlen hstep
  have hwa : R.wellAt dev f.position = some i := by
    unfold RLab.wellAt
    rw [hRL.geom, hpos, hwo]
    simp only [Option.bind_some, hflat]
    rw [if_pos (by rw [hRL.length]; exact hlen)]
  refine ⟨{ (st.setLab l R') with tip := out }, ?_, match_tip (match_set hM l hRL') out⟩
  simp only [RState.interp, hlab, hfind, hwa, htake, Option.bind_eq_bind, Option.bind_some,
    Option.pure_def]

/-- Replaying a `D;` record that the worklist model emitted for an accepted addition. -/
theorem interp_disp {dev : Device} {st : RState} {w : World} {I} (hM : Match st w)
    (hI : info w = I) (hwf : WFI I) {l : Nat} {L : Labware} (hL : w.labs[l]? = some L)
    {s : String} {p i : Nat} (hp : dev.pos L.geom s = .ok p) (hr : L.geom.resolveFlat s = some i)
    {f : ADFields} (hlab : f.rackLabel = L.name) (hpos : f.position = p) {L' : Labware}
    {c : Option Comp} (hstep : L.addStep i f.vol c = .ok L') :
    ∃ st', st.interp dev (.disp f) = some st' ∧ Match st' (w.setLab l L') := by
  obtain ⟨R, _, hRL, hfind⟩ := findLab_of_match hM hI hwf hL
  obtain ⟨rc, hwo, hflat, hlen⟩ := wellOf_pos (geomOK_of_mem hI hwf hL) hp hr
  obtain ⟨R', hput, hRL'⟩ := put_of_addStep st.tip hRL hlen hstep
  have hwa : R.wellAt dev f.position = some i := by
    unfold RLab.wellAt
    rw [hRL.geom, hpos, hwo]
    simp only [Option.bind_some, hflat]
    rw [if_pos (by rw [hRL.length]; exact hlen)]
  refine ⟨st.setLab l R', ?_, match_set hM l hRL'⟩
  simp only [RState.interp, hlab, hfind, hwa, hput, Option.bind_eq_bind, Option.bind_some,
    Option.pure_def]

end RP
end Robotools
