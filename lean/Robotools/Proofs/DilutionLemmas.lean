/-
  Robotools.Proofs.DilutionLemmas — the invariant of `planFrom` (Model/Dilution.lean): after every
  column the instructions are well-formed, the bookkeeping array `avail` equals `vmax − drawn` and is
  never negative.  Used by Props/C14.
-/
import Robotools.Model.Dilution
namespace Robotools
namespace Dil

/-! ### List helpers -/

theorem getD_append_lt {α} (l l' : List α) (d : α) (i : Nat) (h : i < l.length) :
    (l ++ l').getD i d = l.getD i d := by
  simp [List.getD_eq_getElem?_getD, List.getElem?_append_left h]

theorem getD_append_len {α} (l : List α) (a d : α) : (l ++ [a]).getD l.length d = a := by
  simp [List.getD_eq_getElem?_getD]

theorem getD_set_self {α} (l : List α) (a d : α) (i : Nat) (h : i < l.length) : (l.set i a).getD i d = a := by
  simp [List.getD_eq_getElem?_getD, h]

theorem getD_set_ne {α} (l : List α) (a d : α) (i j : Nat) (h : i ≠ j) : (l.set i a).getD j d = l.getD j d := by
  simp [List.getD_eq_getElem?_getD, List.getElem?_set_ne h]

theorem getD_zipWith {α β γ} (f : α → β → γ) (l : List α) (l' : List β) (da : α) (db : β) (dc : γ) (i : Nat)
    (h1 : i < l.length) (h2 : i < l'.length) :
    (List.zipWith f l l').getD i dc = f (l.getD i da) (l'.getD i db) := by
  simp [List.getD_eq_getElem?_getD, List.getElem?_zipWith, List.getElem?_eq_getElem h1, List.getElem?_eq_getElem h2]

theorem getD_mem {α} (l : List α) (d : α) (i : Nat) (h : i < l.length) : l.getD i d ∈ l := by
  rw [List.getD_eq_getElem?_getD, List.getElem?_eq_getElem h]; exact List.getElem_mem h

theorem all_getD {α} (l : List α) (p : α → Bool) (h : l.all p = true) (d : α) (i : Nat) (hi : i < l.length) :
    p (l.getD i d) = true := List.all_eq_true.1 h _ (getD_mem l d i hi)

/-! ### The plan specification -/

/-- A whole number (of microlitres). -/
def isWhole (v : Rat) : Prop := ((v.floor : Int) : Rat) = v

theorem isWhole_int (n : Int) : isWhole (n : Rat) := by
  unfold isWhole; rw [Rat.floor_intCast]

/-- Volume the instructions draw from row `r` of column `j`. -/
def drawn (I : List Instr) (j r : Nat) : Rat :=
  I.foldl (fun acc ins => if ins.src = some j then acc + ins.vols.getD r 0 else acc) 0

theorem drawn_append (I : List Instr) (ins : Instr) (j r : Nat) :
    drawn (I ++ [ins]) j r = if ins.src = some j then drawn I j r + ins.vols.getD r 0 else drawn I j r := by
  simp [drawn, List.foldl_append]

/-- Instruction `i` is well-formed with respect to the instructions and concentrations before it. -/
def InstrOK (R : Nat) (stock minT : Rat) (vmax : List Rat) (I : List Instr) (X : List (List Rat)) (i : Nat) : Prop :=
  let ins := I.getD i default
  let vm := vmax.getD i 0
  ins.col = i ∧ ins.vols.length = R ∧ (X.getD i []).length = R
    ∧ (∀ v ∈ ins.vols, isWhole v ∧ minT ≤ v ∧ v ≤ vm)
    ∧ match ins.src with
      | none => ins.dsteps = 0 ∧ X.getD i [] = ins.vols.map (fun v => v / vm * stock)
      | some j => j < i ∧ ins.dsteps = (I.getD j default).dsteps + 1
          ∧ X.getD i [] = List.zipWith (fun v x => v * x / vm) ins.vols (X.getD j [])

theorem InstrOK.append {R stock minT vmax I X i} (I' : List Instr) (X' : List (List Rat))
    (h : InstrOK R stock minT vmax I X i) (hi : i < I.length) (hx : i < X.length) :
    InstrOK R stock minT vmax (I ++ I') (X ++ X') i := by
  unfold InstrOK at h ⊢
  simp only [getD_append_lt I I' default i hi, getD_append_lt X X' [] i hx]
  obtain ⟨h1, h2, h3, h4, h5⟩ := h
  refine ⟨h1, h2, h3, h4, ?_⟩
  cases hs : (I.getD i default).src with
  | none => rw [hs] at h5; exact h5
  | some j =>
    rw [hs] at h5
    simp only at h5 ⊢
    obtain ⟨hj, hd, hxx⟩ := h5
    rw [getD_append_lt I I' default j (by omega), getD_append_lt X X' [] j (by omega)]
    exact ⟨hj, hd, hxx⟩

structure Inv (R : Nat) (stock minT : Rat) (vmax : List Rat) (p : DPlan) (k : Nat) : Prop where
  len_i : p.instr.length = k
  len_x : p.x.length = k
  len_a : p.avail.length = k
  instr_ok : ∀ i, i < k → InstrOK R stock minT vmax p.instr p.x i
  avail_ok : ∀ j, j < k → (p.avail.getD j []).length = R ∧
    ∀ r, r < R → (p.avail.getD j []).getD r 0 = vmax.getD j 0 - drawn p.instr j r
      ∧ 0 ≤ (p.avail.getD j []).getD r 0

theorem inv_init (R : Nat) (stock minT : Rat) (vmax : List Rat) : Inv R stock minT vmax ⟨[], [], []⟩ 0 :=
  ⟨rfl, rfl, rfl, fun i hi => by omega, fun j hj => by omega⟩

theorem idealCol_length (R C : Nat) (ideal : List Rat) (c : Nat) : (idealCol R C ideal c).length = R := by
  simp [idealCol]

/-- Nothing draws from a column that is not yet prepared. -/
theorem drawn_future {R stock minT vmax} {p : DPlan} {k : Nat} (h : Inv R stock minT vmax p k) (j r : Nat) (hj : k ≤ j) :
    drawn p.instr j r = 0 := by
  have key : ∀ (I : List Instr) (acc : Rat), (∀ ins ∈ I, ins.src ≠ some j) →
      I.foldl (fun acc ins => if ins.src = some j then acc + ins.vols.getD r 0 else acc) acc = acc := by
    intro I
    induction I with
    | nil => intro acc _; rfl
    | cons a I ih =>
      intro acc hI
      simp only [List.foldl_cons]
      rw [if_neg (hI a (by simp))]
      exact ih acc (fun ins hins => hI ins (by simp [hins]))
  apply key _ 0
  intro ins hins
  obtain ⟨i, hi, rfl⟩ := List.getElem_of_mem hins
  have hik : i < k := by rw [← h.len_i]; exact hi
  have hok := h.instr_ok i hik
  unfold InstrOK at hok
  have hget : p.instr.getD i default = p.instr[i] := by
    rw [List.getD_eq_getElem?_getD, List.getElem?_eq_getElem hi]; rfl
  rw [hget] at hok
  obtain ⟨_, _, _, _, h5⟩ := hok
  intro hsrc
  rw [hsrc] at h5
  simp only at h5
  omega

/-! ### `findSource` -/

theorem findSource_spec (minT vm : Rat) (idc : List Rat) (p : DPlan) (j0 j : Nat) (vt : List Rat)
    (h : findSource minT vm idc p j0 = some (j, vt)) :
    j0 ≤ j ∧ j < p.instr.length
      ∧ vt = List.zipWith (fun i x => (((vm * i / x).ceil : Int) : Rat)) idc (p.x.getD j [])
      ∧ vt.all (fun v => minT ≤ v) = true ∧ vt.all (fun v => v ≤ vm) = true
      ∧ (List.zipWith (fun v a => decide (v ≤ a)) vt (p.avail.getD j [])).all id = true := by
  induction hk : p.instr.length - j0 using Nat.strongRecOn generalizing j0 with
  | ind k ih =>
    unfold findSource at h
    simp only at h
    by_cases hlt : j0 < p.instr.length
    · rw [dif_pos hlt] at h
      split at h
      · rename_i hc
        cases h
        simp only [Bool.and_eq_true] at hc
        exact ⟨Nat.le_refl _, hlt, rfl, hc.1.1, hc.1.2, hc.2⟩
      · have := ih (p.instr.length - (j0 + 1)) (by omega) (j0 + 1) h rfl
        exact ⟨by omega, this.2⟩
    · rw [dif_neg hlt] at h
      cases h

/-! ### One column -/

theorem rat_sub_sub (a b c : Rat) : a - b - c = a - (b + c) := by grind
theorem rat_sub_nonneg (a b : Rat) (h : b ≤ a) : 0 ≤ a - b := by grind
theorem rat_sub_zero (a : Rat) : a - 0 = a := by grind

theorem getD_replicate {α} (n : Nat) (a d : α) (i : Nat) (h : i < n) : (List.replicate n a).getD i d = a := by
  simp [List.getD_eq_getElem?_getD, h]

theorem length_zipWith' {α β γ} (f : α → β → γ) (l : List α) (l' : List β) (n : Nat) (h1 : l.length = n)
    (h2 : l'.length = n) : (List.zipWith f l l').length = n := by
  rw [List.length_zipWith, h1, h2, Nat.min_self]

theorem planCol_inv {R C : Nat} {stock minT : Rat} {vmax ideal : List Rat} {p p' : DPlan} {b b' : Bool} {k : Nat}
    (hvm : 0 ≤ vmax.getD k 0) (h : Inv R stock minT vmax p k)
    (hstep : planCol R C stock minT vmax ideal (p, b) k = some (p', b')) :
    Inv R stock minT vmax p' (k + 1) := by
  unfold planCol at hstep
  simp only at hstep
  have hidc := idealCol_length R C ideal k
  have hli := h.len_i
  have hlx := h.len_x
  have hla := h.len_a
  split at hstep
  · -- prepared from the stock
    rename_i hc
    simp only [Bool.and_eq_true] at hc
    obtain ⟨⟨_, hmin⟩, hmax⟩ := hc
    cases hstep
    generalize hvt : ((idealCol R C ideal k).map fun i => ((roundHalfEven (vmax.getD k 0 * i / stock) : Int) : Rat)) = vtS
      at hmin hmax
    have hlen : vtS.length = R := by rw [← hvt, List.length_map, hidc]
    have hwhole : ∀ v ∈ vtS, isWhole v := by
      intro v hv
      rw [← hvt] at hv
      obtain ⟨i, _, rfl⟩ := List.mem_map.1 hv
      exact isWhole_int _
    refine ⟨by simp [hli], by simp [hlx], by simp [hla], ?_, ?_⟩
    · intro i hi
      by_cases hik : i < k
      · exact (h.instr_ok i hik).append _ _ (by rw [hli]; exact hik) (by rw [hlx]; exact hik)
      · have hik' : i = k := by omega
        rw [hik']
        unfold InstrOK
        have e1 := getD_append_len p.instr ⟨k, 0, none, vtS⟩ default
        have e2 := getD_append_len p.x (vtS.map fun v => v / vmax.getD k 0 * stock) []
        rw [hli] at e1
        rw [hlx] at e2
        simp only [e1, e2]
        refine ⟨by trivial, hlen, by rw [List.length_map, hlen], ?_, by trivial, by trivial⟩
        intro v hv
        exact ⟨hwhole v hv, by simpa using List.all_eq_true.1 hmin v hv, by simpa using List.all_eq_true.1 hmax v hv⟩
    · intro j hj
      by_cases hjk : j < k
      · rw [getD_append_lt _ _ _ _ (by rw [hla]; exact hjk)]
        obtain ⟨hl, hr⟩ := h.avail_ok j hjk
        refine ⟨hl, ?_⟩
        intro r hr'
        rw [drawn_append]
        simp only [reduceCtorEq, if_false]
        exact hr r hr'
      · have hjk' : j = k := by omega
        rw [hjk']
        have e := getD_append_len p.avail (List.replicate R (vmax.getD k 0)) []
        rw [hla] at e
        rw [e]
        refine ⟨List.length_replicate, ?_⟩
        intro r hr
        rw [getD_replicate _ _ _ _ hr, drawn_append]
        simp only [reduceCtorEq, if_false]
        rw [drawn_future h k r (Nat.le_refl _), rat_sub_zero]
        exact ⟨rfl, hvm⟩
  · -- prepared from an earlier column
    cases hfs : findSource minT (vmax.getD k 0) (idealCol R C ideal k) p 0 with
    | none => rw [hfs] at hstep; cases hstep
    | some res =>
      obtain ⟨j, vt⟩ := res
      rw [hfs] at hstep
      simp only at hstep
      cases hstep
      obtain ⟨_, hjlt, hvt, hmin, hmax, hav⟩ := findSource_spec _ _ _ _ _ _ _ hfs
      have hjk : j < k := by rw [← hli]; exact hjlt
      have hokj := h.instr_ok j hjk
      have hxs : (p.x.getD j []).length = R := hokj.2.2.1
      have hvtlen : vt.length = R := by rw [hvt]; exact length_zipWith' _ _ _ R hidc hxs
      have hwhole : ∀ v ∈ vt, isWhole v := by
        intro v hv
        rw [hvt] at hv
        have : List.zipWith (fun i x => (((vmax.getD k 0 * i / x).ceil : Int) : Rat)) (idealCol R C ideal k) (p.x.getD j [])
            = (List.zipWith (fun i x => (vmax.getD k 0 * i / x).ceil) (idealCol R C ideal k) (p.x.getD j [])).map
                (fun n : Int => (n : Rat)) := by
          rw [List.map_zipWith]
        rw [this] at hv
        obtain ⟨n, _, rfl⟩ := List.mem_map.1 hv
        exact isWhole_int _
      obtain ⟨havl, havr⟩ := h.avail_ok j hjk
      refine ⟨by simp [hli], by simp [hlx], by simp [hla], ?_, ?_⟩
      · intro i hi
        by_cases hik : i < k
        · exact (h.instr_ok i hik).append _ _ (by rw [hli]; exact hik) (by rw [hlx]; exact hik)
        · have hik' : i = k := by omega
          rw [hik']
          unfold InstrOK
          have e1 := getD_append_len p.instr ⟨k, (p.instr.getD j default).dsteps + 1, some j, vt⟩ default
          have e2 := getD_append_len p.x (List.zipWith (fun v x => v * x / vmax.getD k 0) vt (p.x.getD j [])) []
          rw [hli] at e1
          rw [hlx] at e2
          simp only [e1, e2]
          refine ⟨by trivial, hvtlen, length_zipWith' _ _ _ R hvtlen hxs, ?_, hjk, ?_, ?_⟩
          · intro v hv
            exact ⟨hwhole v hv, by simpa using List.all_eq_true.1 hmin v hv, by simpa using List.all_eq_true.1 hmax v hv⟩
          · rw [getD_append_lt _ _ _ _ hjlt]
          · rw [getD_append_lt _ _ _ _ (by rw [hlx]; exact hjk)]
      · intro j' hj'
        by_cases hj'k : j' < k
        · rw [getD_append_lt _ _ _ _ (by rw [List.length_set, hla]; exact hj'k)]
          by_cases hjj : j = j'
          · rw [← hjj]
            rw [getD_set_self _ _ _ _ (by rw [hla]; exact hjk)]
            refine ⟨length_zipWith' _ _ _ R havl hvtlen, ?_⟩
            intro r hr
            rw [getD_zipWith _ _ _ 0 0 0 r (by omega) (by omega), drawn_append]
            simp only [if_true]
            obtain ⟨e, hn⟩ := havr r hr
            have hle : vt.getD r 0 ≤ (p.avail.getD j []).getD r 0 := by
              have := all_getD _ _ hav false r (by rw [length_zipWith' _ _ _ R hvtlen havl]; exact hr)
              rw [getD_zipWith _ _ _ 0 0 false r (by omega) (by omega)] at this
              simpa using this
            refine ⟨by rw [e, rat_sub_sub], rat_sub_nonneg _ _ hle⟩
          · rw [getD_set_ne _ _ _ _ _ hjj]
            obtain ⟨hl, hr⟩ := h.avail_ok j' hj'k
            refine ⟨hl, ?_⟩
            intro r hr'
            rw [drawn_append]
            have : (some j : Option Nat) ≠ some j' := by simpa using hjj
            simp only [this, if_false]
            exact hr r hr'
        · have hj'k' : j' = k := by omega
          rw [hj'k']
          have e := getD_append_len (p.avail.set j (List.zipWith (fun a v => a - v) (p.avail.getD j []) vt))
            (List.replicate R (vmax.getD k 0)) []
          rw [List.length_set, hla] at e
          rw [e]
          refine ⟨List.length_replicate, ?_⟩
          intro r hr
          rw [getD_replicate _ _ _ _ hr, drawn_append]
          have : (some j : Option Nat) ≠ some k := by
            intro hh; cases hh; omega
          simp only [this, if_false]
          rw [drawn_future h k r (Nat.le_refl _), rat_sub_zero]
          exact ⟨rfl, hvm⟩

/-- The invariant holds after any number of columns. -/
theorem fold_inv {R C : Nat} {stock minT : Rat} {vmax ideal : List Rat} (hvm : ∀ c, 0 ≤ vmax.getD c 0) (k : Nat)
    (p : DPlan) (b : Bool)
    (h : (List.range k).foldl (fun st c => st.bind fun s => planCol R C stock minT vmax ideal s c)
          (some (⟨[], [], []⟩, true)) = some (p, b)) :
    Inv R stock minT vmax p k := by
  induction k generalizing p b with
  | zero =>
    simp only [List.range_zero, List.foldl_nil, Option.some.injEq, Prod.mk.injEq] at h
    rw [← h.1]
    exact inv_init R stock minT vmax
  | succ k ih =>
    rw [List.range_succ, List.foldl_append] at h
    simp only [List.foldl_cons, List.foldl_nil] at h
    cases hprev : (List.range k).foldl (fun st c => st.bind fun s => planCol R C stock minT vmax ideal s c)
        (some (⟨[], [], []⟩, true)) with
    | none => rw [hprev] at h; cases h
    | some st =>
      obtain ⟨p0, b0⟩ := st
      rw [hprev] at h
      simp only [Option.bind_some] at h
      exact planCol_inv (hvm k) (ih p0 b0 hprev) h

end Dil
end Robotools
