/-
  Robotools.Proofs.WfLemmas — every record any public operation can append is admitted by the
  record grammar (`Rec.WF`, Model/Parse.lean): text fields were validated, volumes and positions are
  in range, exclusion lists are sorted.  Used by Props/C09.
-/
import Robotools.Proofs.ReplayLemmas
import Robotools.Proofs.ParseLemmas
import Robotools.Proofs.SaveLemmas
namespace Robotools
namespace WF

/-! ### What `prepareAD` establishes -/

theorem textOK32_iff (s : String) : textOK32 s = true ↔ s.length ≤ 32 ∧ ';' ∉ s.toList := by
  simp [textOK32]

theorem textOK_iff (s : String) : textOK s = true ↔ ';' ∉ s.toList := by
  simp [textOK]

/-- An accepted call: every validity condition holds and the fields are exactly the arguments. -/
theorem prepareAD_spec (a : ADArgs) (M : Option Rat) (f : ADFields) (h : prepareAD a M = .ok f) :
    textOK32 a.rackLabel = true ∧ a.posBad = false ∧ 0 ≤ a.position ∧ 0 ≤ a.vol
      ∧ a.vol ≤ (Spec.maxRecordVolume : Rat) ∧ (∀ m, M = some m → a.vol ≤ m)
      ∧ textOK a.liquidClass = true ∧ textOK32 a.rackId = true ∧ textOK32 a.tubeId = true
      ∧ textOK32 a.rackType = true ∧ textOK32 a.forcedRackType = true
      ∧ tipMask a.tip = .ok f.tip
      ∧ f = { rackLabel := a.rackLabel, rackId := a.rackId, rackType := a.rackType,
              position := a.position.toNat, tubeId := a.tubeId, vol := a.vol,
              liquidClass := a.liquidClass, tip := f.tip, forcedRackType := a.forcedRackType } := by
  simp only [prepareAD, bind, Except.bind, pure, Except.pure, throw, throwThe,
    MonadExceptOf.throw] at h
  repeat' split at h
  all_goals first
    | (injection h with h; subst h
       simp_all [Rat.not_lt])
    | (injection h)

/-- Conversely, a call meeting every condition is accepted with exactly these fields. -/
theorem prepareAD_complete (a : ADArgs) (M : Option Rat) (t : Option Nat)
    (h1 : textOK32 a.rackLabel = true) (h2 : a.posBad = false) (h3 : 0 ≤ a.position) (h4 : 0 ≤ a.vol)
    (h5 : a.vol ≤ (Spec.maxRecordVolume : Rat)) (h6 : ∀ m, M = some m → a.vol ≤ m)
    (h7 : textOK a.liquidClass = true) (h8 : textOK32 a.rackId = true) (h9 : textOK32 a.tubeId = true)
    (h10 : textOK32 a.rackType = true) (h11 : textOK32 a.forcedRackType = true)
    (h12 : tipMask a.tip = .ok t) :
    prepareAD a M = .ok {
      rackLabel := a.rackLabel, rackId := a.rackId, rackType := a.rackType,
      position := a.position.toNat, tubeId := a.tubeId, vol := a.vol, liquidClass := a.liquidClass,
      tip := t, forcedRackType := a.forcedRackType } := by
  have h3' : ¬ a.position < 0 := Int.not_lt.2 h3
  have h4' : ¬ a.vol < 0 := Rat.not_lt.2 h4
  have h5' : ¬ (Spec.maxRecordVolume : Rat) < a.vol := Rat.not_lt.2 h5
  cases M with
  | none =>
    simp [prepareAD, bind, Except.bind, pure, Except.pure, h1, h2, h3', h4', h5', h7, h8, h9, h10, h11, h12]
  | some m =>
    have h6' : ¬ m < a.vol := Rat.not_lt.2 (h6 m rfl)
    simp [prepareAD, bind, Except.bind, pure, Except.pure, h1, h2, h3', h4', h5', h6', h7, h8, h9, h10,
      h11, h12]

theorem prepareAD_wf (a : ADArgs) (M : Option Rat) (f : ADFields) (h : prepareAD a M = .ok f) : f.WF := by
  obtain ⟨h1, _, _, h4, h5, _, h7, h8, h9, h10, h11, _, hf⟩ := prepareAD_spec a M f h
  rw [textOK32_iff] at h1 h8 h9 h10 h11
  rw [textOK_iff] at h7
  rw [hf]
  exact ⟨⟨h1.2, h8.2, h10.2, h9.2, h7, h11.2⟩, h1.1, h8.1, h10.1, h9.1, h11.1, h4, h5⟩

/-! ### Comments -/

theorem commentRecs_wf (c : Option String) (rs : List Rec) (h : commentRecs c = .ok rs) :
    ∀ r ∈ rs, r.WF := by
  intro r hr
  unfold commentRecs at h
  split at h
  · cases h; cases hr
  · rename_i s
    split at h
    · cases h; cases hr
    · split at h
      · cases h
      · rename_i hsemi
        cases h
        obtain ⟨l, hl, hrl⟩ := List.mem_filterMap.1 hr
        simp only at hrl
        split at hrl
        · cases hrl
        · rename_i hne
          cases hrl
          have key : ∀ ch ∈ stripChars l, ch ∈ s.toList ∧ ch ≠ '\n' := fun ch hch =>
            mem_splitOn_piece '\n' s.toList l hl ch (mem_of_mem_stripChars l ch hch)
          simp only [Rec.WF, String.toList_ofList]
          refine ⟨?_, ?_, ?_⟩
          · intro hm; exact hsemi (by simpa using (key _ hm).1)
          · intro hm; exact (key _ hm).2 rfl
          · intro he; exact hne (by simp [he])

/-! ### Micro-operations -/

def Micro.wf : Micro → Prop
  | .emit r => r.WF
  | _ => True

theorem wf_of_noEmit {m : Micro} (h : RP.Micro.noEmit m = true) : Micro.wf m := by
  cases m with
  | emit r => simp [RP.Micro.noEmit] at h
  | _ => trivial

theorem wf_single {m : Micro} (h : Micro.wf m) : ∀ m' ∈ [m], Micro.wf m' := by
  intro m' hm'; simp only [List.mem_singleton] at hm'; subst hm'; exact h

theorem wf_append {a b : List Micro} (ha : ∀ m ∈ a, Micro.wf m) (hb : ∀ m ∈ b, Micro.wf m) :
    ∀ m ∈ a ++ b, Micro.wf m := by
  intro m hm
  rcases List.mem_append.1 hm with h | h
  · exact ha m h
  · exact hb m h

theorem wf_exceptMicros {α} (x : Except Err α) (f : α → List Micro)
    (h : ∀ a, x = .ok a → ∀ m ∈ f a, Micro.wf m) : ∀ m ∈ exceptMicros x f, Micro.wf m := by
  intro m hm
  unfold exceptMicros at hm
  split at hm
  · exact h _ rfl m hm
  · simp only [List.mem_singleton] at hm; subst hm; trivial

theorem wf_compileRemove (L : Labware) (l : Nat) (wells : Arr String) (vols : Arr Rat)
    (label : Option String) : ∀ m ∈ compileRemove L l wells vols label, Micro.wf m := by
  intro m hm
  apply wf_of_noEmit
  unfold compileRemove at hm
  simp only at hm
  split at hm
  · simp only [List.mem_singleton] at hm; subst hm; rfl
  · split at hm
    · simp only [List.mem_singleton] at hm; subst hm; rfl
    · rcases List.mem_append.1 hm with h | h
      · obtain ⟨p, _, rfl⟩ := List.mem_map.1 h
        exact RP.rmMicro_noEmit L l p
      · simp only [List.mem_singleton] at h; subst h; rfl

theorem wf_compileAdd (L : Labware) (l : Nat) (wells : Arr String) (vols : Arr Rat)
    (label : Option String) (comps : Option (List (Option Comp))) (carryAll : Bool) :
    ∀ m ∈ compileAdd L l wells vols label comps carryAll, Micro.wf m := by
  intro m hm
  apply wf_of_noEmit
  unfold compileAdd at hm
  simp only at hm
  split at hm
  · simp only [List.mem_singleton] at hm; subst hm; rfl
  · split at hm
    · simp only [List.mem_singleton] at hm; subst hm; rfl
    · split at hm
      · simp only [List.mem_singleton] at hm; subst hm; rfl
      · rcases List.mem_append.1 hm with h | h
        · obtain ⟨p, _, rfl⟩ := List.mem_map.1 h
          exact RP.adMicro_noEmit L l p
        · simp only [List.mem_singleton] at h; subst h; rfl

theorem wf_commentMicros (c : Option String) : ∀ m ∈ commentMicros c, Micro.wf m := by
  unfold commentMicros
  apply wf_exceptMicros
  intro rs hrs m hm
  obtain ⟨r, hr, rfl⟩ := List.mem_map.1 hm
  exact commentRecs_wf c rs hrs r hr

theorem wf_washMicros (cfg : Cfg) (n : Int) : ∀ m ∈ washMicros cfg n, Micro.wf m := by
  intro m hm
  unfold washMicros at hm
  split at hm
  · simp only [List.mem_singleton] at hm; subst hm; trivial
  · split at hm
    · rename_i hok
      simp only [List.mem_singleton] at hm; subst hm
      show n.toNat ∈ Spec.washSchemes
      simpa using hok.1
    · simp only [List.mem_singleton] at hm; subst hm; trivial

theorem wf_actionMicros (cfg : Cfg) (wa : WashArg) : ∀ m ∈ actionMicros cfg wa, Micro.wf m := by
  intro m hm
  unfold actionMicros at hm
  split at hm
  · simp only [List.mem_singleton] at hm; subst hm; trivial
  · cases hm
  · exact wf_washMicros cfg _ m hm

theorem wf_emitAD (cfg : Cfg) (L : Labware) (isAsp : Bool) (ws : List String) (vs : List Rat)
    (kw : KW) : ∀ m ∈ emitAD cfg L isAsp ws vs kw, Micro.wf m := by
  rw [RP.emitAD_eq]
  intro m hm
  obtain ⟨p, _, hm⟩ := List.mem_flatMap.1 hm
  refine wf_exceptMicros _ _ ?_ m hm
  intro rs hrs m' hm'
  obtain ⟨r, hr, rfl⟩ := List.mem_map.1 hm'
  unfold RP.adOut at hrs
  split at hrs
  · cases hp : cfg.dev.pos L.geom p.1 with
    | error e => simp [hp] at hrs
    | ok pos =>
      simp only [hp] at hrs
      split at hrs
      · cases hrs
      · rename_i f hprep
        simp only [Except.ok.injEq] at hrs
        subst hrs
        simp only [List.mem_singleton] at hr
        subst hr
        have := prepareAD_wf _ _ _ hprep
        cases isAsp <;> exact this
  · simp only [Except.ok.injEq] at hrs
    subst hrs
    cases hr

theorem wf_compileAspirate (cfg : Cfg) (L : Labware) (l : Nat) (wells : Arr String)
    (vols : Arr Rat) (label : Option String) (kw : KW) :
    ∀ m ∈ compileAspirate cfg L l wells vols label kw, Micro.wf m := by
  unfold compileAspirate
  exact wf_append (wf_append (wf_compileRemove _ _ _ _ _) (wf_commentMicros label)) (wf_emitAD _ _ _ _ _ _)

theorem wf_compileDispense (cfg : Cfg) (L : Labware) (l : Nat) (wells : Arr String)
    (vols : Arr Rat) (label : Option String) (comps : Option (List (Option Comp))) (kw : KW)
    (carryAll : Bool) :
    ∀ m ∈ compileDispense cfg L l wells vols label comps kw carryAll, Micro.wf m := by
  unfold compileDispense
  exact wf_append (wf_append (wf_compileAdd _ _ _ _ _ _ _) (wf_commentMicros label)) (wf_emitAD _ _ _ _ _ _)

theorem wf_compileTransfer (cfg : Cfg) (S : Labware) (src : Nat) (srcWells : Arr String)
    (D : Labware) (dst : Nat) (dstWells : Arr String) (vols : Arr Rat) (label : Option String)
    (wash : WashArg) (partitionBy : String) (kw : KW) :
    ∀ m ∈ compileTransfer cfg S src srcWells D dst dstWells vols label wash partitionBy kw,
      Micro.wf m := by
  unfold compileTransfer
  split
  · exact wf_single trivial
  · simp only
    split
    · exact wf_single trivial
    · split
      · exact wf_single trivial
      · split
        · exact wf_single trivial
        · apply wf_append
          · apply wf_append (wf_commentMicros label)
            intro m hm
            obtain ⟨stp, _, hm⟩ := List.mem_flatMap.1 hm
            cases stp with
            | pair s d v =>
              simp only at hm
              refine wf_append (wf_append (wf_compileAspirate _ _ _ _ _ _ _) ?_)
                (wf_compileDispense _ _ _ _ _ _ _ _ _) m hm
              exact wf_exceptMicros _ _ (fun i _ => wf_single (m := Micro.loadComp src i) trivial)
            | action => exact wf_actionMicros cfg wash m hm
            | brk => exact wf_single (m := Micro.emit Rec.brk) trivial m hm
          · intro m hm
            split at hm
            · simp only [List.mem_singleton] at hm; subst hm; trivial
            · simp only [List.mem_cons, List.not_mem_nil, or_false] at hm
              rcases hm with rfl | rfl <;> trivial

theorem int_le_trans_b : ∀ (a b c : Int), decide (a ≤ b) = true → decide (b ≤ c) = true → decide (a ≤ c) = true := by
  intro a b c h1 h2; simp only [decide_eq_true_eq] at *; omega

theorem int_le_total_b : ∀ (a b : Int), (decide (a ≤ b) || decide (b ≤ a)) = true := by
  intro a b; simp only [Bool.or_eq_true, decide_eq_true_eq]; omega

/-- The reagent-distribution record carries exactly the (validated) arguments. -/
theorem compileRD_spec (cfg : Cfg) (a : RDArgs) (m : Micro) (hm : m ∈ compileRD cfg a) :
    (∃ e, m = .fail e) ∨
    (∃ f, m = .emit (.rd f) ∧ f.WF
      ∧ f = { srcLabel := a.srcLabel, srcId := a.srcRackId, srcType := a.srcRackType,
              srcStart := a.srcStart.v, srcEnd := a.srcEnd.v, dstLabel := a.dstLabel,
              dstId := a.dstRackId, dstType := a.dstRackType, dstStart := a.dstStart.v,
              dstEnd := a.dstEnd.v, vol := a.vol, liquidClass := a.liquidClass,
              ditiReuse := a.ditiReuse, multiDisp := adaptMultiDisp cfg.maxVolume a.vol.q a.multiDisp,
              direction := if a.direction = "left_to_right" then 0 else 1,
              excluded := a.exclude.mergeSort (· ≤ ·) }
      ∧ a.excludeBad = false ∧ a.srcStart.bad = false ∧ a.srcEnd.bad = false
      ∧ a.dstStart.bad = false ∧ a.dstEnd.bad = false
      ∧ (a.direction = "left_to_right" ∨ a.direction = "right_to_left")
      ∧ a.vol.q ≤ cfg.maxVolume) := by
  unfold compileRD at hm
  split at hm
  · simp only [List.mem_singleton] at hm; exact Or.inl ⟨_, hm⟩
  · rename_i hdir
    simp only at hm
    split at hm
    · simp only [List.mem_singleton] at hm; exact Or.inl ⟨_, hm⟩
    · rename_i hex
      unfold exceptMicros at hm
      split at hm
      · rename_i fs hs
        split at hm
        · rename_i fd hd
          split at hm
          · simp only [List.mem_singleton] at hm; exact Or.inl ⟨_, hm⟩
          · rename_i hpos
            simp only [List.mem_singleton] at hm
            refine Or.inr ⟨_, hm, ?_, rfl, ?_⟩
            · obtain ⟨s1, _, _, s4, _, _, s7, s8, _, s10, _, _, _⟩ := prepareAD_spec _ _ _ hs
              obtain ⟨d1, _, _, _, _, _, _, d8, _, d10, _, _, _⟩ := prepareAD_spec _ _ _ hd
              simp only at s1 s4 s7 s8 s10 d1 d8 d10
              rw [textOK32_iff] at s1 s8 s10 d1 d8 d10
              rw [textOK_iff] at s7
              simp only [not_or, Int.not_lt, Bool.not_eq_true] at hpos hex
              obtain ⟨_, _, _, _, p1, p2, p3, p4⟩ := hpos
              refine ⟨⟨s1.2, s8.2, s10.2, d1.2, d8.2, d10.2, s7⟩, s1.1, s8.1, s10.1, d1.1, d8.1, d10.1,
                s4, p1, p2, p3, p4, ?_, ?_, ?_⟩
              · show (if a.direction = "left_to_right" then 0 else 1) ≤ 1
                split <;> omega
              · show (compileRD.dedupInt (a.exclude.mergeSort (· ≤ ·))).Pairwise (· ≤ ·)
                have := List.pairwise_mergeSort int_le_trans_b int_le_total_b a.exclude
                simpa [compileRD.dedupInt] using this
              · intro x hx
                have hx' : x ∈ a.exclude := by
                  have : x ∈ a.exclude.mergeSort (· ≤ ·) := by simpa [compileRD.dedupInt] using hx
                  exact (List.mergeSort_perm _ _).mem_iff.1 this
                have hany := hex.2
                rw [List.any_eq_false] at hany
                have := hany x hx'
                simp only [decide_eq_true_eq, not_or, Int.not_lt] at this
                exact this
            · simp only [not_or, Bool.not_eq_true] at hpos hex
              obtain ⟨b1, b2, b3, b4, _⟩ := hpos
              obtain ⟨_, _, _, _, _, hmx, _⟩ := prepareAD_spec _ _ _ hs
              have hdir' : a.direction = "left_to_right" ∨ a.direction = "right_to_left" :=
                Decidable.not_not.1 hdir
              exact ⟨hex.1, b1, b2, b3, b4, hdir', hmx _ rfl⟩
        · rename_i e he
          simp only [List.mem_singleton] at hm
          exact Or.inl ⟨e, hm⟩
      · rename_i e he
        simp only [List.mem_singleton] at hm
        exact Or.inl ⟨e, hm⟩

theorem wf_compileRD (cfg : Cfg) (a : RDArgs) : ∀ m ∈ compileRD cfg a, Micro.wf m := by
  intro m hm
  rcases compileRD_spec cfg a m hm with ⟨e, rfl⟩ | ⟨f, rfl, hwf, _⟩
  · trivial
  · exact hwf

theorem wf_compileDistribute (cfg : Cfg) (S D : Labware) (a : DistArgs) :
    ∀ m ∈ compileDistribute cfg S D a, Micro.wf m := by
  unfold compileDistribute
  split
  · exact wf_single trivial
  · split
    · exact wf_single trivial
    · simp only
      apply wf_exceptMicros
      intro ps _
      split
      · exact wf_single trivial
      · split
        · split
          · exact wf_single trivial
          · exact wf_append (wf_append (wf_append (wf_append
              (wf_compileRemove _ _ _ _ _)
              (wf_exceptMicros _ _ (fun i _ => wf_single trivial)))
              (wf_compileAdd _ _ _ _ _ _ _))
              (wf_commentMicros _)) (wf_compileRD _ _)
        · exact wf_single trivial

theorem wf_compileEvoAD (cfg : Cfg) (L : Labware) (l : Nat) (isAsp : Bool) (a : EvoADArgs)
    (label : Option String) (comps : Option (List (Option Comp))) :
    ∀ m ∈ compileEvoAD cfg L l isAsp a label comps, Micro.wf m := by
  unfold compileEvoAD
  split
  · exact wf_single trivial
  · simp only
    refine wf_append (wf_append ?_ (wf_commentMicros label))
      (wf_exceptMicros _ _ (fun f _ => wf_single trivial))
    split
    · exact wf_compileRemove _ _ _ _ _
    · exact wf_compileAdd _ _ _ _ _ _ _

/-- Every record any public operation compiles to is admitted by the grammar. -/
theorem wf_compile (w : World) (op : Op) : ∀ m ∈ compile w op, Micro.wf m := by
  cases op with
  | add l wells vols label comps =>
    simp only [compile]
    split
    · exact wf_compileAdd _ _ _ _ _ _ _
    · exact wf_single trivial
  | remove l wells vols label =>
    simp only [compile]
    split
    · exact wf_compileRemove _ _ _ _ _
    · exact wf_single trivial
  | condenseLog l n label => exact wf_single trivial
  | aspirate l wells vols label kw =>
    simp only [compile]
    split
    · exact wf_compileAspirate _ _ _ _ _ _ _
    · exact wf_single trivial
  | dispense l wells vols label comps kw =>
    simp only [compile]
    split
    · exact wf_compileDispense _ _ _ _ _ _ _ _ _
    · exact wf_single trivial
  | transfer s sw d dw vols label wash pb kw =>
    simp only [compile]
    split
    · split
      · exact wf_compileTransfer _ _ _ _ _ _ _ _ _ _ _ _
      · exact wf_single trivial
    · exact wf_single trivial
  | distribute a =>
    simp only [compile]
    split
    · split
      · exact wf_compileDistribute _ _ _ _
      · exact wf_single trivial
    · exact wf_single trivial
  | comment c => exact wf_commentMicros c
  | wash n => exact wf_washMicros w.cfg n
  | decontaminate =>
    simp only [compile]
    split <;> exact wf_single trivial
  | flush => exact wf_single trivial
  | commit => exact wf_single trivial
  | setDiti i => exact wf_single trivial
  | aspirateWell a =>
    simp only [compile]
    apply wf_exceptMicros
    intro f hf
    exact wf_single (prepareAD_wf _ _ _ hf)
  | dispenseWell a =>
    simp only [compile]
    apply wf_exceptMicros
    intro f hf
    exact wf_single (prepareAD_wf _ _ _ hf)
  | reagentDistribution a => exact wf_compileRD _ _
  | evoAspirate l a label =>
    simp only [compile]
    split
    · exact wf_compileEvoAD _ _ _ _ _ _ _
    · exact wf_single trivial
  | evoDispense l a label comps =>
    simp only [compile]
    split
    · exact wf_compileEvoAD _ _ _ _ _ _ _
    · exact wf_single trivial
  | evoWash a =>
    simp only [compile]
    split
    · exact wf_single trivial
    · exact wf_exceptMicros _ _ (fun f _ => wf_single trivial)

theorem recs_wf_micro {w w' : World} {m : Micro} (hm : Micro.wf m)
    (hw : ∀ r ∈ w.recs, r.WF) (h : w.micro m = .ok w') : ∀ r ∈ w'.recs, r.WF := by
  cases m with
  | emit r0 =>
    simp only [World.micro] at h
    cases h
    intro r hr
    rcases List.mem_append.1 hr with h' | h'
    · exact hw r h'
    · simp only [List.mem_singleton] at h'; subst h'; exact hm
  | setDiti i =>
    simp only [World.micro] at h
    repeat' split at h
    all_goals first
      | (injection h with h; subst h
         intro r hr
         rcases List.mem_append.1 hr with h' | h'
         · exact hw r h'
         · simp only [List.mem_singleton] at h'; subst h'; trivial)
      | (injection h)
  | rm l i v => rw [RP.recs_micro_noEmit rfl h]; exact hw
  | ad l i v c => rw [RP.recs_micro_noEmit rfl h]; exact hw
  | loadComp l i => rw [RP.recs_micro_noEmit rfl h]; exact hw
  | log l label => rw [RP.recs_micro_noEmit rfl h]; exact hw
  | condense l n label => rw [RP.recs_micro_noEmit rfl h]; exact hw
  | fail e => simp [World.micro] at h

theorem recs_wf_exec (w : World) (ms : List Micro) (hms : ∀ m ∈ ms, Micro.wf m)
    (hw : ∀ r ∈ w.recs, r.WF) : ∀ r ∈ (w.exec ms).1.recs, r.WF :=
  World.exec_invariant (P := fun w' => ∀ r ∈ w'.recs, r.WF) (Q := Micro.wf)
    (fun _ _ _ hq hp hm => recs_wf_micro hq hp hm) w ms hms hw

end WF
end Robotools
