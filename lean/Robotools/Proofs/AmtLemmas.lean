/-
  Robotools.Proofs.AmtLemmas — the replay interpreter's absolute component amounts versus the
  tracked fractions (composition clause of C01).

  Part 1: algebra of `Amounts` (`amtOf`, `amtAdd`, `amtScale`, `amtMerge`).
  Part 2: one replay labware against one tracked labware: `LabAmt R L` says that every well of the
  replay holds, component by component, exactly `fraction × volume` of the tracked well;
  `take` mirrors `removeStep`, `put` (with the aspirated liquid) mirrors `addStep` with the source's
  composition.
-/
import Robotools.Proofs.ReplayLemmas
import Robotools.Props.C05
import Robotools.Proofs.FlowLemmas
import Mathlib.Tactic.Ring
import Mathlib.Tactic.Linarith
import Mathlib.Tactic.FieldSimp
namespace Robotools
namespace Amt
open RP C05

/-! ### Algebra of amounts -/

theorem amtOf_nil (k : String) : amtOf [] k = 0 := rfl

theorem amtOf_cons (a : String) (x : Rat) (rest : Amounts) (k : String) :
    amtOf ((a, x) :: rest) k = if k = a then x else amtOf rest k := by
  unfold amtOf
  by_cases h : k = a
  · subst h; simp [List.lookup]
  · have : (k == a) = false := by simpa using h
    simp [List.lookup, this, h]

theorem amtOf_amtAdd (a : Amounts) (k : String) (x : Rat) (k' : String) :
    amtOf (amtAdd a k x) k' = amtOf a k' + (if k' = k then x else 0) := by
  induction a with
  | nil =>
    simp only [amtAdd, amtOf_cons, amtOf_nil]
    split <;> ring
  | cons p rest ih =>
    obtain ⟨b, y⟩ := p
    simp only [amtAdd]
    by_cases hb : b = k
    · subst hb
      rw [if_pos rfl, amtOf_cons, amtOf_cons]
      by_cases hk : k' = b
      · simp [hk]
      · simp [hk]
    · rw [if_neg hb, amtOf_cons, amtOf_cons, ih]
      by_cases hk : k' = b
      · have : ¬ k' = k := fun e => hb (hk ▸ e)
        simp [hk]
        intro e; exact absurd e hb
      · simp [hk]

theorem amtOf_amtScale (a : Amounts) (f : Rat) (k : String) :
    amtOf (amtScale a f) k = amtOf a k * f := by
  induction a with
  | nil => simp [amtScale, amtOf_nil]
  | cons p rest ih =>
    obtain ⟨b, y⟩ := p
    have : amtScale ((b, y) :: rest) f = (b, y * f) :: amtScale rest f := rfl
    rw [this, amtOf_cons, amtOf_cons, ih]
    split <;> rfl

theorem keys_amtScale (a : Amounts) (f : Rat) : (amtScale a f).map (·.1) = a.map (·.1) := by
  unfold amtScale
  rw [List.map_map]
  rfl

theorem mem_keys_amtAdd (a : Amounts) (k : String) (x : Rat) (k' : String) :
    k' ∈ (amtAdd a k x).map (·.1) ↔ k' ∈ a.map (·.1) ∨ k' = k := by
  induction a with
  | nil => simp [amtAdd]
  | cons p rest ih =>
    obtain ⟨b, y⟩ := p
    simp only [amtAdd]
    by_cases hb : b = k
    · subst hb
      simp only [if_true, List.map_cons, List.mem_cons]
      constructor
      · intro h; rcases h with h | h
        · exact Or.inl (Or.inl h)
        · exact Or.inl (Or.inr h)
      · intro h; rcases h with (h | h) | h
        · exact Or.inl h
        · exact Or.inr h
        · exact Or.inl h
    · simp only [if_neg hb, List.map_cons, List.mem_cons, ih]
      constructor
      · intro h; rcases h with h | h | h
        · exact Or.inl (Or.inl h)
        · exact Or.inl (Or.inr h)
        · exact Or.inr h
      · intro h; rcases h with (h | h) | h
        · exact Or.inl h
        · exact Or.inr (Or.inl h)
        · exact Or.inr (Or.inr h)

theorem nodup_keys_amtAdd (a : Amounts) (k : String) (x : Rat) (h : (a.map (·.1)).Nodup) :
    ((amtAdd a k x).map (·.1)).Nodup := by
  induction a with
  | nil => simp [amtAdd]
  | cons p rest ih =>
    obtain ⟨b, y⟩ := p
    simp only [List.map_cons, List.nodup_cons] at h
    simp only [amtAdd]
    by_cases hb : b = k
    · simp only [if_pos hb, List.map_cons, List.nodup_cons]
      exact h
    · simp only [if_neg hb, List.map_cons, List.nodup_cons]
      refine ⟨?_, ih h.2⟩
      intro hmem
      rw [mem_keys_amtAdd] at hmem
      rcases hmem with hm | hm
      · exact h.1 hm
      · exact hb hm

theorem amtMerge_cons (a : Amounts) (k : String) (x : Rat) (b : Amounts) :
    amtMerge a ((k, x) :: b) = amtMerge (amtAdd a k x) b := rfl

theorem amtOf_amtMerge (a b : Amounts) (k : String) :
    amtOf (amtMerge a b) k = amtOf a k + Mix.csum b k := by
  induction b generalizing a with
  | nil => simp [amtMerge]
  | cons p rest ih =>
    obtain ⟨c, x⟩ := p
    rw [amtMerge_cons, ih, amtOf_amtAdd, Mix.csum_cons]
    by_cases h : k = c
    · subst h; simp; ring
    · have : ¬ c = k := fun e => h e.symm
      simp [h, this]

theorem nodup_keys_amtMerge (a b : Amounts) (h : (a.map (·.1)).Nodup) :
    ((amtMerge a b).map (·.1)).Nodup := by
  induction b generalizing a with
  | nil => simpa [amtMerge] using h
  | cons p rest ih =>
    obtain ⟨c, x⟩ := p
    rw [amtMerge_cons]
    exact ih _ (nodup_keys_amtAdd a c x h)

theorem csum_eq_amtOf (b : Amounts) (k : String) (h : (b.map (·.1)).Nodup) :
    Mix.csum b k = amtOf b k := by
  induction b with
  | nil => rfl
  | cons p rest ih =>
    obtain ⟨c, x⟩ := p
    simp only [List.map_cons, List.nodup_cons] at h
    rw [Mix.csum_cons, amtOf_cons, ih h.2]
    by_cases hk : k = c
    · subst hk
      have : amtOf rest k = 0 := by
        rw [← ih h.2]; exact Mix.csum_eq_zero _ _ h.1
      simp [this]
    · have : ¬ c = k := fun e => hk e.symm
      simp [hk, this]

/-! ### One replay labware against one tracked labware -/

/-- Well `i` of the replay holds exactly `fraction × volume` of every component of the tracked well. -/
structure WellAmt (wl : RWell) (L : Labware) (i : Nat) : Prop where
  nodup : (wl.amts.map (·.1)).Nodup
  amt : ∀ k, amtOf wl.amts k = amount L i k

def LabAmt (R : RLab) (L : Labware) : Prop :=
  ∀ i wl, R.wells[i]? = some wl → WellAmt wl L i

/-- `amount` depends on the volumes and the composition table only. -/
theorem amount_congr {L L' : Labware} (hv : L'.vols = L.vols) (hc : L'.comp = L.comp) (i : Nat)
    (k : String) : amount L' i k = amount L i k := by
  unfold amount Labware.frac Labware.vol
  rw [hv, hc]

theorem labAmt_congr {R : RLab} {L L' : Labware} (h : LabAmt R L) (hv : L'.vols = L.vols)
    (hc : L'.comp = L.comp) : LabAmt R L' := by
  intro i wl hw
  exact ⟨(h i wl hw).nodup, fun k => by rw [(h i wl hw).amt k, amount_congr hv hc]⟩

theorem vol_set_self (L : Labware) (i : Nat) (x : Rat) (hi : i < L.vols.length) :
    (L.vols.set i x).getD i 0 = x := getD_set_self _ _ _ _ hi

/-- An accepted `removeStep` of a positive volume: the replay's `take` is accepted, leaves the well with
    `fraction × (volume − v)` of every component and hands over `v × fraction`. -/
theorem take_amt {R : RLab} {L L' : Labware} {i : Nat} {v : Rat} (hm : LabMatch R L)
    (ha : LabAmt R L) (hi : i < L.vols.length) (hstep : L.removeStep i v = .ok L') (hv : 0 < v)
    (hmin : 0 ≤ L.minV) :
    ∃ R' out, R.take i v = some (R', out) ∧ LabMatch R' L' ∧ LabAmt R' L'
      ∧ (out.map (·.1)).Nodup ∧ ∀ k, amtOf out k = v * L.frac i k := by
  obtain ⟨hge, hvols, hmin', hmax', hname, hgeom, _, hcomp⟩ := Labware.removeStep_fields hstep
  have hlen := hm.length
  have hiR : i < R.wells.length := by omega
  have hw : R.wells[i]? = some R.wells[i] := List.getElem?_eq_getElem hiR
  have hvw := hm.vol_eq hw
  have hwa := ha i _ hw
  have hv0 : L.vol i ≠ 0 := by
    intro e; apply hge; rw [e]; linarith
  unfold RLab.take
  rw [hw]
  simp only
  rw [hm.minV, hvw, if_neg hge, if_neg hv0]
  refine ⟨_, _, rfl, ?_, ?_, ?_, ?_⟩
  · refine ⟨by simp [hm.name, hname], by simp [hm.geom, hgeom], by simp [hm.minV, hmin'],
      by simp [hm.maxV, hmax'], ?_⟩
    simp only
    rw [hvols, ← hm.vols, List.map_set]
  · intro j wl hj
    simp only at hj
    by_cases hji : j = i
    · subst hji
      rw [List.getElem?_set_self hiR] at hj
      cases hj
      refine ⟨by simp only; rw [keys_amtScale]; exact hwa.nodup, fun k => ?_⟩
      simp only
      rw [amtOf_amtScale, hwa.amt k, removeStep_amount L L' j v hi hstep k]
      unfold amount
      field_simp
    · rw [List.getElem?_set_ne (fun e => hji e.symm)] at hj
      have hwj := ha j wl hj
      refine ⟨hwj.nodup, fun k => ?_⟩
      rw [hwj.amt k]
      unfold amount
      rw [(removeStep_frac L L' i v hstep).2 j k]
      congr 1
      unfold Labware.vol
      rw [hvols, getD_set_ne _ _ _ _ _ hji]
  · rw [keys_amtScale]; exact hwa.nodup
  · intro k
    rw [amtOf_amtScale, hwa.amt k]
    unfold amount
    field_simp

/-- An accepted `addStep` with composition `c`: the replay's `put` of amounts `a = v × c` is accepted and
    leaves the well with `fraction × volume` of every component again. -/
theorem put_amt {R : RLab} {L L' : Labware} {j : Nat} {v : Rat} {c : Comp} {a : Amounts}
    (hm : LabMatch R L) (ha : LabAmt R L) (hj : j < L.vols.length)
    (hstep : L.addStep j v (some c) = .ok L') (hL : CompValid L) (hv : 0 ≤ v) (hvol : 0 ≤ L.vol j)
    (hamt : ∀ k, Mix.csum a k = v * compOf c k) :
    ∃ R', R.put j v a = some R' ∧ LabMatch R' L' ∧ LabAmt R' L' := by
  obtain ⟨hge, hvols, hmin', hmax', hname, hgeom, _⟩ := Labware.addStep_fields hstep
  obtain ⟨hamount, hfrac⟩ := addStep_amount L L' j v c hL hj hv hvol hstep
  have hlen := hm.length
  have hjR : j < R.wells.length := by omega
  have hw : R.wells[j]? = some R.wells[j] := List.getElem?_eq_getElem hjR
  have hvw := hm.vol_eq hw
  have hwa := ha j _ hw
  unfold RLab.put
  rw [hw]
  simp only
  rw [hm.maxV, hvw, if_neg hge]
  refine ⟨_, rfl, ?_, ?_⟩
  · refine ⟨by simp [hm.name, hname], by simp [hm.geom, hgeom], by simp [hm.minV, hmin'],
      by simp [hm.maxV, hmax'], ?_⟩
    simp only
    rw [hvols, ← hm.vols, List.map_set]
  · intro i wl hi
    simp only at hi
    by_cases hij : i = j
    · subst hij
      rw [List.getElem?_set_self hjR] at hi
      cases hi
      refine ⟨nodup_keys_amtMerge _ _ hwa.nodup, fun k => ?_⟩
      simp only
      rw [amtOf_amtMerge, hwa.amt k, hamt k, hamount k]
    · rw [List.getElem?_set_ne (fun e => hij e.symm)] at hi
      have hwi := ha i wl hi
      refine ⟨hwi.nodup, fun k => ?_⟩
      rw [hwi.amt k]
      unfold amount
      rw [hfrac i k hij]
      congr 1
      unfold Labware.vol
      rw [hvols, getD_set_ne _ _ _ _ _ hij]

/-! ### Whole replay state against the tracked world -/

def AmtOK (st : RState) (w : World) : Prop := List.Forall₂ LabAmt st.labs w.labs

theorem amtOK_set {st : RState} {w : World} (hA : AmtOK st w) (l : Nat) {R : RLab} {L : Labware}
    (h : LabAmt R L) : AmtOK (st.setLab l R) (w.setLab l L) := by
  unfold AmtOK RState.setLab World.setLab
  exact forall₂_set hA l h

theorem amtOK_set_right {st : RState} {w : World} (hA : AmtOK st w) (l : Nat) {R : RLab}
    {L' : Labware} (hR : st.labs[l]? = some R) (h : LabAmt R L') : AmtOK st (w.setLab l L') := by
  unfold AmtOK World.setLab
  exact forall₂_set_right hA l hR h

/-- Replaying the `A;` record of an accepted removal of a positive volume: volumes and amounts keep
    mirroring the tracking, and the tip holds `v × fraction` of every component of the source well. -/
theorem interp_asp_amt {dev : Device} {st : RState} {w : World} {I} (hM : Match st w)
    (hA : AmtOK st w) (hI : info w = I) (hwf : WFI I) {l : Nat} {L : Labware}
    (hL : w.labs[l]? = some L) {s : String} {p i : Nat} (hp : dev.pos L.geom s = .ok p)
    (hr : L.geom.resolveFlat s = some i) {f : ADFields} (hlab : f.rackLabel = L.name)
    (hpos : f.position = p) {L' : Labware} (hstep : L.removeStep i f.vol = .ok L')
    (hv : 0 < f.vol) (hmin : 0 ≤ L.minV) :
    ∃ st', st.interp dev (.asp f) = some st' ∧ Match st' (w.setLab l L')
      ∧ AmtOK st' (w.setLab l L') ∧ (st'.tip.map (·.1)).Nodup
      ∧ ∀ k, amtOf st'.tip k = f.vol * L.frac i k := by
  obtain ⟨R, hR, hRL, hfind⟩ := findLab_of_match hM hI hwf hL
  obtain ⟨R2, hR2, hRA⟩ := forall₂_getElem? hA hL
  rw [hR] at hR2; cases hR2
  obtain ⟨rc, hwo, hflat, hlen⟩ := wellOf_pos (geomOK_of_mem hI hwf hL) hp hr
  obtain ⟨R', out, htake, hRL', hRA', hnd, hout⟩ := take_amt hRL hRA hlen hstep hv hmin
  have hwa : R.wellAt dev f.position = some i := by
    unfold RLab.wellAt
    rw [hRL.geom, hpos, hwo]
    simp only [Option.bind_some, hflat]
    rw [if_pos (by rw [hRL.length]; exact hlen)]
  refine ⟨{ (st.setLab l R') with tip := out }, ?_, match_tip (match_set hM l hRL') out,
    amtOK_set hA l hRA', hnd, hout⟩
  simp only [RState.interp, hlab, hfind, hwa, htake, Option.bind_eq_bind, Option.bind_some,
    Option.pure_def]

/-- Replaying the `D;` record of an accepted addition whose tracked composition is what the tip holds. -/
theorem interp_disp_amt {dev : Device} {st : RState} {w : World} {I} (hM : Match st w)
    (hA : AmtOK st w) (hI : info w = I) (hwf : WFI I) {l : Nat} {L : Labware}
    (hL : w.labs[l]? = some L) {s : String} {p j : Nat} (hp : dev.pos L.geom s = .ok p)
    (hr : L.geom.resolveFlat s = some j) {f : ADFields} (hlab : f.rackLabel = L.name)
    (hpos : f.position = p) {L' : Labware} {c : Comp}
    (hstep : L.addStep j f.vol (some c) = .ok L') (hLv : CompValid L) (hv : 0 ≤ f.vol)
    (hvol : 0 ≤ L.vol j) (htip : ∀ k, Mix.csum st.tip k = f.vol * compOf c k) :
    ∃ st', st.interp dev (.disp f) = some st' ∧ Match st' (w.setLab l L')
      ∧ AmtOK st' (w.setLab l L') := by
  obtain ⟨R, hR, hRL, hfind⟩ := findLab_of_match hM hI hwf hL
  obtain ⟨R2, hR2, hRA⟩ := forall₂_getElem? hA hL
  rw [hR] at hR2; cases hR2
  obtain ⟨rc, hwo, hflat, hlen⟩ := wellOf_pos (geomOK_of_mem hI hwf hL) hp hr
  obtain ⟨R', hput, hRL', hRA'⟩ := put_amt hRL hRA hlen hstep hLv hv hvol htip
  have hwa : R.wellAt dev f.position = some j := by
    unfold RLab.wellAt
    rw [hRL.geom, hpos, hwo]
    simp only [Option.bind_some, hflat]
    rw [if_pos (by rw [hRL.length]; exact hlen)]
  refine ⟨st.setLab l R', ?_, match_set hM l hRL', amtOK_set hA l hRA'⟩
  simp only [RState.interp, hlab, hfind, hwa, hput, Option.bind_eq_bind, Option.bind_some,
    Option.pure_def]

/-! ### Labware that differ in their history only -/

structure SameLiquid (L L' : Labware) : Prop where
  vols : L'.vols = L.vols
  comp : L'.comp = L.comp
  name : L'.name = L.name
  geom : L'.geom = L.geom
  minV : L'.minV = L.minV
  maxV : L'.maxV = L.maxV

theorem sameLiquid_log (L : Labware) (label : Option String) : SameLiquid L (L.log label) :=
  ⟨rfl, rfl, rfl, rfl, rfl, rfl⟩

theorem sameLiquid_condense {L L' : Labware} {n : Nat} {label : Option String}
    (h : L.condenseLog n label = .ok L') : SameLiquid L L' := by
  obtain ⟨hv, hmin, hmax, hc, hg, hn⟩ := Labware.condenseLog_fields h
  exact ⟨hv, hc, hn, hg, hmin, hmax⟩

theorem SameLiquid.labMatch {R : RLab} {L L' : Labware} (h : SameLiquid L L') (hm : LabMatch R L) :
    LabMatch R L' := labMatch_of_vols hm h.vols h.name h.geom h.minV h.maxV

theorem SameLiquid.labAmt {R : RLab} {L L' : Labware} (h : SameLiquid L L') (ha : LabAmt R L) :
    LabAmt R L' := labAmt_congr ha h.vols h.comp

/-! ### Normalisation of the fractions -/

/-- In every real well the fractions sum to 1, unless the well is empty and never held anything. -/
def Mixed (L : Labware) : Prop :=
  ∀ i, i < L.vols.length → fracSum L i = 1 ∨ (fracSum L i = 0 ∧ L.vol i = 0)

theorem colSum_setFrac_ne (comp : List (String × List Rat)) (n : Nat) (k : String) (i j : Nat) (f : Rat)
    (hji : j ≠ i) : Mix.colSum (Labware.setFrac comp n k i f) j = Mix.colSum comp j := by
  induction comp with
  | nil =>
    simp only [Labware.setFrac, Mix.colSum_cons, Mix.colSum_nil]
    rw [getD_set_ne _ _ _ _ _ hji, Mix.getD_replicate_zero]
    norm_num
  | cons p rest ih =>
    obtain ⟨a, arr⟩ := p
    simp only [Labware.setFrac]
    by_cases hk : a = k
    · rw [if_pos hk, Mix.colSum_cons, Mix.colSum_cons, getD_set_ne _ _ _ _ _ hji]
    · rw [if_neg hk, Mix.colSum_cons, Mix.colSum_cons, ih]

theorem colSum_setAll_ne (comp : List (String × List Rat)) (n i j : Nat) (newc : Comp) (hji : j ≠ i) :
    Mix.colSum (Mix.setAll comp n i newc) j = Mix.colSum comp j := by
  induction newc generalizing comp with
  | nil => rfl
  | cons q rest ih =>
    obtain ⟨a, x⟩ := q
    rw [Mix.setAll_cons, ih, colSum_setFrac_ne _ _ _ _ _ _ hji]

theorem mixed_removeStep {L L' : Labware} {i : Nat} {v : Rat} (hM : Mixed L) (hv : 0 ≤ v)
    (hmin : 0 ≤ L.minV) (h : L.removeStep i v = .ok L') : Mixed L' := by
  obtain ⟨hge, hvols, _, _, _, _, _, hcomp⟩ := Labware.removeStep_fields h
  intro j hj
  have hj' : j < L.vols.length := by rw [hvols, List.length_set] at hj; exact hj
  have hfs : fracSum L' j = fracSum L j := by unfold fracSum; rw [hcomp]
  rw [hfs]
  rcases hM j hj' with h1 | ⟨h0, hv0⟩
  · exact Or.inl h1
  · refine Or.inr ⟨h0, ?_⟩
    by_cases hji : j = i
    · subst hji
      unfold Labware.vol at hv0 ⊢
      rw [hvols, getD_set_self _ _ _ _ hj']
      have : ¬ (0 - v < L.minV) := by
        have := hge; unfold Labware.vol at this; rw [hv0] at this; exact this
      have h2 : L.minV ≤ 0 - v := not_lt.mp this
      have hvj : L.vol j = 0 := hv0
      have hveq : v = 0 := by linarith
      rw [hvj, hveq]; norm_num
    · unfold Labware.vol at hv0 ⊢
      rw [hvols, getD_set_ne _ _ _ _ _ hji]; exact hv0

theorem mixed_addStep {L L' : Labware} {i : Nat} {v : Rat} {cB : Comp} (hM : Mixed L)
    (hL : CompValid L) (hi : i < L.vols.length) (hv : 0 < v) (hvol : 0 ≤ L.vol i)
    (hB : Mix.total cB = 1) (hBn : ∀ p ∈ cB, 0 ≤ p.2)
    (h : L.addStep i v (some cB) = .ok L') : Mixed L' := by
  obtain ⟨hvols, hcomp⟩ := Mix.addStep_some h
  intro j hj
  have hj' : j < L.vols.length := by rw [hvols, List.length_set] at hj; exact hj
  by_cases hji : j = i
  · subst hji
    left
    exact addStep_fracSum L L' j v cB hL hj' (le_of_lt hv) hvol hB hBn
      (fun hpos => by
        rcases hM j hj' with h1 | ⟨_, h0⟩
        · exact h1
        · rw [h0] at hpos; exact absurd hpos (lt_irrefl _))
      (by linarith) h
  · have hfs : fracSum L' j = fracSum L j := by
      rw [fracSum_eq, fracSum_eq, hcomp, colSum_setAll_ne _ _ _ _ _ hji]
    have hvj : L'.vol j = L.vol j := by
      unfold Labware.vol; rw [hvols, getD_set_ne _ _ _ _ _ hji]
    rw [hfs, hvj]
    exact hM j hj'

/-- The world-side invariant the amount lemmas need: limits, a well-formed composition table, and
    normalised fractions. -/
def Good (w : World) : Prop := ∀ L ∈ w.labs, C02.LabValid L ∧ CompValid L ∧ Mixed L

theorem SameLiquid.good {L L' : Labware} (h : SameLiquid L L')
    (hg : C02.LabValid L ∧ CompValid L ∧ Mixed L) : C02.LabValid L' ∧ CompValid L' ∧ Mixed L' := by
  obtain ⟨hv, hc, hm⟩ := hg
  refine ⟨⟨by rw [h.minV]; exact hv.min_nonneg, by rw [h.minV, h.maxV]; exact hv.min_lt_max,
    by rw [h.vols, h.maxV]; exact hv.range⟩, ⟨by rw [h.comp]; exact hc.keys_nodup,
    by rw [h.comp, h.vols]; exact hc.lens, by rw [h.comp]; exact hc.nonneg⟩, ?_⟩
  intro j hj
  have hfs : fracSum L' j = fracSum L j := by unfold fracSum; rw [h.comp]
  have hvj : L'.vol j = L.vol j := by unfold Labware.vol; rw [h.vols]
  rw [hfs, hvj]
  exact hm j (by rw [h.vols] at hj; exact hj)

theorem good_set {w : World} (hG : Good w) (l : Nat) {L' : Labware}
    (h : C02.LabValid L' ∧ CompValid L' ∧ Mixed L') : Good (w.setLab l L') := by
  intro L hL
  unfold World.setLab at hL
  rcases List.mem_or_eq_of_mem_set hL with h' | h'
  · exact hG L h'
  · subst h'; exact h

theorem good_get {w : World} (hG : Good w) {l : Nat} {L : Labware} (hL : w.labs[l]? = some L) :
    C02.LabValid L ∧ CompValid L ∧ Mixed L := hG L (List.mem_of_getElem? hL)

/-! ### The scalar blocks of a transfer pair -/

theorem compileAspirate_scalar (cfg : Cfg) (S : Labware) (src : Nat) (s : String) (v : Rat)
    (kw : KW) (hv : 0 < v) :
    compileAspirate cfg S src (.scalar s) (.scalar v) none kw
      = [rmMicro S src (s, v), .log src none]
        ++ exceptMicros (adOut cfg S true kw (s, v)) (fun rs => rs.map Micro.emit) := by
  have hv' : ¬ v < 0 := not_lt.mpr (le_of_lt hv)
  unfold compileAspirate compileRemove
  simp only [emitAD_eq]
  simp [Arr.flattenF, broadcast1, commentMicros, commentRecs, exceptMicros, hv', rmMicro]
  cases S.geom.resolveFlat s <;> rfl

theorem compileDispense_scalar (cfg : Cfg) (D : Labware) (dst : Nat) (d : String) (v : Rat)
    (kw : KW) (hv : 0 < v) :
    compileDispense cfg D dst (.scalar d) (.scalar v) none none kw true
      = [adMicro D dst ((d, v), .carry), .log dst none]
        ++ exceptMicros (adOut cfg D false kw (d, v)) (fun rs => rs.map Micro.emit) := by
  have hv' : ¬ v < 0 := not_lt.mpr (le_of_lt hv)
  unfold compileDispense compileAdd
  simp only [emitAD_eq]
  simp [Arr.flattenF, broadcast1, commentMicros, commentRecs, exceptMicros, hv', adMicro]
  cases D.geom.resolveFlat d <;> rfl

/-- What an accepted record of the emission loop carries (positive volume). -/
theorem adOut_ok {cfg : Cfg} {L : Labware} {isAsp : Bool} {kw : KW} {s : String} {v : Rat}
    {rs : List Rec} (hv : 0 < v) (h : adOut cfg L isAsp kw (s, v) = .ok rs) :
    ∃ f pos, rs = [if isAsp then Rec.asp f else Rec.disp f] ∧ cfg.dev.pos L.geom s = .ok pos
      ∧ f.rackLabel = L.name ∧ f.position = pos ∧ f.vol = v := by
  unfold adOut at h
  simp only [hv, if_true] at h
  cases hpos : cfg.dev.pos L.geom s with
  | error e => simp [hpos] at h
  | ok pos =>
    simp only [hpos] at h
    split at h
    · cases h
    · rename_i f hprep
      simp only [Except.ok.injEq] at h
      obtain ⟨hfv, hfl, hfp, _⟩ := prepareAD_fields _ _ _ hprep
      simp only at hfv hfl hfp
      exact ⟨f, pos, h.symm, rfl, hfl, by rw [hfp]; simp, hfv⟩

theorem exec_exceptMicros_emit (w : World) (x : Except Err (List Rec)) :
    w.exec (exceptMicros x fun rs => rs.map Micro.emit)
      = match x with
        | .ok rs => ({ w with recs := w.recs ++ rs }, none)
        | .error e => (w, some e) := by
  cases x with
  | ok rs => exact exec_emit_list w rs
  | error e => simp [exceptMicros, World.exec, World.micro]

/-- The aspirate half of a transfer pair (one well, positive volume), run to completion: the source
    well loses `v`, one `A;` record is appended, the replay follows and its tip holds `v × fraction`. -/
theorem asp1 {dev : Device} {labs₀ : List Labware} {I} (hwf : WFI I) (cfg : Cfg)
    (hdev : cfg.dev = dev) (S : Labware) (src : Nat)
    (hIs : ∃ n, I[src]? = some (S.name, S.geom, n)) (s : String) (v : Rat) (kw : KW) (hv : 0 < v)
    (w : World) (hI : info w = I) (hG : Good w) (st : RState)
    (hrun : (RState.ofLabs labs₀).run dev w.recs = some st) (hM : Match st w) (hA : AmtOK st w)
    (hok : (w.exec (compileAspirate cfg S src (.scalar s) (.scalar v) none kw)).2 = none) :
    ∃ i S0 S1 st' w', w.exec (compileAspirate cfg S src (.scalar s) (.scalar v) none kw) = (w', none)
      ∧ S.geom.resolveFlat s = some i ∧ w.labs[src]? = some S0 ∧ i < S0.vols.length
      ∧ S0.removeStep i v = .ok S1
      ∧ w'.labs = w.labs.set src (S1.log none) ∧ w'.carry = w.carry ∧ w'.cfg = w.cfg
      ∧ (RState.ofLabs labs₀).run dev w'.recs = some st' ∧ Match st' w' ∧ AmtOK st' w' ∧ Good w'
      ∧ (st'.tip.map (·.1)).Nodup ∧ ∀ k, amtOf st'.tip k = v * S0.frac i k := by
  rw [compileAspirate_scalar cfg S src s v kw hv] at hok ⊢
  obtain ⟨S0, hS0, hn0, hg0⟩ := lab_of_info hI hIs
  obtain ⟨hS0v, hS0c, hS0m⟩ := good_get hG hS0
  cases hres : S.geom.resolveFlat s with
  | none =>
    exfalso
    have hm : w.micro (rmMicro S src (s, v)) = .error .reject := by
      simp [rmMicro, hres, World.micro]
    rw [List.cons_append, World.exec_cons_error _ hm] at hok
    cases hok
  | some i =>
    have hrm : rmMicro S src (s, v) = Micro.rm src i v := by simp [rmMicro, hres]
    rw [hrm] at hok ⊢
    cases hstep : S0.removeStep i v with
    | error e =>
      exfalso
      have hm : w.micro (.rm src i v) = .error e := by simp [World.micro, hS0, hstep]
      rw [List.cons_append, World.exec_cons_error _ hm] at hok
      cases hok
    | ok S1 =>
      have hm1 : w.micro (.rm src i v) = .ok (w.setLab src S1) := by
        simp [World.micro, hS0, hstep]
      have hS1 : (w.setLab src S1).labs[src]? = some S1 := getElem?_setLab_self hS0
      have hm2 : (w.setLab src S1).micro (.log src none)
          = .ok ((w.setLab src S1).setLab src (S1.log none)) := by
        simp [World.micro, hS1]
      rw [List.cons_append, World.exec_cons_ok _ hm1, List.cons_append, World.exec_cons_ok _ hm2,
        List.nil_append, exec_exceptMicros_emit] at hok ⊢
      cases hout : adOut cfg S true kw (s, v) with
      | error e => rw [hout] at hok; cases hok
      | ok rs =>
        simp only [hout]
        obtain ⟨f, pos, hrs, hpos, hfl, hfp, hfv⟩ := adOut_ok hv hout
        simp only [if_true] at hrs
        subst hrs
        have hp' : dev.pos S0.geom s = .ok pos := by rw [← hdev, hg0]; exact hpos
        have hr' : S0.geom.resolveFlat s = some i := by rw [hg0]; exact hres
        have hstep' : S0.removeStep i f.vol = .ok S1 := by rw [hfv]; exact hstep
        obtain ⟨st', hint, hM', hA', hnd, htip⟩ := interp_asp_amt hM hA hI hwf hS0 hp' hr'
          (by rw [hfl, hn0]) hfp hstep' (by rw [hfv]; exact hv) hS0v.min_nonneg
        obtain ⟨R', hR', hRL'⟩ := forall₂_getElem? hM' hS1
        obtain ⟨R2, hR2, hRA'⟩ := forall₂_getElem? hA' hS1
        rw [hR'] at hR2; cases hR2
        have hsl := sameLiquid_log S1 none
        have hS1good : C02.LabValid S1 ∧ CompValid S1 ∧ Mixed S1 :=
          ⟨C02.removeStep_valid S0 S1 i v (le_of_lt hv) hS0v hstep,
           (compValid_removeStep S0 S1 i v hS0c hstep).1,
           mixed_removeStep hS0m (le_of_lt hv) hS0v.min_nonneg hstep⟩
        obtain ⟨_, _, _, hlen0⟩ := wellOf_pos (geomOK_of_mem hI hwf hS0) hp' hr'
        refine ⟨i, S0, S1, st', _, rfl, rfl, hS0, hlen0, hstep, ?_, rfl, rfl, ?_, ?_, ?_, ?_, hnd, ?_⟩
        · simp [World.setLab]
        · simp only
          have hrecs : ((w.setLab src S1).setLab src (S1.log none)).recs = w.recs := rfl
          rw [run_append, hrecs, hrun, Option.bind_some]
          simp only [RState.run, hint, Option.bind_some]
        · exact match_set_right hM' src hR' (hsl.labMatch hRL')
        · exact amtOK_set_right hA' src hR' (hsl.labAmt hRA')
        · exact good_set (good_set hG src hS1good) src (hsl.good hS1good)
        · intro k; rw [htip k, hfv]

/-- The dispense half of a transfer pair: the destination well gains `v` with the carried composition,
    one `D;` record is appended, and the replay (whose tip holds `v ×` that composition) follows. -/
theorem disp1 {dev : Device} {labs₀ : List Labware} {I} (hwf : WFI I) (cfg : Cfg)
    (hdev : cfg.dev = dev) (D : Labware) (dst : Nat)
    (hId : ∃ n, I[dst]? = some (D.name, D.geom, n)) (d : String) (v : Rat) (kw : KW) (hv : 0 < v)
    (w : World) (hI : info w = I) (hG : Good w) (st : RState)
    (hrun : (RState.ofLabs labs₀).run dev w.recs = some st) (hM : Match st w) (hA : AmtOK st w)
    (hcnn : ∀ p ∈ w.carry, 0 ≤ p.2) (hctot : Mix.total w.carry = 1)
    (htip : ∀ k, Mix.csum st.tip k = v * compOf w.carry k)
    (hok : (w.exec (compileDispense cfg D dst (.scalar d) (.scalar v) none none kw true)).2 = none) :
    ∃ st' w', w.exec (compileDispense cfg D dst (.scalar d) (.scalar v) none none kw true) = (w', none)
      ∧ w'.cfg = w.cfg
      ∧ (RState.ofLabs labs₀).run dev w'.recs = some st' ∧ Match st' w' ∧ AmtOK st' w' ∧ Good w' := by
  rw [compileDispense_scalar cfg D dst d v kw hv] at hok ⊢
  obtain ⟨D0, hD0, hn0, hg0⟩ := lab_of_info hI hId
  obtain ⟨hD0v, hD0c, hD0m⟩ := good_get hG hD0
  cases hres : D.geom.resolveFlat d with
  | none =>
    exfalso
    have hm : w.micro (adMicro D dst ((d, v), .carry)) = .error .reject := by
      simp [adMicro, hres, World.micro]
    rw [List.cons_append, World.exec_cons_error _ hm] at hok
    cases hok
  | some j =>
    have had : adMicro D dst ((d, v), .carry) = Micro.ad dst j v .carry := by simp [adMicro, hres]
    rw [had] at hok ⊢
    cases hstep : D0.addStep j v (some w.carry) with
    | error e =>
      exfalso
      have hm : w.micro (.ad dst j v .carry) = .error e := by simp [World.micro, hD0, hstep]
      rw [List.cons_append, World.exec_cons_error _ hm] at hok
      cases hok
    | ok D1 =>
      have hm1 : w.micro (.ad dst j v .carry) = .ok (w.setLab dst D1) := by
        simp [World.micro, hD0, hstep]
      have hD1 : (w.setLab dst D1).labs[dst]? = some D1 := getElem?_setLab_self hD0
      have hm2 : (w.setLab dst D1).micro (.log dst none)
          = .ok ((w.setLab dst D1).setLab dst (D1.log none)) := by
        simp [World.micro, hD1]
      rw [List.cons_append, World.exec_cons_ok _ hm1, List.cons_append, World.exec_cons_ok _ hm2,
        List.nil_append, exec_exceptMicros_emit] at hok ⊢
      cases hout : adOut cfg D false kw (d, v) with
      | error e => rw [hout] at hok; cases hok
      | ok rs =>
        simp only [hout]
        obtain ⟨f, pos, hrs, hpos, hfl, hfp, hfv⟩ := adOut_ok hv hout
        simp only [Bool.false_eq_true, if_false] at hrs
        subst hrs
        have hp' : dev.pos D0.geom d = .ok pos := by rw [← hdev, hg0]; exact hpos
        have hr' : D0.geom.resolveFlat d = some j := by rw [hg0]; exact hres
        have hstep' : D0.addStep j f.vol (some w.carry) = .ok D1 := by rw [hfv]; exact hstep
        have hvol : 0 ≤ D0.vol j := vol_nonneg D0 j (fun x hx => (hD0v.range x hx).1)
        obtain ⟨_, _, _, hlenD⟩ := wellOf_pos (geomOK_of_mem hI hwf hD0) hp' hr'
        obtain ⟨st', hint, hM', hA'⟩ := interp_disp_amt hM hA hI hwf hD0 hp' hr'
          (by rw [hfl, hn0]) hfp hstep' hD0c (by rw [hfv]; exact le_of_lt hv) hvol
          (by intro k; rw [hfv]; exact htip k)
        obtain ⟨R', hR', hRL'⟩ := forall₂_getElem? hM' hD1
        obtain ⟨R2, hR2, hRA'⟩ := forall₂_getElem? hA' hD1
        rw [hR'] at hR2; cases hR2
        have hsl := sameLiquid_log D1 none
        have hD1good : C02.LabValid D1 ∧ CompValid D1 ∧ Mixed D1 :=
          ⟨C02.addStep_valid D0 D1 j v (some w.carry) (le_of_lt hv) hD0v hstep,
           addStep_compValid D0 D1 j v (some w.carry) hD0c (le_of_lt hv) hvol
             (by intro cB hcB; cases hcB; exact hcnn) hstep,
           mixed_addStep hD0m hD0c hlenD hv hvol hctot hcnn hstep⟩
        refine ⟨st', _, rfl, rfl, ?_, ?_, ?_, ?_⟩
        · simp only
          have hrecs : ((w.setLab dst D1).setLab dst (D1.log none)).recs = w.recs := rfl
          rw [run_append, hrecs, hrun, Option.bind_some]
          simp only [RState.run, hint, Option.bind_some]
        · exact match_set_right hM' dst hR' (hsl.labMatch hRL')
        · exact amtOK_set_right hA' dst hR' (hsl.labAmt hRA')
        · exact good_set (good_set hG dst hD1good) dst (hsl.good hD1good)

/-! ### Blocks that keep the replay's amounts in step with the tracked composition -/

/-- The records replay, and the replay mirrors the tracked volumes *and* component amounts. -/
def AInv (dev : Device) (labs₀ : List Labware) (w : World) : Prop :=
  ∃ st, (RState.ofLabs labs₀).run dev w.recs = some st ∧ Match st w ∧ AmtOK st w

/-- A micro-operation list which, when it runs to the end from a good state in which the replay mirrors
    volumes and amounts, ends in such a state again. -/
def ABlock (dev : Device) (labs₀ : List Labware) (I : List (String × Geom × Nat))
    (ms : List Micro) : Prop :=
  ∀ w, info w = I → Good w → AInv dev labs₀ w → (w.exec ms).2 = none →
    AInv dev labs₀ (w.exec ms).1 ∧ Good (w.exec ms).1

theorem exec_append_ok {w : World} {a b : List Micro} (h : (w.exec (a ++ b)).2 = none) :
    (w.exec a).2 = none ∧ (w.exec a).1.exec b = w.exec (a ++ b) := by
  rw [World.exec_append] at h ⊢
  cases hx : w.exec a with
  | mk w1 e1 =>
    rw [hx] at h
    cases e1 with
    | none => exact ⟨rfl, rfl⟩
    | some e => cases h

theorem ablock_nil {dev labs₀ I} : ABlock dev labs₀ I [] :=
  fun _ _ hG hinv _ => ⟨hinv, hG⟩

theorem ablock_append {dev labs₀ I a b} (ha : ABlock dev labs₀ I a) (hb : ABlock dev labs₀ I b) :
    ABlock dev labs₀ I (a ++ b) := by
  intro w hI hG hinv hok
  obtain ⟨h1, h2⟩ := exec_append_ok hok
  obtain ⟨hinv1, hG1⟩ := ha w hI hG hinv h1
  have hI1 : info (w.exec a).1 = I := by rw [info_exec, hI]
  rw [← h2] at hok ⊢
  exact hb _ hI1 hG1 hinv1 hok

theorem ablock_flatMap {α} {dev labs₀ I} (xs : List α) (f : α → List Micro)
    (h : ∀ x ∈ xs, ABlock dev labs₀ I (f x)) : ABlock dev labs₀ I (xs.flatMap f) := by
  induction xs with
  | nil => exact ablock_nil
  | cons x xs ih =>
    rw [List.flatMap_cons]
    exact ablock_append (h x List.mem_cons_self) (ih fun y hy => h y (List.mem_cons_of_mem _ hy))

/-- A neutral micro-operation changes at most the history of one labware (or the carry register). -/
theorem neutral_micro_labs {w w' : World} {m : Micro} (hm : Micro.neutral m = true)
    (hx : w.micro m = .ok w') :
    w'.labs = w.labs ∨ ∃ l L L', w.labs[l]? = some L ∧ w'.labs = w.labs.set l L' ∧ SameLiquid L L' := by
  cases m with
  | rm _ _ _ => simp [Micro.neutral] at hm
  | ad _ _ _ _ => simp [Micro.neutral] at hm
  | loadComp l i =>
    simp only [World.micro] at hx
    split at hx
    · cases hx
    · cases hx; exact Or.inl rfl
  | log l label =>
    simp only [World.micro] at hx
    split at hx
    · cases hx
    · rename_i L hL
      cases hx
      exact Or.inr ⟨l, L, _, hL, rfl, sameLiquid_log L label⟩
  | condense l n label =>
    simp only [World.micro] at hx
    split at hx
    · cases hx
    · rename_i L hL
      split at hx
      · rename_i L' hL'
        cases hx
        exact Or.inr ⟨l, L, L', hL, rfl, sameLiquid_condense hL'⟩
      · cases hx
  | emit r =>
    simp only [World.micro] at hx
    cases hx
    exact Or.inl rfl
  | setDiti i =>
    simp only [World.micro] at hx
    repeat' split at hx
    all_goals first
      | (injection hx with hx; subst hx; exact Or.inl rfl)
      | (injection hx)
  | fail e => simp [World.micro] at hx

theorem ablock_neutral {dev labs₀ I} (m : Micro) (hm : Micro.neutral m = true) :
    ABlock dev labs₀ I [m] := by
  intro w _ hG hinv hok
  obtain ⟨st, hrun, hM, hA⟩ := hinv
  cases hx : w.micro m with
  | error e =>
    rw [World.exec_cons_error _ hx] at hok
    cases hok
  | ok w' =>
    rw [World.exec_cons_ok _ hx, World.exec_nil]
    obtain ⟨nrecs, hn, hrecs, hMatch⟩ := neutral_micro hm hx
    have hrun' : (RState.ofLabs labs₀).run dev w'.recs = some st := by
      rw [hrecs, run_append, hrun, Option.bind_some]
      exact run_neutral dev st nrecs hn
    rcases neutral_micro_labs hm hx with hl | ⟨l, L, L', hL, hl, hsl⟩
    · refine ⟨⟨st, hrun', hMatch st hM, ?_⟩, ?_⟩
      · unfold AmtOK; rw [hl]; exact hA
      · intro L hL; rw [hl] at hL; exact hG L hL
    · refine ⟨⟨st, hrun', hMatch st hM, ?_⟩, ?_⟩
      · obtain ⟨R, hR, hRA⟩ := forall₂_getElem? hA hL
        unfold AmtOK; rw [hl]
        exact forall₂_set_right hA l hR (hsl.labAmt hRA)
      · intro L2 hL2
        rw [hl] at hL2
        rcases List.mem_or_eq_of_mem_set hL2 with h' | h'
        · exact hG L2 h'
        · subst h'; exact hsl.good (good_get hG hL)

theorem ablock_all_neutral {dev labs₀ I} (ms : List Micro)
    (h : ∀ m ∈ ms, Micro.neutral m = true) : ABlock dev labs₀ I ms := by
  induction ms with
  | nil => exact ablock_nil
  | cons m ms ih =>
    have : m :: ms = [m] ++ ms := rfl
    rw [this]
    exact ablock_append (ablock_neutral m (h m List.mem_cons_self))
      (ih fun m' hm' => h m' (List.mem_cons_of_mem _ hm'))

/-- One pair of a transfer plan (aspirate `v` from `s`, read the source's composition, dispense `v` into
    `d` with that composition) keeps volumes *and* amounts of the replay in step with the tracking. -/
theorem ablock_pair {dev : Device} {labs₀ : List Labware} {I} (hwf : WFI I) (cfg : Cfg)
    (hdev : cfg.dev = dev) (S : Labware) (src : Nat)
    (hIs : ∃ n, I[src]? = some (S.name, S.geom, n)) (D : Labware) (dst : Nat)
    (hId : ∃ n, I[dst]? = some (D.name, D.geom, n)) (s d : String) (v : Rat) (kw : KW)
    (hv : 0 < v) :
    ABlock dev labs₀ I
      (compileAspirate cfg S src (.scalar s) (.scalar v) none kw
        ++ exceptMicros (match S.geom.resolveFlat s with
                          | some i => Except.ok i | none => Except.error Err.reject)
             (fun i => [Micro.loadComp src i])
        ++ compileDispense cfg D dst (.scalar d) (.scalar v) none none kw true) := by
  intro w hI hG hinv hok
  obtain ⟨st, hrun, hM, hA⟩ := hinv
  rw [List.append_assoc] at hok ⊢
  obtain ⟨h1, h2⟩ := exec_append_ok hok
  obtain ⟨i, S0, S1, st1, w1, hx1, hres, hS0, hi0, hstep, hlabs1, hcarry1, _, hrun1, hM1, hA1, hG1, hnd, htip⟩ :=
    asp1 hwf cfg hdev S src hIs s v kw hv w hI hG st hrun hM hA h1
  rw [← h2] at hok ⊢
  rw [hx1] at hok ⊢
  simp only at hok ⊢
  have hI1 : info w1 = I := by
    have := info_exec w (compileAspirate cfg S src (.scalar s) (.scalar v) none kw)
    rw [hx1] at this; rw [this, hI]
  have hsrc1 : w1.labs[src]? = some (S1.log none) := by
    rw [hlabs1]
    exact List.getElem?_set_self (List.getElem?_eq_some_iff.1 hS0).1
  -- the composition register
  have hm : w1.micro (.loadComp src i) = .ok { w1 with carry := S1.wellComp i } := by
    simp only [World.micro, hsrc1]
    rfl
  obtain ⟨h3, h4⟩ := exec_append_ok hok
  rw [← h4] at hok ⊢
  simp only [hres, exceptMicros] at hok ⊢
  rw [World.exec_cons_ok _ hm, World.exec_nil] at hok ⊢
  simp only at hok ⊢
  obtain ⟨hS0v, hS0c, hS0m⟩ := good_get hG hS0
  have hS1c : CompValid S1 := (compValid_removeStep S0 S1 i v hS0c hstep).1
  have htot : Mix.total (S1.wellComp i) = 1 := by
    rw [Mix.wellComp_eq, Mix.total_wc _ _ hS1c.nonneg, (Labware.removeStep_fields hstep).2.2.2.2.2.2.2,
      ← fracSum_eq]
    rcases hS0m i hi0 with h1 | ⟨_, h0⟩
    · exact h1
    · exfalso
      have hge := (Labware.removeStep_fields hstep).1
      rw [h0] at hge
      have := hS0v.min_nonneg
      apply hge; linarith
  have hfrac : ∀ k, compOf (S1.wellComp i) k = S0.frac i k := by
    intro k
    rw [(wellComp_spec S1 i hS1c k).1, (removeStep_frac S0 S1 i v hstep).2 i k]
  obtain ⟨st2, w2, hx2, _, hrun2, hM2, hA2, hG2⟩ :=
    disp1 hwf cfg hdev D dst hId d v kw hv { w1 with carry := S1.wellComp i } hI1 hG1 st1 hrun1 hM1 hA1
      (fun p hp => le_of_lt (Mix.wc_pos _ _ p hp)) htot
      (fun k => by
        rw [csum_eq_amtOf _ _ hnd, htip k]
        show v * S0.frac i k = v * compOf (S1.wellComp i) k
        rw [hfrac k])
      hok
  rw [hx2]
  exact ⟨⟨st2, hrun2, hM2, hA2⟩, hG2⟩

/-! ### A whole transfer -/

theorem pair_pos_transferPlan (autoSplit : Bool) (M : Rat) (byDest : Bool) (ts : List Triple)
    (s d : String) (v : Rat) (h : PlanStep.pair s d v ∈ transferPlan autoSplit M byDest ts) :
    0 < v := by
  unfold transferPlan at h
  rw [List.mem_flatMap] at h
  obtain ⟨g, _, hg⟩ := h
  obtain ⟨_, _, _, _, hpos, _, _⟩ := mem_groupPlan_pair hg
  exact hpos

theorem ablock_fail {dev labs₀ I} (e : Err) : ABlock dev labs₀ I [.fail e] :=
  ablock_all_neutral _ (by intro m hm; simp only [List.mem_singleton] at hm; subst hm; rfl)

theorem ablock_compileTransfer {dev : Device} {labs₀ : List Labware} {I} (hwf : WFI I) (cfg : Cfg)
    (hdev : cfg.dev = dev) (S : Labware) (src : Nat) (hIs : ∃ n, I[src]? = some (S.name, S.geom, n))
    (D : Labware) (dst : Nat) (hId : ∃ n, I[dst]? = some (D.name, D.geom, n))
    (srcWells dstWells : Arr String) (vols : Arr Rat) (label : Option String) (wash : WashArg)
    (partitionBy : String) (kw : KW) :
    ABlock dev labs₀ I
      (compileTransfer cfg S src srcWells D dst dstWells vols label wash partitionBy kw) := by
  unfold compileTransfer
  split
  · exact ablock_fail _
  · simp only
    split
    · exact ablock_fail _
    · split
      · exact ablock_fail _
      · split
        · exact ablock_fail _
        · rename_i byDest _
          rw [List.append_assoc]
          apply ablock_append (ablock_all_neutral _ (commentMicros_neutral label))
          apply ablock_append
          · apply ablock_flatMap
            intro stp hstp
            cases stp with
            | pair s d v =>
              simp only
              exact ablock_pair hwf cfg hdev S src hIs D dst hId s d v kw
                (pair_pos_transferPlan _ _ _ _ s d v hstp)
            | action => exact ablock_all_neutral _ (actionMicros_neutral cfg wash)
            | brk =>
              exact ablock_all_neutral _ (by
                intro m hm; simp only [List.mem_singleton] at hm; subst hm; rfl)
          · apply ablock_all_neutral
            intro m hm
            split at hm
            · simp only [List.mem_singleton] at hm; subst hm; rfl
            · simp only [List.mem_cons, List.not_mem_nil, or_false] at hm
              rcases hm with rfl | rfl <;> rfl

/-- Operations whose liquid is *traceable*: every dispensed liquid was aspirated by the same operation
    from a tracked well (`transfer`), or no liquid is moved at all (record-only operations, history
    condensation).  A stand-alone `dispense` delivers whatever the caller says it does, a stand-alone
    `aspirate` has no destination; `distribute` is one `R;` record (see DESIGN.md, C01). -/
def traceable : Op → Bool
  | .transfer .. => true
  | .comment _ | .wash _ | .decontaminate | .flush | .commit | .setDiti _ | .condenseLog .. => true
  | .evoWash _ => true
  | _ => false

theorem compile_ablock {labs₀ : List Labware} (w : World) (hwf : WFI (info w)) (op : Op)
    (hop : traceable op = true) : ABlock w.cfg.dev labs₀ (info w) (compile w op) := by
  cases op with
  | transfer s sw d dw vols label wash pb kw =>
    simp only [compile]
    cases hS : w.labs[s]? with
    | none => exact ablock_fail _
    | some S =>
      cases hD : w.labs[d]? with
      | none => exact ablock_fail _
      | some D =>
        exact ablock_compileTransfer hwf w.cfg rfl S s (info_getElem hS) D d (info_getElem hD) _ _ _ _ _ _ _
  | comment c => exact ablock_all_neutral _ (commentMicros_neutral c)
  | wash n => exact ablock_all_neutral _ (washMicros_neutral w.cfg n)
  | decontaminate =>
    simp only [compile]
    split
    · exact ablock_fail _
    · exact ablock_all_neutral _ (by intro m hm; simp only [List.mem_singleton] at hm; subst hm; rfl)
  | flush => exact ablock_all_neutral _ (by intro m hm; simp only [compile, List.mem_singleton] at hm; subst hm; rfl)
  | commit => exact ablock_all_neutral _ (by intro m hm; simp only [compile, List.mem_singleton] at hm; subst hm; rfl)
  | setDiti i => exact ablock_all_neutral _ (by intro m hm; simp only [compile, List.mem_singleton] at hm; subst hm; rfl)
  | condenseLog l n label =>
    exact ablock_all_neutral _ (by intro m hm; simp only [compile, List.mem_singleton] at hm; subst hm; rfl)
  | evoWash a =>
    simp only [compile]
    split
    · exact ablock_fail _
    · cases evoWash a with
      | error e => exact ablock_fail _
      | ok f =>
        exact ablock_all_neutral _ (by
          intro m hm; simp only [exceptMicros, List.mem_singleton] at hm; subst hm; rfl)
  | _ => simp [traceable] at hop

/-! ### The initial state -/

theorem amtOf_map_comp (comp : List (String × List Rat)) (i : Nat) (x : Rat) (k : String) :
    amtOf (comp.map fun p => (p.1, p.2.getD i 0 * x)) k = Mix.fracC comp i k * x := by
  induction comp with
  | nil => simp [amtOf_nil, Mix.fracC, List.lookup]
  | cons p rest ih =>
    obtain ⟨a, arr⟩ := p
    rw [List.map_cons, amtOf_cons, ih, Mix.fracC_cons]
    by_cases h : k = a
    · subst h; simp
    · have : ¬ a = k := fun e => h e.symm
      simp [h, this]

theorem labAmt_ofLabs (L : Labware) (hL : CompValid L) :
    LabAmt { name := L.name, geom := L.geom, minV := L.minV, maxV := L.maxV,
             wells := (List.range L.vols.length).map fun i =>
               { vol := L.vol i, amts := L.comp.map fun (k, arr) => (k, arr.getD i 0 * L.vol i) } } L := by
  intro i wl hw
  simp only [List.getElem?_map, List.getElem?_range] at hw
  by_cases hi : i < L.vols.length
  · simp only [List.getElem?_range hi, Option.map_some, Option.some.injEq] at hw
    subst hw
    refine ⟨?_, fun k => ?_⟩
    · simp only [List.map_map]
      exact hL.keys_nodup
    · simp only
      rw [show (L.comp.map fun (x : String × List Rat) => (x.1, x.2.getD i 0 * L.vol i))
            = (L.comp.map fun p => (p.1, p.2.getD i 0 * L.vol i)) from rfl, amtOf_map_comp]
      rfl
  · rw [List.getElem?_eq_none (by simpa using Nat.le_of_not_lt hi)] at hw
    simp at hw

theorem amtOK_ofLabs (w : World) (hG : Good w) : AmtOK (RState.ofLabs w.labs) w := by
  unfold AmtOK RState.ofLabs
  simp only
  have : ∀ labs : List Labware, (∀ L ∈ labs, CompValid L) →
      List.Forall₂ LabAmt (labs.map fun L =>
        ({ name := L.name, geom := L.geom, minV := L.minV, maxV := L.maxV,
           wells := (List.range L.vols.length).map fun i =>
             { vol := L.vol i, amts := L.comp.map fun (k, arr) => (k, arr.getD i 0 * L.vol i) } } : RLab)) labs := by
    intro labs
    induction labs with
    | nil => intro _; exact List.Forall₂.nil
    | cons L Ls ih =>
      intro h
      exact List.Forall₂.cons (labAmt_ofLabs L (h L List.mem_cons_self))
        (ih fun L' hL' => h L' (List.mem_cons_of_mem _ hL'))
  exact this w.labs fun L hL => (hG L hL).2.1

end Amt
end Robotools
