/-
  Robotools.Proofs.AmtLemmas — the replay interpreter's absolute component amounts versus the
  tracked fractions (composition clause of C01).

  Part 1: algebra of `Amounts` (`amtOf`, `amtAdd`, `amtScale`, `amtMerge`).
  Part 2: one replay labware against one tracked labware: `LabAmt R L` says that every well of the
  replay holds, component by component, exactly `fraction × volume` of the tracked well;
  `take` mirrors `removeStep`, `put` (with the aspirated liquid) mirrors `addStep` with the source's
  composition.
-/
import Robotools.Proofs.ReplayLemmas
import Robotools.Props.C05
import Mathlib.Tactic.Ring
import Mathlib.Tactic.Linarith
import Mathlib.Tactic.FieldSimp
namespace Robotools
namespace Amt
open RP C05

/-! ### Algebra of amounts -/

theorem amtOf_nil (k : String) : amtOf [] k = 0 := rfl

theorem amtOf_cons (a : String) (x : Rat) (rest : Amounts) (k : String) :
    amtOf ((a, x) :: rest) k = if k = a then x else amtOf rest k := by
  unfold amtOf
  by_cases h : k = a
  · subst h; simp [List.lookup]
  · have : (k == a) = false := by simpa using h
    simp [List.lookup, this, h]

theorem amtOf_amtAdd (a : Amounts) (k : String) (x : Rat) (k' : String) :
    amtOf (amtAdd a k x) k' = amtOf a k' + (if k' = k then x else 0) := by
  induction a with
  | nil =>
    simp only [amtAdd, amtOf_cons, amtOf_nil]
    split <;> ring
  | cons p rest ih =>
    obtain ⟨b, y⟩ := p
    simp only [amtAdd]
    by_cases hb : b = k
    · subst hb
      rw [if_pos rfl, amtOf_cons, amtOf_cons]
      by_cases hk : k' = b
      · simp [hk]
      · simp [hk]
    · rw [if_neg hb, amtOf_cons, amtOf_cons, ih]
      by_cases hk : k' = b
      · have : ¬ k' = k := fun e => hb (hk ▸ e)
        simp [hk]
        intro e; exact absurd e hb
      · simp [hk]

theorem amtOf_amtScale (a : Amounts) (f : Rat) (k : String) :
    amtOf (amtScale a f) k = amtOf a k * f := by
  induction a with
  | nil => simp [amtScale, amtOf_nil]
  | cons p rest ih =>
    obtain ⟨b, y⟩ := p
    have : amtScale ((b, y) :: rest) f = (b, y * f) :: amtScale rest f := rfl
    rw [this, amtOf_cons, amtOf_cons, ih]
    split <;> rfl

theorem keys_amtScale (a : Amounts) (f : Rat) : (amtScale a f).map (·.1) = a.map (·.1) := by
  unfold amtScale
  rw [List.map_map]
  rfl

theorem mem_keys_amtAdd (a : Amounts) (k : String) (x : Rat) (k' : String) :
    k' ∈ (amtAdd a k x).map (·.1) ↔ k' ∈ a.map (·.1) ∨ k' = k := by
  induction a with
  | nil => simp [amtAdd]
  | cons p rest ih =>
    obtain ⟨b, y⟩ := p
    simp only [amtAdd]
    by_cases hb : b = k
    · subst hb
      simp only [if_true, List.map_cons, List.mem_cons]
      constructor
      · intro h; rcases h with h | h
        · exact Or.inl (Or.inl h)
        · exact Or.inl (Or.inr h)
      · intro h; rcases h with (h | h) | h
        · exact Or.inl h
        · exact Or.inr h
        · exact Or.inl h
    · simp only [if_neg hb, List.map_cons, List.mem_cons, ih]
      constructor
      · intro h; rcases h with h | h | h
        · exact Or.inl (Or.inl h)
        · exact Or.inl (Or.inr h)
        · exact Or.inr h
      · intro h; rcases h with (h | h) | h
        · exact Or.inl h
        · exact Or.inr (Or.inl h)
        · exact Or.inr (Or.inr h)

theorem nodup_keys_amtAdd (a : Amounts) (k : String) (x : Rat) (h : (a.map (·.1)).Nodup) :
    ((amtAdd a k x).map (·.1)).Nodup := by
  induction a with
  | nil => simp [amtAdd]
  | cons p rest ih =>
    obtain ⟨b, y⟩ := p
    simp only [List.map_cons, List.nodup_cons] at h
    simp only [amtAdd]
    by_cases hb : b = k
    · simp only [if_pos hb, List.map_cons, List.nodup_cons]
      exact h
    · simp only [if_neg hb, List.map_cons, List.nodup_cons]
      refine ⟨?_, ih h.2⟩
      intro hmem
      rw [mem_keys_amtAdd] at hmem
      rcases hmem with hm | hm
      · exact h.1 hm
      · exact hb hm

theorem amtMerge_cons (a : Amounts) (k : String) (x : Rat) (b : Amounts) :
    amtMerge a ((k, x) :: b) = amtMerge (amtAdd a k x) b := rfl

theorem amtOf_amtMerge (a b : Amounts) (k : String) :
    amtOf (amtMerge a b) k = amtOf a k + Mix.csum b k := by
  induction b generalizing a with
  | nil => simp [amtMerge]
  | cons p rest ih =>
    obtain ⟨c, x⟩ := p
    rw [amtMerge_cons, ih, amtOf_amtAdd, Mix.csum_cons]
    by_cases h : k = c
    · subst h; simp; ring
    · have : ¬ c = k := fun e => h e.symm
      simp [h, this]

theorem nodup_keys_amtMerge (a b : Amounts) (h : (a.map (·.1)).Nodup) :
    ((amtMerge a b).map (·.1)).Nodup := by
  induction b generalizing a with
  | nil => simpa [amtMerge] using h
  | cons p rest ih =>
    obtain ⟨c, x⟩ := p
    rw [amtMerge_cons]
    exact ih _ (nodup_keys_amtAdd a c x h)

theorem csum_eq_amtOf (b : Amounts) (k : String) (h : (b.map (·.1)).Nodup) :
    Mix.csum b k = amtOf b k := by
  induction b with
  | nil => rfl
  | cons p rest ih =>
    obtain ⟨c, x⟩ := p
    simp only [List.map_cons, List.nodup_cons] at h
    rw [Mix.csum_cons, amtOf_cons, ih h.2]
    by_cases hk : k = c
    · subst hk
      have : amtOf rest k = 0 := by
        rw [← ih h.2]; exact Mix.csum_eq_zero _ _ h.1
      simp [this]
    · have : ¬ c = k := fun e => hk e.symm
      simp [hk, this]

/-! ### One replay labware against one tracked labware -/

/-- Well `i` of the replay holds exactly `fraction × volume` of every component of the tracked well. -/
structure WellAmt (wl : RWell) (L : Labware) (i : Nat) : Prop where
  nodup : (wl.amts.map (·.1)).Nodup
  amt : ∀ k, amtOf wl.amts k = amount L i k

def LabAmt (R : RLab) (L : Labware) : Prop :=
  ∀ i wl, R.wells[i]? = some wl → WellAmt wl L i

/-- `amount` depends on the volumes and the composition table only. -/
theorem amount_congr {L L' : Labware} (hv : L'.vols = L.vols) (hc : L'.comp = L.comp) (i : Nat)
    (k : String) : amount L' i k = amount L i k := by
  unfold amount Labware.frac Labware.vol
  rw [hv, hc]

theorem labAmt_congr {R : RLab} {L L' : Labware} (h : LabAmt R L) (hv : L'.vols = L.vols)
    (hc : L'.comp = L.comp) : LabAmt R L' := by
  intro i wl hw
  exact ⟨(h i wl hw).nodup, fun k => by rw [(h i wl hw).amt k, amount_congr hv hc]⟩

theorem vol_set_self (L : Labware) (i : Nat) (x : Rat) (hi : i < L.vols.length) :
    (L.vols.set i x).getD i 0 = x := getD_set_self _ _ _ _ hi

/-- An accepted `removeStep` of a positive volume: the replay's `take` is accepted, leaves the well with
    `fraction × (volume − v)` of every component and hands over `v × fraction`. -/
theorem take_amt {R : RLab} {L L' : Labware} {i : Nat} {v : Rat} (hm : LabMatch R L)
    (ha : LabAmt R L) (hi : i < L.vols.length) (hstep : L.removeStep i v = .ok L') (hv : 0 < v)
    (hmin : 0 ≤ L.minV) :
    ∃ R' out, R.take i v = some (R', out) ∧ LabMatch R' L' ∧ LabAmt R' L'
      ∧ (out.map (·.1)).Nodup ∧ ∀ k, amtOf out k = v * L.frac i k := by
  obtain ⟨hge, hvols, hmin', hmax', hname, hgeom, _, hcomp⟩ := Labware.removeStep_fields hstep
  have hlen := hm.length
  have hiR : i < R.wells.length := by omega
  have hw : R.wells[i]? = some R.wells[i] := List.getElem?_eq_getElem hiR
  have hvw := hm.vol_eq hw
  have hwa := ha i _ hw
  have hv0 : L.vol i ≠ 0 := by
    intro e; apply hge; rw [e]; linarith
  unfold RLab.take
  rw [hw]
  simp only
  rw [hm.minV, hvw, if_neg hge, if_neg hv0]
  refine ⟨_, _, rfl, ?_, ?_, ?_, ?_⟩
  · refine ⟨by simp [hm.name, hname], by simp [hm.geom, hgeom], by simp [hm.minV, hmin'],
      by simp [hm.maxV, hmax'], ?_⟩
    simp only
    rw [hvols, ← hm.vols, List.map_set]
  · intro j wl hj
    simp only at hj
    by_cases hji : j = i
    · subst hji
      rw [List.getElem?_set_self hiR] at hj
      cases hj
      refine ⟨by simp only; rw [keys_amtScale]; exact hwa.nodup, fun k => ?_⟩
      simp only
      rw [amtOf_amtScale, hwa.amt k, removeStep_amount L L' j v hi hstep k]
      unfold amount
      field_simp
    · rw [List.getElem?_set_ne (fun e => hji e.symm)] at hj
      have hwj := ha j wl hj
      refine ⟨hwj.nodup, fun k => ?_⟩
      rw [hwj.amt k]
      unfold amount
      rw [(removeStep_frac L L' i v hstep).2 j k]
      congr 1
      unfold Labware.vol
      rw [hvols, getD_set_ne _ _ _ _ _ hji]
  · rw [keys_amtScale]; exact hwa.nodup
  · intro k
    rw [amtOf_amtScale, hwa.amt k]
    unfold amount
    field_simp

/-- An accepted `addStep` with composition `c`: the replay's `put` of amounts `a = v × c` is accepted and
    leaves the well with `fraction × volume` of every component again. -/
theorem put_amt {R : RLab} {L L' : Labware} {j : Nat} {v : Rat} {c : Comp} {a : Amounts}
    (hm : LabMatch R L) (ha : LabAmt R L) (hj : j < L.vols.length)
    (hstep : L.addStep j v (some c) = .ok L') (hL : CompValid L) (hv : 0 ≤ v) (hvol : 0 ≤ L.vol j)
    (hamt : ∀ k, Mix.csum a k = v * compOf c k) :
    ∃ R', R.put j v a = some R' ∧ LabMatch R' L' ∧ LabAmt R' L' := by
  obtain ⟨hge, hvols, hmin', hmax', hname, hgeom, _⟩ := Labware.addStep_fields hstep
  obtain ⟨hamount, hfrac⟩ := addStep_amount L L' j v c hL hj hv hvol hstep
  have hlen := hm.length
  have hjR : j < R.wells.length := by omega
  have hw : R.wells[j]? = some R.wells[j] := List.getElem?_eq_getElem hjR
  have hvw := hm.vol_eq hw
  have hwa := ha j _ hw
  unfold RLab.put
  rw [hw]
  simp only
  rw [hm.maxV, hvw, if_neg hge]
  refine ⟨_, rfl, ?_, ?_⟩
  · refine ⟨by simp [hm.name, hname], by simp [hm.geom, hgeom], by simp [hm.minV, hmin'],
      by simp [hm.maxV, hmax'], ?_⟩
    simp only
    rw [hvols, ← hm.vols, List.map_set]
  · intro i wl hi
    simp only at hi
    by_cases hij : i = j
    · subst hij
      rw [List.getElem?_set_self hjR] at hi
      cases hi
      refine ⟨nodup_keys_amtMerge _ _ hwa.nodup, fun k => ?_⟩
      simp only
      rw [amtOf_amtMerge, hwa.amt k, hamt k, hamount k]
    · rw [List.getElem?_set_ne (fun e => hij e.symm)] at hi
      have hwi := ha i wl hi
      refine ⟨hwi.nodup, fun k => ?_⟩
      rw [hwi.amt k]
      unfold amount
      rw [hfrac i k hij]
      congr 1
      unfold Labware.vol
      rw [hvols, getD_set_ne _ _ _ _ _ hij]

end Amt
end Robotools
