/-
  Helper lemmas for C20: inversion of the constructors `Labware.mk?` / `Trough.mk?`,
  the loop of `initialComposition`, lengths of the well tables.
-/
import Robotools.Proofs.ExecLemmas
import Robotools.Proofs.MixLemmas
import Robotools.Proofs.GeometryLemmas
namespace Robotools

/-! ### Lengths of the ID tables -/

theorem sum_map_const_nat {α} (l : List α) (c : Nat) : (l.map fun _ => c).sum = l.length * c := by
  induction l with
  | nil => simp
  | cons a t ih => simp only [List.map_cons, List.sum_cons, ih, List.length_cons]; rw [Nat.succ_mul]; omega

theorem Geom.table_length (g : Geom) : g.table.length = g.nRowIds * g.cols := by
  simp [Geom.table, List.length_flatMap]

theorem Geom.wells_length (g : Geom) : g.wells.length = g.nRowIds * g.cols := by
  simp [Geom.wells, List.length_flatMap]

/-! ### The loop of `initialComposition` -/

/-- Invariant of the loop: wells `< i` are done, wells `≥ i` are still all-zero. -/
structure GoInv (init : List Rat) (n : Nat) (acc : List (String × List Rat)) (i : Nat) : Prop where
  nodup : (acc.map (·.1)).Nodup
  lens : ∀ p ∈ acc, p.2.length = n
  zero : ∀ j, j < i → init.getD j 0 = 0 → ∀ k, Mix.fracC acc j k = 0
  one : ∀ j, j < i → init.getD j 0 ≠ 0 →
    ∃ k, Mix.fracC acc j k = 1 ∧ ∀ k', k' ≠ k → Mix.fracC acc j k' = 0
  rest : ∀ j, i ≤ j → ∀ k, Mix.fracC acc j k = 0

theorem GoInv.nil (init : List Rat) (n : Nat) : GoInv init n [] 0 :=
  ⟨by simp, by simp, fun _ _ _ _ => rfl, fun j hj => absurd hj (Nat.not_lt_zero j), fun _ _ _ => rfl⟩

theorem GoInv.skip {init : List Rat} {n : Nat} {acc : List (String × List Rat)} {i : Nat}
    (H : GoInv init n acc i) (h0 : init.getD i 0 = 0) : GoInv init n acc (i + 1) := by
  refine ⟨H.nodup, H.lens, ?_, ?_, fun j hj k => H.rest j (by omega) k⟩
  · intro j hj hz k
    by_cases hji : j < i
    · exact H.zero j hji hz k
    · exact H.rest j (by omega) k
  · intro j hj hz
    by_cases hji : j < i
    · exact H.one j hji hz
    · have : j = i := by omega
      subst this
      exact absurd h0 hz

theorem GoInv.set {init : List Rat} {n : Nat} {acc : List (String × List Rat)} {i : Nat}
    (H : GoInv init n acc i) (hi : i < n) (h0 : init.getD i 0 ≠ 0) (cname : String) :
    GoInv init n (Labware.setFrac acc n cname i 1) (i + 1) := by
  have hf := Mix.fracC_setFrac acc n cname i 1 H.lens hi
  refine ⟨Mix.nodup_keys_setFrac _ _ _ _ _ H.nodup, Mix.lens_setFrac _ _ _ _ _ H.lens, ?_, ?_, ?_⟩
  · intro j hj hz k
    have hji : j ≠ i := by
      intro e; subst e; exact h0 hz
    rw [hf, if_neg (fun h => hji h.1)]
    exact H.zero j (by omega) hz k
  · intro j hj hz
    by_cases hji : j = i
    · subst hji
      refine ⟨cname, ?_, ?_⟩
      · rw [hf, if_pos ⟨rfl, rfl⟩]
      · intro k' hk'
        rw [hf, if_neg (fun h => hk' h.2)]
        exact H.rest j (Nat.le_refl j) k'
    · obtain ⟨k, hk1, hk2⟩ := H.one j (by omega) hz
      refine ⟨k, ?_, ?_⟩
      · rw [hf, if_neg (fun h => hji h.1)]; exact hk1
      · intro k' hk'
        rw [hf, if_neg (fun h => hji h.1)]; exact hk2 k' hk'
  · intro j hj k
    rw [hf, if_neg (fun h => by omega)]
    exact H.rest j (by omega) k

theorem initialComposition_go_spec (name : String) (nr : Nat) (names : List (String × Option String))
    (init : List Rat) (n : Nat) (ws : List String) (i : Nat) (acc res : List (String × List Rat))
    (h : initialComposition.go name nr names init n ws i acc = .ok res)
    (hin : i + ws.length ≤ n) (H : GoInv init n acc i) : GoInv init n res (i + ws.length) := by
  induction ws generalizing i acc with
  | nil =>
    simp only [initialComposition.go, pure, Except.pure] at h
    cases h
    simpa using H
  | cons w rest ih =>
    simp only [List.length_cons] at hin ⊢
    rw [initialComposition.go] at h
    simp only at h
    split at h
    · rename_i h0
      split at h
      · cases h
      · have := ih (i + 1) acc h (by omega) (H.skip h0)
        rwa [show i + (rest.length + 1) = i + 1 + rest.length by omega]
    · rename_i h0
      have := ih (i + 1) _ h (by omega) (H.set (by omega) h0 _)
      rwa [show i + (rest.length + 1) = i + 1 + rest.length by omega]

theorem initialComposition_go_error (name : String) (nr : Nat) (names : List (String × Option String))
    (init : List Rat) (n : Nat) (ws : List String) (i : Nat) (acc : List (String × List Rat)) (e : Err)
    (h : initialComposition.go name nr names init n ws i acc = .error e) : e = .valueErr := by
  induction ws generalizing i acc with
  | nil =>
    simp only [initialComposition.go, pure, Except.pure] at h
    cases h
  | cons w rest ih =>
    rw [initialComposition.go] at h
    simp only at h
    split at h
    · split at h
      · cases h; rfl
      · exact ih _ _ h
    · exact ih _ _ h

theorem initialComposition_error (name : String) (nr : Nat) (wells : List String)
    (names : List (String × Option String)) (init : List Rat) (e : Err)
    (h : initialComposition name nr wells names init = .error e) : e = .valueErr := by
  simp only [initialComposition, bind, Except.bind, throw, throwThe,
    MonadExceptOf.throw] at h
  split at h
  · cases h; rfl
  · exact initialComposition_go_error _ _ _ _ _ _ _ _ _ h

theorem initialComposition_spec (name : String) (nr : Nat) (wells : List String)
    (names : List (String × Option String)) (init : List Rat) (comp : List (String × List Rat))
    (h : initialComposition name nr wells names init = .ok comp) :
    GoInv init wells.length comp wells.length := by
  simp only [initialComposition, bind, Except.bind, throw, throwThe,
    MonadExceptOf.throw] at h
  split at h
  · cases h
  · have := initialComposition_go_spec _ _ _ _ _ _ _ _ _ h (by omega) (GoInv.nil init wells.length)
    simpa using this

/-! ### Inversion of the constructors -/

def flatOf (init : Option (Arr InitVal)) (n : Nat) : List InitVal :=
  match init with
  | none => List.replicate n (some 0)
  | some (.scalar a) => List.replicate n a
  | some a => a.flattenC

def realWellsOf (g : Geom) : List String :=
  if g.vrows.isSome then (List.range g.cols).map (wellId 0) else g.wells

def mkCore (s : PlateSpec) (rows cols : Nat) (vrows : Option Nat) : Except Err Labware := do
  if 26 < rows then throw .valueErr
  let flat : List InitVal := flatOf s.init (rows * cols)
  if flat.length ≠ rows * cols then throw .valueErr
  if flat.any (fun x => match x with | none => true | some q => q < 0) then throw .valueErr
  let init : List Rat := flat.map (·.getD 0)
  if init.any (fun q => s.maxV < q) then throw .valueErr
  let g : Geom := { rows := rows, cols := cols, vrows := vrows }
  let comp ← initialComposition s.name rows (realWellsOf g) s.names init
  pure { name := s.name, geom := g, minV := s.minV, maxV := s.maxV, vols := init, comp := comp,
         hist := [(some "initial", init)] }

def mkAlt (s : PlateSpec) : Except Err Labware := do
  let rows ← match s.rows with | .int n => (if n < 1 then throw Err.valueErr else pure n.toNat) | .other => throw .valueErr
  let cols ← match s.cols with | .int n => (if n < 1 then throw Err.valueErr else pure n.toNat) | .other => throw .valueErr
  if s.minV < 0 then throw .valueErr
  if s.maxV ≤ s.minV then throw .valueErr
  let vrows : Option Nat ← match s.vrows with
    | none => pure none
    | some v =>
      if rows ≠ 1 then throw .valueErr
      match v with
      | .int n => if n < 1 ∨ 26 < n then throw Err.valueErr else pure (some n.toNat)
      | .other => throw .valueErr
  mkCore s rows cols vrows

theorem mk?_eq (s : PlateSpec) : Labware.mk? s = mkAlt s := rfl


theorem size_inv {n : Int} {rows : Nat}
    (h : (if n < 1 then Except.error Err.valueErr else Except.ok n.toNat : Except Err Nat) = Except.ok rows) :
    n = (rows : Int) ∧ 1 ≤ rows := by
  split at h
  · cases h
  · cases h
    omega

structure CoreInv (s : PlateSpec) (L : Labware) : Prop where
  rows_le : L.geom.rows ≤ 26
  flat_len : (flatOf s.init (L.geom.rows * L.geom.cols)).length = L.geom.rows * L.geom.cols
  flat_nonneg : ¬ ((flatOf s.init (L.geom.rows * L.geom.cols)).any
      fun x => match x with | none => true | some q => decide (q < 0)) = true
  vols_le : ¬ (L.vols.any fun q => decide (s.maxV < q)) = true
  vols_eq : L.vols = (flatOf s.init (L.geom.rows * L.geom.cols)).map (fun x => Option.getD x 0)
  comp_eq : initialComposition s.name L.geom.rows (realWellsOf L.geom) s.names L.vols = .ok L.comp
  hist_eq : L.hist = [(some "initial", L.vols)]
  name_eq : L.name = s.name
  minV_eq : L.minV = s.minV
  maxV_eq : L.maxV = s.maxV

theorem mkCore_inv {s : PlateSpec} {rows cols : Nat} {vrows : Option Nat} {L : Labware}
    (h : mkCore s rows cols vrows = .ok L) :
    L.geom = { rows := rows, cols := cols, vrows := vrows } ∧ CoreInv s L := by
  simp only [mkCore, bind, Except.bind, pure, Except.pure, throw, throwThe,
    MonadExceptOf.throw] at h
  repeat' (first | contradiction | split at h)
  cases h
  exact ⟨rfl, Nat.not_lt.mp ‹_›, Decidable.not_not.mp ‹_›, ‹_›, ‹_›, rfl, ‹_›, rfl, rfl, rfl, rfl⟩

theorem mkCore_error {s : PlateSpec} {rows cols : Nat} {vrows : Option Nat} {e : Err}
    (h : mkCore s rows cols vrows = .error e) : e = .valueErr := by
  simp only [mkCore, bind, Except.bind, pure, Except.pure, throw, throwThe,
    MonadExceptOf.throw] at h
  repeat' (first | contradiction | split at h)
  all_goals first
    | (cases h; rfl)
    | (cases h; exact initialComposition_error _ _ _ _ _ _ ‹_›)

structure MkInv (s : PlateSpec) (L : Labware) : Prop extends CoreInv s L where
  rows_eq : s.rows = .int (L.geom.rows : Int)
  rows_pos : 1 ≤ L.geom.rows
  cols_eq : s.cols = .int (L.geom.cols : Int)
  cols_pos : 1 ≤ L.geom.cols
  min_ok : ¬ s.minV < 0
  max_ok : ¬ s.maxV ≤ s.minV
  vrows_none : s.vrows = none → L.geom.vrows = none
  vrows_some : ∀ v, s.vrows = some v → L.geom.rows = 1 ∧
    ∃ n : Int, v = .int n ∧ 1 ≤ n ∧ n ≤ 26 ∧ L.geom.vrows = some n.toNat

theorem Labware.mk?_inv {s : PlateSpec} {L : Labware} (h : Labware.mk? s = .ok L) : MkInv s L := by
  rw [mk?_eq] at h
  simp only [mkAlt, bind, Except.bind, pure, Except.pure, throw, throwThe,
    MonadExceptOf.throw] at h
  split at h
  · split at h
    · contradiction
    · rename_i R hr _ rows hrows
      obtain ⟨rfl, hR1⟩ := size_inv hrows
      split at h
      · split at h
        · contradiction
        · rename_i C hc _ cols hcols
          obtain ⟨rfl, hC1⟩ := size_inv hcols
          split at h
          · contradiction
          split at h
          · contradiction
          split at h
          · -- no virtual rows
            rename_i hvr
            obtain ⟨hg, hcore⟩ := mkCore_inv h
            refine ⟨hcore, ?_, ?_, ?_, ?_, ‹_›, ‹_›, ?_, ?_⟩
            all_goals rw [hg]
            · exact hr
            · exact hR1
            · exact hc
            · exact hC1
            · intro _; rfl
            · intro v hv; rw [hvr] at hv; cases hv
          · rename_i v hvr
            split at h
            · contradiction
            rename_i hrows1
            split at h
            · rename_i n
              split at h
              · contradiction
              rename_i hn
              obtain ⟨hg, hcore⟩ := mkCore_inv h
              refine ⟨hcore, ?_, ?_, ?_, ?_, ‹_›, ‹_›, ?_, ?_⟩
              all_goals rw [hg]
              · exact hr
              · exact hR1
              · exact hc
              · exact hC1
              · intro hv; rw [hvr] at hv; cases hv
              · intro v' hv
                rw [hvr] at hv
                cases hv
                exact ⟨Decidable.not_not.mp hrows1, n, rfl, by omega, by omega, rfl⟩
            · contradiction
      · contradiction
  · contradiction


theorem size_err {n : Int} {e : Err}
    (h : (if n < 1 then Except.error Err.valueErr else Except.ok n.toNat : Except Err Nat) = Except.error e) :
    e = .valueErr := by
  split at h <;> cases h
  rfl

theorem Labware.mk?_error {s : PlateSpec} {e : Err} (h : Labware.mk? s = .error e) : e = .valueErr := by
  rw [mk?_eq] at h
  simp only [mkAlt, bind, Except.bind, pure, Except.pure, throw, throwThe,
    MonadExceptOf.throw] at h
  repeat' (first | contradiction | split at h)
  all_goals first
    | (cases h; rfl)
    | (cases h; exact size_err ‹_›)
    | exact mkCore_error h

theorem Trough.mk?_inv {s : TroughSpec} {L : Labware} (h : Trough.mk? s = .ok L) :
    ∃ p : PlateSpec, p.rows = .int 1 ∧ p.vrows = some s.vrows ∧ Labware.mk? p = .ok L := by
  simp only [Trough.mk?, bind, Except.bind, pure, Except.pure, throw, throwThe,
    MonadExceptOf.throw] at h
  repeat' (first | contradiction | split at h)
  all_goals exact ⟨_, rfl, rfl, h⟩

theorem Trough.mk?_error {s : TroughSpec} {e : Err} (h : Trough.mk? s = .error e) : e = .valueErr := by
  simp only [Trough.mk?, bind, Except.bind, pure, Except.pure, throw, throwThe,
    MonadExceptOf.throw] at h
  repeat' (first | contradiction | split at h)
  all_goals first
    | (cases h; rfl)
    | (cases h; exact size_err ‹_›)
    | exact Labware.mk?_error h

end Robotools
