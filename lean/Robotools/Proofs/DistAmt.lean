/-
  Robotools.Proofs.DistAmt — the composition clause of C01 for `distribute`.

  Part 1: the interpreter's loop for one `R;` record, amounts.  Every take from the source well hands over
  `v × φ` (φ = the fractions of the source well, which takes do not change), every put merges that into the
  destination well: after the loop a destination well holds what it held before plus `count × v × φ`.
-/
import Robotools.Proofs.DistLemmas
namespace Robotools
namespace Dist
open RP Amt C05

/-- Source-well invariant of the loop: amounts are `φ × volume`. -/
def SrcWell (φ : String → Rat) (wl : RWell) : Prop :=
  (wl.amts.map (·.1)).Nodup ∧ ∀ k, amtOf wl.amts k = φ k * wl.vol

def takeWell (wl : RWell) (v : Rat) : RWell :=
  ⟨wl.vol - v, amtScale wl.amts (1 - (if wl.vol = 0 then 0 else v / wl.vol))⟩

def takeOut (wl : RWell) (v : Rat) : Amounts := amtScale wl.amts (if wl.vol = 0 then 0 else v / wl.vol)

def putWell (wl : RWell) (v : Rat) (a : Amounts) : RWell := ⟨wl.vol + v, amtMerge wl.amts a⟩

def setWells (R : RLab) (ws : List RWell) : RLab := { R with wells := ws }

theorem take_full {R : RLab} {i : Nat} {v : Rat} (hi : i < R.wells.length)
    (hge : ¬ ((R.wells[i]).vol - v < R.minV)) :
    R.take i v = some (setWells R (R.wells.set i (takeWell (R.wells[i]) v)), takeOut (R.wells[i]) v) := by
  have hw : R.wells[i]? = some R.wells[i] := List.getElem?_eq_getElem hi
  unfold RLab.take
  rw [hw]
  simp only
  rw [if_neg hge]
  rfl

theorem put_full {R : RLab} {j : Nat} {v : Rat} (a : Amounts) (hj : j < R.wells.length)
    (hle : ¬ (R.maxV < (R.wells[j]).vol + v)) :
    R.put j v a = some (setWells R (R.wells.set j (putWell (R.wells[j]) v a))) := by
  have hw : R.wells[j]? = some R.wells[j] := List.getElem?_eq_getElem hj
  unfold RLab.put
  rw [hw]
  simp only
  rw [if_neg hle]
  rfl

/-- One take from a source well that satisfies the invariant. -/
theorem take_src {φ : String → Rat} {wl : RWell} {v minV : Rat} (h : SrcWell φ wl) (hv : 0 ≤ v)
    (hmin : 0 ≤ minV) (hge : ¬ (wl.vol - v < minV)) :
    SrcWell φ (takeWell wl v) ∧ ((takeOut wl v).map (·.1)).Nodup ∧ ∀ k, amtOf (takeOut wl v) k = v * φ k := by
  obtain ⟨hnd, ha⟩ := h
  have hge' : minV ≤ wl.vol - v := not_lt.mp hge
  unfold takeWell takeOut SrcWell
  by_cases h0 : wl.vol = 0
  · have hv0 : v = 0 := by rw [h0] at hge'; linarith
    refine ⟨⟨by simp only [keys_amtScale]; exact hnd, fun k => ?_⟩, by rw [keys_amtScale]; exact hnd, fun k => ?_⟩
    · simp only [amtOf_amtScale, ha k, h0, if_true, hv0]; ring
    · simp only [amtOf_amtScale, ha k, h0, if_true, hv0]; ring
  · refine ⟨⟨by simp only [keys_amtScale]; exact hnd, fun k => ?_⟩, by rw [keys_amtScale]; exact hnd, fun k => ?_⟩
    · simp only [amtOf_amtScale, ha k, h0, if_false]; field_simp
    · simp only [amtOf_amtScale, ha k, h0, if_false]; field_simp

/-- The loop of the `R;` record with amounts: hypotheses as in `go_spec`, plus the source-well invariant. -/
theorem go_amt (dev : Device) (f : RFields) (sl dl nsrc i : Nat) (hne : sl ≠ dl) (g : Nat → Nat)
    (hv : 0 ≤ f.vol.q) (φ : String → Rat) :
    ∀ (ds : List Nat) (k : Nat) (st : RState) (Rs Rd : RLab) (r : List Rat),
      st.labs[sl]? = some Rs → st.labs[dl]? = some Rd →
      (∀ k', Rs.wellAt dev (f.srcStart.toNat + k' % nsrc) = some i) →
      (∀ d ∈ ds, Rd.wellAt dev d = some (g d)) →
      (hi : i < Rs.wells.length) → (∀ d ∈ ds, g d < Rd.wells.length) →
      0 ≤ Rs.minV →
      ¬ ((rvols Rs).getD i 0 - f.vol.q * ds.length < Rs.minV) →
      addChecked Rd.maxV (rvols Rd) (ds.map g) f.vol.q = some r →
      SrcWell φ (Rs.wells[i]) →
      ∃ st' Rs' Rd', RState.interp.go dev f sl dl nsrc st ds k = some st'
        ∧ st'.labs = (st.labs.set sl Rs').set dl Rd'
        ∧ Rs'.wells.length = Rs.wells.length ∧ Rd'.wells.length = Rd.wells.length
        ∧ (∀ j wl, Rs'.wells[j]? = some wl → (j ≠ i → Rs.wells[j]? = some wl) ∧ (j = i → SrcWell φ wl))
        ∧ (∀ j wl', Rd'.wells[j]? = some wl' → ∃ wl, Rd.wells[j]? = some wl
            ∧ ((wl.amts.map (·.1)).Nodup → (wl'.amts.map (·.1)).Nodup)
            ∧ ∀ k, amtOf wl'.amts k = amtOf wl.amts k + ((ds.map g).count j : Rat) * (f.vol.q * φ k)) := by
  intro ds
  induction ds with
  | nil =>
    intro k st Rs Rd r hRs hRd _ _ hi _ _ _ _ hsrc
    refine ⟨st, Rs, Rd, by simp [RState.interp.go], ?_, rfl, rfl, ?_, ?_⟩
    · rw [set_of_getElem? hRs, set_of_getElem? hRd]
    · intro j wl hj
      refine ⟨fun _ => hj, fun hji => ?_⟩
      subst hji
      rw [List.getElem?_eq_getElem hi] at hj
      cases hj
      exact hsrc
    · intro j wl' hj
      exact ⟨wl', hj, id, fun k => by simp⟩
  | cons d rest ih =>
    intro k st Rs Rd r hRs hRd hsrcAt hdstAt hi hgd hmin hge hadd hsrc
    have hvi : (rvols Rs).getD i 0 = (Rs.wells[i]).vol := rvols_getD Rs i hi
    have hge1 : ¬ ((Rs.wells[i]).vol - f.vol.q < Rs.minV) := by
      intro hlt; apply hge
      have : (0 : Rat) ≤ f.vol.q * (rest.length : Rat) := mul_nonneg hv (by exact_mod_cast Nat.zero_le _)
      simp only [List.length_cons, Nat.cast_add, Nat.cast_one]
      rw [hvi]; linarith
    have htake := take_full hi hge1
    obtain ⟨hsrc1, houtnd, hout⟩ := take_src hsrc hv hmin hge1
    set Rs1 : RLab := setWells Rs (Rs.wells.set i (takeWell (Rs.wells[i]) f.vol.q)) with hRs1def
    set out := takeOut (Rs.wells[i]) f.vol.q with houtdef
    simp only [List.map_cons, addChecked] at hadd
    split at hadd
    · cases hadd
    · rename_i hle
      have hjd : g d < Rd.wells.length := hgd d List.mem_cons_self
      have hvj : (rvols Rd).getD (g d) 0 = (Rd.wells[g d]).vol := rvols_getD Rd (g d) hjd
      rw [hvj] at hle
      have hput := put_full out hjd hle
      set Rd1 : RLab := setWells Rd (Rd.wells.set (g d) (putWell (Rd.wells[g d]) f.vol.q out)) with hRd1def
      have hsl : sl < st.labs.length := (List.getElem?_eq_some_iff.1 hRs).1
      have hdl : dl < st.labs.length := (List.getElem?_eq_some_iff.1 hRd).1
      have hRd' : (st.setLab sl Rs1).labs[dl]? = some Rd := by
        simp only [RState.setLab]; rw [List.getElem?_set_ne hne]; exact hRd
      have hone : st.rdOne dev sl (f.srcStart.toNat + k % nsrc) dl d f.vol.q
          = some ((st.setLab sl Rs1).setLab dl Rd1) := by
        simp only [RState.rdOne, hRs, hsrcAt k, htake, hRd', hdstAt d List.mem_cons_self, hput,
          Option.bind_eq_bind, Option.bind_some, Option.pure_def]
      let st1 := (st.setLab sl Rs1).setLab dl Rd1
      have hRs1 : st1.labs[sl]? = some Rs1 := by
        simp only [st1, RState.setLab]
        rw [List.getElem?_set_ne (fun e => hne e.symm), List.getElem?_set_self hsl]
      have hRd1 : st1.labs[dl]? = some Rd1 := by
        simp only [st1, RState.setLab]
        rw [List.getElem?_set_self (by rw [List.length_set]; exact hdl)]
      have hss1 : SameStatic Rs Rs1 := ⟨rfl, rfl, rfl, rfl, by simp [hRs1def, setWells]⟩
      have hsd1 : SameStatic Rd Rd1 := ⟨rfl, rfl, rfl, rfl, by simp [hRd1def, setWells]⟩
      have hi1 : i < Rs1.wells.length := by rw [hss1.len]; exact hi
      have hw1 : Rs1.wells[i] = takeWell (Rs.wells[i]) f.vol.q := by
        simp [hRs1def, setWells]
      have hvs1 : rvols Rs1 = (rvols Rs).set i ((rvols Rs).getD i 0 - f.vol.q) := by
        simp only [rvols, hRs1def, setWells, List.map_set, takeWell]; rw [← hvi]; rfl
      have hvd1 : rvols Rd1 = addAt (rvols Rd) (g d) f.vol.q := by
        simp only [rvols, hRd1def, setWells, List.map_set, addAt, putWell]
        congr 1
        simp [List.getD_eq_getElem?_getD, hjd]
      have hge' : ¬ ((rvols Rs1).getD i 0 - f.vol.q * (rest.length : Rat) < Rs1.minV) := by
        rw [hvs1, getD_set_self _ _ _ _ (by simpa using hi)]
        intro hlt; apply hge
        simp only [List.length_cons, Nat.cast_add, Nat.cast_one]
        have : Rs1.minV = Rs.minV := rfl
        rw [this] at hlt
        linarith
      have hadd' : addChecked Rd1.maxV (rvols Rd1) (rest.map g) f.vol.q = some r := by
        rw [hvd1]; exact hadd
      obtain ⟨st', Rs', Rd', hgo, hlabs, hlenS, hlenD, hS, hD⟩ :=
        ih (k + 1) st1 Rs1 Rd1 r hRs1 hRd1
          (fun k' => by rw [wellAt_static hss1]; exact hsrcAt k')
          (fun d' hd' => by rw [wellAt_static hsd1]; exact hdstAt d' (List.mem_cons_of_mem _ hd'))
          hi1
          (fun d' hd' => by rw [hsd1.len]; exact hgd d' (List.mem_cons_of_mem _ hd'))
          hmin hge' hadd' (by rw [hw1]; exact hsrc1)
      refine ⟨st', Rs', Rd', ?_, ?_, by rw [hlenS, hss1.len], by rw [hlenD, hsd1.len], ?_, ?_⟩
      · rw [RState.interp.go]
        simp only [hone, Option.bind_eq_bind, Option.bind_some]
        exact hgo
      · rw [hlabs]
        simp only [st1, RState.setLab]
        rw [List.set_comm _ _ hne, List.set_set, List.set_comm _ _ (fun e => hne e.symm), List.set_set]
      · intro j wl hj
        obtain ⟨h1, h2⟩ := hS j wl hj
        refine ⟨fun hji => ?_, h2⟩
        have := h1 hji
        simp only [hRs1def, setWells] at this
        rw [List.getElem?_set_ne (fun e => hji e.symm)] at this
        exact this
      · intro j wl' hj
        obtain ⟨wl1, hwl1, hnd1, ha1⟩ := hD j wl' hj
        by_cases hjg : j = g d
        · subst hjg
          simp only [hRd1def, setWells] at hwl1
          rw [List.getElem?_set_self hjd] at hwl1
          cases hwl1
          refine ⟨Rd.wells[g d], List.getElem?_eq_getElem hjd, fun hnd => hnd1 (nodup_keys_amtMerge _ _ hnd), fun k' => ?_⟩
          rw [ha1 k']
          simp only [putWell]
          simp only [List.map_cons, List.count_cons_self]
          rw [amtOf_amtMerge, csum_eq_amtOf _ _ houtnd, hout k']
          push_cast; ring
        · simp only [hRd1def, setWells] at hwl1
          rw [List.getElem?_set_ne (fun e => hjg e.symm)] at hwl1
          refine ⟨wl1, hwl1, hnd1, fun k' => ?_⟩
          rw [ha1 k']
          simp only [List.map_cons]
          rw [List.count_cons_of_ne (fun e => hjg e.symm)]

/-- `interp_rd` with amounts: what every well of the two replay labware holds after the record. -/
theorem interp_rd_amt {dev : Device} {st : RState} {w : World} {I} (hM : Match st w) (hA : AmtOK st w) (hI : info w = I)
    (hwf : WFI I) {src dst : Nat} (hne : src ≠ dst) {S0 D0 : Labware} (hS : w.labs[src]? = some S0)
    (hD : w.labs[dst]? = some D0) (c i : Nat) (hi : i < S0.vols.length)
    (hsrcdev : ∀ m, m < S0.geom.nRowIds → ∃ rc, dev.wellOf S0.geom (1 + S0.geom.nRowIds * c + m) = some rc
      ∧ S0.geom.flat rc = i)
    (hrows : 0 < S0.geom.nRowIds)
    {dws : List String} {ps js : List Nat} (hps : dws.mapM (dev.pos D0.geom) = .ok ps)
    (hjs : dws.map D0.geom.resolveFlat = js.map some) (hnd : ps.Nodup)
    {s e : Nat} (hs : (ps.mergeSort (· ≤ ·)).head? = some s) (he : (ps.mergeSort (· ≤ ·)).getLast? = some e)
    (v : PyNum) (hv : 0 ≤ v.q) {S1 : Labware} (hrm : S0.removeStep i (v.q * (ps.length : Rat)) = .ok S1)
    {dvols : List Rat} (hadd : addChecked D0.maxV D0.vols js v.q = some dvols)
    (f : RFields) (hsl : f.srcLabel = S0.name) (hdl : f.dstLabel = D0.name)
    (hss : f.srcStart = 1 + (S0.geom.nRowIds : Int) * (c : Int))
    (hse : f.srcEnd = f.srcStart + (S0.geom.nRowIds : Int) - 1)
    (hds : f.dstStart = (s : Int)) (hde : f.dstEnd = (e : Int)) (hvol : f.vol = v)
    (hex : f.excluded = ((((List.range (e + 1 - s)).map (· + s)).filter
        (fun (p : Nat) => !(ps.mergeSort (· ≤ ·)).contains p)).map Int.ofNat).mergeSort (· ≤ ·))
    (hmin0 : 0 ≤ S0.minV) :
    ∃ st' Rs' Rd', st.interp dev (.rd f) = some st' ∧ st'.labs = (st.labs.set src Rs').set dst Rd'
      ∧ (∀ j wl, Rs'.wells[j]? = some wl → (wl.amts.map (·.1)).Nodup
          ∧ ∀ k, amtOf wl.amts k = if j = i then S0.frac i k * wl.vol else amount S0 j k)
      ∧ (∀ j wl, Rd'.wells[j]? = some wl → (wl.amts.map (·.1)).Nodup
          ∧ ∀ k, amtOf wl.amts k = amount D0 j k + (js.count j : Rat) * (v.q * S0.frac i k)) := by
  obtain ⟨Rs, hRs, hRsL, hfS⟩ := findLab_idx hM hI hwf hS hsl
  obtain ⟨Rd, hRd, hRdL, hfD⟩ := findLab_idx hM hI hwf hD hdl
  have hgD : GeomOK D0.geom D0.vols.length := geomOK_of_mem hI hwf hD
  have hF := mapM_pos_spec hps
  obtain ⟨hjs', hall⟩ := js_eq_map_wellIdx hgD hF hjs
  -- sorted positions
  have hperm : (ps.mergeSort (· ≤ ·)).Perm ps := List.mergeSort_perm _ _
  have hsortedLE : (ps.mergeSort (· ≤ ·)).Pairwise (fun a b => decide (a ≤ b) = true) :=
    List.pairwise_mergeSort (fun a b c h1 h2 => by simp only [decide_eq_true_eq] at *; omega)
      (fun a b => by simp only [Bool.or_eq_true, decide_eq_true_eq]; omega) ps
  have hsortedND : (ps.mergeSort (· ≤ ·)).Nodup := hperm.nodup_iff.2 hnd
  have hsortedLT : (ps.mergeSort (· ≤ ·)).Pairwise (· < ·) := by
    have := hsortedLE.and hsortedND
    exact this.imp (fun h => by
      obtain ⟨h1, h2⟩ := h
      simp only [decide_eq_true_eq] at h1
      omega)
  have hdsts := dsts_eq _ s e hs he hsortedLT
  -- volumes
  have hlenS : Rs.wells.length = S0.vols.length := hRsL.length
  have hlenD : Rd.wells.length = D0.vols.length := hRdL.length
  obtain ⟨hgeS, hvolsS, hminS, hmaxS, hnameS, hgeomS, _, _⟩ := Labware.removeStep_fields hrm
  have hn : (ps.mergeSort (· ≤ ·)).length = ps.length := hperm.length_eq
  have haddS : addChecked Rd.maxV (rvols Rd) ((ps.mergeSort (· ≤ ·)).map (wellIdx dev D0.geom)) f.vol.q = some dvols := by
    rw [hvol, hRdL.maxV, show rvols Rd = D0.vols from hRdL.vols]
    apply addChecked_perm hv _ _ hadd
    · intro j hj
      rw [hjs'] at hj
      obtain ⟨p, hp, rfl⟩ := List.mem_map.1 hj
      obtain ⟨rc, hwo, hlt⟩ := hall p hp
      simp only [wellIdx, hwo]; exact hlt
    · rw [hjs']; exact (hperm.map _).symm
  have hsrcAt : ∀ k', Rs.wellAt dev (f.srcStart.toNat + k' % (f.srcEnd - f.srcStart + 1).toNat) = some i := by
    intro k'
    have hns : (f.srcEnd - f.srcStart + 1).toNat = S0.geom.nRowIds := by rw [hse]; omega
    have hst : f.srcStart.toNat = 1 + S0.geom.nRowIds * c := by rw [hss]; norm_cast
    rw [hns, hst]
    obtain ⟨rc, hwo, hfl⟩ := hsrcdev (k' % S0.geom.nRowIds) (Nat.mod_lt _ hrows)
    unfold RLab.wellAt
    rw [hRsL.geom, hwo]
    simp only [Option.bind_some, hfl]
    rw [if_pos (by rw [hlenS]; exact hi)]
  have hdstAt : ∀ d ∈ ps.mergeSort (· ≤ ·), Rd.wellAt dev d = some (wellIdx dev D0.geom d) := by
    intro d hd
    obtain ⟨rc, hwo, hlt⟩ := hall d (hperm.mem_iff.1 hd)
    unfold RLab.wellAt
    rw [hRdL.geom, hwo]
    simp only [Option.bind_some, wellIdx, hwo]
    rw [if_pos (by rw [hlenD]; exact hlt)]
  have hgdlt : ∀ d ∈ ps.mergeSort (· ≤ ·), wellIdx dev D0.geom d < Rd.wells.length := by
    intro d hd
    obtain ⟨rc, hwo, hlt⟩ := hall d (hperm.mem_iff.1 hd)
    simp only [wellIdx, hwo]; rw [hlenD]; exact hlt
  have hgeR : ¬ ((rvols Rs).getD i 0 - f.vol.q * ((ps.mergeSort (· ≤ ·)).length : Rat) < Rs.minV) := by
    rw [hvol, hn, hRsL.minV, show rvols Rs = S0.vols from hRsL.vols]
    exact hgeS
  -- amounts of the two replay labware before the record
  obtain ⟨Rs2, hRs2, hRsA⟩ := forall₂_getElem? hA hS
  rw [hRs] at hRs2; cases hRs2
  obtain ⟨Rd2, hRd2, hRdA⟩ := forall₂_getElem? hA hD
  rw [hRd] at hRd2; cases hRd2
  have hiR : i < Rs.wells.length := by rw [hlenS]; exact hi
  have hwi : Rs.wells[i]? = some Rs.wells[i] := List.getElem?_eq_getElem hiR
  have hsrcW : SrcWell (fun k => S0.frac i k) (Rs.wells[i]) := by
    refine ⟨(hRsA i _ hwi).nodup, fun k => ?_⟩
    rw [(hRsA i _ hwi).amt k, hRsL.vol_eq hwi]
    rfl
  obtain ⟨st', Rs', Rd', hgo, hlabs, hlS, hlD, hSw, hDw⟩ :=
    go_amt dev f src dst (f.srcEnd - f.srcStart + 1).toNat i hne (wellIdx dev D0.geom) (by rw [hvol]; exact hv)
      (fun k => S0.frac i k)
      (ps.mergeSort (· ≤ ·)) 0 st Rs Rd dvols hRs hRd hsrcAt hdstAt hiR hgdlt
      (by rw [hRsL.minV]; exact hmin0) hgeR haddS hsrcW
  refine ⟨st', Rs', Rd', ?_, hlabs, ?_, ?_⟩
  · have hcond : ¬ (f.srcStart < 1 ∨ f.srcEnd < f.srcStart ∨ f.dstStart < 0) := by
      rw [hse, hss, hds]
      have : (0 : Int) ≤ (S0.geom.nRowIds : Int) * (c : Int) := by positivity
      omega
    simp only [RState.interp, hfS, hfD, hcond, if_false, Option.bind_eq_bind, Option.bind_some, Option.pure_def]
    rw [hds, hde, hex, hdsts]
    exact hgo
  · intro j wl hj
    obtain ⟨h1, h2⟩ := hSw j wl hj
    by_cases hji : j = i
    · obtain ⟨hnd', ha'⟩ := h2 hji
      exact ⟨hnd', fun k => by rw [if_pos hji]; exact ha' k⟩
    · have hw0 := h1 hji
      exact ⟨(hRsA j wl hw0).nodup, fun k => by rw [if_neg hji]; exact (hRsA j wl hw0).amt k⟩
  · intro j wl hj
    obtain ⟨wl0, hw0, hnd', ha'⟩ := hDw j wl hj
    refine ⟨hnd' (hRdA j wl0 hw0).nodup, fun k => ?_⟩
    rw [ha' k, (hRdA j wl0 hw0).amt k, hvol]
    have hcount : (((ps.mergeSort (· ≤ ·)).map (wellIdx dev D0.geom)).count j) = js.count j := by
      rw [hjs']
      exact (hperm.map _).count_eq j
    rw [hcount]

/-! ### Part 2: the tracking's additions, amounts -/

/-- The three properties `Amt.Good` asks of a labware. -/
def GoodLab (L : Labware) : Prop := C02.LabValid L ∧ CompValid L ∧ Mixed L

/-- Adding volume 0 (with whatever composition) keeps the fractions of the addressed well summing to what they
    summed to: `combine v₀ c 0 c' = c` up to components of fraction 0. -/
theorem fracSum_addStep_zero (L L' : Labware) (i : Nat) (cB : Comp) (hL : CompValid L) (hi : i < L.vols.length)
    (h : L.addStep i 0 (some cB) = .ok L') : fracSum L' i = fracSum L i := by
  obtain ⟨_, hc⟩ := Mix.addStep_some h
  have hndw : ((L.wellComp i).map (·.1)).Nodup := Mix.wc_keys_nodup _ _ hL.keys_nodup
  have hnd : ((Labware.combine (L.vol i) (L.wellComp i) 0 cB).map (·.1)).Nodup :=
    Mix.nodup_keys_combine _ _ _ _ hndw
  rw [fracSum_eq, fracSum_eq, hc, Mix.colSum_setAll _ _ _ _ hL.lens hi hnd]
  have h1 : ((Labware.combine (L.vol i) (L.wellComp i) 0 cB).map (·.1)).map (Mix.fracC L.comp i)
      = ((Labware.combine (L.vol i) (L.wellComp i) 0 cB).map (·.1)).map (Mix.csum (L.wellComp i)) := by
    apply List.map_congr_left
    intro k _
    exact (Mix.csum_wc L.comp i hL.keys_nodup hL.nonneg k).symm
  rw [h1, Mix.sum_csum_keys _ _ hnd (fun k hk => Mix.keys_subset_combine _ _ _ _ k hk)]
  have h2 : Mix.total (L.wellComp i) = Mix.colSum L.comp i := Mix.total_wc L.comp i hL.nonneg
  by_cases h0 : L.vol i + 0 = 0
  · have : Labware.combine (L.vol i) (L.wellComp i) 0 cB = L.wellComp i := by
      rw [Mix.combine_eq, if_pos h0]
    rw [this, h2]; ring
  · rw [Mix.total_combine _ _ _ _ h0, h2]
    have hv0 : L.vol i ≠ 0 := by intro e; apply h0; rw [e]; ring
    field_simp
    ring

theorem mixed_addStep_zero {L L' : Labware} {i : Nat} {cB : Comp} (hM : Mixed L) (hL : CompValid L)
    (hi : i < L.vols.length) (h : L.addStep i 0 (some cB) = .ok L') : Mixed L' := by
  obtain ⟨hvols, hcomp⟩ := Mix.addStep_some h
  intro j hj
  have hj' : j < L.vols.length := by rw [hvols, List.length_set] at hj; exact hj
  by_cases hji : j = i
  · subst hji
    have hfs := fracSum_addStep_zero L L' j cB hL hj' h
    have hvj : L'.vol j = L.vol j := by
      unfold Labware.vol; rw [hvols, getD_set_self _ _ _ _ hj']
      unfold Labware.vol; ring
    rw [hfs, hvj]
    exact hM j hj'
  · have hfs : fracSum L' j = fracSum L j := by
      rw [fracSum_eq, fracSum_eq, hcomp, colSum_setAll_ne _ _ _ _ _ hji]
    have hvj : L'.vol j = L.vol j := by
      unfold Labware.vol; rw [hvols, getD_set_ne _ _ _ _ _ hji]
    rw [hfs, hvj]
    exact hM j hj'

/-- A completed run of `ad dst j v carry` micro-operations (carried composition normalised when the volume is positive):
    every real well of the destination holds what it held plus `count × v × carry`; the labware stays good. -/
theorem exec_ads_amt (dst : Nat) (v : Rat) (hv : 0 ≤ v) :
    ∀ (js : List Nat) (w w1 : World) (D0 : Labware), w.labs[dst]? = some D0 → GoodLab D0 →
      (∀ j ∈ js, j < D0.vols.length) → (∀ p ∈ w.carry, 0 ≤ p.2) → (0 < v → Mix.total w.carry = 1) →
      w.exec (js.map fun j => Micro.ad dst j v .carry) = (w1, none) →
      ∃ Dn, w1.labs = w.labs.set dst Dn ∧ GoodLab Dn ∧ Dn.vols.length = D0.vols.length
        ∧ ∀ j k, amount Dn j k = amount D0 j k + (js.count j : Rat) * (v * compOf w.carry k) := by
  intro js
  induction js with
  | nil =>
    intro w w1 D0 hD hG _ _ _ h
    simp only [List.map_nil, World.exec_nil, Prod.mk.injEq, and_true] at h
    subst h
    exact ⟨D0, (set_of_getElem? hD).symm, hG, rfl, fun j k => by simp⟩
  | cons j rest ih =>
    intro w w1 D0 hD hG hjs hcnn hctot h
    rw [List.map_cons] at h
    cases hm : w.micro (.ad dst j v .carry) with
    | error e => rw [World.exec_cons_error _ hm] at h; cases h
    | ok wa =>
      rw [World.exec_cons_ok _ hm] at h
      have hstep : ∃ L', D0.addStep j v (some w.carry) = .ok L' ∧ wa = w.setLab dst L' := by
        simp only [World.micro, hD] at hm
        cases hs : D0.addStep j v (some w.carry) with
        | error e => rw [hs] at hm; cases hm
        | ok L' => rw [hs] at hm; cases hm; exact ⟨L', rfl, rfl⟩
      obtain ⟨L', hstep, rfl⟩ := hstep
      obtain ⟨hD0v, hD0c, hD0m⟩ := hG
      have hj : j < D0.vols.length := hjs j List.mem_cons_self
      have hvol : 0 ≤ D0.vol j := vol_nonneg D0 j (fun x hx => (hD0v.range x hx).1)
      obtain ⟨hge, hvols, hmin, hmax, hname, hgeom, _⟩ := Labware.addStep_fields hstep
      have hlen : L'.vols.length = D0.vols.length := by rw [hvols, List.length_set]
      have hG' : GoodLab L' :=
        ⟨C02.addStep_valid D0 L' j v (some w.carry) hv hD0v hstep,
         addStep_compValid D0 L' j v (some w.carry) hD0c hv hvol
           (by intro cB hcB; cases hcB; exact hcnn) hstep,
         by
           rcases lt_or_eq_of_le hv with hpos | hz
           · exact mixed_addStep hD0m hD0c hj hpos hvol (hctot hpos) hcnn hstep
           · subst hz; exact mixed_addStep_zero hD0m hD0c hj hstep⟩
      have hD' : (w.setLab dst L').labs[dst]? = some L' := getElem?_setLab_self hD
      obtain ⟨Dn, hlabs, hGn, hlenn, hamt⟩ := ih (w.setLab dst L') w1 L' hD' hG'
        (fun j' hj' => by rw [hlen]; exact hjs j' (List.mem_cons_of_mem _ hj')) hcnn hctot h
      obtain ⟨hamount, hfrac⟩ := addStep_amount D0 L' j v w.carry hD0c hj hv hvol hstep
      refine ⟨Dn, ?_, hGn, by rw [hlenn, hlen], fun j' k => ?_⟩
      · rw [hlabs]; simp only [World.setLab, List.set_set]
      · rw [hamt j' k]
        have hcar : (w.setLab dst L').carry = w.carry := rfl
        rw [hcar]
        by_cases hjj : j' = j
        · subst hjj
          rw [hamount k, List.count_cons_self]
          push_cast; ring
        · rw [List.count_cons_of_ne (fun e => hjj e.symm)]
          congr 1
          unfold amount
          rw [hfrac j' k hjj]
          congr 1
          unfold Labware.vol
          rw [hvols, getD_set_ne _ _ _ _ _ hjj]

end Dist
end Robotools
