/-
  Helper lemmas about `insertSortedDedup`, `groupKeys` and `partitionByColumn` (used by C18).
-/
import Robotools.Model.Plan
namespace Robotools

/-! ### Order facts on `List Nat` (lexicographic order) -/

theorem key_lt_irrefl (a : List Nat) : ¬ a < a := List.lt_irrefl a

theorem key_lt_trans {a b c : List Nat} (h₁ : a < b) (h₂ : b < c) : a < c := List.lt_trans h₁ h₂

theorem key_lt_of_not_lt_of_ne {a b : List Nat} (h₁ : ¬ a = b) (h₂ : ¬ a < b) : b < a := by
  have h : b ≤ a := List.not_lt.mp h₂
  rcases List.le_iff_lt_or_eq.mp h with h | h
  · exact h
  · exact absurd h.symm h₁

theorem key_le_trans {a b c : List Nat} (h₁ : a ≤ b) (h₂ : b ≤ c) : a ≤ c := List.le_trans h₁ h₂

theorem key_le_total (a b : List Nat) : a ≤ b ∨ b ≤ a := List.le_total a b

/-! ### `insertSortedDedup` -/

theorem mem_insertSortedDedup (k a : List Nat) (l : List (List Nat)) :
    a ∈ insertSortedDedup k l ↔ a = k ∨ a ∈ l := by
  induction l with
  | nil => simp [insertSortedDedup]
  | cons x xs ih =>
    unfold insertSortedDedup
    split
    · next h => subst h; simp
    · split
      · simp
      · simp only [List.mem_cons, ih]
        constructor
        · rintro (h | h | h) <;> simp [h]
        · rintro (h | h | h) <;> simp [h]

theorem pairwise_insertSortedDedup (k : List Nat) (l : List (List Nat))
    (hl : l.Pairwise (· < ·)) : (insertSortedDedup k l).Pairwise (· < ·) := by
  induction l with
  | nil => simp [insertSortedDedup]
  | cons x xs ih =>
    unfold insertSortedDedup
    split
    · exact hl
    · next hne =>
      split
      · next hlt =>
        rw [List.pairwise_cons] at hl
        refine List.Pairwise.cons ?_ (List.Pairwise.cons hl.1 hl.2)
        intro a ha
        rcases List.mem_cons.mp ha with rfl | ha
        · exact hlt
        · exact key_lt_trans hlt (hl.1 a ha)
      · next hnlt =>
        rw [List.pairwise_cons] at hl
        refine List.Pairwise.cons ?_ (ih hl.2)
        intro a ha
        rcases (mem_insertSortedDedup k a xs).mp ha with rfl | ha
        · exact key_lt_of_not_lt_of_ne hne hnlt
        · exact hl.1 a ha

/-! ### `groupKeys` -/

theorem mem_foldl_insert (byDest : Bool) (ts : List Triple) (acc : List (List Nat)) (k : List Nat) :
    k ∈ ts.foldl (fun acc t => insertSortedDedup (t.group byDest) acc) acc
      ↔ k ∈ acc ∨ ∃ t ∈ ts, t.group byDest = k := by
  induction ts generalizing acc with
  | nil => simp
  | cons t ts ih =>
    rw [List.foldl_cons, ih, mem_insertSortedDedup]
    constructor
    · rintro ((h | h) | ⟨t', ht', h⟩)
      · exact Or.inr ⟨t, List.mem_cons_self, h.symm⟩
      · exact Or.inl h
      · exact Or.inr ⟨t', List.mem_cons_of_mem _ ht', h⟩
    · rintro (h | ⟨t', ht', h⟩)
      · exact Or.inl (Or.inr h)
      · rcases List.mem_cons.mp ht' with rfl | ht'
        · exact Or.inl (Or.inl h.symm)
        · exact Or.inr ⟨t', ht', h⟩

theorem pairwise_foldl_insert (byDest : Bool) (ts : List Triple) (acc : List (List Nat))
    (h : acc.Pairwise (· < ·)) :
    (ts.foldl (fun acc t => insertSortedDedup (t.group byDest) acc) acc).Pairwise (· < ·) := by
  induction ts generalizing acc with
  | nil => exact h
  | cons t ts ih => exact ih _ (pairwise_insertSortedDedup _ _ h)

theorem mem_groupKeys (byDest : Bool) (ts : List Triple) (k : List Nat) :
    k ∈ groupKeys byDest ts ↔ ∃ t ∈ ts, t.group byDest = k := by
  simp [groupKeys, mem_foldl_insert]

theorem pairwise_groupKeys (byDest : Bool) (ts : List Triple) :
    (groupKeys byDest ts).Pairwise (· < ·) :=
  pairwise_foldl_insert byDest ts [] List.Pairwise.nil

theorem nodup_groupKeys (byDest : Bool) (ts : List Triple) : (groupKeys byDest ts).Nodup :=
  (pairwise_groupKeys byDest ts).imp fun {a b} (h : a < b) (hab : a = b) => key_lt_irrefl b (hab ▸ h)

/-! ### Partitioning a list by a Nodup list of keys -/

theorem filter_append_perm_of_disjoint {α : Type} (p q : α → Bool) (l : List α)
    (hpq : ∀ x, p x = true → q x = true → False) :
    (l.filter p ++ l.filter q).Perm (l.filter fun x => p x || q x) := by
  induction l with
  | nil => simp
  | cons x xs ih =>
    cases hp : p x <;> cases hq : q x
    · simpa [List.filter_cons, hp, hq] using ih
    · simp only [List.filter_cons, hp, hq, Bool.false_or, if_true, if_false, Bool.false_eq_true]
      exact List.perm_middle.trans (ih.cons x)
    · simp only [List.filter_cons, hp, hq, Bool.or_false, if_true, if_false, Bool.false_eq_true,
        List.cons_append]
      exact ih.cons x
    · exact (hpq x hp hq).elim

theorem flatten_filter_perm {α κ : Type} [DecidableEq κ] (f : α → κ) (ts : List α) (ks : List κ)
    (hks : ks.Nodup) :
    ((ks.map fun g => ts.filter fun t => f t = g).flatten).Perm
      (ts.filter fun t => decide (f t ∈ ks)) := by
  induction ks with
  | nil => simp
  | cons k ks ih =>
    rw [List.nodup_cons] at hks
    rw [List.map_cons, List.flatten_cons]
    refine ((List.Perm.refl _).append (ih hks.2)).trans ?_
    refine (filter_append_perm_of_disjoint _ _ ts ?_).trans ?_
    · intro x h1 h2
      simp only [decide_eq_true_eq] at h1 h2
      exact hks.1 (h1 ▸ h2)
    · apply List.Perm.of_eq
      apply List.filter_congr
      intro x _
      simp [List.mem_cons]

theorem flatten_map_mergeSort_perm {α κ : Type} (F : κ → List α) (le : κ → α → α → Bool)
    (ks : List κ) :
    ((ks.map fun g => (F g).mergeSort (le g)).flatten).Perm (ks.map F).flatten := by
  induction ks with
  | nil => simp
  | cons k ks ih =>
    simp only [List.map_cons, List.flatten_cons]
    exact (List.mergeSort_perm _ _).append ih

theorem partitionByColumn_flatten_perm (ts : List Triple) (byDest : Bool) :
    (partitionByColumn ts byDest).flatten.Perm ts := by
  unfold partitionByColumn
  refine (flatten_map_mergeSort_perm (fun g => ts.filter fun t => t.group byDest = g)
    (fun _ a b => a.key byDest ≤ b.key byDest) _).trans ?_
  refine (flatten_filter_perm (fun t => t.group byDest) ts _ (nodup_groupKeys byDest ts)).trans ?_
  apply List.Perm.of_eq
  rw [List.filter_eq_self]
  intro t ht
  simp only [decide_eq_true_eq]
  exact (mem_groupKeys byDest ts _).mpr ⟨t, ht, rfl⟩

end Robotools
