/-
  Helper lemmas for the transform model: `indexOf` / `wellAt` on in-range indices,
  `Shifter.mk?` success analysis, `List.mapM` length in `Except`, lookup in zipped lists.
-/
import Robotools.Model.Transform
import Robotools.Props.C08
import Mathlib.Data.List.Perm.Basic
import Mathlib.Data.List.Nodup
namespace Robotools

/-! ## indexOf -/

theorem indexOf_wellId {R C r c : Nat} (hR : R ≤ 26) (hr : r < R) (hc : c < C) :
    indexOf R C (wellId r c) = some (r, c) := by
  unfold indexOf
  rw [C08.makeWellIndexDict_eq_table]
  exact C08.resolve_plate R C r c hR hr hc

theorem indexOf_some {R C : Nat} {w : String} {r c : Nat} (h : indexOf R C w = some (r, c)) :
    w = wellId r c ∧ r < R ∧ r < 26 ∧ c < C := by
  unfold indexOf at h
  rw [C08.makeWellIndexDict_eq_table] at h
  obtain ⟨r', c', hr', hc', hw, hrc⟩ := C08.resolve_some _ _ _ h
  simp only [C08.plate, Geom.nRowIds, Geom.isTrough, Option.isSome_none, Bool.false_eq_true,
    if_false] at hr' hc' hrc
  obtain ⟨rfl, rfl⟩ := Prod.mk.inj hrc
  refine ⟨hw, ?_, ?_, hc'⟩ <;> omega

/-! ## wellAt -/

theorem wellAt_of_nat {R C : Nat} {i j : Int} {r c : Nat} (hi : i = r) (hj : j = c)
    (hr : r < R) (hr26 : r < 26) (hc : c < C) : wellAt R C i j = some (wellId r c) := by
  subst hi hj
  have h1 : ¬ ((r : Int) < 0) := by omega
  have h2 : ¬ ((c : Int) < 0) := by omega
  unfold wellAt
  simp only [h1, h2, if_false]
  rw [if_pos (by omega)]
  simp

theorem wellAt_some {R C : Nat} {i j : Int} {w : String} (hi : 0 ≤ i) (hj : 0 ≤ j)
    (h : wellAt R C i j = some w) :
    w = wellId i.toNat j.toNat ∧ i.toNat < R ∧ i.toNat < 26 ∧ j.toNat < C := by
  have h1 : ¬ (i < 0) := by omega
  have h2 : ¬ (j < 0) := by omega
  unfold wellAt at h
  simp only [h1, h2, if_false] at h
  split at h
  · rename_i hcond
    refine ⟨(Option.some.inj h).symm, ?_, ?_, ?_⟩ <;> omega
  · cases h

/-! ## Shifter.mk? -/

theorem Shifter.mk?_ok {rA cA rB cB : Nat} {anchor : String} {s : Shifter}
    (h : Shifter.mk? rA cA rB cB anchor = .ok s) :
    ∃ dr dc, indexOf rB cB anchor = some (dr, dc) ∧ rA + dr ≤ rB ∧ cA + dc ≤ cB ∧
      s = ⟨rA, cA, rB, cB, dr, dc⟩ := by
  unfold Shifter.mk? at h
  split at h
  · cases h
  · rename_i dr dc heq
    split at h
    · cases h
    · split at h
      · cases h
      · refine ⟨dr, dc, heq, by omega, by omega, ?_⟩
        cases h; rfl

/-! ## mapM in `Except` preserves the length -/

theorem mapM_except_length {ε α β : Type} (f : α → Except ε β) :
    ∀ (l : List α) (l' : List β), l.mapM f = .ok l' → l.length = l'.length := by
  intro l
  induction l with
  | nil =>
    intro l' h
    rw [List.mapM_nil] at h
    cases h; rfl
  | cons a t ih =>
    intro l' h
    rw [List.mapM_cons] at h
    cases hfa : f a with
    | error e => rw [hfa] at h; cases h
    | ok b =>
      cases ht : t.mapM f with
      | error e => rw [hfa, ht] at h; cases h
      | ok bs =>
        rw [hfa, ht] at h
        cases h
        simp [ih bs ht]

/-! ## lookup in zipped lists -/

theorem lookup_zip_getElem {α β : Type} [BEq α] [LawfulBEq α] :
    ∀ (l₁ : List α) (l₂ : List β) (i : Nat) (h1 : i < l₁.length) (h2 : i < l₂.length),
      l₁.Nodup → (l₁.zip l₂).lookup l₁[i] = some l₂[i] := by
  intro l₁
  induction l₁ with
  | nil => intro l₂ i h1; cases h1
  | cons a t ih =>
    intro l₂ i h1 h2 hnd
    cases l₂ with
    | nil => cases h2
    | cons b t' =>
      cases i with
      | zero => simp
      | succ i =>
        have hne : t[i]'(by simpa using h1) ≠ a := by
          intro heq
          have : a ∈ t := heq ▸ List.getElem_mem _
          exact (List.nodup_cons.1 hnd).1 this
        have hb : (t[i]'(by simpa using h1) == a) = false := by simpa using hne
        simp only [List.zip_cons_cons, List.getElem_cons_succ, List.lookup_cons, hb]
        exact ih t' i _ _ (List.nodup_cons.1 hnd).2

theorem lookup_zip_some {α β : Type} [BEq α] [LawfulBEq α] {l₁ : List α} {l₂ : List β}
    {a : α} {b : β} (h : (l₁.zip l₂).lookup a = some b) :
    ∃ (i : Nat) (h1 : i < l₁.length) (h2 : i < l₂.length), l₁[i] = a ∧ l₂[i] = b := by
  have hm := mem_of_lookup_eq_some h
  obtain ⟨i, hi, heq⟩ := List.getElem_of_mem hm
  rw [List.getElem_zip] at heq
  rw [List.length_zip] at hi
  exact ⟨i, by omega, by omega, (Prod.mk.inj heq).1, (Prod.mk.inj heq).2⟩

end Robotools
