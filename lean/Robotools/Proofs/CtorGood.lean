/-
  Robotools.Proofs.CtorGood — what the constructors establish about the composition table:
  `Labware.mk?` / `Trough.mk?` return labware that is `Good` in the sense of `AmtLemmas`
  (limits, well-formed table, fractions of every well summing to 1 or — for empty wells — to 0).
  This makes the hypotheses of `C01.replay_composition` / `C05.history_*` facts about every
  labware a user can construct.
-/
import Robotools.Proofs.CtorLemmas
import Robotools.Proofs.AmtLemmas
namespace Robotools
namespace CtorGood
open C05 Amt

theorem fracC_of_mem (comp : List (String × List Rat)) (j : Nat) (k : String) (arr : List Rat)
    (hnd : (comp.map (·.1)).Nodup) (hmem : (k, arr) ∈ comp) : Mix.fracC comp j k = arr.getD j 0 := by
  induction comp with
  | nil => cases hmem
  | cons p rest ih =>
    obtain ⟨a, arr'⟩ := p
    simp only [List.map_cons, List.nodup_cons] at hnd
    rw [Mix.fracC_cons]
    rcases List.mem_cons.1 hmem with h | h
    · cases h; simp
    · have : a ≠ k := by
        intro e; subst e
        exact hnd.1 (List.mem_map.2 ⟨(a, arr), h, rfl⟩)
      rw [if_neg this, ih hnd.2 h]

theorem colSum_eq_sum_fracC (comp : List (String × List Rat)) (j : Nat)
    (hnd : (comp.map (·.1)).Nodup) :
    Mix.colSum comp j = ((comp.map (·.1)).map (Mix.fracC comp j)).sum := by
  induction comp with
  | nil => rfl
  | cons p rest ih =>
    obtain ⟨a, arr⟩ := p
    simp only [List.map_cons, List.nodup_cons] at hnd
    rw [Mix.colSum_cons, ih hnd.2]
    simp only [List.map_cons, List.sum_cons, Mix.fracC_cons, if_true]
    congr 1
    apply congrArg
    apply List.map_congr_left
    intro k hk
    have : a ≠ k := fun e => hnd.1 (e ▸ hk)
    rw [Mix.fracC_cons, if_neg this]

/-- The table built by `initialComposition`: well-formed, every column sums to 1 (filled well) or 0. -/
theorem goInv_good (init : List Rat) (n : Nat) (comp : List (String × List Rat))
    (H : GoInv init n comp n) :
    (comp.map (·.1)).Nodup ∧ (∀ p ∈ comp, p.2.length = n) ∧ (∀ p ∈ comp, ∀ f ∈ p.2, 0 ≤ f)
      ∧ ∀ j, j < n → (init.getD j 0 ≠ 0 → Mix.colSum comp j = 1)
          ∧ (init.getD j 0 = 0 → Mix.colSum comp j = 0) := by
  refine ⟨H.nodup, H.lens, ?_, ?_⟩
  · intro p hp f hf
    obtain ⟨k, arr⟩ := p
    obtain ⟨j, hj, rfl⟩ := List.getElem_of_mem hf
    have hjn : j < n := by rw [← H.lens (k, arr) hp]; exact hj
    have hfr : Mix.fracC comp j k = arr[j] := by
      rw [fracC_of_mem comp j k arr H.nodup hp, List.getD_eq_getElem?_getD, List.getElem?_eq_getElem hj]
      rfl
    rw [← hfr]
    by_cases h0 : init.getD j 0 = 0
    · rw [H.zero j hjn h0 k]
    · obtain ⟨k0, h1, hothers⟩ := H.one j hjn h0
      by_cases hk : k = k0
      · subst hk; rw [h1]; norm_num
      · rw [hothers k hk]
  · intro j hj
    rw [colSum_eq_sum_fracC comp j H.nodup]
    constructor
    · intro h0
      obtain ⟨k0, h1, hothers⟩ := H.one j hj h0
      have hk0 : k0 ∈ comp.map (·.1) := by
        by_contra hnot
        rw [Mix.fracC_eq_zero comp j k0 hnot] at h1
        norm_num at h1
      have : (comp.map (·.1)).map (Mix.fracC comp j)
          = (comp.map (·.1)).map (fun k => if k0 = k then (1 : Rat) else 0) := by
        apply List.map_congr_left
        intro k _
        by_cases hk : k0 = k
        · subst hk; rw [h1, if_pos rfl]
        · rw [if_neg hk, hothers k (fun e => hk e.symm)]
      rw [this, Mix.sum_ite_nodup _ k0 1 H.nodup hk0]
    · intro h0
      apply List.sum_eq_zero
      intro y hy
      simp only [List.mem_map] at hy
      obtain ⟨k, _, rfl⟩ := hy
      exact H.zero j hj h0 k

theorem realWells_length (g : Geom) (h : ∀ v, g.vrows = some v → g.rows = 1) (hr : g.rows ≤ 26) :
    (realWellsOf g).length = g.rows * g.cols := by
  unfold realWellsOf
  cases hv : g.vrows with
  | none => simp [Geom.wells_length, Geom.nRowIds, hv]; exact Or.inl hr
  | some v => simp [h v hv]

/-- **Constructed labware is good.** -/
theorem mk_good (s : PlateSpec) (L : Labware) (h : Labware.mk? s = .ok L) :
    C02.LabValid L ∧ CompValid L ∧ Mixed L := by
  have hv := C02.mk_valid s L h
  have hinv := Labware.mk?_inv h
  have hlen : L.vols.length = L.geom.rows * L.geom.cols := by
    rw [hinv.vols_eq, List.length_map, hinv.flat_len]
  have hrw : (realWellsOf L.geom).length = L.vols.length := by
    rw [hlen]
    apply realWells_length _ _ hinv.rows_le
    intro v hvr
    cases hs : s.vrows with
    | none => rw [hinv.vrows_none hs] at hvr; cases hvr
    | some sv => exact (hinv.vrows_some sv hs).1
  have H := initialComposition_spec _ _ _ _ _ _ hinv.comp_eq
  rw [hrw] at H
  obtain ⟨hnd, hlens, hnn, hcols⟩ := goInv_good _ _ _ H
  refine ⟨hv, ⟨hnd, hlens, hnn⟩, ?_⟩
  intro j hj
  rw [fracSum_eq]
  by_cases h0 : L.vols.getD j 0 = 0
  · exact Or.inr ⟨(hcols j hj).2 h0, h0⟩
  · exact Or.inl ((hcols j hj).1 h0)

theorem trough_mk_good (s : TroughSpec) (L : Labware) (h : Trough.mk? s = .ok L) :
    C02.LabValid L ∧ CompValid L ∧ Mixed L := by
  obtain ⟨p, -, -, hp⟩ := Trough.mk?_inv h
  exact mk_good p L hp

end CtorGood
end Robotools
