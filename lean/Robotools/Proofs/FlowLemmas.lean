/-
  Helper lemmas about `groupPlan` / `transferPlan` (used by C07): flows per (source, destination)
  pair, block structure of the plan, membership of pairs.
-/
import Robotools.Model.Plan
import Robotools.Model.Records
import Robotools.Props.C06
import Robotools.Props.C18
import Mathlib.Algebra.BigOperators.Group.List.Basic
namespace Robotools

/-! ### Generic list-sum facts -/

theorem sum_map_zero {α : Type} (l : List α) : (l.map fun _ => (0 : Rat)).sum = 0 := by
  induction l with
  | nil => rfl
  | cons x xs ih => simp

theorem sum_swap {α β : Type} (l : List α) (r : List β) (f : α → β → Rat) :
    (l.map fun a => (r.map fun b => f a b).sum).sum
      = (r.map fun b => (l.map fun a => f a b).sum).sum := by
  induction r with
  | nil => simp
  | cons b bs ih => simp [List.sum_map_add, ih]

/-- Summing `k vs[p]?` over `p < n` visits every element of `vs` once when `vs.length ≤ n`. -/
theorem sum_range_getElem? (k : Option Rat → Rat) (hk : k none = 0) (vs : List Rat) (n : Nat)
    (h : vs.length ≤ n) :
    ((List.range n).map fun p => k vs[p]?).sum = (vs.map fun v => k (some v)).sum := by
  induction vs generalizing n with
  | nil => simp [hk]
  | cons x xs ih =>
    cases n with
    | zero => simp at h
    | succ m =>
      rw [List.range_succ_eq_map]
      simp only [List.map_cons, List.map_map, List.sum_cons, List.getElem?_cons_zero]
      congr 1
      have := ih m (by simpa using h)
      simpa [Function.comp_def] using this

/-! ### `maxLen` -/

theorem foldl_max_ge (ls : List (List Rat)) (acc : Nat) :
    acc ≤ ls.foldl (fun m l => max m l.length) acc
    ∧ ∀ l ∈ ls, l.length ≤ ls.foldl (fun m l => max m l.length) acc := by
  induction ls generalizing acc with
  | nil => simp
  | cons x xs ih =>
    simp only [List.foldl_cons, List.mem_cons, forall_eq_or_imp]
    have h := ih (max acc x.length)
    refine ⟨by omega, by omega, h.2⟩

theorem length_le_maxLen {ls : List (List Rat)} {l : List Rat} (h : l ∈ ls) :
    l.length ≤ maxLen ls := (foldl_max_ge ls 0).2 l h

/-! ### Flows -/

/-- Contribution of one plan step to the flow from `s` to `d`. -/
def stepFlow (s d : String) : PlanStep → Rat
  | .pair s' d' v => if s' = s ∧ d' = d then v else 0
  | _ => 0

def flowOf (s d : String) (plan : List PlanStep) : Rat := (plan.map (stepFlow s d)).sum

theorem flowOf_nil (s d : String) : flowOf s d [] = 0 := rfl

theorem flowOf_append (s d : String) (a b : List PlanStep) :
    flowOf s d (a ++ b) = flowOf s d a + flowOf s d b := by
  simp [flowOf]

theorem flowOf_flatMap {α : Type} (s d : String) (l : List α) (f : α → List PlanStep) :
    flowOf s d (l.flatMap f) = (l.map fun a => flowOf s d (f a)).sum := by
  induction l with
  | nil => simp [flowOf]
  | cons x xs ih => simp [List.flatMap_cons, flowOf_append, ih]

theorem flowOf_brk_opt (s d : String) (c : Prop) [Decidable c] :
    flowOf s d (if c then [PlanStep.brk] else []) = 0 := by
  split <;> simp [flowOf, stepFlow]

/-- Sum of the positive elements. -/
def posSum (vs : List Rat) : Rat := (vs.map fun v => if 0 < v then v else 0).sum

/-- Contribution of the triple `t` with volume list `vs` to round `p`. -/
def roundContrib (s d : String) (p : Nat) (z : Triple × List Rat) : Rat :=
  match z.2[p]? with
  | some v => if 0 < v then (if z.1.src = s ∧ z.1.dst = d then v else 0) else 0
  | none => 0

theorem flowOf_round (s d : String) (g : List Triple) (vls : List (List Rat)) (p : Nat) :
    ((roundPairs g vls p).map fun a => flowOf s d [PlanStep.pair a.1 a.2.1 a.2.2, PlanStep.action]).sum
      = ((g.zip vls).map (roundContrib s d p)).sum := by
  unfold roundPairs
  induction g.zip vls with
  | nil => simp
  | cons z zs ih =>
    obtain ⟨t, vs⟩ := z
    rw [List.filterMap_cons, List.map_cons, List.sum_cons, ← ih]
    simp only [roundContrib]
    cases hv : vs[p]? with
    | none => simp
    | some v =>
      simp only
      by_cases hpos : 0 < v
      · simp [hpos, flowOf, stepFlow]
      · simp [hpos]

theorem flowOf_groupPlan (s d : String) (g : List Triple) (vls : List (List Rat)) :
    flowOf s d (groupPlan g vls)
      = ((g.zip vls).map fun z => ((List.range (maxLen vls)).map fun p => roundContrib s d p z).sum).sum := by
  unfold groupPlan
  simp only [flowOf_append, flowOf_flatMap, flowOf_brk_opt, flowOf_round, add_zero]
  exact sum_swap _ _ _

theorem sum_roundContrib (s d : String) (z : Triple × List Rat) (n : Nat) (h : z.2.length ≤ n) :
    ((List.range n).map fun p => roundContrib s d p z).sum
      = if z.1.src = s ∧ z.1.dst = d then posSum z.2 else 0 := by
  have := sum_range_getElem?
    (fun o => match o with
      | some v => if 0 < v then (if z.1.src = s ∧ z.1.dst = d then v else 0) else 0
      | none => 0) rfl z.2 n h
  unfold roundContrib
  rw [this]
  by_cases hc : z.1.src = s ∧ z.1.dst = d
  · simp only [hc, and_self, if_true, posSum]
  · simp only [hc, if_false, ite_self]
    exact sum_map_zero _

theorem zip_map_self {α β : Type} (g : List α) (f : α → β) :
    g.zip (g.map f) = g.map fun t => (t, f t) := by
  induction g with
  | nil => rfl
  | cons x xs ih => simp [ih]

/-- Flow of one column group whose volume lists are given triple-wise by `f`. -/
theorem flowOf_groupPlan_map (s d : String) (g : List Triple) (f : Triple → List Rat) :
    flowOf s d (groupPlan g (g.map f))
      = (g.map fun t => if t.src = s ∧ t.dst = d then posSum (f t) else 0).sum := by
  rw [flowOf_groupPlan, zip_map_self, List.map_map]
  congr 1
  apply List.map_congr_left
  intro t ht
  simp only [Function.comp]
  have hlen : (f t).length ≤ maxLen (g.map f) := length_le_maxLen (List.mem_map_of_mem ht)
  rw [sum_roundContrib s d (t, f t) _ hlen]

/-- Requested volume from `s` to `d`. -/
def reqOf (s d : String) (ts : List Triple) : Rat :=
  (ts.map fun t => if t.src = s ∧ t.dst = d then t.vol else 0).sum

theorem reqOf_perm (s d : String) {ts ts' : List Triple} (h : ts.Perm ts') :
    reqOf s d ts = reqOf s d ts' := by
  unfold reqOf
  exact (h.map _).sum_eq

theorem reqOf_flatten (s d : String) (gs : List (List Triple)) :
    reqOf s d gs.flatten = (gs.map (reqOf s d)).sum := by
  induction gs with
  | nil => rfl
  | cons g gs ih =>
    rw [List.flatten_cons, List.map_cons, List.sum_cons, ← ih]
    simp [reqOf]

theorem posSum_partition (v M : Rat) (hM : 0 < M) (hv : 0 ≤ v) : posSum (partitionVolume v M) = v := by
  rcases eq_or_lt_of_le hv with h | h
  · rw [← h, C06.partition_zero]; rfl
  · obtain ⟨hsum, hpos, _⟩ := C06.partition_spec v M hM h
    unfold posSum
    rw [List.map_congr_left (g := id) (fun x hx => by simp [(hpos x hx).1])]
    simpa using hsum

theorem posSum_single (v : Rat) (hv : 0 ≤ v) : posSum [v] = v := by
  unfold posSum
  rcases eq_or_lt_of_le hv with h | h
  · simp [← h]
  · simp [h]

/-- The flow theorem in terms of `flowOf` / `reqOf`. -/
theorem flowOf_transferPlan (autoSplit : Bool) (M : Rat) (byDest : Bool) (ts : List Triple)
    (hM : autoSplit = true → 0 < M) (hnn : ∀ t ∈ ts, 0 ≤ t.vol) (s d : String) :
    flowOf s d (transferPlan autoSplit M byDest ts) = reqOf s d ts := by
  unfold transferPlan
  rw [flowOf_flatMap, ← reqOf_perm s d (C18.perm ts byDest), reqOf_flatten]
  congr 1
  apply List.map_congr_left
  intro g hg
  unfold volLists
  rw [flowOf_groupPlan_map]
  unfold reqOf
  congr 1
  apply List.map_congr_left
  intro t ht
  have htts : t ∈ ts := (C18.perm ts byDest).mem_iff.mp (List.mem_flatten.mpr ⟨g, hg, ht⟩)
  have h0 := hnn t htts
  cases autoSplit with
  | true => simp only [if_true]; rw [posSum_partition _ _ (hM rfl) h0]
  | false => simp only [Bool.false_eq_true, if_false]; rw [posSum_single _ h0]

/-! ### Block structure -/

/-- A plan built from blocks `[pair, action]` and `[brk]`. -/
inductive Blocks : List PlanStep → Prop where
  | nil : Blocks []
  | pa (s d : String) (v : Rat) {l : List PlanStep} : Blocks l → Blocks (.pair s d v :: .action :: l)
  | brk {l : List PlanStep} : Blocks l → Blocks (.brk :: l)

theorem Blocks.append {a b : List PlanStep} (ha : Blocks a) (hb : Blocks b) : Blocks (a ++ b) := by
  induction ha with
  | nil => simpa
  | pa s d v _ ih => exact Blocks.pa s d v ih
  | brk _ ih => exact Blocks.brk ih

theorem Blocks.flatMap {α : Type} (l : List α) (f : α → List PlanStep) (h : ∀ a ∈ l, Blocks (f a)) :
    Blocks (l.flatMap f) := by
  induction l with
  | nil => exact Blocks.nil
  | cons x xs ih =>
    rw [List.flatMap_cons]
    exact (h x List.mem_cons_self).append (ih fun a ha => h a (List.mem_cons_of_mem _ ha))

theorem Blocks.brk_opt (c : Prop) [Decidable c] : Blocks (if c then [PlanStep.brk] else []) := by
  split
  · exact Blocks.brk Blocks.nil
  · exact Blocks.nil

theorem blocks_groupPlan (g : List Triple) (vls : List (List Rat)) : Blocks (groupPlan g vls) := by
  unfold groupPlan
  refine Blocks.append (Blocks.flatMap _ _ fun p _ => Blocks.append (Blocks.flatMap _ _ ?_) (Blocks.brk_opt _))
    (Blocks.brk_opt _)
  rintro ⟨s, d, v⟩ _
  exact Blocks.pa s d v Blocks.nil

theorem blocks_transferPlan (autoSplit : Bool) (M : Rat) (byDest : Bool) (ts : List Triple) :
    Blocks (transferPlan autoSplit M byDest ts) :=
  Blocks.flatMap _ _ fun g _ => blocks_groupPlan g _

theorem Blocks.discipline {plan : List PlanStep} (h : Blocks plan) (i : Nat) :
    (∀ s d v, plan[i]? = some (.pair s d v) → plan[i + 1]? = some .action)
    ∧ (plan[i + 1]? = some .action → ∃ s d v, plan[i]? = some (.pair s d v))
    ∧ plan[0]? ≠ some .action := by
  induction h generalizing i with
  | nil => simp
  | pa s d v _ ih =>
    match i with
    | 0 => simp
    | 1 =>
      have := (ih 0).2.2
      simpa using this
    | j + 2 =>
      obtain ⟨h1, h2, _⟩ := ih j
      exact ⟨by simpa using h1, by simpa using h2, by simp⟩
  | brk _ ih =>
    match i with
    | 0 =>
      have := (ih 0).2.2
      simpa using this
    | j + 1 =>
      obtain ⟨h1, h2, _⟩ := ih j
      exact ⟨by simpa using h1, by simpa using h2, by simp⟩

/-! ### Membership of pairs -/

theorem mem_groupPlan_pair {g : List Triple} {vls : List (List Rat)} {s d : String} {v : Rat}
    (h : PlanStep.pair s d v ∈ groupPlan g vls) :
    ∃ t vs, (t, vs) ∈ g.zip vls ∧ v ∈ vs ∧ 0 < v ∧ t.src = s ∧ t.dst = d := by
  unfold groupPlan at h
  simp only [List.mem_append, List.mem_flatMap] at h
  rcases h with ⟨p, _, h | h⟩ | h
  · obtain ⟨⟨s', d', v'⟩, hmem, hin⟩ := h
    simp only [List.mem_cons, PlanStep.pair.injEq, List.mem_nil_iff, or_false, reduceCtorEq] at hin
    obtain ⟨rfl, rfl, rfl⟩ := hin
    unfold roundPairs at hmem
    rw [List.mem_filterMap] at hmem
    obtain ⟨⟨t, vs⟩, hz, hsome⟩ := hmem
    simp only at hsome
    cases hv : vs[p]? with
    | none => simp [hv] at hsome
    | some w =>
      simp only [hv] at hsome
      split at hsome
      · next hpos =>
        simp only [Option.some.injEq, Prod.mk.injEq] at hsome
        obtain ⟨h1, h2, rfl⟩ := hsome
        exact ⟨t, vs, hz, List.mem_of_getElem? hv, hpos, h1, h2⟩
      · simp at hsome
  · split at h <;> simp at h
  · split at h <;> simp at h

theorem pair_bounds_transferPlan (M : Rat) (byDest : Bool) (ts : List Triple) (hM : 0 < M)
    (s d : String) (v : Rat) (h : PlanStep.pair s d v ∈ transferPlan true M byDest ts) :
    0 < v ∧ v ≤ M := by
  unfold transferPlan at h
  rw [List.mem_flatMap] at h
  obtain ⟨g, _, hg⟩ := h
  obtain ⟨t, vs, hz, hv, hpos, _, _⟩ := mem_groupPlan_pair hg
  unfold volLists at hz
  rw [zip_map_self, List.mem_map] at hz
  obtain ⟨t', _, heq⟩ := hz
  simp only [if_true, Prod.mk.injEq] at heq
  obtain ⟨rfl, rfl⟩ := heq
  rcases lt_trichotomy t'.vol 0 with hneg | hzero | hp
  · have : partitionVolume t'.vol M = [t'.vol] := by
      unfold partitionVolume
      rw [if_neg (ne_of_lt hneg), if_pos (lt_trans hneg hM)]
    rw [this, List.mem_singleton] at hv
    subst hv
    exact absurd hpos (not_lt.mpr (le_of_lt hneg))
  · rw [hzero, C06.partition_zero] at hv
    simp at hv
  · exact (C06.partition_spec t'.vol M hM hp).2.1 v hv

/-! ### `prepareAD` -/

/-- A successfully prepared record carries the volume, liquid class and tip mask of its arguments. -/
theorem prepareAD_ok (a : ADArgs) (M : Option Rat) (f : ADFields) (h : prepareAD a M = .ok f) :
    f.vol = a.vol ∧ f.liquidClass = a.liquidClass ∧ tipMask a.tip = .ok f.tip := by
  simp only [prepareAD, bind, Except.bind, pure, Except.pure, throw, throwThe, MonadExceptOf.throw] at h
  repeat' split at h
  all_goals first
    | (injection h with h; subst h; refine ⟨rfl, rfl, ?_⟩; assumption)
    | (injection h)

end Robotools
