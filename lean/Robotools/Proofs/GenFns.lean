/-
  Robotools.Proofs.GenFns — obligations of the function translator (harness/translate_fns.py):
  the definition re-translated from /repo's source on every run equals the hand-written model function
  the property theorems are about, on the domain the theorems cover.
-/
import Robotools.Generated.Fns
import Robotools.Model.Plan
import Mathlib.Tactic.Ring
import Mathlib.Tactic.Linarith
import Mathlib.Algebra.Order.Field.Rat
import Mathlib.Data.Rat.Floor
namespace Robotools.GenFns
open Robotools

theorem sum_replicate (k : Nat) (s : Rat) : (List.replicate k s).sum = (k : Rat) * s := by
  induction k with
  | zero => simp
  | succ k ih => rw [List.replicate_succ, List.sum_cons, ih]; push_cast; ring

theorem translated : Generated.partition_volume_translated = true := by decide

/-- `partition_volume` as it stands in /repo's source (translated statement by statement) is the
    model's `partitionVolume` for every non-negative volume and positive `max_volume` — the domain of
    C06's `partition_spec`. -/
theorem gen_partition_volume_ok (v M : Rat) (hM : 0 < M) (hv : 0 ≤ v) :
    Generated.partition_volume v M = partitionVolume v M := by
  unfold Generated.partition_volume partitionVolume
  by_cases h0 : v = 0
  · simp [h0]
  · rw [if_neg h0, if_neg h0]
    by_cases h1 : v < M
    · simp [h1]
    · rw [if_neg h1, if_neg h1]
      have hq : 1 ≤ v / M := by
        rw [le_div_iff₀ hM]; linarith [not_lt.mp h1]
      have hc : (1 : Int) ≤ (v / M).ceil := by
        by_contra hcon
        have h' : (v / M).ceil ≤ 0 := by omega
        have : ((v / M).ceil : Rat) ≤ 0 := by exact_mod_cast h'
        linarith [Rat.le_ceil (x := v / M)]
      have hn : (((v / M).ceil.toNat : Nat) : Rat) = (((v / M).ceil : Int) : Rat) := by
        have : (((v / M).ceil.toNat : Nat) : Int) = (v / M).ceil := Int.toNat_of_nonneg (by omega)
        exact_mod_cast this
      have hfloor : (Rat.floor ((((v / M).ceil : Int) : Rat) - 1)).toNat = (v / M).ceil.toNat - 1 := by
        have : ((((v / M).ceil : Int) : Rat) - 1) = (((v / M).ceil - 1 : Int) : Rat) := by push_cast; ring
        rw [this, Rat.floor_intCast]
        omega
      simp only [hn, hfloor, gt_iff_lt, sum_replicate]

end Robotools.GenFns
