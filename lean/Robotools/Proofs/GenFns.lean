/-
  Robotools.Proofs.GenFns — obligations of the function translator (harness/translate_fns.py):
  the definition re-translated from /repo's source on every run equals the hand-written model function
  the property theorems are about, on the domain the theorems cover.
-/
import Robotools.Generated.Fns
import Robotools.Model.Plan
import Robotools.Model.Labware
import Robotools.Proofs.ExecLemmas
import Mathlib.Tactic.Ring
import Mathlib.Tactic.Linarith
import Mathlib.Algebra.Order.Field.Rat
import Mathlib.Data.Rat.Floor
namespace Robotools.GenFns
open Robotools

theorem sum_replicate (k : Nat) (s : Rat) : (List.replicate k s).sum = (k : Rat) * s := by
  induction k with
  | zero => simp
  | succ k ih => rw [List.replicate_succ, List.sum_cons, ih]; push_cast; ring

theorem translated : Generated.partition_volume_translated = true := by decide

/-- Every target of the function translator was translatable in this build (a source form outside the
    translator's fragment makes this obligation — not only the equalities below — fail). -/
theorem all_translated :
    Generated.partition_volume_translated = true ∧ Generated.labware_add_step_translated = true
    ∧ Generated.labware_remove_step_translated = true ∧ Generated.combine_composition_translated = true
    ∧ Generated.optimize_partition_by_translated = true ∧ Generated.get_trough_wells_translated = true := by
  decide

/-- `partition_volume` as it stands in /repo's source (translated statement by statement) is the
    model's `partitionVolume` for every non-negative volume and positive `max_volume` — the domain of
    C06's `partition_spec`. -/
theorem gen_partition_volume_ok (v M : Rat) (hM : 0 < M) (hv : 0 ≤ v) :
    Generated.partition_volume v M = partitionVolume v M := by
  unfold Generated.partition_volume partitionVolume
  by_cases h0 : v = 0
  · simp [h0]
  · rw [if_neg h0, if_neg h0]
    by_cases h1 : v < M
    · simp [h1]
    · rw [if_neg h1, if_neg h1]
      have hq : 1 ≤ v / M := by
        rw [le_div_iff₀ hM]; linarith [not_lt.mp h1]
      have hc : (1 : Int) ≤ (v / M).ceil := by
        by_contra hcon
        have h' : (v / M).ceil ≤ 0 := by omega
        have : ((v / M).ceil : Rat) ≤ 0 := by exact_mod_cast h'
        linarith [Rat.le_ceil (x := v / M)]
      have hn : (((v / M).ceil.toNat : Nat) : Rat) = (((v / M).ceil : Int) : Rat) := by
        have : (((v / M).ceil.toNat : Nat) : Int) = (v / M).ceil := Int.toNat_of_nonneg (by omega)
        exact_mod_cast this
      have hfloor : (Rat.floor ((((v / M).ceil : Int) : Rat) - 1)).toNat = (v / M).ceil.toNat - 1 := by
        have : ((((v / M).ceil : Int) : Rat) - 1) = (((v / M).ceil - 1 : Int) : Rat) := by push_cast; ring
        rw [this, Rat.floor_intCast]
        omega
      simp only [hn, hfloor, gt_iff_lt, sum_replicate]

/-! ### The volume guards of `Labware.add` / `Labware.remove` (C02) -/

/-- The per-well step of `Labware.add` as it stands in the source: refused exactly when the new volume exceeds
    `max_volume`, otherwise the well holds `cur + volume`. -/
theorem gen_add_step_spec (cur v M : Rat) :
    Generated.labware_add_step cur v M
      = if M < cur + v then .error "VolumeOverflowError" else .ok (cur + v) := by
  unfold Generated.labware_add_step
  simp only [gt_iff_lt]

theorem gen_remove_step_spec (cur v m : Rat) :
    Generated.labware_remove_step cur v m
      = if cur - v < m then .error "VolumeUnderflowError" else .ok (cur - v) := by
  unfold Generated.labware_remove_step
  rfl

/-- The model's `addStep` accepts / refuses exactly as the translated source step does, and writes the same volume. -/
theorem gen_addStep_ok (L : Labware) (i : Nat) (v : Rat) (c : Option Comp) :
    (∀ L', L.addStep i v c = .ok L' →
        Generated.labware_add_step (L.vol i) v L.maxV = .ok (L.vol i + v)
          ∧ L'.vols = L.vols.set i (L.vol i + v))
    ∧ (∀ e, L.addStep i v c = .error e →
        e = .overflow ∧ Generated.labware_add_step (L.vol i) v L.maxV = .error "VolumeOverflowError") := by
  rw [gen_add_step_spec]
  constructor
  · intro L' h
    obtain ⟨hge, hvols, _⟩ := Labware.addStep_fields h
    exact ⟨by rw [if_neg hge], hvols⟩
  · intro e h
    obtain ⟨he, hlt⟩ := Labware.addStep_error h
    exact ⟨he, by rw [if_pos hlt]⟩

theorem gen_removeStep_ok (L : Labware) (i : Nat) (v : Rat) :
    (∀ L', L.removeStep i v = .ok L' →
        Generated.labware_remove_step (L.vol i) v L.minV = .ok (L.vol i - v)
          ∧ L'.vols = L.vols.set i (L.vol i - v))
    ∧ (∀ e, L.removeStep i v = .error e →
        e = .underflow ∧ Generated.labware_remove_step (L.vol i) v L.minV = .error "VolumeUnderflowError") := by
  rw [gen_remove_step_spec]
  constructor
  · intro L' h
    obtain ⟨hge, hvols, _⟩ := Labware.removeStep_fields h
    exact ⟨by rw [if_neg hge], hvols⟩
  · intro e h
    obtain ⟨he, hlt⟩ := Labware.removeStep_error h
    exact ⟨he, by rw [if_pos hlt]⟩

/-! ### `combine_composition` (C05) -/

theorem dset_of_has (d : Py.Dict) (k : String) (x : Rat) (h : Py.dhas d k = true) :
    Py.dset d k (Py.dget d k + x) = Labware.upsertAdd d k x := by
  induction d with
  | nil => simp [Py.dhas] at h
  | cons p rest ih =>
    obtain ⟨a, y⟩ := p
    by_cases hak : a = k
    · subst hak
      simp [Py.dset, Py.dget, Labware.upsertAdd, List.lookup]
    · have hk : (k == a) = false := by simpa using fun e => hak e.symm
      have ha : (a == k) = false := by simpa using hak
      have hrest : Py.dhas rest k = true := by
        simpa [Py.dhas, List.any_cons, ha] using h
      have hget : Py.dget ((a, y) :: rest) k = Py.dget rest k := by
        simp [Py.dget, List.lookup, hk]
      rw [hget]
      simp only [Py.dset, if_neg hak, Labware.upsertAdd]
      rw [ih hrest]

theorem dset_of_not_has (d : Py.Dict) (k : String) (x : Rat) (h : Py.dhas d k = false) :
    Py.dset (Py.dset d k 0) k (Py.dget (Py.dset d k 0) k + x) = Labware.upsertAdd d k x := by
  induction d with
  | nil => simp [Py.dset, Py.dget, Labware.upsertAdd, List.lookup]
  | cons p rest ih =>
    obtain ⟨a, y⟩ := p
    have hak : ¬ a = k := by
      intro e; subst e; simp [Py.dhas] at h
    have hk : (k == a) = false := by simpa using fun e => hak e.symm
    have ha : (a == k) = false := by simpa using hak
    have hrest : Py.dhas rest k = false := by
      simpa [Py.dhas, List.any_cons, ha] using h
    have hget : Py.dget ((a, y) :: Py.dset rest k 0) k = Py.dget (Py.dset rest k 0) k := by
      simp [Py.dget, List.lookup, hk]
    simp only [Py.dset, if_neg hak, Labware.upsertAdd]
    rw [hget, ih hrest]

theorem dset_upsert (d : Py.Dict) (k : String) (x : Rat) :
    (let d1 := if ¬ (Py.dhas d k = true) then Py.dset d k 0 else d
     Py.dset d1 k (Py.dget d1 k + x)) = Labware.upsertAdd d k x := by
  cases h : Py.dhas d k with
  | true => simp only [not_true_eq_false, if_false]; exact dset_of_has d k x h
  | false => simp only [Bool.false_eq_true, not_false_eq_true, if_true]; exact dset_of_not_has d k x h

/-- `combine_composition` as it stands in the source (dicts read as insertion-ordered association lists) is the
    model's `Labware.combine` — the function C05's mixing theorems are about. -/
theorem gen_combine_composition_ok (vA : Rat) (cA : Comp) (vB : Rat) (cB : Comp) :
    Generated.combine_composition vA cA vB cB = Labware.combine vA cA vB cB := by
  unfold Generated.combine_composition Labware.combine
  split
  · rfl
  · simp only
    congr 1
    generalize (List.map (fun p : String × Rat => (p.1, p.2 * vA)) cA) = vf0
    induction cB generalizing vf0 with
    | nil => rfl
    | cons q rest ih =>
      obtain ⟨k, f⟩ := q
      simp only [List.foldl_cons]
      rw [← ih]
      congr 1
      exact dset_upsert vf0 k (f * vB)

/-! ### `optimize_partition_by` (C18) -/

theorem gen_optimize_partition_by_ok (st dt : Bool) (mode : String) :
    Generated.optimize_partition_by st dt mode
      = match optimizePartitionBy st dt mode with
        | none => .error "ValueError"
        | some true => .ok "destination"
        | some false => .ok "source" := by
  unfold Generated.optimize_partition_by optimizePartitionBy
  by_cases h1 : mode = "auto"
  · subst h1
    cases st <;> cases dt <;> simp
  · by_cases h2 : mode = "source"
    · subst h2; simp
    · by_cases h3 : mode = "destination"
      · subst h3; simp
      · simp [h1, h2, h3]

/-! ### `get_trough_wells` (C19) -/

theorem gen_get_trough_wells_ok (n : Nat) (ws : List String) :
    Generated.get_trough_wells (n : Int) ws
      = match getTroughWells n ws with
        | none => .error "ValueError"
        | some l => .ok l := by
  unfold Generated.get_trough_wells getTroughWells
  have hn : ¬ ((n : Int) < 0) := by omega
  rw [if_neg hn]
  cases ws with
  | nil => simp
  | cons w rest =>
    have hlen : ((List.length (w :: rest) : Nat) : Int) ≠ 0 := by simp; omega
    simp only [hlen, if_false, List.isEmpty_cons, Bool.false_eq_true]
    rw [Int.fdiv_eq_ediv_of_nonneg _ (by omega)]
    simp only [Py.repeat, Int.toNat_natCast]
    have key : ∀ m : Nat, ((n : Int) / (m : Int) + 1).toNat = n / m + 1 := by
      intro m
      have h : (n : Int) / (m : Int) = ((n / m : Nat) : Int) := by norm_cast
      rw [h]
      have : (((n / m : Nat) : Int) + 1) = (((n / m + 1 : Nat)) : Int) := by push_cast; ring
      rw [this, Int.toNat_natCast]
    rw [key]

theorem gen_get_trough_wells_neg (n : Int) (ws : List String) (h : n < 0) :
    Generated.get_trough_wells n ws = .error "ValueError" := by
  unfold Generated.get_trough_wells
  rw [if_pos h]

end Robotools.GenFns
