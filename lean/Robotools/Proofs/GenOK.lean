/-
  Robotools.Proofs.GenOK — one obligation per extracted table / limit / template:
  what /repo's sources say now (`Generated`) equals what the theorems are about (`Spec`).
-/
import Robotools.Generated.Consts
import Robotools.Spec.Consts
namespace Robotools.GenOK

theorem gen_tipTable_ok : Generated.tipTable = Spec.tipTable := by decide
theorem gen_tipEnum_ok : Generated.tipEnum = Spec.tipEnum := by decide
theorem gen_maxRecordVolume_ok : Generated.maxRecordVolume = Spec.maxRecordVolume := by decide
theorem gen_maxTextLen_ok : Generated.maxTextLen = Spec.maxTextLen := by decide
theorem gen_volumeFormat_ok : Generated.volumeFormat = Spec.volumeFormat := by decide
theorem gen_tipAggregation_ok : Generated.tipAggregation = Spec.tipAggregation := by decide
theorem gen_washSchemes_ok : Generated.washSchemes = Spec.washSchemes := by decide
theorem gen_rowLettersLabware_ok : Generated.rowLettersLabware = Spec.rowLettersLabware := by decide
theorem gen_rowLettersTransform_ok : Generated.rowLettersTransform = Spec.rowLettersTransform := by decide
theorem gen_wellIdFormats_ok : Generated.wellIdFormats = Spec.wellIdFormats := by decide
theorem gen_hexDigits_ok : Generated.hexDigits = Spec.hexDigits := by decide
theorem gen_maxGrid_ok : Generated.maxGrid = Spec.maxGrid := by decide
theorem gen_maxSite_ok : Generated.maxSite = Spec.maxSite := by decide
theorem gen_maxDilutorVolume_ok : Generated.maxDilutorVolume = Spec.maxDilutorVolume := by decide
theorem gen_selBits_ok : Generated.selBits = Spec.selBits := by decide
theorem gen_selOffset_ok : Generated.selOffset = Spec.selOffset := by decide
theorem gen_selectionHeader_ok : Generated.selectionHeader = Spec.selectionHeader := by decide
theorem gen_tipSlots_ok : Generated.tipSlots = Spec.tipSlots := by decide
theorem gen_saveJoiner_ok : Generated.saveJoiner = Spec.saveJoiner := by decide
theorem gen_saveOpen_ok : Generated.saveOpen = Spec.saveOpen := by decide
theorem gen_templateA_ok : Generated.templateA = Spec.templateA := by decide
theorem gen_templateD_ok : Generated.templateD = Spec.templateD := by decide
theorem gen_templateR_ok : Generated.templateR = Spec.templateR := by decide
theorem gen_templateRsrc_ok : Generated.templateRsrc = Spec.templateRsrc := by decide
theorem gen_templateRdst_ok : Generated.templateRdst = Spec.templateRdst := by decide
theorem gen_templateComment_ok : Generated.templateComment = Spec.templateComment := by decide
theorem gen_templateWashDiti_ok : Generated.templateWashDiti = Spec.templateWashDiti := by decide
theorem gen_templateWash_ok : Generated.templateWash = Spec.templateWash := by decide
theorem gen_templateDecon_ok : Generated.templateDecon = Spec.templateDecon := by decide
theorem gen_templateFlush_ok : Generated.templateFlush = Spec.templateFlush := by decide
theorem gen_templateCommit_ok : Generated.templateCommit = Spec.templateCommit := by decide
theorem gen_templateSetDiti_ok : Generated.templateSetDiti = Spec.templateSetDiti := by decide
theorem gen_templateEvoAspirate_ok : Generated.templateEvoAspirate = Spec.templateEvoAspirate := by decide
theorem gen_templateEvoDispense_ok : Generated.templateEvoDispense = Spec.templateEvoDispense := by decide
theorem gen_templateEvoWash_ok : Generated.templateEvoWash = Spec.templateEvoWash := by decide
theorem gen_orderAspirate_ok : Generated.orderAspirate = Spec.orderAspirate := by decide
theorem gen_orderDispense_ok : Generated.orderDispense = Spec.orderDispense := by decide
theorem gen_orderDistribute_ok : Generated.orderDistribute = Spec.orderDistribute := by decide
theorem gen_orderEvoAspirate_ok : Generated.orderEvoAspirate = Spec.orderEvoAspirate := by decide
theorem gen_orderEvoDispense_ok : Generated.orderEvoDispense = Spec.orderEvoDispense := by decide

end Robotools.GenOK
