/-
  C04 — exact volume bookkeeping per real well, including trough aliasing.

  Volumes change only through the `rm` / `ad` micro-operations; the ledger theorem is stated for
  arbitrary micro-operation lists and then specialised to direct `add` / `remove` calls, whose
  compiled form pairs wells and volumes element-wise in column-major order.
-/
import Robotools.Props.C02
namespace Robotools.C04
open Robotools

/-- Signed volume that micro-operation `m` books on real well `i` of labware `l`. -/
def delta (l i : Nat) : Micro → Rat
  | .rm l' i' v => if l' = l ∧ i' = i then -v else 0
  | .ad l' i' v _ => if l' = l ∧ i' = i then v else 0
  | _ => 0

/-- Tracked volume of real well `i` of labware `l`. -/
def wvol (w : World) (l i : Nat) : Rat :=
  match w.labs[l]? with
  | some L => L.vol i
  | none => 0

/-- The micro-operations that were executed (accepted) before the first refusal. -/
def executed (w : World) : List Micro → List Micro
  | [] => []
  | m :: ms =>
    match w.micro m with
    | .ok w' => m :: executed w' ms
    | .error _ => []

/-- `rm`/`ad` micro-operations address existing wells. -/
def InRange (w : World) : Micro → Prop
  | .rm l i _ => ∃ L, w.labs[l]? = some L ∧ i < L.vols.length
  | .ad l i _ _ => ∃ L, w.labs[l]? = some L ∧ i < L.vols.length
  | _ => True

/-- Shapes (number of labware, number of wells of each) never change. -/
theorem micro_shape (w w' : World) (m : Micro) (h : w.micro m = .ok w') :
    w'.labs.length = w.labs.length ∧ ∀ l : Nat, (w'.labs[l]?).map (fun (L : Labware) => L.vols.length) = (w.labs[l]?).map (fun (L : Labware) => L.vols.length) := by
  sorry

theorem executed_prefix (w : World) (ms : List Micro) : executed w ms <+: ms := by
  sorry

theorem executed_all_of_ok (w w' : World) (ms : List Micro) (h : w.exec ms = (w', none)) : executed w ms = ms := by
  sorry

/-- The ledger: each real well's volume equals its previous volume plus everything added to it
    minus everything removed from it by the executed steps — for accepted operations (all steps)
    and for rejected ones (the accepted prefix). -/
theorem exec_ledger (w : World) (ms : List Micro) (hr : ∀ m ∈ ms, InRange w m) (l i : Nat) :
    wvol (w.exec ms).1 l i = wvol w l i + ((executed w ms).map (delta l i)).sum := by
  sorry

/-- Frame: wells that no executed step addresses are unchanged. -/
theorem exec_frame (w : World) (ms : List Micro) (hr : ∀ m ∈ ms, InRange w m) (l i : Nat)
    (h : ∀ m ∈ ms, delta l i m = 0) : wvol (w.exec ms).1 l i = wvol w l i := by
  sorry

/-! ### Direct `add` / `remove` calls -/

/-- Wells and volumes of a call after flattening (column-major) and scalar broadcasting. -/
def callPairs (wells : Arr String) (vols : Arr Rat) : List (String × Rat) :=
  wells.flattenF.zip (broadcast1 vols.flattenF wells.flattenF.length)

/-- An accepted shape: as many volumes as wells (after broadcasting), none negative, every ID known. -/
theorem compileRemove_shape (L : Labware) (l : Nat) (wells : Arr String) (vols : Arr Rat) (label : Option String)
    (idx : List Nat)
    (hlen : (broadcast1 vols.flattenF wells.flattenF.length).length = wells.flattenF.length)
    (hnn : ∀ v ∈ broadcast1 vols.flattenF wells.flattenF.length, 0 ≤ v)
    (hres : wells.flattenF.map L.geom.resolveFlat = idx.map some) :
    compileRemove L l wells vols label
      = (idx.zip (broadcast1 vols.flattenF wells.flattenF.length)).map (fun (i, v) => Micro.rm l i v) ++ [.log l label] := by
  sorry

theorem compileAdd_shape (L : Labware) (l : Nat) (wells : Arr String) (vols : Arr Rat) (label : Option String)
    (idx : List Nat)
    (hlen : (broadcast1 vols.flattenF wells.flattenF.length).length = wells.flattenF.length)
    (hnn : ∀ v ∈ broadcast1 vols.flattenF wells.flattenF.length, 0 ≤ v)
    (hres : wells.flattenF.map L.geom.resolveFlat = idx.map some) :
    compileAdd L l wells vols label none
      = (idx.zip (broadcast1 vols.flattenF wells.flattenF.length)).map (fun (i, v) => Micro.ad l i v .none) ++ [.log l label] := by
  sorry

/-- Calls with incompatible lengths or a negative volume are rejected before any well is touched. -/
theorem compileAdd_rejects_shape (L : Labware) (l : Nat) (wells : Arr String) (vols : Arr Rat) (label : Option String)
    (comps : Option (List (Option Comp)))
    (h : (broadcast1 vols.flattenF wells.flattenF.length).length ≠ wells.flattenF.length
         ∨ ∃ v ∈ broadcast1 vols.flattenF wells.flattenF.length, v < 0) :
    compileAdd L l wells vols label comps = [.fail .reject] := by
  sorry

theorem compileRemove_rejects_shape (L : Labware) (l : Nat) (wells : Arr String) (vols : Arr Rat) (label : Option String)
    (h : (broadcast1 vols.flattenF wells.flattenF.length).length ≠ wells.flattenF.length
         ∨ ∃ v ∈ broadcast1 vols.flattenF wells.flattenF.length, v < 0) :
    compileRemove L l wells vols label = [.fail .reject] := by
  sorry

/-- A scalar volume applies to every addressed well. -/
theorem scalar_broadcast (v : Rat) (n : Nat) : broadcast1 (Arr.scalar v).flattenF n = List.replicate n v := by
  sorry

/-- 2-D arguments are read column-major: element (i, j) of an r×c array is the (j*r+i)-th. -/
theorem flattenF_mat_get {α : Type} (r c : Nat) (l : List α) (i j : Nat) (hl : l.length = r * c) (hi : i < r) (hj : j < c) :
    (Arr.mat r c l).flattenF[j * r + i]? = l[i * c + j]? := by
  sorry

theorem flattenF_mat_length {α : Type} (r c : Nat) (l : List α) (hl : l.length = r * c) :
    (Arr.mat r c l).flattenF.length = r * c := by
  sorry

/-- Wells and volumes given as arrays of the same shape are paired element-wise. -/
theorem flattenF_pairs {α β : Type} (r c : Nat) (ws : List α) (vs : List β) (hw : ws.length = r * c) (hv : vs.length = r * c) :
    (Arr.mat r c ws).flattenF.zip (Arr.mat r c vs).flattenF = (Arr.mat r c (ws.zip vs)).flattenF := by
  sorry

/-- In a trough every virtual-row ID of a column addresses the same single real well. -/
theorem trough_alias (V C vr c : Nat) (hV : V ≤ 26) (hvr : vr < V) (hc : c < C) :
    ({ rows := 1, cols := C, vrows := some V } : Geom).resolveFlat (wellId vr c) = some c := by
  sorry

/-- On a plate every ID addresses its own real well (row-major index). -/
theorem plate_index (R C r c : Nat) (hR : R ≤ 26) (hr : r < R) (hc : c < C) :
    ({ rows := R, cols := C, vrows := none } : Geom).resolveFlat (wellId r c) = some (r * C + c) := by
  sorry

/-- A well listed several times is charged once per occurrence: the booked total of a list of
    steps on well `i` is the sum over all occurrences. -/
theorem repeat_charged (l : Nat) (idx : List Nat) (vs : List Rat) (i : Nat) :
    (((idx.zip vs).map (fun (j, v) => Micro.ad l j v .none)).map (delta l i)).sum
      = ((idx.zip vs).map (fun (j, v) => if j = i then v else 0)).sum := by
  sorry

example : delta 0 3 (.rm 0 3 5) = -5 ∧ delta 0 3 (.ad 0 2 5 .none) = 0 := by decide +kernel

end Robotools.C04
